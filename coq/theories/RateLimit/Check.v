(** Correspondence for C17.  A case is one RingBufferRateLimiter driven through a sequence of
    operations by the Go harness; after every operation the harness snapshots ring, cursor and
    window (hook) and records the call / return instants.  [model_ok] replays the operations on
    the transition system of Model.v, using the stamps the implementation stored as the
    instants of the [Rec] steps, and compares every snapshot; [spec_ok] evaluates the statements
    of the theorems on the observations alone. *)
From Coq Require Import List ZArith Bool Lia.
From CM Require Import Lib.Str Lib.Wire RateLimit.Model.
Import ListNotations.
Open Scope Z_scope.

Record op := Op {
  tag : Z;            (* 0 Wait, 1 Allow, 2 Sleep, 3 SetMaxEvents, 4 SetWindow,
                         5 Wait with an already cancelled context, 6 Wait cancelled after a delay,
                         7 burst of concurrent Waits *)
  arg : Z;
  tc : Z;             (* instant just before the call *)
  te : Z;             (* instant just after the return *)
  res : Z;            (* 0/1: admitted (0,1,5,6) or panicked (3,4) *)
  extra : list Z;     (* 6: [instant of the cancellation]; 7: stamps stored during the burst, ascending *)
  ends : list Z;      (* 7: return instants of the waiters, ascending *)
  o_ring : list Z;    (* snapshot after the operation *)
  o_cursor : nat;
  o_window : Z
}.

Record tcase := Case { n0 : nat; w0 : Z; t_create : Z; ops : list op }.

Definition margin : Z := 5000000.          (* 5 ms: clock-reading slack around a threshold *)
Definition cancel_margin : Z := 25000000.  (* 25 ms: a waiter cancelled this long after a ticket was due should have got it *)
Definition late : Z := 3000000000.         (* 3 s: an admission later than this after its due time is a disagreement *)
Definition prompt : Z := 1500000000.       (* 1.5 s: bound on "returns promptly" *)

Definition zlist_eqb (a b : list Z) : bool :=
  (length a =? length b)%nat && forallb (fun p => fst p =? snd p) (combine a b).

Definition snap_eq (s : state) (o : op) : bool :=
  zlist_eqb (ring s) (o_ring o) && (cursor s =? o_cursor o)%nat && (window s =? o_window o).

(** * Replay on the model *)

Definition tick (s : state) (t : Z) : Z := Z.max t (now s).
Definition try_step (s : state) (l : label) : state := match step s l with Some s' => s' | None => s end.

(** the loop goroutine runs ahead on its own: Compute at once, TimerFire when due by [t] *)
Definition settle (s : state) (t : Z) : state :=
  let s1 := match ph s with Computing => try_step s (Compute (now s)) | _ => s end in
  match ph s1 with
  | Sleeping u => if u <=? t then try_step s1 (TimerFire (tick s1 u)) else s1
  | _ => s1
  end.

(** the instant from which a ticket is on offer (None: never) *)
Definition due (s : state) : option Z :=
  match ph s with
  | Sleeping u => Some u
  | Offering => Some (now s)
  | Computing => match ring s with [] => if window s =? 0 then Some (now s) else None
                              | _ => Some (nth (cursor s) (ring s) 0 + window s) end
  | _ => None
  end.

(** one admission whose stamp is [tr]: TimerFire (if still sleeping), Handover, Rec, Compute *)
Definition admit_one (s : state) (tr : Z) : option state :=
  let s1 := settle s tr in
  match ph s1 with
  | Offering =>
      match step s1 (Handover (tick s1 tr)) with
      | Some s2 => match step s2 (Rec (tick s2 tr)) with
                   | Some s3 => Some (settle s3 (now s3))
                   | None => None end
      | None => None end
  | _ => None
  end.

Definition stamp_of (s : state) (o : op) : Z :=
  match ring s with [] => te o | _ => nth (cursor s) (o_ring o) 0 end.

(** replay of one operation: new model state and "model agrees with the observation" *)
Definition replay_op (s : state) (o : op) : state * bool :=
  let admitted (s : state) (tr : Z) (lo hi : Z) : state * bool :=
    (* the stamp must not precede the call nor the offer, and must not be absurdly late *)
    match due s, admit_one s tr with
    | Some u, Some s' => (s', (lo <=? tr) && (u <=? tr) && (tr <=? Z.max hi u + late) && snap_eq s' o)
    | _, _ => (s, false)
    end in
  let unchanged (s : state) (l : label) : state * bool :=
    match step s l with Some s' => (s', snap_eq s' o) | None => (s, false) end in
  match tag o with
  | 0 => admitted s (stamp_of s o) (tc o) (tc o)
  | 1 =>
      if res o =? 0 then
        (* Allow said no: wrong if a ticket had been on offer for more than the margin *)
        match due s with
        | Some u => if u + margin <=? tc o then (s, false)
                    else (try_step s (WaiterCancel (tick s (te o))), snap_eq s o)
        | None => (s, snap_eq s o)
        end
      else
        match due s with
        | Some u => if te o <? u then (s, false) else admitted s (stamp_of s o) (tc o) (te o)
        | None => (s, false)
        end
  | 2 => unchanged s (WaiterCancel (tick s (te o)))
  | 3 =>
      let n := Z.to_nat (arg o) in
      let panics := negb (window s =? 0) && (n =? 0)%nat in
      let (s', ok) := unchanged s (SetMaxEvents (tick s (te o)) n) in
      (s', ok && Bool.eqb panics (negb (res o =? 0)))
  | 4 =>
      let panics := negb (arg o =? 0) && (length (ring s) =? 0)%nat in
      let (s', ok) := unchanged s (SetWindow (tick s (te o)) (arg o)) in
      (s', ok && Bool.eqb panics (negb (res o =? 0)))
  | 5 =>
      if res o =? 0 then unchanged s (WaiterCancel (tick s (te o)))
      else match due s with
           | Some u => if te o <? u then (s, false) else admitted s (stamp_of s o) (tc o) (te o)
           | None => (s, false)
           end
  | 6 =>
      let tcancel := nth 0 (extra o) 0 in
      if res o =? 0 then
        (* cancelled: wrong if a ticket had been on offer well before the cancellation *)
        match due s with
        | Some u => if Z.max u (tc o) + cancel_margin <=? tcancel then (s, false)
                    else unchanged s (WaiterCancel (tick s (te o)))
        | None => unchanged s (WaiterCancel (tick s (te o)))
        end
      else
        match due s with
        | Some u => if te o <? u then (s, false) else admitted s (stamp_of s o) (tc o) (te o)
        | None => (s, false)
        end
  | 7 =>
      (* [arg] admissions one after the other, with the observed stamps *)
      let fix go (stamps : list Z) (s : state) (ok : bool) : state * bool :=
        match stamps with
        | [] => (s, ok)
        | tr :: r =>
            match due s, admit_one s tr with
            | Some u, Some s' => go r s' (ok && (tc o <=? tr) && (u <=? tr) && (tr <=? Z.max (tc o) u + late))
            | _, _ => (s, false)
            end
        end in
      let (s', ok) := go (extra o) s true in
      (s', ok && (length (extra o) =? Z.to_nat (arg o))%nat && snap_eq s' o)
  | _ => (s, false)
  end.

Fixpoint replay (s : state) (os : list op) : bool :=
  match os with
  | [] => true
  | o :: r => let (s', ok) := replay_op s o in if ok then replay s' r else false
  end.

Definition model_ok (c : tcase) : bool :=
  replay (settle (init (n0 c) (w0 c) (t_create c)) (t_create c)) (ops c).

(** index of the first operation on which the replay disagrees (diagnostics) *)
Fixpoint first_bad (s : state) (os : list op) (i : Z) : Z :=
  match os with
  | [] => -1
  | o :: r => let (s', ok) := replay_op s o in if ok then first_bad s' r (i + 1) else i
  end.

(** * The specification on the observations *)

Record obs_state := Obs {
  p_ring : list Z; p_cursor : nat; p_window : Z;   (* previous snapshot *)
  exempt : bool;              (* a reconfiguration happened since the last admission: the next one
                                 may still be the offer computed before it *)
  seg : list (Z * Z)          (* (call, return) of the admissions since the last reconfiguration *)
}.

Definition oview (r : list Z) (c : nat) : list Z := skipn c r ++ firstn c r.
Definition pview (x : obs_state) : list Z := oview (p_ring x) (p_cursor x).
Definition aview (o : op) : list Z := oview (o_ring o) (o_cursor o).

Definition same_snapshot (x : obs_state) (o : op) : bool :=
  zlist_eqb (p_ring x) (o_ring o) && (p_cursor x =? o_cursor o)%nat && (p_window x =? o_window o).

(** external monitor (the property's observation points): with limit n and window w, the
    return of admission i+n is at least w after the call of admission i *)
Fixpoint ext_ok_from (w : Z) (l later : list (Z * Z)) : bool :=
  match l, later with
  | (c, _) :: l', (_, e) :: later' => (c + w <=? e) && ext_ok_from w l' later'
  | _, _ => true
  end.
Definition ext_ok (n : nat) (w : Z) (l : list (Z * Z)) : bool :=
  match n with O => true | _ => ext_ok_from w l (skipn n l) end.

Definition close_seg (x : obs_state) : bool := ext_ok (length (p_ring x)) (p_window x) (rev (seg x)).

(** one admission observed: call [c], return [e], stamp stored [tr] *)
Definition spec_admit (x : obs_state) (c e : Z) (after : list Z) : bool :=
  match pview x with
  | [] => true
  | v0 :: vt =>
      (* ring remembers the newest: the oldest slot is replaced by a stamp not before the call *)
      match rev after with
      | tr :: _ => zlist_eqb after (vt ++ [tr]) && (c <=? tr)
      | [] => false
      end &&
      (* spacing from the stamp that is replaced, unless this may be an offer computed before
         the last reconfiguration *)
      (exempt x || (v0 + p_window x <=? e))
  end &&
  (* a zero window does not make anybody wait *)
  (exempt x || negb (p_window x =? 0) || (e <=? c + prompt)).

Definition next_obs (x : obs_state) (o : op) (ex : bool) (sg : list (Z * Z)) : obs_state :=
  Obs (o_ring o) (o_cursor o) (o_window o) ex sg.

Definition spec_op (x : obs_state) (o : op) : obs_state * bool :=
  let admission :=
    (next_obs x o false ((tc o, te o) :: seg x),
     spec_admit x (tc o) (te o) (aview o) && (p_window x =? o_window o)) in
  let nothing := (next_obs x o (exempt x) (seg x), same_snapshot x o) in
  match tag o with
  | 0 => admission
  | 1 | 5 => if res o =? 0 then nothing else admission
  | 2 => nothing
  | 6 =>
      if res o =? 0 then
        let tcancel := nth 0 (extra o) 0 in
        (* prompt: in any case within the generous bound; and when the cancellation came at
           least 50 ms before the slot it was waiting for, the return is before that instant
           (it did not wait for the slot) *)
        let not_sat_out :=
          match pview x with
          | v0 :: _ => exempt x || negb (tcancel + 50000000 <=? v0 + p_window x) || (te o <? v0 + p_window x)
          | [] => true
          end in
        (fst nothing, snd nothing && (te o <=? tcancel + prompt) && not_sat_out)
      else admission
  | 3 =>
      let n := Z.to_nat (arg o) in
      if negb (res o =? 0) then (fst nothing, snd nothing && negb (p_window x =? 0) && (n =? 0)%nat)
      else if (n =? length (p_ring x))%nat then nothing
      else (next_obs x o true [],
            close_seg x && zlist_eqb (aview o) (keep_newest n (pview x)) &&
            (length (o_ring o) =? n)%nat && (p_window x =? o_window o) &&
            negb (negb (p_window x =? 0) && (n =? 0)%nat))
  | 4 =>
      if negb (res o =? 0) then (fst nothing, snd nothing && negb (arg o =? 0) && (length (p_ring x) =? 0)%nat)
      else (next_obs x o true [],
            close_seg x && zlist_eqb (p_ring x) (o_ring o) && (p_cursor x =? o_cursor o)%nat &&
            (o_window o =? arg o) && negb (negb (arg o =? 0) && (length (p_ring x) =? 0)%nat))
  | 7 =>
      let fix go (stamps es : list Z) (v : list Z) (ex : bool) (sg : list (Z * Z)) (ok : bool)
          : list Z * list (Z * Z) * bool :=
        match stamps, es with
        | tr :: sr, e :: er =>
            let x' := Obs v 0%nat (p_window x) ex sg in
            let v' := match v with [] => [] | _ :: vt => vt ++ [tr] end in
            go sr er v' false ((tc o, e) :: sg) (ok && spec_admit x' (tc o) e v')
        | [], [] => (v, sg, ok)
        | _, _ => (v, sg, false)
        end in
      let '(v, sg, ok) := go (extra o) (ends o) (pview x) (exempt x) (seg x) true in
      (next_obs x o (exempt x && (length (extra o) =? 0)%nat) sg,
       ok && zlist_eqb (aview o) v && (p_window x =? o_window o) &&
       (length (extra o) =? Z.to_nat (arg o))%nat && (length (o_ring o) =? length (p_ring x))%nat)
  | _ => (x, false)
  end.

Fixpoint spec_ops (x : obs_state) (os : list op) : bool :=
  match os with
  | [] => close_seg x
  | o :: r => let (x', ok) := spec_op x o in ok && spec_ops x' r
  end.

Definition spec_ok (c : tcase) : bool :=
  spec_ops (Obs (repeat 0 (n0 c)) 0%nat (w0 c) false []) (ops c).

(** * Concurrent first throttle: k callers of acmeClient.throttle released together on a key
      that has no limiter yet *)

Record ftcase := FT {
  ft_n : nat; ft_w : Z;          (* RateLimitEvents, RateLimitEventsWindow *)
  ft_k : nat;                    (* callers *)
  ft_deadline : Z;               (* how long each caller waits before its context is cancelled *)
  ft_admitted : nat;             (* callers whose throttle returned nil *)
  ft_stamps : nat                (* stamps in the limiter registered under the key afterwards *)
}.

(** admissions a fresh limiter grants to c simultaneous waiters within the deadline *)
Fixpoint burst_admitted (c : nat) (s : state) (t0 deadline : Z) : nat :=
  match c with
  | O => O
  | S c' =>
      match due s with
      | Some u =>
          if u <=? t0 + deadline then
            match admit_one s (Z.max u t0) with
            | Some s' => S (burst_admitted c' s' t0 deadline)
            | None => O
            end
          else O
      | None => O
      end
  end.

Definition key0 : str := [107%N].
Definition count_lim (l : nat) (evs : list (str * nat)) : nat :=
  length (filter (fun e => Nat.eqb (snd e) l) evs).

(** the callers go through the keyed map (one critical section each), then wait on the
    limiter they were handed *)
Definition first_throttle_model (c : ftcase) : option nat :=
  let t0 := Z.max (ft_w c) 0 + 1 in
  match krun kstep_atomic kinit (map (fun i => KThrottle i key0) (seq 0 (ft_k c))) with
  | Some (_, evs) =>
      Some (fold_right Nat.add O
              (map (fun l => burst_admitted (count_lim l evs) (settle (init (ft_n c) (ft_w c) t0) t0) t0 (ft_deadline c))
                   (limiters_of key0 evs)))
  | None => None
  end.

Definition ft_model_ok (c : ftcase) : bool :=
  match first_throttle_model c with
  | Some a => (a =? ft_admitted c)%nat && (ft_stamps c =? (if (ft_n c =? 0)%nat then 0 else ft_admitted c))%nat
  | None => false
  end.

(** the property: per CA and account no more than N first attempts pass within the window,
    however many arrive at once *)
Definition ft_spec_ok (c : ftcase) : bool :=
  if (0 <? ft_n c)%nat && (ft_deadline c + 1000000000 <? ft_w c) then (ft_admitted c <=? ft_n c)%nat else true.

(** * Reconfiguration under load: waiters take tickets as fast as they can (window 0) while
      another goroutine alternates SetMaxEvents(0) / SetMaxEvents(size + k mod 3); then
      SetMaxEvents(0), a probe Wait, SetMaxEvents(n), SetWindow(w) and k callers that wait at
      most [deadline].  Observed: did all setter calls return, was the probe admitted, how many
      of the k callers were admitted, how many stamps are in the ring. *)

Record stcase := ST {
  st_n0 : nat; st_flips : nat; st_size : nat;
  st_n : nat; st_w : Z; st_k : nat; st_deadline : Z;
  st_cfg_returned : bool; st_probe : bool; st_final_returned : bool;
  st_admitted : nat; st_stamps : nat
}.

(** one admission, then SetMaxEvents(n), the loop running ahead *)
Definition cfg_step (s : state) (n : nat) : option state :=
  match admit_one s (now s) with
  | Some s1 => match step s1 (SetMaxEvents (now s1) n) with
               | Some s2 => Some (settle s2 (now s2))
               | None => None end
  | None => None
  end.

Fixpoint flips_run (size k i : nat) (s : state) : option state :=
  match k with
  | O => Some s
  | S k' =>
      match cfg_step s 0 with
      | Some s1 => match cfg_step s1 (size + Nat.modulo i 3) with
                   | Some s2 => flips_run size k' (S i) s2
                   | None => None end
      | None => None
      end
  end.

(** (probe admitted, admissions among the k callers): one representative interleaving — by
    Race.loop_never_dies / live_loop_offers every interleaving keeps the loop alive *)
Definition stress_model (c : stcase) : option (bool * nat) :=
  let t0 := Z.max (st_w c) 0 + 1 in
  (* the first 200 flips: the interleaving is a representative one anyway, and every flip
     returns the model to the same kind of state *)
  match flips_run (st_size c) (Nat.min (st_flips c) 200) 0 (settle (init (st_n0 c) 0 t0) t0) with
  | Some s1 =>
      match cfg_step s1 0 with
      | Some s2 =>
          match admit_one s2 (now s2) with
          | Some s3 =>
              let s4 := try_step s3 (SetMaxEvents (now s3) (st_n c)) in
              let s5 := try_step s4 (SetWindow (now s4) (st_w c)) in
              let s6 := settle s5 (now s5) in
              Some (true, burst_admitted (st_k c) s6 (now s6) (st_deadline c))
          | None => Some (false, O)
          end
      | None => None
      end
  | None => None
  end.

Definition st_model_ok (c : stcase) : bool :=
  match stress_model c with
  | Some (pr, a) =>
      st_cfg_returned c && st_final_returned c && Bool.eqb pr (st_probe c) &&
      (a =? st_admitted c)%nat && (st_stamps c =? (if (st_n c =? 0)%nat then 0 else st_admitted c))%nat
  | None => false
  end.

(** the property: the limiter stays usable after the limit has been changed at run time (the
    setters return, a zero window does not make anybody wait), and the limit in force holds *)
Definition st_spec_ok (c : stcase) : bool :=
  st_cfg_returned c && st_probe c && st_final_returned c &&
  (if (0 <? st_n c)%nat && (st_deadline c + 1000000000 <? st_w c) then (st_admitted c <=? st_n c)%nat else true).

(** the same stress under Go's race detector (thorough tier, a separate process): number of
    data races reported on the limiter's fields, number of rounds in which the loop died *)
Record rdcase := RD { rd_races : nat; rd_died : nat }.
Definition rd_ok (c : rdcase) : bool := (rd_races c =? 0)%nat && (rd_died c =? 0)%nat.

(** * First attempts through the real ACMEIssuer against a mock ACME CA (class e2e-throttle):
      [calls] Issue calls for one CA + account released together at instant 0 with
      RateLimitEvents = n and RateLimitEventsWindow = w; observed at the CA: the arrival instants
      of their orders (ascending); the same for a second account, and the orders of retries
      (attempts = 1: the test CA first, not throttled; after the success there the production
      order of the same call goes through the limiter like a first attempt). *)

Record e2case := E2 {
  e2_cfg : Z;         (* issuer configuration: 0 TestCA is another directory, 1 TestCA = CA, 2 TestCA empty *)
  e2_n : nat; e2_w : Z; e2_calls : nat; e2_retries : nat; e2_calls2 : nat;
  e2_first : list Z;  (* arrivals of the orders of the first attempts (attributed by name at the CA) *)
  e2_arr : list Z;    (* + the production orders that follow a retry's success at a distinct test CA *)
  e2_arr2 : list Z; e2_retry : list Z; e2_failed : nat
}.

(** orders the code sends through the limiter of the CA + account: every first attempt, in
    every configuration; of a retry (attempts = 1) only the production order that follows its
    success at a DISTINCT test CA (doIssue with attempts 0) — with TestCA = CA or empty the
    retry's single order is not throttled *)
Definition e2_limited (c : e2case) : nat :=
  (e2_calls c + (if (e2_cfg c =? 0)%Z then e2_retries c else 0))%nat.

(** admission instants the model gives [c] waiters that arrive together at [t0] at a fresh limiter *)
Fixpoint burst_times (c : nat) (s : state) (t0 : Z) : list Z :=
  match c with
  | O => []
  | S c' =>
      match due s with
      | Some u => let t := Z.max u t0 in
                  match admit_one s t with
                  | Some s' => t :: burst_times c' s' t0
                  | None => [] end
      | None => []
      end
  end.

Definition e2_model_times (n : nat) (w : Z) (c : nat) : list Z :=
  let t0 := Z.max w 0 + 1 in
  map (fun t => t - t0) (burst_times c (settle (init n w t0) t0) t0).

(** an order arrives after the admission of its call, and not absurdly late *)
Fixpoint arrivals_match (model obs : list Z) : bool :=
  match model, obs with
  | [], [] => true
  | m :: mr, o :: or => (m <=? o) && (o <=? m + late) && arrivals_match mr or
  | _, _ => false
  end.

Definition e2_model_ok (c : e2case) : bool :=
  (e2_failed c =? 0)%nat &&
  arrivals_match (e2_model_times (e2_n c) (e2_w c) (e2_limited c)) (e2_arr c) &&
  (length (e2_first c) =? e2_calls c)%nat &&
  arrivals_match (e2_model_times (e2_n c) (e2_w c) (e2_calls2 c)) (e2_arr2 c) &&
  (length (e2_retry c) =? e2_retries c)%nat && forallb (fun t => (0 <=? t) && (t <=? late)) (e2_retry c).

(** the property at the CA: the calls began at 0 or later, so at most n orders of one account
    arrive before w, at most 2n before 2w, ...: the j-th arrival is not before (j / n) * w *)
Fixpoint arrivals_spaced (n : nat) (w : Z) (j : nat) (l : list Z) : bool :=
  match l with
  | [] => true
  | t :: r => (Z.of_nat (Nat.div j n) * w <=? t) && arrivals_spaced n w (S j) r
  end.

Definition e2_spec_ok (c : e2case) : bool :=
  match e2_n c with
  | O => true
  | n => (* every first attempt passes the limiter of its CA + account, whatever TestCA is *)
         arrivals_spaced n (e2_w c) 0 (e2_first c) && arrivals_spaced n (e2_w c) 0 (e2_arr2 c) &&
         (length (e2_first c) <=? e2_calls c)%nat && (length (e2_arr2 c) <=? e2_calls2 c)%nat
  end.

(** * History of one key of acmeClient.throttle with the package variables changed in between
      (class key-history): phase i sets RateLimitEvents / RateLimitEventsWindow to (n_i, w_i) and
      releases k_i callers of the real throttle for the SAME CA + account, each giving up after
      [deadline].  Observed per phase: admitted callers; whether the limiter object registered
      for the key is still the one of phase 1; its ring length, window and number of stamps. *)

Record khphase := KH { kh_n : nat; kh_w : Z; kh_k : nat; kh_adm : nat; kh_same : bool;
                       kh_len : nat; kh_win : Z; kh_stamps : nat }.
Record khcase := KHC { khc_deadline : Z; khc_phases : list khphase }.

Fixpoint burst_run (c : nat) (s : state) (t0 deadline : Z) : nat * state :=
  match c with
  | O => (O, s)
  | S c' =>
      match due s with
      | Some u =>
          if u <=? t0 + deadline then
            match admit_one s (Z.max u t0) with
            | Some s' => let (a, s'') := burst_run c' s' t0 deadline in (S a, s'')
            | None => (O, s)
            end
          else (O, s)
      | None => (O, s)
      end
  end.

(** the code: the key's limiter is created in phase 1 with (n_1, w_1) and stays; later phases
    only add waiters to it *)
Fixpoint kh_replay (n1 : nat) (w1 : Z) (deadline : Z) (s : state) (total : nat) (l : list khphase) : bool :=
  match l with
  | [] => true
  | p :: r =>
      let (a, s') := burst_run (kh_k p) s (now s) deadline in
      (a =? kh_adm p)%nat && kh_same p && (kh_len p =? n1)%nat && (kh_win p =? w1) &&
      (kh_stamps p =? total + a)%nat && kh_replay n1 w1 deadline s' (total + a) r
  end.

(** the limiter of the key is created by the FIRST throttle call for the key, with the limits
    in force then: phases without callers before that create nothing (no limiter registered:
    nothing admitted, ring length, window and stamps reported as 0) *)
Fixpoint kh_model_from (deadline : Z) (l : list khphase) : bool :=
  match l with
  | [] => true
  | p :: r =>
      match kh_k p with
      | O => (kh_adm p =? 0)%nat && kh_same p && (kh_len p =? 0)%nat && (kh_win p =? 0) && (kh_stamps p =? 0)%nat &&
             kh_model_from deadline r
      | _ => let t0 := Z.max (kh_w p) 0 + 1 in
             kh_replay (kh_n p) (kh_w p) deadline (settle (init (kh_n p) (kh_w p) t0) t0) 0 l
      end
  end.

Definition kh_model_ok (c : khcase) : bool := kh_model_from (khc_deadline c) (khc_phases c).

(** the property: the limiter registered for the key is never replaced while it holds stamps,
    and — all phases lie well inside every window — the key never gets more admissions than the
    largest limit that was ever configured *)
Definition kh_spec_ok (c : khcase) : bool :=
  let ps := khc_phases c in
  let total := fold_right Nat.add O (map kh_adm ps) in
  let maxn := fold_right Nat.max O (map kh_n ps) in
  let span := khc_deadline c * Z.of_nat (length ps) + 5000000000 in
  forallb kh_same ps &&
  (if forallb (fun p => (0 <? kh_n p)%nat && (span <? kh_w p)) ps then (total <=? maxn)%nat else true).

(** * Wire *)

Inductive anycase := AHistory (c : tcase) | AFirst (c : ftcase) | AStress (c : stcase) | ARace (c : rdcase) | AE2E (c : e2case) | AKeyHist (c : khcase).

Definition get_zlist : dec (list Z) := get_list get_z.
Definition get_op : dec op :=
  (tg <- get_z ;; a <- get_z ;; c <- get_z ;; e <- get_z ;; r <- get_z ;;
   ex <- get_zlist ;; es <- get_zlist ;; rg <- get_zlist ;; cu <- get_nat ;; w <- get_z ;;
   ret (Op tg a c e r ex es rg cu w))%Z.
Definition get_tcase : dec tcase :=
  (n <- get_nat ;; w <- get_z ;; t <- get_z ;; os <- get_list get_op ;; ret (Case n w t os))%Z.
Definition get_ftcase : dec ftcase :=
  (n <- get_nat ;; w <- get_z ;; k <- get_nat ;; d <- get_z ;; a <- get_nat ;; st <- get_nat ;; ret (FT n w k d a st))%Z.
Definition get_stcase : dec stcase :=
  (n0 <- get_nat ;; fz <- get_z ;; let f := Z.to_nat (Z.min fz 1000) in
   sz <- get_nat ;; n <- get_nat ;; w <- get_z ;; k <- get_nat ;; d <- get_z ;;
   cr <- get_bool ;; pr <- get_bool ;; fr <- get_bool ;; a <- get_nat ;; st <- get_nat ;;
   ret (ST n0 f sz n w k d cr pr fr a st))%Z.
Definition get_rdcase : dec rdcase := (r <- get_nat ;; d <- get_nat ;; ret (RD r d))%Z.
Definition get_e2case : dec e2case :=
  (cfg <- get_z ;; n <- get_nat ;; w <- get_z ;; c <- get_nat ;; r <- get_nat ;; c2 <- get_nat ;;
   fa <- get_zlist ;; a <- get_zlist ;; a2 <- get_zlist ;; ra <- get_zlist ;; f <- get_nat ;;
   ret (E2 cfg n w c r c2 fa a a2 ra f))%Z.
Definition get_khphase : dec khphase :=
  (n <- get_nat ;; w <- get_z ;; k <- get_nat ;; a <- get_nat ;; sm <- get_bool ;; ln <- get_nat ;; wn <- get_z ;;
   st <- get_nat ;; ret (KH n w k a sm ln wn st))%Z.
Definition get_khcase : dec khcase := (d <- get_z ;; l <- get_list get_khphase ;; ret (KHC d l))%Z.
Definition get_case : dec anycase :=
  (kind <- get_z ;;
   if kind =? 0 then (c <- get_tcase ;; ret (AHistory c))
   else if kind =? 1 then (c <- get_ftcase ;; ret (AFirst c))
   else if kind =? 2 then (c <- get_stcase ;; ret (AStress c))
   else if kind =? 3 then (c <- get_rdcase ;; ret (ARace c))
   else if kind =? 4 then (c <- get_e2case ;; ret (AE2E c))
   else (c <- get_khcase ;; ret (AKeyHist c)))%Z.

Definition check_line (l : list Z) : Z :=
  match decode get_case l with
  | Some (AHistory c) => code (model_ok c) (spec_ok c)
  | Some (AFirst c) => code (ft_model_ok c) (ft_spec_ok c)
  | Some (AStress c) => code (st_model_ok c) (st_spec_ok c)
  | Some (ARace c) => code (rd_ok c) (rd_ok c)
  | Some (AE2E c) => code (e2_model_ok c) (e2_spec_ok c)
  | Some (AKeyHist c) => code (kh_model_ok c) (kh_spec_ok c)
  | None => code_decode_error
  end.

(** diagnostics: index of the first operation the model disagrees with (-1: none); for a
    concurrent-first-throttle case the number of admissions the model expects *)
Definition explain_line (l : list Z) : list Z :=
  match decode get_case l with
  | Some (AHistory c) => [first_bad (settle (init (n0 c) (w0 c) (t_create c)) (t_create c)) (ops c) 0]
  | Some (AFirst c) => [match first_throttle_model c with Some a => Z.of_nat a | None => -1 end]
  | Some (AStress c) => match stress_model c with
                        | Some (pr, a) => [if pr then 1 else 0; Z.of_nat a]
                        | None => [-1] end
  | Some (ARace c) => [Z.of_nat (rd_races c); Z.of_nat (rd_died c)]
  | Some (AE2E c) => e2_model_times (e2_n c) (e2_w c) (e2_limited c)
  | Some (AKeyHist c) => [if kh_model_ok c then 1 else 0]
  | None => []
  end.
