module verifharness

go 1.23.0

toolchain go1.24.0

require github.com/caddyserver/certmagic v0.0.0

require (
	github.com/caddyserver/zerossl v0.1.3 // indirect
	github.com/klauspost/cpuid/v2 v2.2.10 // indirect
	github.com/libdns/libdns v1.0.0-beta.1 // indirect
	github.com/mholt/acmez/v3 v3.1.2 // indirect
	github.com/miekg/dns v1.1.63 // indirect
	github.com/zeebo/blake3 v0.2.4 // indirect
	go.uber.org/multierr v1.11.0 // indirect
	go.uber.org/zap v1.27.0 // indirect
	go.uber.org/zap/exp v0.3.0 // indirect
	golang.org/x/crypto v0.36.0 // indirect
	golang.org/x/net v0.38.0 // indirect
	golang.org/x/sys v0.31.0 // indirect
	golang.org/x/text v0.23.0 // indirect
)

replace github.com/caddyserver/certmagic => /repo
