// Package hsutil has helpers for the handshake harnesses (C02, C13): goroutine introspection
// through runtime.Stack, so that the harness can attribute storage / issuer / decision calls to
// the goroutine making them, see which goroutines certmagic has spawned, and see where a
// goroutine is blocked — without any hook point inside certmagic's function bodies.
package hsutil

import (
	"regexp"
	"runtime"
	"strconv"
	"strings"
)

// G describes one goroutine of a dump.
type G struct {
	ID        int64
	State     string   // "running", "select", "chan receive", "sync.Mutex.Lock", ... (wait time stripped)
	Funcs     []string // function names, innermost first
	CreatedBy string   // function containing the go statement ("" for main)
	Parent    int64    // goroutine that executed the go statement (0 if unknown)
}

// Has reports whether some frame's function name contains sub.
func (g *G) Has(sub string) bool {
	for _, f := range g.Funcs {
		if strings.Contains(f, sub) {
			return true
		}
	}
	return false
}

// Top returns the innermost function whose name contains sub ("" if none).
func (g *G) Top(sub string) string {
	for _, f := range g.Funcs {
		if strings.Contains(f, sub) {
			return f
		}
	}
	return ""
}

var hdrRE = regexp.MustCompile(`^goroutine (\d+) \[([^\],]+)[^\]]*\]:$`)
var createdRE = regexp.MustCompile(`^created by (.+?)(?: in goroutine (\d+))?$`)

// ID returns the id of the calling goroutine.
func ID() int64 {
	var buf [64]byte
	n := runtime.Stack(buf[:], false)
	// "goroutine 123 ["
	s := string(buf[:n])
	s = strings.TrimPrefix(s, "goroutine ")
	if i := strings.IndexByte(s, ' '); i > 0 {
		id, _ := strconv.ParseInt(s[:i], 10, 64)
		return id
	}
	return 0
}

// Dump parses the stacks of all goroutines.
func Dump() []G {
	buf := make([]byte, 1<<16)
	for {
		n := runtime.Stack(buf, true)
		if n < len(buf) {
			buf = buf[:n]
			break
		}
		buf = make([]byte, 2*len(buf))
	}
	var out []G
	for _, blk := range strings.Split(string(buf), "\n\n") {
		lines := strings.Split(strings.TrimSpace(blk), "\n")
		if len(lines) == 0 {
			continue
		}
		m := hdrRE.FindStringSubmatch(lines[0])
		if m == nil {
			continue
		}
		g := G{State: m[2]}
		g.ID, _ = strconv.ParseInt(m[1], 10, 64)
		for _, l := range lines[1:] {
			if strings.HasPrefix(l, "\t") {
				continue
			}
			if c := createdRE.FindStringSubmatch(l); c != nil {
				g.CreatedBy = c[1]
				if c[2] != "" {
					g.Parent, _ = strconv.ParseInt(c[2], 10, 64)
				}
				continue
			}
			// "pkg.func(args...)" -> strip the argument list
			if i := strings.LastIndexByte(l, '('); i > 0 {
				l = l[:i]
			}
			g.Funcs = append(g.Funcs, l)
		}
		out = append(out, g)
	}
	return out
}

// SpawnedByCertmagicHandshake reports whether g was created by one of the go statements in
// handshake.go (ARI refresh in handshakeMaintenance, background renewal in renewDynamicCertificate).
func (g *G) SpawnedByCertmagicHandshake() bool {
	return strings.Contains(g.CreatedBy, "certmagic.(*Config).handshakeMaintenance") ||
		strings.Contains(g.CreatedBy, "certmagic.(*Config).renewDynamicCertificate")
}
