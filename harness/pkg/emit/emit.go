// Package emit writes correspondence cases for the Coq side (sharded cases_NNN.v files that
// evaluate the model and the boolean specification with vm_compute) together with a
// cases.jsonl (human-readable, used for evidence samples, known-finding matching and replay)
// and a meta.json describing what was generated.
package emit

import (
	"encoding/json"
	"os"
	"path/filepath"
	"sort"
	"strconv"
	"strings"
)

// Enc builds one wire line (space-separated integers, decoded by Lib/Wire.v).
type Enc struct{ toks []string }

func (e *Enc) Z(v int64) *Enc    { e.toks = append(e.toks, strconv.FormatInt(v, 10)); return e }
func (e *Enc) N(v uint64) *Enc   { e.toks = append(e.toks, strconv.FormatUint(v, 10)); return e }
func (e *Enc) Int(v int) *Enc    { return e.Z(int64(v)) }
func (e *Enc) Len(n int) *Enc    { return e.Z(int64(n)) }
func (e *Enc) Big(s string) *Enc { e.toks = append(e.toks, s); return e }
func (e *Enc) Bool(b bool) *Enc {
	if b {
		return e.Z(1)
	}
	return e.Z(0)
}

// Str: length-prefixed code points as Go's range yields them (invalid bytes = U+FFFD).
func (e *Enc) Str(s string) *Enc {
	rs := []rune(s)
	e.Len(len(rs))
	for _, r := range rs {
		e.Z(int64(r))
	}
	return e
}
func (e *Enc) Bytes(p []byte) *Enc {
	e.Len(len(p))
	for _, c := range p {
		e.Z(int64(c))
	}
	return e
}
func (e *Enc) StrList(ss []string) *Enc {
	e.Len(len(ss))
	for _, s := range ss {
		e.Str(s)
	}
	return e
}
func (e *Enc) OptStr(s *string) *Enc {
	if s == nil {
		return e.Bool(false)
	}
	return e.Bool(true).Str(*s)
}
func (e *Enc) ZList(vs []int64) *Enc {
	e.Len(len(vs))
	for _, v := range vs {
		e.Z(v)
	}
	return e
}
func (e *Enc) String() string { return strings.Join(e.toks, " ") }

// Case is one correspondence case.
type Case struct {
	ID   int            `json:"id"`
	Desc map[string]any `json:"desc"` // features: used for histograms and known-finding matching
	In   any            `json:"in"`   // human-readable input
	Obs  any            `json:"obs"`  // human-readable implementation observation
	Wire string         `json:"-"`    // wire line (see Enc)
	// Nontrivial marks a case counted in distinct_nontrivial (rule stated in Meta.Rule);
	// Key is the identity used for distinctness.
	Nontrivial bool   `json:"nontrivial"`
	Key        string `json:"-"`
}

type OracleCheck struct {
	Name   string `json:"name"`
	OK     bool   `json:"ok"`
	Detail string `json:"detail"`
}

type Meta struct {
	Property           string         `json:"property"`
	Tier               string         `json:"tier"`
	Seed               int64          `json:"seed"`
	Evaluations        int            `json:"evaluations"`
	DistinctNontrivial int            `json:"distinct_nontrivial"`
	Rule               string         `json:"rule"`
	Exhaustive         bool           `json:"exhaustive"`
	Universe           string         `json:"universe,omitempty"`
	Histogram          map[string]int `json:"histogram"`
	Oracles            []OracleCheck  `json:"oracle_checks"`
	Notes              []string       `json:"notes,omitempty"`
	Extra              map[string]any `json:"extra,omitempty"`
}

// Writer accumulates cases into cases.txt / cases.jsonl.
type Writer struct {
	Dir  string
	Meta Meta

	jsonl    *os.File
	txt      *os.File
	distinct map[string]bool
	nextID   int
}

func NewWriter(dir, prop, tier string, seed int64) *Writer {
	os.MkdirAll(dir, 0o755)
	f, err := os.Create(filepath.Join(dir, "cases.jsonl"))
	if err != nil {
		panic(err)
	}
	t, err := os.Create(filepath.Join(dir, "cases.txt"))
	if err != nil {
		panic(err)
	}
	return &Writer{Dir: dir, jsonl: f, txt: t, distinct: map[string]bool{},
		Meta: Meta{Property: prop, Tier: tier, Seed: seed, Histogram: map[string]int{}}}
}

func (w *Writer) Hist(key string) { w.Meta.Histogram[key]++ }

// Add appends a case, assigns its id and returns it.
func (w *Writer) Add(c Case) int {
	c.ID = w.nextID
	w.nextID++
	w.Meta.Evaluations++
	if c.Nontrivial {
		k := c.Key
		if k == "" {
			k = c.Wire
		}
		if !w.distinct[k] {
			w.distinct[k] = true
			w.Meta.DistinctNontrivial++
		}
	}
	b, _ := json.Marshal(c)
	w.jsonl.Write(append(b, '\n'))
	w.txt.WriteString(c.Wire + "\n")
	return c.ID
}

// Close writes meta.json.
func (w *Writer) Close() {
	w.jsonl.Close()
	w.txt.Close()
	b, _ := json.MarshalIndent(w.Meta, "", " ")
	os.WriteFile(filepath.Join(w.Dir, "meta.json"), b, 0o644)
}

// SortedKeys is a small helper for deterministic iteration.
func SortedKeys[V any](m map[string]V) []string {
	ks := make([]string, 0, len(m))
	for k := range m {
		ks = append(ks, k)
	}
	sort.Strings(ks)
	return ks
}
