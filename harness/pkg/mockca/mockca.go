// Package mockca is a small in-process ACME (RFC 8555) certificate authority for the
// correspondence harnesses. It speaks enough of the protocol for acmez v3 / certmagic's real
// ACMEIssuer to register accounts and complete orders offline:
//
//	directory, newNonce, newAccount (incl. onlyReturnExisting, account table keyed by JWK
//	thumbprint, "account does not exist" after Reset/ForgetAccount), account POST, newOrder,
//	authorizations with http-01 / tls-alpn-01 / dns-01 challenges, finalize (the CSR is signed
//	with a pkg/doubles CA), certificate download (POST-as-GET), revokeCert.
//
// Validation is either automatic (Options.AutoValidate: authorizations are born "valid", so no
// solver is needed and an order takes a few milliseconds) or real: http-01 is fetched from
// Options.HTTP01Addr (Host header = identifier), tls-alpn-01 is dialled at Options.TLSALPN01Addr
// with SNI = identifier and ALPN "acme-tls/1", dns-01 asks Options.DNS01Lookup.
//
// Every request is logged (Requests / Count) with the thumbprint of the account key that signed
// it and whether it arrived over TLS; Hook can gate a request or inject an ACME problem (before
// the request is handled), DropResponse can lose the response of a request that was handled.
// ES256/ES384 (P-256/P-384) JWS signatures are verified (Options.SkipSignatureCheck turns that
// off); other algorithms are accepted unverified. Nonces are issued but not checked.
//
// Typical use with the real issuer:
//
//	ca := mockca.New(mockca.Options{TLS: true, AutoValidate: true})
//	defer ca.Close()
//	iss := certmagic.NewACMEIssuer(cfg, certmagic.ACMEIssuer{CA: ca.URL, TestCA: ca2.URL,
//	        Email: "a@b.c", Agreed: true, TrustedRoots: ca.Roots()})
//
// (a plain-HTTP server on 127.0.0.1 is also accepted by certmagic: internal address).
package mockca

import (
	"context"
	"crypto"
	"crypto/ecdsa"
	"crypto/elliptic"
	"crypto/rand"
	"crypto/sha256"
	"crypto/tls"
	"crypto/x509"
	"encoding/asn1"
	"encoding/base64"
	"encoding/hex"
	"encoding/json"
	"encoding/pem"
	"fmt"
	"io"
	"math/big"
	"net"
	"net/http"
	"net/http/httptest"
	"strings"
	"sync"
	"time"

	"verifharness/pkg/doubles"
)

const ns = "urn:ietf:params:acme:error:"

// Problem is an RFC 7807 problem document.
type Problem struct {
	Type   string `json:"type"`
	Detail string `json:"detail,omitempty"`
	Status int    `json:"status,omitempty"`
}

// Prob builds a problem of the ACME namespace, e.g. Prob(400, "accountDoesNotExist", "...").
func Prob(status int, typ, detail string) *Problem {
	return &Problem{Type: ns + typ, Detail: detail, Status: status}
}

// Options configure a CA.
type Options struct {
	TLS                bool     // serve HTTPS (httptest certificate; trust it with Roots())
	AutoValidate       bool     // authorizations are created valid: no challenge has to be solved
	ChallengeTypes     []string // offered when not AutoValidate; default http-01, tls-alpn-01, dns-01
	HTTP01Addr         string   // host:port dialled for http-01 (default identifier:80)
	TLSALPN01Addr      string   // host:port dialled for tls-alpn-01 (default identifier:443)
	DNS01Lookup        func(fqdn string) []string
	Signer             *doubles.CA // signs the leaves (default: a fresh CA)
	TermsOfService     string
	SkipSignatureCheck bool
	Lifetime           time.Duration // validity of issued certificates (default 90 days)
}

// Account is a row of the account table.
type Account struct {
	ID         int
	URL        string
	Thumbprint string // RFC 7638 thumbprint of the account key
	Contact    []string
	Status     string
	pub        crypto.PublicKey
}

// Request is one logged request.
type Request struct {
	Seq                int
	Kind               string // directory newNonce newAccount account newOrder order authz challenge finalize cert revokeCert
	Method, Path, Host string
	TLS                bool
	Thumbprint         string // of the key that signed: the jwk, or the key of the kid's account ("" unknown)
	Kid                string
	Account            string // URL of the account the request was attributed to
	OnlyReturnExisting bool
	Contact            []string
	Created            bool   // newAccount created a row
	Status             int    // HTTP status answered
	Problem            string // problem type answered ("" none)
	Identifiers        []string
	EAB                *EABSeen // the externalAccountBinding object of the payload, if there was one (any request kind)
}

type authz struct {
	id      int
	ident   string
	typ     string
	status  string
	account string
	chals   []*chal
}
type chal struct {
	id     int
	typ    string
	token  string
	status string
	err    *Problem
	az     *authz
}
type order struct {
	id      int
	account string
	idents  []ident
	status  string
	authzs  []*authz
	certID  int
}
type ident struct {
	Type  string `json:"type"`
	Value string `json:"value"`
}

// CA is a running mock ACME server.
type CA struct {
	URL    string // directory URL
	Base   string // scheme://host:port
	Opts   Options
	Signer *doubles.CA
	// Hook, if set, sees every parsed request before it is handled; it may block, and a non-nil
	// problem is answered instead of handling the request.
	Hook func(r *Request) *Problem
	// DropResponse, if set, is asked after a request was handled successfully (its effect — e.g.
	// the new account row — is in place and logged): true cuts the response body short, so the
	// client sees an I/O error for a request that took effect (acmez does not retry that).
	DropResponse func(r *Request) bool

	srv      *httptest.Server
	mu       sync.Mutex
	reqs     []Request
	accounts []*Account
	gone     map[string]bool // account URLs that existed once and were forgotten
	orders   []*order
	authzs   []*authz
	chals    []*chal
	certs    [][]byte
	revoked  []string
	nonce    int
	epoch    int
}

// New starts a CA.
func New(o Options) *CA {
	ca := &CA{Opts: o, Signer: o.Signer, gone: map[string]bool{}}
	if ca.Signer == nil {
		ca.Signer = doubles.NewCA("mockca issuing CA")
	}
	if len(ca.Opts.ChallengeTypes) == 0 {
		ca.Opts.ChallengeTypes = []string{"http-01", "tls-alpn-01", "dns-01"}
	}
	h := http.HandlerFunc(ca.serve)
	if o.TLS {
		ca.srv = httptest.NewTLSServer(h)
	} else {
		ca.srv = httptest.NewServer(h)
	}
	ca.Base = ca.srv.URL
	ca.URL = ca.Base + "/dir"
	return ca
}

// Close stops the server.
func (ca *CA) Close() { ca.srv.Close() }

// Roots returns a pool trusting the server's TLS certificate (for ACMEIssuer.TrustedRoots).
func (ca *CA) Roots() *x509.CertPool {
	p := x509.NewCertPool()
	if c := ca.srv.Certificate(); c != nil {
		p.AddCert(c)
	}
	return p
}

// Addr is the listener's host:port.
func (ca *CA) Addr() string { return ca.srv.Listener.Addr().String() }

// Reset forgets every account (as a re-installed CA would): requests signed with their kid
// are answered with accountDoesNotExist from now on.
func (ca *CA) Reset() {
	ca.mu.Lock()
	for _, a := range ca.accounts {
		if a.Status == "valid" {
			a.Status = "gone"
			ca.gone[a.URL] = true
		}
	}
	ca.epoch++
	ca.mu.Unlock()
}

// Wipe returns the CA to its initial state (no accounts, orders, certificates, empty request
// log) and drops the client connections, so that one server can serve many independent cases.
func (ca *CA) Wipe() {
	ca.mu.Lock()
	ca.reqs, ca.accounts, ca.orders, ca.authzs, ca.chals, ca.certs, ca.revoked = nil, nil, nil, nil, nil, nil, nil
	ca.gone = map[string]bool{}
	ca.mu.Unlock()
	ca.srv.CloseClientConnections()
}

// ForgetAccount forgets one account by URL.
func (ca *CA) ForgetAccount(url string) {
	ca.mu.Lock()
	for _, a := range ca.accounts {
		if a.URL == url && a.Status == "valid" {
			a.Status = "gone"
			ca.gone[a.URL] = true
		}
	}
	ca.mu.Unlock()
}

// AddAccount pre-registers an account for a public key (as if created earlier); returns its URL.
func (ca *CA) AddAccount(pub crypto.PublicKey, contact []string) *Account {
	ca.mu.Lock()
	defer ca.mu.Unlock()
	tp, _ := Thumbprint(pub)
	return ca.addAccountLocked(pub, tp, contact)
}

func (ca *CA) addAccountLocked(pub crypto.PublicKey, tp string, contact []string) *Account {
	a := &Account{ID: len(ca.accounts) + 1, Thumbprint: tp, Contact: contact, Status: "valid", pub: pub}
	a.URL = fmt.Sprintf("%s/acct/%d", ca.Base, a.ID)
	ca.accounts = append(ca.accounts, a)
	return a
}

// Accounts returns a copy of the account table (all rows ever created, in creation order).
func (ca *CA) Accounts() []Account {
	ca.mu.Lock()
	defer ca.mu.Unlock()
	out := make([]Account, len(ca.accounts))
	for i, a := range ca.accounts {
		out[i] = *a
	}
	return out
}

// Requests returns a copy of the request log.
func (ca *CA) Requests() []Request {
	ca.mu.Lock()
	defer ca.mu.Unlock()
	return append([]Request(nil), ca.reqs...)
}

// Count counts logged requests of a kind ("" = all).
func (ca *CA) Count(kind string) int {
	n := 0
	for _, r := range ca.Requests() {
		if kind == "" || r.Kind == kind {
			n++
		}
	}
	return n
}

// Created returns the newAccount requests that created an account, in order.
func (ca *CA) Created() []Request {
	var out []Request
	for _, r := range ca.Requests() {
		if r.Kind == "newAccount" && r.Created {
			out = append(out, r)
		}
	}
	return out
}

// Revoked returns the serials (hex) of revoked certificates.
func (ca *CA) Revoked() []string {
	ca.mu.Lock()
	defer ca.mu.Unlock()
	return append([]string(nil), ca.revoked...)
}

// ---------------------------------------------------------------- JWS

type jwk struct {
	Kty string `json:"kty"`
	Crv string `json:"crv,omitempty"`
	X   string `json:"x,omitempty"`
	Y   string `json:"y,omitempty"`
	N   string `json:"n,omitempty"`
	E   string `json:"e,omitempty"`
}

type protected struct {
	Alg   string `json:"alg"`
	Nonce string `json:"nonce"`
	URL   string `json:"url"`
	Kid   string `json:"kid"`
	JWK   *jwk   `json:"jwk"`
}

func (k *jwk) thumbprint() string {
	var s string
	switch k.Kty {
	case "EC":
		s = fmt.Sprintf(`{"crv":%q,"kty":"EC","x":%q,"y":%q}`, k.Crv, k.X, k.Y)
	case "RSA":
		s = fmt.Sprintf(`{"e":%q,"kty":"RSA","n":%q}`, k.E, k.N)
	default:
		b, _ := json.Marshal(k)
		s = string(b)
	}
	h := sha256.Sum256([]byte(s))
	return base64.RawURLEncoding.EncodeToString(h[:])
}

func (k *jwk) public() crypto.PublicKey {
	if k.Kty != "EC" {
		return nil
	}
	var c elliptic.Curve
	switch k.Crv {
	case "P-256":
		c = elliptic.P256()
	case "P-384":
		c = elliptic.P384()
	default:
		return nil
	}
	x, e1 := base64.RawURLEncoding.DecodeString(k.X)
	y, e2 := base64.RawURLEncoding.DecodeString(k.Y)
	if e1 != nil || e2 != nil {
		return nil
	}
	return &ecdsa.PublicKey{Curve: c, X: new(big.Int).SetBytes(x), Y: new(big.Int).SetBytes(y)}
}

// Thumbprint computes the RFC 7638 thumbprint of a public key (ECDSA only; "" otherwise).
func Thumbprint(pub crypto.PublicKey) (string, error) {
	p, ok := pub.(*ecdsa.PublicKey)
	if !ok {
		return "", fmt.Errorf("mockca: only ECDSA keys have thumbprints here")
	}
	n := (p.Curve.Params().BitSize + 7) / 8
	pad := func(b []byte) []byte {
		if len(b) < n {
			b = append(make([]byte, n-len(b)), b...)
		}
		return b
	}
	k := jwk{Kty: "EC", Crv: p.Curve.Params().Name,
		X: base64.RawURLEncoding.EncodeToString(pad(p.X.Bytes())),
		Y: base64.RawURLEncoding.EncodeToString(pad(p.Y.Bytes()))}
	return k.thumbprint(), nil
}

func verifyES(pub crypto.PublicKey, alg string, signed, sig []byte) bool {
	p, ok := pub.(*ecdsa.PublicKey)
	if !ok {
		return true // not checked
	}
	var digest []byte
	switch alg {
	case "ES256":
		h := sha256.Sum256(signed)
		digest = h[:]
	case "ES384":
		h := crypto.SHA384.New()
		h.Write(signed)
		digest = h.Sum(nil)
	default:
		return true
	}
	if len(sig)%2 != 0 {
		return false
	}
	r := new(big.Int).SetBytes(sig[:len(sig)/2])
	s := new(big.Int).SetBytes(sig[len(sig)/2:])
	return ecdsa.Verify(p, digest, r, s)
}

// ---------------------------------------------------------------- HTTP

func (ca *CA) newNonce() string {
	ca.mu.Lock()
	ca.nonce++
	n := ca.nonce
	ca.mu.Unlock()
	return fmt.Sprintf("nonce-%d", n)
}

func (ca *CA) logReq(r *Request) {
	ca.mu.Lock()
	r.Seq = len(ca.reqs)
	ca.reqs = append(ca.reqs, *r)
	ca.mu.Unlock()
}

func (ca *CA) finish(r *Request) {
	ca.mu.Lock()
	ca.reqs[r.Seq] = *r
	ca.mu.Unlock()
}

func (ca *CA) problem(w http.ResponseWriter, r *Request, p *Problem) {
	if p.Status == 0 {
		p.Status = 400
	}
	r.Status, r.Problem = p.Status, p.Type
	ca.finish(r)
	w.Header().Set("Content-Type", "application/problem+json")
	w.WriteHeader(p.Status)
	json.NewEncoder(w).Encode(p)
}

func (ca *CA) reply(w http.ResponseWriter, r *Request, status int, v any) {
	r.Status = status
	ca.finish(r)
	w.Header().Set("Content-Type", "application/json")
	if ca.DropResponse != nil && status < 300 && ca.DropResponse(r) {
		b, _ := json.Marshal(v)
		w.Header().Set("Content-Length", fmt.Sprint(len(b)+16))
		w.WriteHeader(status)
		w.Write(b[:len(b)/2])
		if f, ok := w.(http.Flusher); ok {
			f.Flush() // the status line and headers reach the client; then the body ends early
		}
		panic(http.ErrAbortHandler) // drop the connection in the middle of the body
	}
	w.WriteHeader(status)
	json.NewEncoder(w).Encode(v)
}

func kindOf(path string) string {
	p := strings.Split(strings.Trim(path, "/"), "/")
	switch p[0] {
	case "dir":
		return "directory"
	case "new-nonce":
		return "newNonce"
	case "new-acct":
		return "newAccount"
	case "acct":
		return "account"
	case "new-order":
		return "newOrder"
	case "order":
		return "order"
	case "authz":
		return "authz"
	case "chal":
		return "challenge"
	case "finalize":
		return "finalize"
	case "cert":
		return "cert"
	case "revoke-cert":
		return "revokeCert"
	}
	return "unknown"
}

func lastInt(path string) int {
	i := strings.LastIndex(path, "/")
	n := 0
	fmt.Sscanf(path[i+1:], "%d", &n)
	return n
}

func (ca *CA) serve(w http.ResponseWriter, hr *http.Request) {
	req := &Request{Kind: kindOf(hr.URL.Path), Method: hr.Method, Path: hr.URL.Path, Host: hr.Host, TLS: hr.TLS != nil}
	if hr.URL.IsAbs() { // request received as a proxy: keep the authority that was asked for
		req.Host = hr.URL.Host
	}
	ca.logReq(req)
	w.Header().Set("Replay-Nonce", ca.newNonce())
	w.Header().Set("Cache-Control", "no-store")
	switch req.Kind {
	case "directory":
		if ca.Hook != nil {
			if p := ca.Hook(req); p != nil {
				ca.problem(w, req, p)
				return
			}
		}
		dir := map[string]any{
			"newNonce": ca.Base + "/new-nonce", "newAccount": ca.Base + "/new-acct", "newOrder": ca.Base + "/new-order",
			"revokeCert": ca.Base + "/revoke-cert", "keyChange": ca.Base + "/key-change",
		}
		if ca.Opts.TermsOfService != "" {
			dir["meta"] = map[string]any{"termsOfService": ca.Opts.TermsOfService}
		}
		ca.reply(w, req, 200, dir)
		return
	case "newNonce":
		req.Status = 200
		ca.finish(req)
		w.WriteHeader(200)
		return
	case "unknown":
		ca.problem(w, req, Prob(404, "malformed", "no such resource"))
		return
	}
	if hr.Method != http.MethodPost {
		ca.problem(w, req, Prob(405, "malformed", "POST required"))
		return
	}
	body, _ := io.ReadAll(io.LimitReader(hr.Body, 1<<20))
	var env struct{ Protected, Payload, Signature string }
	if err := json.Unmarshal(body, &env); err != nil {
		ca.problem(w, req, Prob(400, "malformed", "not a flattened JWS"))
		return
	}
	ph, err := base64.RawURLEncoding.DecodeString(env.Protected)
	var hd protected
	if err == nil {
		err = json.Unmarshal(ph, &hd)
	}
	if err != nil {
		ca.problem(w, req, Prob(400, "malformed", "bad protected header"))
		return
	}
	payload, _ := base64.RawURLEncoding.DecodeString(env.Payload)
	sig, _ := base64.RawURLEncoding.DecodeString(env.Signature)
	req.Kid = hd.Kid
	// what the hook may want to see: the claimed identity and the account fields of the payload
	var acctReq struct {
		Contact              []string `json:"contact"`
		OnlyReturnExisting   bool     `json:"onlyReturnExisting"`
		TermsOfServiceAgreed bool     `json:"termsOfServiceAgreed"`
		Status               string   `json:"status"`
	}
	req.EAB = ca.seenEAB(payload, hd.JWK)
	if req.Kind == "newAccount" || req.Kind == "account" {
		json.Unmarshal(payload, &acctReq)
		req.Contact, req.OnlyReturnExisting = acctReq.Contact, acctReq.OnlyReturnExisting
	}
	if hd.JWK != nil {
		req.Thumbprint = hd.JWK.thumbprint()
	} else {
		ca.mu.Lock()
		for _, a := range ca.accounts {
			if a.URL == hd.Kid {
				req.Thumbprint = a.Thumbprint
			}
		}
		ca.mu.Unlock()
	}
	ca.finish(req)
	// the hook runs (and may block) BEFORE the account is looked up, so that a Reset that happens
	// while a request waits at the gate is seen by that request
	if ca.Hook != nil {
		if p := ca.Hook(req); p != nil {
			ca.problem(w, req, p)
			return
		}
	}
	// attribute the request to a key / account
	var acct *Account
	var pub crypto.PublicKey
	if hd.JWK != nil {
		pub = hd.JWK.public()
		ca.mu.Lock()
		for _, a := range ca.accounts {
			if a.Thumbprint == req.Thumbprint && a.Status == "valid" {
				acct = a
			}
		}
		ca.mu.Unlock()
	} else {
		ca.mu.Lock()
		for _, a := range ca.accounts {
			if a.URL == hd.Kid && a.Status == "valid" {
				acct = a
				pub = a.pub
			}
		}
		ca.mu.Unlock()
		if acct == nil {
			ca.problem(w, req, Prob(400, "accountDoesNotExist", "no account with URL "+hd.Kid))
			return
		}
	}
	if acct != nil {
		req.Account = acct.URL
	} else if req.Kind != "newAccount" && req.Kind != "revokeCert" {
		ca.problem(w, req, Prob(400, "malformed", "a kid is required for this resource"))
		return
	}
	if !ca.Opts.SkipSignatureCheck && pub != nil && !verifyES(pub, hd.Alg, []byte(env.Protected+"."+env.Payload), sig) {
		ca.problem(w, req, Prob(401, "unauthorized", "JWS signature does not verify with the account key"))
		return
	}
	switch req.Kind {
	case "newAccount":
		if hd.JWK == nil {
			ca.problem(w, req, Prob(400, "malformed", "newAccount must carry a jwk"))
			return
		}
		ca.mu.Lock()
		// look again under the lock: creation is atomic per key
		acct = nil
		for _, a := range ca.accounts {
			if a.Thumbprint == req.Thumbprint && a.Status == "valid" {
				acct = a
			}
		}
		status := 200
		if acct == nil && !acctReq.OnlyReturnExisting {
			acct = ca.addAccountLocked(pub, req.Thumbprint, acctReq.Contact)
			req.Created = true
			status = 201
		}
		ca.mu.Unlock()
		if acct == nil {
			ca.problem(w, req, Prob(400, "accountDoesNotExist", "no account for this key"))
			return
		}
		req.Account = acct.URL
		w.Header().Set("Location", acct.URL)
		ca.reply(w, req, status, map[string]any{"status": "valid", "contact": acct.Contact, "orders": acct.URL + "/orders"})
	case "account":
		if acct.URL != ca.Base+hr.URL.Path {
			ca.problem(w, req, Prob(401, "unauthorized", "account URL does not belong to the signing account"))
			return
		}
		ca.mu.Lock()
		if acctReq.Status == "deactivated" {
			acct.Status = "deactivated"
		} else if len(acctReq.Contact) > 0 {
			acct.Contact = acctReq.Contact
		}
		st, ct := acct.Status, acct.Contact
		ca.mu.Unlock()
		ca.reply(w, req, 200, map[string]any{"status": st, "contact": ct})
	case "newOrder":
		var in struct {
			Identifiers []ident `json:"identifiers"`
		}
		if err := json.Unmarshal(payload, &in); err != nil || len(in.Identifiers) == 0 {
			ca.problem(w, req, Prob(400, "malformed", "no identifiers"))
			return
		}
		ca.mu.Lock()
		o := &order{id: len(ca.orders) + 1, account: acct.URL, idents: in.Identifiers, status: "pending"}
		for _, id := range in.Identifiers {
			req.Identifiers = append(req.Identifiers, id.Value)
			az := &authz{id: len(ca.authzs) + 1, ident: id.Value, typ: id.Type, status: "pending", account: acct.URL}
			if ca.Opts.AutoValidate {
				az.status = "valid"
			}
			for _, t := range ca.Opts.ChallengeTypes {
				c := &chal{id: len(ca.chals) + 1, typ: t, token: randToken(), status: "pending", az: az}
				if ca.Opts.AutoValidate {
					c.status = "valid"
				}
				ca.chals = append(ca.chals, c)
				az.chals = append(az.chals, c)
			}
			ca.authzs = append(ca.authzs, az)
			o.authzs = append(o.authzs, az)
		}
		ca.orders = append(ca.orders, o)
		ca.refreshOrder(o)
		js := ca.orderJSON(o)
		ca.mu.Unlock()
		w.Header().Set("Location", fmt.Sprintf("%s/order/%d", ca.Base, o.id))
		ca.reply(w, req, 201, js)
	case "order":
		ca.mu.Lock()
		o := ca.orderByID(lastInt(hr.URL.Path))
		var js any
		if o != nil && o.account == acct.URL {
			ca.refreshOrder(o)
			js = ca.orderJSON(o)
		}
		ca.mu.Unlock()
		if js == nil {
			ca.problem(w, req, Prob(404, "malformed", "no such order"))
			return
		}
		ca.reply(w, req, 200, js)
	case "authz":
		ca.mu.Lock()
		var az *authz
		if n := lastInt(hr.URL.Path); n >= 1 && n <= len(ca.authzs) {
			az = ca.authzs[n-1]
		}
		var js any
		if az != nil && az.account == acct.URL {
			var in struct {
				Status string `json:"status"`
			}
			json.Unmarshal(payload, &in)
			if in.Status == "deactivated" {
				az.status = "deactivated"
			}
			js = ca.authzJSON(az)
		}
		ca.mu.Unlock()
		if js == nil {
			ca.problem(w, req, Prob(404, "malformed", "no such authorization"))
			return
		}
		ca.reply(w, req, 200, js)
	case "challenge":
		ca.mu.Lock()
		var c *chal
		if n := lastInt(hr.URL.Path); n >= 1 && n <= len(ca.chals) {
			c = ca.chals[n-1]
		}
		if c == nil || c.az.account != acct.URL {
			ca.mu.Unlock()
			ca.problem(w, req, Prob(404, "malformed", "no such challenge"))
			return
		}
		start := c.status == "pending" && c.az.status == "pending"
		if start {
			c.status = "processing"
		}
		tp := acct.Thumbprint
		ca.mu.Unlock()
		if start {
			ca.validate(c, tp) // synchronous: the answer already carries the outcome
		}
		ca.mu.Lock()
		js := ca.chalJSON(c)
		ca.mu.Unlock()
		w.Header().Add("Link", fmt.Sprintf("<%s/authz/%d>;rel=\"up\"", ca.Base, c.az.id))
		ca.reply(w, req, 200, js)
	case "finalize":
		ca.mu.Lock()
		o := ca.orderByID(lastInt(hr.URL.Path))
		if o != nil {
			ca.refreshOrder(o)
		}
		ca.mu.Unlock()
		if o == nil || o.account != acct.URL {
			ca.problem(w, req, Prob(404, "malformed", "no such order"))
			return
		}
		if o.status != "ready" {
			ca.problem(w, req, Prob(403, "orderNotReady", "order is "+o.status))
			return
		}
		var in struct {
			CSR string `json:"csr"`
		}
		json.Unmarshal(payload, &in)
		der, err := base64.RawURLEncoding.DecodeString(in.CSR)
		var csr *x509.CertificateRequest
		if err == nil {
			csr, err = x509.ParseCertificateRequest(der)
		}
		if err == nil {
			err = csr.CheckSignature()
		}
		if err != nil {
			ca.problem(w, req, Prob(400, "badCSR", err.Error()))
			return
		}
		var names []string
		names = append(names, csr.DNSNames...)
		for _, ip := range csr.IPAddresses {
			names = append(names, ip.String())
		}
		life := ca.Opts.Lifetime
		if life == 0 {
			life = 90 * 24 * time.Hour
		}
		nb := time.Now().Add(-time.Minute)
		chain, _, _, err := ca.Signer.Leaf(doubles.LeafOpts{Names: names, Pub: csr.PublicKey, NotBefore: nb, NotAfter: nb.Add(life)})
		if err != nil {
			ca.problem(w, req, Prob(500, "serverInternal", err.Error()))
			return
		}
		ca.mu.Lock()
		ca.certs = append(ca.certs, chain)
		o.certID = len(ca.certs)
		o.status = "valid"
		js := ca.orderJSON(o)
		ca.mu.Unlock()
		w.Header().Set("Location", fmt.Sprintf("%s/order/%d", ca.Base, o.id))
		ca.reply(w, req, 200, js)
	case "cert":
		ca.mu.Lock()
		n := lastInt(hr.URL.Path)
		var chain []byte
		if n >= 1 && n <= len(ca.certs) {
			chain = ca.certs[n-1]
		}
		ca.mu.Unlock()
		if chain == nil {
			ca.problem(w, req, Prob(404, "malformed", "no such certificate"))
			return
		}
		req.Status = 200
		ca.finish(req)
		w.Header().Set("Content-Type", "application/pem-certificate-chain")
		w.WriteHeader(200)
		w.Write(chain)
	case "revokeCert":
		var in struct {
			Certificate string `json:"certificate"`
			Reason      int    `json:"reason"`
		}
		json.Unmarshal(payload, &in)
		der, err := base64.RawURLEncoding.DecodeString(in.Certificate)
		var c *x509.Certificate
		if err == nil {
			c, err = x509.ParseCertificate(der)
		}
		if err != nil {
			ca.problem(w, req, Prob(400, "malformed", "bad certificate"))
			return
		}
		ser := hex.EncodeToString(c.SerialNumber.Bytes())
		ca.mu.Lock()
		for _, s := range ca.revoked {
			if s == ser {
				ca.mu.Unlock()
				ca.problem(w, req, Prob(400, "alreadyRevoked", ser))
				return
			}
		}
		ca.revoked = append(ca.revoked, ser)
		ca.mu.Unlock()
		req.Status = 200
		ca.finish(req)
		w.WriteHeader(200)
	default:
		ca.problem(w, req, Prob(404, "malformed", "unsupported"))
	}
}

func randToken() string {
	b := make([]byte, 16)
	rand.Read(b)
	return base64.RawURLEncoding.EncodeToString(b)
}

func (ca *CA) orderByID(n int) *order {
	if n >= 1 && n <= len(ca.orders) {
		return ca.orders[n-1]
	}
	return nil
}

// refreshOrder derives the order status from its authorizations (mu held).
func (ca *CA) refreshOrder(o *order) {
	if o.status == "valid" || o.status == "invalid" {
		return
	}
	all := true
	for _, az := range o.authzs {
		switch az.status {
		case "valid":
		case "pending":
			all = false
		default:
			o.status = "invalid"
			return
		}
	}
	if all {
		o.status = "ready"
	}
}

func (ca *CA) orderJSON(o *order) map[string]any {
	var azs []string
	for _, az := range o.authzs {
		azs = append(azs, fmt.Sprintf("%s/authz/%d", ca.Base, az.id))
	}
	m := map[string]any{"status": o.status, "expires": time.Now().Add(24 * time.Hour).UTC().Format(time.RFC3339),
		"identifiers": o.idents, "authorizations": azs, "finalize": fmt.Sprintf("%s/finalize/%d", ca.Base, o.id)}
	if o.certID != 0 {
		m["certificate"] = fmt.Sprintf("%s/cert/%d", ca.Base, o.certID)
	}
	return m
}

func (ca *CA) chalJSON(c *chal) map[string]any {
	m := map[string]any{"type": c.typ, "url": fmt.Sprintf("%s/chal/%d", ca.Base, c.id), "status": c.status, "token": c.token}
	if c.err != nil {
		m["error"] = c.err
	}
	return m
}

func (ca *CA) authzJSON(az *authz) map[string]any {
	var cs []any
	for _, c := range az.chals {
		cs = append(cs, ca.chalJSON(c))
	}
	ident, wildcard := az.ident, false
	if strings.HasPrefix(ident, "*.") {
		ident, wildcard = ident[2:], true
	}
	m := map[string]any{"identifier": ident2(az.typ, ident), "status": az.status,
		"expires": time.Now().Add(24 * time.Hour).UTC().Format(time.RFC3339), "challenges": cs}
	if wildcard {
		m["wildcard"] = true
	}
	return m
}

func ident2(t, v string) ident { return ident{Type: t, Value: v} }

// ---------------------------------------------------------------- validation

var idPEACMEIdentifierV1 = asn1.ObjectIdentifier{1, 3, 6, 1, 5, 5, 7, 1, 31}

func (ca *CA) validate(c *chal, thumbprint string) {
	if f := ca.validatorFor(); f != nil { // validate_ext.go: the harness validates (per-order targets, IP identifiers)
		ca.setOutcome(c, f(ca.validationOf(c, thumbprint)))
		return
	}
	keyAuth := c.token + "." + thumbprint
	name := strings.TrimPrefix(c.az.ident, "*.")
	var perr *Problem
	ctx, cancel := context.WithTimeout(context.Background(), 5*time.Second)
	defer cancel()
	switch c.typ {
	case "http-01":
		addr := ca.Opts.HTTP01Addr
		if addr == "" {
			addr = net.JoinHostPort(name, "80")
		}
		rq, _ := http.NewRequestWithContext(ctx, "GET", "http://"+addr+"/.well-known/acme-challenge/"+c.token, nil)
		rq.Host = name
		resp, err := (&http.Client{Transport: &http.Transport{DisableKeepAlives: true}}).Do(rq)
		if err != nil {
			perr = Prob(400, "connection", err.Error())
			break
		}
		b, _ := io.ReadAll(io.LimitReader(resp.Body, 4096))
		resp.Body.Close()
		if resp.StatusCode != 200 || strings.TrimSpace(string(b)) != keyAuth {
			perr = Prob(403, "unauthorized", fmt.Sprintf("http-01: status %d, body %q", resp.StatusCode, string(b)))
		}
	case "tls-alpn-01":
		addr := ca.Opts.TLSALPN01Addr
		if addr == "" {
			addr = net.JoinHostPort(name, "443")
		}
		d := tls.Dialer{Config: &tls.Config{ServerName: name, NextProtos: []string{"acme-tls/1"}, InsecureSkipVerify: true}}
		conn, err := d.DialContext(ctx, "tcp", addr)
		if err != nil {
			perr = Prob(400, "tls", err.Error())
			break
		}
		st := conn.(*tls.Conn).ConnectionState()
		conn.Close()
		want := sha256.Sum256([]byte(keyAuth))
		wantDER, _ := asn1.Marshal(want[:])
		ok := false
		if st.NegotiatedProtocol == "acme-tls/1" && len(st.PeerCertificates) > 0 {
			for _, e := range st.PeerCertificates[0].Extensions {
				if e.Id.Equal(idPEACMEIdentifierV1) && string(e.Value) == string(wantDER) {
					ok = true
				}
			}
		}
		if !ok {
			perr = Prob(403, "unauthorized", "tls-alpn-01: no matching acmeIdentifier extension")
		}
	case "dns-01":
		h := sha256.Sum256([]byte(keyAuth))
		want := base64.RawURLEncoding.EncodeToString(h[:])
		ok := false
		if ca.Opts.DNS01Lookup != nil {
			for _, v := range ca.Opts.DNS01Lookup("_acme-challenge." + name) {
				if v == want {
					ok = true
				}
			}
		}
		if !ok {
			perr = Prob(403, "unauthorized", "dns-01: TXT record not found")
		}
	default:
		perr = Prob(400, "malformed", "unsupported challenge type")
	}
	ca.mu.Lock()
	if perr == nil {
		c.status, c.az.status = "valid", "valid"
	} else {
		c.status, c.err, c.az.status = "invalid", perr, "invalid"
	}
	ca.mu.Unlock()
}

// PEMOf is a small helper: first certificate of a PEM chain.
func PEMOf(chain []byte) *x509.Certificate {
	b, _ := pem.Decode(chain)
	if b == nil {
		return nil
	}
	c, _ := x509.ParseCertificate(b.Bytes)
	return c
}
