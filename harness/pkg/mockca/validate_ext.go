package mockca

// Extension for the end-to-end ties of C15 / C16: the harness can take over the validation of
// challenges (SetValidator) — it knows which address each order's solver listens on, how an IP
// identifier is validated (RFC 8738: SNI = reverse-mapping name) and where the DNS double is — and
// it gets the building blocks of a conforming validation (FetchHTTP01, DialTLSALPN01) and a view of
// the challenges the CA has handed out (Challenges). Without SetValidator nothing changes.

import (
	"context"
	"crypto/sha256"
	"crypto/tls"
	"encoding/asn1"
	"fmt"
	"io"
	"net"
	"net/http"
	"strings"
	"sync"
	"time"
)

// Validation is one challenge the CA is asked to validate.
type Validation struct {
	ChallengeID int
	Type        string // http-01 | tls-alpn-01 | dns-01
	IdentType   string // dns | ip
	Ident       string // identifier value, without a wildcard prefix
	Wildcard    bool
	Token       string
	KeyAuth     string // token "." thumbprint of the account key
	Account     string // account URL
}

var validators sync.Map // *CA -> func(Validation) *Problem

// SetValidator makes f decide every validation of ca (nil problem = valid). f runs in the
// handler of the challenge POST, outside the CA's lock, and may block.
func (ca *CA) SetValidator(f func(Validation) *Problem) {
	if f == nil {
		validators.Delete(ca)
		return
	}
	validators.Store(ca, f)
}

func (ca *CA) validatorFor() func(Validation) *Problem {
	if v, ok := validators.Load(ca); ok {
		return v.(func(Validation) *Problem)
	}
	return nil
}

func (ca *CA) validationOf(c *chal, thumbprint string) Validation {
	ca.mu.Lock()
	defer ca.mu.Unlock()
	return Validation{ChallengeID: c.id, Type: c.typ, IdentType: c.az.typ, Ident: strings.TrimPrefix(c.az.ident, "*."),
		Wildcard: strings.HasPrefix(c.az.ident, "*."), Token: c.token, KeyAuth: c.token + "." + thumbprint, Account: c.az.account}
}

func (ca *CA) setOutcome(c *chal, perr *Problem) {
	ca.mu.Lock()
	if perr == nil {
		c.status, c.az.status = "valid", "valid"
	} else {
		c.status, c.err, c.az.status = "invalid", perr, "invalid"
	}
	ca.mu.Unlock()
}

// ChallengeInfo is a challenge the CA has handed out.
type ChallengeInfo struct {
	ID        int
	Type      string
	IdentType string
	Ident     string // as ordered (with a wildcard prefix, if any)
	Token     string
	Status    string
	Account   string // account URL
	AuthzID   int
}

// Challenges lists every challenge created so far, in creation order.
func (ca *CA) Challenges() []ChallengeInfo {
	ca.mu.Lock()
	defer ca.mu.Unlock()
	out := make([]ChallengeInfo, 0, len(ca.chals))
	for _, c := range ca.chals {
		out = append(out, ChallengeInfo{ID: c.id, Type: c.typ, IdentType: c.az.typ, Ident: c.az.ident, Token: c.token, Status: c.status, Account: c.az.account, AuthzID: c.az.id})
	}
	return out
}

// ThumbprintOf returns the key thumbprint of the account with the given URL ("" unknown).
func (ca *CA) ThumbprintOf(accountURL string) string {
	ca.mu.Lock()
	defer ca.mu.Unlock()
	for _, a := range ca.accounts {
		if a.URL == accountURL {
			return a.Thumbprint
		}
	}
	return ""
}

// FetchHTTP01 does what a CA does for http-01 (RFC 8555 8.3): GET
// http://addr/.well-known/acme-challenge/<token> with the given Host header, no keep-alive, no
// redirects followed. It returns the status and the body (trailing white space removed).
func FetchHTTP01(ctx context.Context, addr, host, token string) (int, string, error) {
	rq, err := http.NewRequestWithContext(ctx, "GET", "http://"+addr+"/.well-known/acme-challenge/"+token, nil)
	if err != nil {
		return 0, "", err
	}
	rq.Host = host
	cl := &http.Client{Transport: &http.Transport{DisableKeepAlives: true, Proxy: nil},
		CheckRedirect: func(*http.Request, []*http.Request) error { return http.ErrUseLastResponse }}
	resp, err := cl.Do(rq)
	if err != nil {
		return 0, "", err
	}
	defer resp.Body.Close()
	b, _ := io.ReadAll(io.LimitReader(resp.Body, 4096))
	return resp.StatusCode, strings.TrimRight(string(b), " \t\r\n"), nil
}

// ALPNResult is what a tls-alpn-01 validation connection saw.
type ALPNResult struct {
	Proto      string   // negotiated protocol
	DNSNames   []string // of the presented certificate
	IPs        []string
	AcmeID     []byte // content of the acmeIdentifier extension (the 32-byte digest), nil if absent
	Critical   bool   // the extension is marked critical
	SelfSigned bool
}

// DialTLSALPN01 does what a CA does for tls-alpn-01 (RFC 8737 3): connect to addr, offer only
// "acme-tls/1", SNI = sni (the identifier, or the reverse-mapping name of an IP identifier), and
// look at the certificate that is presented.
func DialTLSALPN01(ctx context.Context, addr, sni string) (*ALPNResult, error) {
	d := tls.Dialer{Config: &tls.Config{ServerName: sni, NextProtos: []string{"acme-tls/1"}, InsecureSkipVerify: true}}
	conn, err := d.DialContext(ctx, "tcp", addr)
	if err != nil {
		return nil, err
	}
	st := conn.(*tls.Conn).ConnectionState()
	conn.Close()
	res := &ALPNResult{Proto: st.NegotiatedProtocol}
	if len(st.PeerCertificates) == 0 {
		return res, nil
	}
	leaf := st.PeerCertificates[0]
	res.DNSNames = leaf.DNSNames
	for _, ip := range leaf.IPAddresses {
		res.IPs = append(res.IPs, ip.String())
	}
	res.SelfSigned = leaf.CheckSignatureFrom(leaf) == nil
	for _, e := range leaf.Extensions {
		if e.Id.Equal(idPEACMEIdentifierV1) {
			var digest []byte
			if _, err := asn1.Unmarshal(e.Value, &digest); err == nil {
				res.AcmeID, res.Critical = digest, e.Critical
			}
		}
	}
	return res, nil
}

// CheckTLSALPN01 judges an ALPNResult as RFC 8737 3 says: protocol acme-tls/1, a critical
// acmeIdentifier extension holding SHA-256(keyAuth), and the identifier as the only SAN. For an IP
// identifier RFC 8738 6 wants an iPAddress SAN; acmez v3.1.2 (TLSALPN01ChallengeCert, not
// certmagic's code) writes the address into a dNSName SAN, which is accepted unless strictIPSAN.
func CheckTLSALPN01(res *ALPNResult, identType, ident, keyAuth string, strictIPSAN bool) *Problem {
	want := sha256.Sum256([]byte(keyAuth))
	switch {
	case res.Proto != "acme-tls/1":
		return Prob(403, "unauthorized", fmt.Sprintf("tls-alpn-01: negotiated protocol %q", res.Proto))
	case res.AcmeID == nil:
		return Prob(403, "unauthorized", "tls-alpn-01: no acmeIdentifier extension")
	case string(res.AcmeID) != string(want[:]):
		return Prob(403, "unauthorized", "tls-alpn-01: acmeIdentifier does not hold the digest of the key authorization")
	case !res.Critical:
		return Prob(403, "unauthorized", "tls-alpn-01: acmeIdentifier extension is not critical")
	}
	if identType == "ip" && !strictIPSAN && len(res.IPs) == 0 && len(res.DNSNames) == 1 && sameIP(res.DNSNames[0], ident) {
		return nil
	}
	if identType == "ip" {
		if len(res.IPs) != 1 || len(res.DNSNames) != 0 || !sameIP(res.IPs[0], ident) {
			return Prob(403, "unauthorized", fmt.Sprintf("tls-alpn-01: SAN is %v %v, want only IP %s", res.DNSNames, res.IPs, ident))
		}
	} else if len(res.DNSNames) != 1 || len(res.IPs) != 0 || !strings.EqualFold(res.DNSNames[0], ident) {
		return Prob(403, "unauthorized", fmt.Sprintf("tls-alpn-01: SAN is %v %v, want only DNS name %s", res.DNSNames, res.IPs, ident))
	}
	return nil
}

func sameIP(a, b string) bool {
	x, y := parseIP(a), parseIP(b)
	return x != nil && y != nil && x.Equal(y)
}

// ValidationTimeout bounds one validation attempt of the helpers' callers.
const ValidationTimeout = 10 * time.Second

func parseIP(s string) net.IP { return net.ParseIP(s) }
