package mockca

import (
	"context"
	"strings"
	"testing"
	"time"

	"github.com/caddyserver/certmagic"
	"go.uber.org/zap"

	"verifharness/pkg/doubles"
)

func newIssuer(t *testing.T, b *doubles.MemBackend, inst string, tmpl certmagic.ACMEIssuer) (*certmagic.Config, *certmagic.ACMEIssuer, func()) {
	cfg, cache := doubles.NewConfig(b.Handle(inst), certmagic.Config{}, certmagic.CacheOptions{})
	tmpl.Logger = zap.NewNop()
	iss := certmagic.NewACMEIssuer(cfg, tmpl)
	cfg.Issuers = []certmagic.Issuer{iss}
	return cfg, iss, cache.Stop
}

func TestIssueAuto(t *testing.T) {
	for _, useTLS := range []bool{true, false} {
		ca := New(Options{TLS: useTLS, AutoValidate: true})
		b := doubles.NewMemBackend()
		cfg, _, stop := newIssuer(t, b, "i1", certmagic.ACMEIssuer{CA: ca.URL, Email: "a@example.com", Agreed: true, TrustedRoots: ca.Roots()})
		t0 := time.Now()
		if err := cfg.ObtainCertSync(context.Background(), "a.example.com"); err != nil {
			t.Fatal(err)
		}
		if err := cfg.ObtainCertSync(context.Background(), "b.example.com"); err != nil {
			t.Fatal(err)
		}
		t.Logf("tls=%v two orders in %v; accounts=%d keys=%v", useTLS, time.Since(t0), len(ca.Accounts()), b.Keys())
		if len(ca.Created()) != 1 {
			t.Fatalf("created %d accounts", len(ca.Created()))
		}
		for _, r := range ca.Requests() {
			if r.TLS != useTLS {
				t.Fatalf("request %v tls=%v", r.Kind, r.TLS)
			}
		}
		stop()
		ca.Close()
	}
}

func TestIssueHTTP01(t *testing.T) {
	ca := New(Options{TLS: true, ChallengeTypes: []string{"http-01"}, HTTP01Addr: "127.0.0.1:25080"})
	defer ca.Close()
	b := doubles.NewMemBackend()
	cfg, _, stop := newIssuer(t, b, "i1", certmagic.ACMEIssuer{CA: ca.URL, Email: "a@example.com", Agreed: true, TrustedRoots: ca.Roots(),
		DisableTLSALPNChallenge: true, ListenHost: "127.0.0.1", AltHTTPPort: 25080})
	defer stop()
	t0 := time.Now()
	if err := cfg.ObtainCertSync(context.Background(), "h.example.com"); err != nil {
		t.Fatal(err)
	}
	t.Logf("http-01 order in %v", time.Since(t0))
	for _, k := range b.Keys() {
		if strings.Contains(k, "challenge_tokens") {
			t.Fatalf("left behind: %s", k)
		}
	}
}

func TestIssueTLSALPN01(t *testing.T) {
	ca := New(Options{TLS: true, ChallengeTypes: []string{"tls-alpn-01"}, TLSALPN01Addr: "127.0.0.1:25443"})
	defer ca.Close()
	b := doubles.NewMemBackend()
	cfg, _, stop := newIssuer(t, b, "i1", certmagic.ACMEIssuer{CA: ca.URL, Email: "a@example.com", Agreed: true, TrustedRoots: ca.Roots(),
		DisableHTTPChallenge: true, ListenHost: "127.0.0.1", AltTLSALPNPort: 25443})
	defer stop()
	if err := cfg.ObtainCertSync(context.Background(), "t.example.com"); err != nil {
		t.Fatal(err)
	}
}

// what does the real code do when the CA has been re-installed?
func TestReset(t *testing.T) {
	ca := New(Options{TLS: true, AutoValidate: true})
	defer ca.Close()
	b := doubles.NewMemBackend()
	cfg, _, stop := newIssuer(t, b, "i1", certmagic.ACMEIssuer{CA: ca.URL, Email: "a@example.com", Agreed: true, TrustedRoots: ca.Roots()})
	defer stop()
	if err := cfg.ObtainCertSync(context.Background(), "a.example.com"); err != nil {
		t.Fatal(err)
	}
	ca.Reset()
	func() {
		defer func() {
			if r := recover(); r != nil {
				t.Logf("PANIC: %v", r)
			}
		}()
		err := cfg.ObtainCertSync(context.Background(), "b.example.com")
		t.Logf("after reset: err=%v", err)
	}()
	for _, r := range ca.Requests() {
		if r.Kind == "newAccount" || r.Kind == "newOrder" {
			t.Logf("%d %s kid=%s tp=%.8s created=%v status=%d %s", r.Seq, r.Kind, r.Kid, r.Thumbprint, r.Created, r.Status, r.Problem)
		}
	}
	t.Logf("accounts: %+v", len(ca.Accounts()))
}
