package mockca

import (
	"crypto/hmac"
	"crypto/sha256"
	"encoding/base64"
	"encoding/json"
	"sync"
)

// EABSeen describes an externalAccountBinding object found in a request payload (RFC 8555 §7.3.4).
type EABSeen struct {
	Kid, URL, Alg string
	MacOK         bool // the HMAC verifies with the key registered for Kid (SetEABKey)
	JWKOK         bool // its payload is the very JWK that signs the outer request
}

var (
	eabMu   sync.Mutex
	eabKeys = map[*CA]map[string][]byte{}
)

// SetEABKey registers the MAC key of an external account at this CA.
func (ca *CA) SetEABKey(kid string, key []byte) {
	eabMu.Lock()
	defer eabMu.Unlock()
	if eabKeys[ca] == nil {
		eabKeys[ca] = map[string][]byte{}
	}
	eabKeys[ca][kid] = key
}

func (ca *CA) seenEAB(payload []byte, outer *jwk) *EABSeen {
	var probe struct {
		EAB *struct{ Protected, Payload, Signature string } `json:"externalAccountBinding"`
	}
	if json.Unmarshal(payload, &probe) != nil || probe.EAB == nil {
		return nil
	}
	seen := &EABSeen{}
	ph, _ := base64.RawURLEncoding.DecodeString(probe.EAB.Protected)
	var hd struct{ Alg, Kid, URL string }
	json.Unmarshal(ph, &hd)
	seen.Kid, seen.URL, seen.Alg = hd.Kid, hd.URL, hd.Alg
	eabMu.Lock()
	key := eabKeys[ca][hd.Kid]
	eabMu.Unlock()
	if key != nil && hd.Alg == "HS256" {
		m := hmac.New(sha256.New, key)
		m.Write([]byte(probe.EAB.Protected + "." + probe.EAB.Payload))
		sig, _ := base64.RawURLEncoding.DecodeString(probe.EAB.Signature)
		seen.MacOK = hmac.Equal(m.Sum(nil), sig)
	}
	if outer != nil {
		pl, _ := base64.RawURLEncoding.DecodeString(probe.EAB.Payload)
		var inner jwk
		if json.Unmarshal(pl, &inner) == nil {
			seen.JWKOK = inner.thumbprint() == outer.thumbprint()
		}
	}
	return seen
}
