package mockca

import (
	"context"
	"crypto/ecdsa"
	"crypto/elliptic"
	"crypto/rand"
	"crypto/x509"
	"net/http"
	"net/http/httptest"
	"net/url"
	"sync"
	"testing"
	"time"

	"github.com/caddyserver/certmagic"

	"verifharness/pkg/doubles"
)

// TestCA = plain http to a public name: is it contacted?
func TestTestCAPlainHTTP(t *testing.T) {
	var mu sync.Mutex
	var seen []string
	proxy := httptest.NewServer(http.HandlerFunc(func(w http.ResponseWriter, r *http.Request) {
		mu.Lock()
		seen = append(seen, r.Method+" "+r.URL.String())
		mu.Unlock()
		w.WriteHeader(400)
	}))
	defer proxy.Close()
	pu, _ := url.Parse(proxy.URL)
	b := doubles.NewMemBackend()
	_, iss, stop := newIssuer(t, b, "i1", certmagic.ACMEIssuer{CA: "https://ca.public.example/dir", TestCA: "http://testca.public.example/dir",
		Email: "a@example.com", Agreed: true, HTTPProxy: func(*http.Request) (*url.URL, error) { return pu, nil }})
	defer stop()
	key, _ := ecdsa.GenerateKey(elliptic.P256(), rand.Reader)
	der, _ := x509.CreateCertificateRequest(rand.Reader, &x509.CertificateRequest{DNSNames: []string{"a.example.com"}}, key)
	csr, _ := x509.ParseCertificateRequest(der)
	attempts := 1
	ctx, cancel := context.WithTimeout(context.WithValue(context.Background(), certmagic.AttemptsCtxKey, &attempts), 2*time.Second)
	defer cancel()
	_, err := iss.Issue(ctx, csr)
	t.Logf("err=%v", err)
	t.Logf("proxy saw: %v", seen)
}
