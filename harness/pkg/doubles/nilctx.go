package doubles

import (
	"context"

	"github.com/caddyserver/certmagic"
)

// NilCtxStorage forwards to S, replacing a nil context by context.Background(). Synthetic
// tls.ClientHelloInfo values have a nil Context(), which certmagic's TLS-ALPN branch passes to
// Storage.Load as it is; MemStorage (like any context-aware storage) dereferences it.
type NilCtxStorage struct{ S certmagic.Storage }

func bg(ctx context.Context) context.Context {
	if ctx == nil {
		return context.Background()
	}
	return ctx
}

func (n NilCtxStorage) Lock(ctx context.Context, name string) error { return n.S.Lock(bg(ctx), name) }
func (n NilCtxStorage) Unlock(ctx context.Context, name string) error {
	return n.S.Unlock(bg(ctx), name)
}
func (n NilCtxStorage) Store(ctx context.Context, key string, value []byte) error {
	return n.S.Store(bg(ctx), key, value)
}
func (n NilCtxStorage) Load(ctx context.Context, key string) ([]byte, error) {
	return n.S.Load(bg(ctx), key)
}
func (n NilCtxStorage) Delete(ctx context.Context, key string) error { return n.S.Delete(bg(ctx), key) }
func (n NilCtxStorage) Exists(ctx context.Context, key string) bool  { return n.S.Exists(bg(ctx), key) }
func (n NilCtxStorage) List(ctx context.Context, path string, recursive bool) ([]string, error) {
	return n.S.List(bg(ctx), path, recursive)
}
func (n NilCtxStorage) Stat(ctx context.Context, key string) (certmagic.KeyInfo, error) {
	return n.S.Stat(bg(ctx), key)
}

var _ certmagic.Storage = NilCtxStorage{}
