package doubles

import (
	"context"
	"fmt"
	"sort"
	"sync"
	"time"

	"github.com/libdns/libdns"
	"github.com/mholt/acmez/v3/acme"
)

// NoopSolver is an acmez.Solver that records its calls and does nothing else.
type NoopSolver struct {
	mu                 sync.Mutex
	Presents, CleanUps int
	FailPresent        error
	FailCleanUp        error // returned by CleanUp (after counting the call)
}

func (n *NoopSolver) Present(context.Context, acme.Challenge) error {
	n.mu.Lock()
	defer n.mu.Unlock()
	n.Presents++
	return n.FailPresent
}
func (n *NoopSolver) CleanUp(context.Context, acme.Challenge) error {
	n.mu.Lock()
	defer n.mu.Unlock()
	n.CleanUps++
	return n.FailCleanUp
}

// DNSRecord is one record held by the DNSProviderDouble.
type DNSRecord struct {
	Zone, Name, Type, Data string
	TTL                    time.Duration // as stored by the provider (after normalisation)
}

// DNSCall is one call on the provider double.
type DNSCall struct {
	Kind   string // Append | Delete
	Zone   string
	Recs   []DNSRecord
	CtxErr string // ctx.Err() when the call was made
	Err    string
}

// DNSProviderDouble implements certmagic.DNSProvider (libdns RecordAppender + RecordDeleter)
// over an in-memory multiset of records. It honours the context (a cancelled context fails the
// call, as a properly implemented provider does) and can be told to fail the next calls.
//
// It keeps the libdns contract to the letter: AppendRecords returns the records AS CREATED — with
// MinTTL > 0 the provider normalises (a TTL below the minimum, or none, is stored as the minimum, as
// real providers do) — and DeleteRecords deletes only what matches the input exactly in name, type,
// TTL and value, where an empty type, a zero TTL or an empty value match anything; input that
// matches nothing is silently ignored (no error).
type DNSProviderDouble struct {
	mu      sync.Mutex
	Records []DNSRecord
	Calls   []DNSCall
	// FailAppend / FailDelete: the next call of that kind fails (and has no effect) while > 0.
	FailAppend, FailDelete int
	// MinTTL > 0: normalising mode, records are stored (and reported) with at least this TTL.
	MinTTL time.Duration
	// Ignored counts records handed to DeleteRecords that matched nothing.
	Ignored int
}

func (p *DNSProviderDouble) AppendRecords(ctx context.Context, zone string, recs []libdns.Record) ([]libdns.Record, error) {
	p.mu.Lock()
	defer p.mu.Unlock()
	call := DNSCall{Kind: "Append", Zone: zone}
	var created []libdns.Record
	for _, r := range recs {
		rr := r.RR()
		if p.MinTTL > 0 && rr.TTL < p.MinTTL {
			rr.TTL = p.MinTTL
		}
		call.Recs = append(call.Recs, DNSRecord{Zone: zone, Name: rr.Name, Type: rr.Type, Data: rr.Data, TTL: rr.TTL})
		created = append(created, rr)
	}
	var err error
	if cerr := ctx.Err(); cerr != nil {
		call.CtxErr = cerr.Error()
		err = cerr
	} else if p.FailAppend > 0 {
		p.FailAppend--
		err = fmt.Errorf("provider double: injected append failure")
	}
	if err != nil {
		call.Err = err.Error()
		p.Calls = append(p.Calls, call)
		return nil, err
	}
	p.Records = append(p.Records, call.Recs...)
	p.Calls = append(p.Calls, call)
	return created, nil
}

func (p *DNSProviderDouble) DeleteRecords(ctx context.Context, zone string, recs []libdns.Record) ([]libdns.Record, error) {
	p.mu.Lock()
	defer p.mu.Unlock()
	call := DNSCall{Kind: "Delete", Zone: zone}
	for _, r := range recs {
		rr := r.RR()
		call.Recs = append(call.Recs, DNSRecord{Zone: zone, Name: rr.Name, Type: rr.Type, Data: rr.Data, TTL: rr.TTL})
	}
	var err error
	if cerr := ctx.Err(); cerr != nil {
		call.CtxErr = cerr.Error()
		err = cerr
	} else if p.FailDelete > 0 {
		p.FailDelete--
		err = fmt.Errorf("provider double: injected delete failure")
	}
	if err != nil {
		call.Err = err.Error()
		p.Calls = append(p.Calls, call)
		return nil, err
	}
	var deleted []libdns.Record
	for _, want := range call.Recs {
		matches := func(have DNSRecord) bool {
			return have.Zone == want.Zone && have.Name == want.Name &&
				(want.Type == "" || have.Type == want.Type) &&
				(want.TTL == 0 || have.TTL == want.TTL) &&
				(want.Data == "" || have.Data == want.Data)
		}
		wildcard := want.Type == "" || want.TTL == 0 || want.Data == ""
		n := 0
		var kept []DNSRecord
		for _, have := range p.Records {
			if matches(have) && (wildcard || n == 0) {
				n++
				deleted = append(deleted, libdns.RR{Name: have.Name, Type: have.Type, Data: have.Data, TTL: have.TTL})
				continue
			}
			kept = append(kept, have)
		}
		p.Records = kept
		if n == 0 {
			p.Ignored++ // libdns: input that does not exist in the zone is silently ignored
		}
	}
	p.Calls = append(p.Calls, call)
	return deleted, nil
}

// Snapshot returns the records currently held, sorted.
func (p *DNSProviderDouble) Snapshot() []DNSRecord {
	p.mu.Lock()
	defer p.mu.Unlock()
	out := append([]DNSRecord(nil), p.Records...)
	sort.Slice(out, func(i, j int) bool {
		a, b := out[i], out[j]
		if a.Zone != b.Zone {
			return a.Zone < b.Zone
		}
		if a.Name != b.Name {
			return a.Name < b.Name
		}
		return a.Data < b.Data
	})
	return out
}
