package doubles

import (
	"context"
	"fmt"
	"sort"
	"sync"

	"github.com/libdns/libdns"
	"github.com/mholt/acmez/v3/acme"
)

// NoopSolver is an acmez.Solver that records its calls and does nothing else.
type NoopSolver struct {
	mu                 sync.Mutex
	Presents, CleanUps int
	FailPresent        error
	FailCleanUp        error // returned by CleanUp (after counting the call)
}

func (n *NoopSolver) Present(context.Context, acme.Challenge) error {
	n.mu.Lock()
	defer n.mu.Unlock()
	n.Presents++
	return n.FailPresent
}
func (n *NoopSolver) CleanUp(context.Context, acme.Challenge) error {
	n.mu.Lock()
	defer n.mu.Unlock()
	n.CleanUps++
	return n.FailCleanUp
}

// DNSRecord is one record held by the DNSProviderDouble.
type DNSRecord struct{ Zone, Name, Type, Data string }

// DNSCall is one call on the provider double.
type DNSCall struct {
	Kind   string // Append | Delete
	Zone   string
	Recs   []DNSRecord
	CtxErr string // ctx.Err() when the call was made
	Err    string
}

// DNSProviderDouble implements certmagic.DNSProvider (libdns RecordAppender + RecordDeleter)
// over an in-memory multiset of records. It honours the context (a cancelled context fails the
// call, as a properly implemented provider does) and can be told to fail the next calls.
type DNSProviderDouble struct {
	mu      sync.Mutex
	Records []DNSRecord
	Calls   []DNSCall
	// FailAppend / FailDelete: the next call of that kind fails (and has no effect) while > 0.
	FailAppend, FailDelete int
}

func (p *DNSProviderDouble) AppendRecords(ctx context.Context, zone string, recs []libdns.Record) ([]libdns.Record, error) {
	p.mu.Lock()
	defer p.mu.Unlock()
	call := DNSCall{Kind: "Append", Zone: zone}
	for _, r := range recs {
		rr := r.RR()
		call.Recs = append(call.Recs, DNSRecord{zone, rr.Name, rr.Type, rr.Data})
	}
	var err error
	if cerr := ctx.Err(); cerr != nil {
		call.CtxErr = cerr.Error()
		err = cerr
	} else if p.FailAppend > 0 {
		p.FailAppend--
		err = fmt.Errorf("provider double: injected append failure")
	}
	if err != nil {
		call.Err = err.Error()
		p.Calls = append(p.Calls, call)
		return nil, err
	}
	p.Records = append(p.Records, call.Recs...)
	p.Calls = append(p.Calls, call)
	return recs, nil
}

func (p *DNSProviderDouble) DeleteRecords(ctx context.Context, zone string, recs []libdns.Record) ([]libdns.Record, error) {
	p.mu.Lock()
	defer p.mu.Unlock()
	call := DNSCall{Kind: "Delete", Zone: zone}
	for _, r := range recs {
		rr := r.RR()
		call.Recs = append(call.Recs, DNSRecord{zone, rr.Name, rr.Type, rr.Data})
	}
	var err error
	if cerr := ctx.Err(); cerr != nil {
		call.CtxErr = cerr.Error()
		err = cerr
	} else if p.FailDelete > 0 {
		p.FailDelete--
		err = fmt.Errorf("provider double: injected delete failure")
	}
	if err != nil {
		call.Err = err.Error()
		p.Calls = append(p.Calls, call)
		return nil, err
	}
	var deleted []libdns.Record
	for i, want := range call.Recs {
		// libdns: delete the records that match exactly; one stored record per requested record
		for k, have := range p.Records {
			if have == want {
				p.Records = append(p.Records[:k], p.Records[k+1:]...)
				deleted = append(deleted, recs[i])
				break
			}
		}
	}
	p.Calls = append(p.Calls, call)
	return deleted, nil
}

// Snapshot returns the records currently held, sorted.
func (p *DNSProviderDouble) Snapshot() []DNSRecord {
	p.mu.Lock()
	defer p.mu.Unlock()
	out := append([]DNSRecord(nil), p.Records...)
	sort.Slice(out, func(i, j int) bool {
		a, b := out[i], out[j]
		if a.Zone != b.Zone {
			return a.Zone < b.Zone
		}
		if a.Name != b.Name {
			return a.Name < b.Name
		}
		return a.Data < b.Data
	})
	return out
}
