package doubles

// At returns a copy of the op with sequence number seq (zero Op if out of range).
func (l *Log) At(seq int) Op {
	l.mu.Lock()
	defer l.mu.Unlock()
	if seq < 0 || seq >= len(l.Ops) {
		return Op{}
	}
	return l.Ops[seq]
}

// Len returns the number of ops logged so far.
func (l *Log) Len() int {
	l.mu.Lock()
	defer l.mu.Unlock()
	return len(l.Ops)
}

// SetHook installs the hook under the log's mutex.
func (l *Log) SetHook(h Hook) {
	l.mu.Lock()
	l.Hook = h
	l.mu.Unlock()
}

// LockOwner returns the instance holding the named lock ("" if free).
func (b *MemBackend) LockOwner(name string) string {
	b.mu.Lock()
	defer b.mu.Unlock()
	if _, ok := b.locks[name]; !ok {
		return ""
	}
	return b.Owner[name]
}
