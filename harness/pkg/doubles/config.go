package doubles

import (
	"crypto/tls"
	"net"

	"github.com/caddyserver/certmagic"
	"go.uber.org/zap"
)

// NewConfig builds a certmagic.Config (with its own Cache) on the given storage and issuers,
// the way all harnesses do. Stop the cache when done.
func NewConfig(st certmagic.Storage, tmpl certmagic.Config, opts certmagic.CacheOptions, iss ...certmagic.Issuer) (*certmagic.Config, *certmagic.Cache) {
	var cache *certmagic.Cache
	var cfg *certmagic.Config
	if opts.GetConfigForCert == nil {
		opts.GetConfigForCert = func(certmagic.Certificate) (*certmagic.Config, error) { return cfg, nil }
	}
	if opts.Logger == nil {
		opts.Logger = zap.NewNop()
	}
	cache = certmagic.NewCache(opts)
	tmpl.Storage = st
	if len(iss) > 0 {
		tmpl.Issuers = iss
	}
	if tmpl.Logger == nil {
		tmpl.Logger = zap.NewNop()
	}
	cfg = certmagic.New(cache, tmpl)
	return cfg, cache
}

// Hello builds a synthetic ClientHelloInfo with a non-nil Conn (certmagic's handshake logging
// dereferences it). Call the returned func to close the pipe.
func Hello(serverName string, protos ...string) (*tls.ClientHelloInfo, func()) {
	c1, c2 := net.Pipe()
	return &tls.ClientHelloInfo{ServerName: serverName, SupportedProtos: protos, Conn: c1,
			SupportedVersions: []uint16{tls.VersionTLS13, tls.VersionTLS12},
			SignatureSchemes:  []tls.SignatureScheme{tls.ECDSAWithP256AndSHA256, tls.PSSWithSHA256, tls.PKCS1WithSHA256, tls.Ed25519},
			CipherSuites:      []uint16{tls.TLS_AES_128_GCM_SHA256, tls.TLS_ECDHE_ECDSA_WITH_AES_128_GCM_SHA256, tls.TLS_ECDHE_RSA_WITH_AES_128_GCM_SHA256},
			SupportedCurves:   []tls.CurveID{tls.X25519, tls.CurveP256},
		}, func() {
			c1.Close()
			c2.Close()
		}
}
