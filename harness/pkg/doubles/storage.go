// Package doubles provides the test doubles shared by the correspondence harnesses:
// an in-memory certmagic.Storage (with Locker) whose every call is logged and passes through a
// programmable hook (fault injection, gating, panics), an Issuer double that signs CSRs with a
// harness CA, and certificate-making helpers.
package doubles

import (
	"context"
	"crypto/sha256"
	"encoding/hex"
	"fmt"
	"io/fs"
	"path"
	"sort"
	"strings"
	"sync"
	"time"

	"github.com/caddyserver/certmagic"
)

// Op is one call on a double, in the order the calls were made.
type Op struct {
	Seq    int
	Inst   string // instance label of the storage handle the call came through
	Kind   string // Store Load Delete Exists List Stat Lock Unlock | Issue Revoke PreCheck | Decision Event ...
	Key    string
	Digest string // short digest of the value written / read
	Err    string // "" on success
	CtxErr string // ctx.Err() when the call was made ("" if live)
}

// Hook is consulted before an operation takes effect. It may block (gate), return an error to
// inject a fault (the operation then has no effect), or panic.
type Hook func(op *Op) error

// Log collects operations from any number of doubles.
type Log struct {
	mu   sync.Mutex
	Ops  []Op
	Hook Hook
}

// Begin records an op, runs the hook (outside the log mutex) and returns the injected error.
func (l *Log) Begin(op Op) (int, error) {
	l.mu.Lock()
	op.Seq = len(l.Ops)
	l.Ops = append(l.Ops, op)
	h := l.Hook
	l.mu.Unlock()
	var err error
	if h != nil {
		err = h(&op)
	}
	if err != nil {
		l.SetErr(op.Seq, err)
	}
	return op.Seq, err
}

func (l *Log) SetErr(seq int, err error) {
	l.mu.Lock()
	if err != nil {
		l.Ops[seq].Err = err.Error()
	}
	l.mu.Unlock()
}
func (l *Log) SetDigest(seq int, d string) {
	l.mu.Lock()
	l.Ops[seq].Digest = d
	l.mu.Unlock()
}

// Snapshot returns a copy of the ops so far.
func (l *Log) Snapshot() []Op {
	l.mu.Lock()
	defer l.mu.Unlock()
	return append([]Op(nil), l.Ops...)
}

func (l *Log) Count(kind string, keySubstr string) int {
	n := 0
	for _, o := range l.Snapshot() {
		if o.Kind == kind && strings.Contains(o.Key, keySubstr) {
			n++
		}
	}
	return n
}

func Digest(b []byte) string {
	h := sha256.Sum256(b)
	return hex.EncodeToString(h[:4])
}

// MemBackend is the shared state ("the cluster's storage"); MemStorage values are handles on it,
// one per instance, so that calls can be attributed to instances.
type MemBackend struct {
	mu    sync.Mutex
	Data  map[string][]byte
	Mod   map[string]time.Time
	locks map[string]chan struct{} // held locks: closed on unlock
	Owner map[string]string        // lock name -> instance
	Log   *Log
	// HonourCtx makes every operation fail with ctx.Err() when its context is done, like a
	// network-backed storage would (FileStorage does not).
	HonourCtx bool
}

func NewMemBackend() *MemBackend {
	return &MemBackend{Data: map[string][]byte{}, Mod: map[string]time.Time{}, locks: map[string]chan struct{}{}, Owner: map[string]string{}, Log: &Log{}}
}

// Handle returns a Storage through which instance inst talks to the backend.
func (b *MemBackend) Handle(inst string) *MemStorage { return &MemStorage{B: b, Inst: inst} }

// Keys returns the sorted key set.
func (b *MemBackend) Keys() []string {
	b.mu.Lock()
	defer b.mu.Unlock()
	ks := make([]string, 0, len(b.Data))
	for k := range b.Data {
		ks = append(ks, k)
	}
	sort.Strings(ks)
	return ks
}

// Get reads without logging (for monitors).
func (b *MemBackend) Get(key string) ([]byte, bool) {
	b.mu.Lock()
	defer b.mu.Unlock()
	v, ok := b.Data[key]
	return append([]byte(nil), v...), ok
}

// Put writes without logging (for test set-up).
func (b *MemBackend) Put(key string, v []byte) {
	b.mu.Lock()
	b.Data[key] = append([]byte(nil), v...)
	b.Mod[key] = time.Now()
	b.mu.Unlock()
}

// Remove deletes without logging (for test set-up).
func (b *MemBackend) Remove(key string) {
	b.mu.Lock()
	delete(b.Data, key)
	delete(b.Mod, key)
	b.mu.Unlock()
}

// HeldLocks returns the names of the locks currently held, sorted.
func (b *MemBackend) HeldLocks() []string {
	b.mu.Lock()
	defer b.mu.Unlock()
	var ks []string
	for k := range b.locks {
		ks = append(ks, k)
	}
	sort.Strings(ks)
	return ks
}

// BreakLock forcibly releases a lock (models the staleness rule after its holder died).
func (b *MemBackend) BreakLock(name string) {
	b.mu.Lock()
	if ch, ok := b.locks[name]; ok {
		close(ch)
		delete(b.locks, name)
		delete(b.Owner, name)
	}
	b.mu.Unlock()
}

// MemStorage implements certmagic.Storage on a MemBackend.
type MemStorage struct {
	B    *MemBackend
	Inst string
}

var _ certmagic.Storage = (*MemStorage)(nil)

func (s *MemStorage) String() string { return "MemStorage:" + s.Inst }

func ctxErr(ctx context.Context) string {
	if err := ctx.Err(); err != nil {
		return err.Error()
	}
	return ""
}

func (s *MemStorage) begin(ctx context.Context, kind, key string) (int, error) {
	seq, err := s.B.Log.Begin(Op{Inst: s.Inst, Kind: kind, Key: key, CtxErr: ctxErr(ctx)})
	if err == nil && s.B.HonourCtx && kind != "Unlock" {
		if cerr := ctx.Err(); cerr != nil {
			s.B.Log.SetErr(seq, cerr)
			return seq, cerr
		}
	}
	return seq, err
}

func (s *MemStorage) Store(ctx context.Context, key string, value []byte) error {
	seq, err := s.begin(ctx, "Store", key)
	if err != nil {
		return err
	}
	s.B.Log.SetDigest(seq, Digest(value))
	s.B.Put(key, value)
	return nil
}

func (s *MemStorage) Load(ctx context.Context, key string) ([]byte, error) {
	seq, err := s.begin(ctx, "Load", key)
	if err != nil {
		return nil, err
	}
	v, ok := s.B.Get(key)
	if !ok {
		s.B.Log.SetErr(seq, fs.ErrNotExist)
		return nil, fs.ErrNotExist
	}
	s.B.Log.SetDigest(seq, Digest(v))
	return v, nil
}

func (s *MemStorage) Delete(ctx context.Context, key string) error {
	seq, err := s.begin(ctx, "Delete", key)
	if err != nil {
		return err
	}
	s.B.mu.Lock()
	defer s.B.mu.Unlock()
	found := false
	for k := range s.B.Data {
		if k == key || strings.HasPrefix(k, key+"/") {
			delete(s.B.Data, k)
			delete(s.B.Mod, k)
			found = true
		}
	}
	if !found {
		// FileStorage.Delete uses os.RemoveAll: deleting a missing key is not an error
		_ = seq
	}
	return nil
}

func (s *MemStorage) Exists(ctx context.Context, key string) bool {
	if _, err := s.begin(ctx, "Exists", key); err != nil {
		return false
	}
	s.B.mu.Lock()
	defer s.B.mu.Unlock()
	for k := range s.B.Data {
		if k == key || strings.HasPrefix(k, key+"/") {
			return true
		}
	}
	return false
}

func (s *MemStorage) List(ctx context.Context, prefix string, recursive bool) ([]string, error) {
	seq, err := s.begin(ctx, "List", prefix)
	if err != nil {
		return nil, err
	}
	s.B.mu.Lock()
	defer s.B.mu.Unlock()
	seen := map[string]bool{}
	var out []string
	pfx := strings.TrimSuffix(prefix, "/")
	for k := range s.B.Data {
		if !strings.HasPrefix(k, pfx+"/") && pfx != "" {
			continue
		}
		rest := strings.TrimPrefix(strings.TrimPrefix(k, pfx), "/")
		parts := strings.Split(rest, "/")
		if recursive {
			cur := pfx
			for _, p := range parts {
				cur = path.Join(cur, p)
				if !seen[cur] {
					seen[cur] = true
					out = append(out, cur)
				}
			}
		} else {
			c := path.Join(pfx, parts[0])
			if !seen[c] {
				seen[c] = true
				out = append(out, c)
			}
		}
	}
	if len(out) == 0 {
		s.B.Log.SetErr(seq, fs.ErrNotExist)
		return nil, fs.ErrNotExist
	}
	sort.Strings(out)
	return out, nil
}

func (s *MemStorage) Stat(ctx context.Context, key string) (certmagic.KeyInfo, error) {
	seq, err := s.begin(ctx, "Stat", key)
	if err != nil {
		return certmagic.KeyInfo{}, err
	}
	s.B.mu.Lock()
	defer s.B.mu.Unlock()
	if v, ok := s.B.Data[key]; ok {
		return certmagic.KeyInfo{Key: key, Modified: s.B.Mod[key], Size: int64(len(v)), IsTerminal: true}, nil
	}
	for k := range s.B.Data {
		if strings.HasPrefix(k, key+"/") {
			return certmagic.KeyInfo{Key: key, IsTerminal: false}, nil
		}
	}
	s.B.Log.SetErr(seq, fs.ErrNotExist)
	return certmagic.KeyInfo{}, fs.ErrNotExist
}

// Lock blocks until the named lock is free or ctx is done. The hook sees the call when it is
// made ("Lock") and again when the lock is granted ("LockAcquired").
func (s *MemStorage) Lock(ctx context.Context, name string) error {
	seq, err := s.begin(ctx, "Lock", name)
	if err != nil {
		return err
	}
	for {
		s.B.mu.Lock()
		ch, held := s.B.locks[name]
		if !held {
			s.B.locks[name] = make(chan struct{})
			s.B.Owner[name] = s.Inst
			s.B.mu.Unlock()
			if _, err := s.B.Log.Begin(Op{Inst: s.Inst, Kind: "LockAcquired", Key: name}); err != nil {
				s.B.BreakLock(name)
				s.B.Log.SetErr(seq, err)
				return err
			}
			return nil
		}
		s.B.mu.Unlock()
		select {
		case <-ch:
		case <-ctx.Done():
			s.B.Log.SetErr(seq, ctx.Err())
			return ctx.Err()
		}
	}
}

func (s *MemStorage) Unlock(ctx context.Context, name string) error {
	seq, err := s.begin(ctx, "Unlock", name)
	if err != nil {
		return err
	}
	s.B.mu.Lock()
	defer s.B.mu.Unlock()
	ch, held := s.B.locks[name]
	if !held {
		err := fmt.Errorf("unlock of a lock that is not held: %s", name)
		s.B.Log.SetErr(seq, err)
		return err
	}
	close(ch)
	delete(s.B.locks, name)
	delete(s.B.Owner, name)
	return nil
}
