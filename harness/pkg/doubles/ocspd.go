package doubles

import (
	"context"
	"crypto"
	"crypto/ecdsa"
	"crypto/elliptic"
	"crypto/rand"
	"crypto/x509"
	"crypto/x509/pkix"
	"encoding/pem"
	"fmt"
	"io"
	"math/big"
	"net"
	"net/http"
	"net/http/httptest"
	"sync"
	"time"

	"github.com/caddyserver/certmagic"
	"golang.org/x/crypto/ocsp"
)

// OCSPAnswer is what the responder double does with one request.
type OCSPAnswer struct {
	Drop   bool   // close the connection without answering
	Cut    bool   // answer 200 with a Content-Length larger than what is sent, then close the connection
	Status int    // HTTP status (0 = 200)
	Body   []byte // response body (an OCSP response, or anything)
}

// OCSPRequest is one request seen by the responder double.
type OCSPRequest struct {
	Serial string // decimal serial of the request ("" if the request did not parse)
	Time   time.Time
}

// OCSPResponder is an httptest OCSP responder whose behaviour is programmable per request.
// Answer is consulted for every request (serial = nil when the request does not parse).
type OCSPResponder struct {
	Srv    *httptest.Server
	URL    string
	Answer func(serial *big.Int) OCSPAnswer

	mu   sync.Mutex
	reqs []OCSPRequest
}

// NewOCSPResponder starts a responder that answers 500 until Answer is set.
func NewOCSPResponder() *OCSPResponder {
	r := &OCSPResponder{}
	r.Srv = httptest.NewServer(http.HandlerFunc(r.handle))
	r.URL = r.Srv.URL
	return r
}

func (r *OCSPResponder) Close() { r.Srv.Close() }

func (r *OCSPResponder) handle(w http.ResponseWriter, req *http.Request) {
	body, _ := io.ReadAll(io.LimitReader(req.Body, 1<<20))
	var serial *big.Int
	if q, err := ocsp.ParseRequest(body); err == nil {
		serial = q.SerialNumber
	}
	rec := OCSPRequest{Time: time.Now()}
	if serial != nil {
		rec.Serial = serial.String()
	}
	r.mu.Lock()
	r.reqs = append(r.reqs, rec)
	f := r.Answer
	r.mu.Unlock()
	a := OCSPAnswer{Status: 500, Body: []byte("responder not programmed")}
	if f != nil {
		a = f(serial)
	}
	if a.Drop {
		if hj, ok := w.(http.Hijacker); ok {
			if c, _, err := hj.Hijack(); err == nil {
				c.Close()
				return
			}
		}
		panic(http.ErrAbortHandler)
	}
	if a.Cut {
		if hj, ok := w.(http.Hijacker); ok {
			if c, bw, err := hj.Hijack(); err == nil {
				bw.WriteString("HTTP/1.1 200 OK\r\nContent-Type: application/ocsp-response\r\nContent-Length: 1000\r\n\r\n")
				bw.Write(a.Body)
				bw.Flush()
				c.Close()
				return
			}
		}
		panic(http.ErrAbortHandler)
	}
	w.Header().Set("Content-Type", "application/ocsp-response")
	if a.Status != 0 {
		w.WriteHeader(a.Status)
	}
	w.Write(a.Body)
}

// SetAnswer replaces the answer function.
func (r *OCSPResponder) SetAnswer(f func(serial *big.Int) OCSPAnswer) {
	r.mu.Lock()
	r.Answer = f
	r.mu.Unlock()
}

// Requests returns a copy of the request log; Mark/Since give the requests of one operation.
func (r *OCSPResponder) Requests() []OCSPRequest {
	r.mu.Lock()
	defer r.mu.Unlock()
	return append([]OCSPRequest(nil), r.reqs...)
}
func (r *OCSPResponder) Mark() int {
	r.mu.Lock()
	defer r.mu.Unlock()
	return len(r.reqs)
}
func (r *OCSPResponder) Since(mark int) []OCSPRequest {
	r.mu.Lock()
	defer r.mu.Unlock()
	return append([]OCSPRequest(nil), r.reqs[mark:]...)
}

// RefusedURL returns an http URL on which nothing listens (connection refused).
func RefusedURL() string {
	l, err := net.Listen("tcp", "127.0.0.1:0")
	if err != nil {
		panic(err)
	}
	addr := l.Addr().String()
	l.Close()
	return "http://" + addr
}

// OCSPDelegate is a delegated responder certificate (id-kp-OCSPSigning) issued by a CA.
type OCSPDelegate struct {
	Cert *x509.Certificate
	Key  *ecdsa.PrivateKey
}

// Delegate issues a delegated OCSP responder certificate valid until notAfter.
func (ca *CA) Delegate(notAfter time.Time) *OCSPDelegate {
	return ca.DelegateWith(time.Now().Add(-24*time.Hour), notAfter, true)
}

// DelegateWith issues a responder certificate with the given validity period, with or without
// the id-kp-OCSPSigning purpose (without: an ordinary end-entity certificate of the CA).
func (ca *CA) DelegateWith(notBefore, notAfter time.Time, ocspSigning bool) *OCSPDelegate {
	key, err := ecdsa.GenerateKey(elliptic.P256(), rand.Reader)
	if err != nil {
		panic(err)
	}
	ca.mu.Lock()
	ca.serial++
	serial := ca.serial
	ca.mu.Unlock()
	tpl := &x509.Certificate{
		SerialNumber: big.NewInt(serial), Subject: pkix.Name{CommonName: "harness OCSP responder"},
		NotBefore: notBefore, NotAfter: notAfter,
		KeyUsage: x509.KeyUsageDigitalSignature, ExtKeyUsage: []x509.ExtKeyUsage{x509.ExtKeyUsageOCSPSigning},
		BasicConstraintsValid: true,
	}
	if !ocspSigning {
		tpl.ExtKeyUsage = []x509.ExtKeyUsage{x509.ExtKeyUsageServerAuth}
	}
	der, err := x509.CreateCertificate(rand.Reader, tpl, ca.Cert, &key.PublicKey, ca.Key)
	if err != nil {
		panic(err)
	}
	c, err := x509.ParseCertificate(der)
	if err != nil {
		panic(err)
	}
	return &OCSPDelegate{Cert: c, Key: key}
}

// OCSPResponse signs an OCSP response for serial with the CA key, or with the delegate (whose
// certificate is then embedded in the response). Zero thisUpdate / nextUpdate are encoded as Go's
// zero time / left out, as ocsp.CreateResponse does.
func (ca *CA) OCSPResponse(serial *big.Int, status int, thisUpdate, nextUpdate time.Time, reason int, dg *OCSPDelegate) []byte {
	tpl := ocsp.Response{Status: status, SerialNumber: serial, ThisUpdate: thisUpdate, NextUpdate: nextUpdate}
	if status == ocsp.Revoked {
		tpl.RevokedAt = time.Now().Add(-2 * time.Hour)
		tpl.RevocationReason = reason
	}
	var signer crypto.Signer = ca.Key
	responder := ca.Cert
	if dg != nil && dg.Key == nil {
		// signed by the CA itself, with the CA's own certificate embedded
		tpl.Certificate = ca.Cert
	} else if dg != nil {
		tpl.Certificate = dg.Cert
		signer = dg.Key
		responder = dg.Cert
	}
	b, err := ocsp.CreateResponse(ca.Cert, responder, tpl, signer)
	if err != nil {
		panic(fmt.Sprintf("ocsp.CreateResponse: %v", err))
	}
	return b
}

// OCSPIssuer implements certmagic.Issuer by signing the CSR with a harness CA, putting OCSPServer
// into the leaf. Fail decides the outcome of call n; issued leaves are reported through Issued.
type OCSPIssuer struct {
	Key        string
	CA         *CA
	OCSPServer []string
	NotAfter   func() time.Time // default: now + 90 days
	MustStaple func(names []string) bool // issue with the OCSP must-staple extension
	Fail       func(n int, names []string) error
	Issued     func(n int, names []string, chainPEM []byte, leaf *x509.Certificate)

	mu sync.Mutex
	n  int
}

var _ certmagic.Issuer = (*OCSPIssuer)(nil)

func (i *OCSPIssuer) IssuerKey() string { return i.Key }

func (i *OCSPIssuer) Issue(ctx context.Context, csr *x509.CertificateRequest) (*certmagic.IssuedCertificate, error) {
	names := csrNames(csr)
	i.mu.Lock()
	n := i.n
	i.n++
	i.mu.Unlock()
	if i.Fail != nil {
		if err := i.Fail(n, names); err != nil {
			return nil, err
		}
	}
	nb := time.Now().Add(-time.Hour)
	na := nb.Add(90 * 24 * time.Hour)
	if i.NotAfter != nil {
		na = i.NotAfter()
	}
	lo := LeafOpts{Names: names, NotBefore: nb, NotAfter: na, Pub: csr.PublicKey, OCSPServer: i.OCSPServer}
	var chain []byte
	var leaf *x509.Certificate
	var err error
	if i.MustStaple != nil && i.MustStaple(names) {
		chain, leaf, _, err = i.CA.LeafX(LeafXOpts{LeafOpts: lo, MustStaple: true})
	} else {
		chain, leaf, _, err = i.CA.Leaf(lo)
	}
	if err != nil {
		return nil, err
	}
	if i.Issued != nil {
		i.Issued(n, names, chain, leaf)
	}
	return &certmagic.IssuedCertificate{Certificate: chain, Metadata: map[string]any{"ocsp_issuer": i.Key, "call": n}}, nil
}

// Calls returns the number of Issue calls so far.
func (i *OCSPIssuer) Calls() int {
	i.mu.Lock()
	defer i.mu.Unlock()
	return i.n
}

// LeafXOpts: what CA.Leaf cannot express.
type LeafXOpts struct {
	LeafOpts
	IssuingCertificateURL []string
	MustStaple            bool
}

// LeafX signs a leaf like CA.Leaf, with an authority-information-access URL for the issuer
// certificate and / or the TLS feature extension "status_request" (OCSP must-staple).
func (ca *CA) LeafX(o LeafXOpts) (chainPEM []byte, leaf *x509.Certificate, keyPEM []byte, err error) {
	pub := o.Pub
	if pub == nil {
		k, err := ecdsa.GenerateKey(elliptic.P256(), rand.Reader)
		if err != nil {
			return nil, nil, nil, err
		}
		keyPEM, err = certmagic.PEMEncodePrivateKey(k)
		if err != nil {
			return nil, nil, nil, err
		}
		pub = &k.PublicKey
	}
	ca.mu.Lock()
	ca.serial++
	serial := ca.serial
	ca.mu.Unlock()
	if o.Serial != 0 {
		serial = o.Serial
	}
	tpl := &x509.Certificate{
		SerialNumber: big.NewInt(serial), NotBefore: o.NotBefore, NotAfter: o.NotAfter,
		KeyUsage: x509.KeyUsageDigitalSignature, ExtKeyUsage: []x509.ExtKeyUsage{x509.ExtKeyUsageServerAuth},
		OCSPServer: o.OCSPServer, IssuingCertificateURL: o.IssuingCertificateURL, BasicConstraintsValid: true,
		Subject: pkix.Name{CommonName: o.Names[0]}, DNSNames: o.Names,
	}
	if o.MustStaple {
		// id-pe-tlsfeature 1.3.6.1.5.5.7.1.24, SEQUENCE { INTEGER 5 (status_request) }
		tpl.ExtraExtensions = append(tpl.ExtraExtensions, pkix.Extension{
			Id: []int{1, 3, 6, 1, 5, 5, 7, 1, 24}, Value: []byte{0x30, 0x03, 0x02, 0x01, 0x05}})
	}
	der, err := x509.CreateCertificate(rand.Reader, tpl, ca.Cert, pub, ca.Key)
	if err != nil {
		return nil, nil, nil, err
	}
	leaf, err = x509.ParseCertificate(der)
	if err != nil {
		return nil, nil, nil, err
	}
	chainPEM = append(pem.EncodeToMemory(&pem.Block{Type: "CERTIFICATE", Bytes: der}), ca.CertPEM...)
	return chainPEM, leaf, keyPEM, nil
}

// HasMustStaple reports whether the leaf carries the TLS feature extension (RFC 7633,
// 1.3.6.1.5.5.7.1.24) with status_request, i.e. value 30 03 02 01 05.
func HasMustStaple(leaf *x509.Certificate) bool {
	for _, e := range leaf.Extensions {
		if e.Id.String() == "1.3.6.1.5.5.7.1.24" && string(e.Value) == "\x30\x03\x02\x01\x05" {
			return true
		}
	}
	return false
}

// NewAIAServer serves the CA certificate (DER) for IssuingCertificateURL downloads and counts
// the downloads.
func (ca *CA) NewAIAServer() (srv *httptest.Server, hits func() int) {
	var mu sync.Mutex
	n := 0
	srv = httptest.NewServer(http.HandlerFunc(func(w http.ResponseWriter, r *http.Request) {
		mu.Lock()
		n++
		mu.Unlock()
		w.Header().Set("Content-Type", "application/pkix-cert")
		w.Write(ca.Cert.Raw)
	}))
	return srv, func() int { mu.Lock(); defer mu.Unlock(); return n }
}
