package doubles

import (
	"context"
	"crypto"
	"crypto/ecdsa"
	"crypto/elliptic"
	"crypto/rand"
	"crypto/x509"
	"crypto/x509/pkix"
	"encoding/pem"
	"fmt"
	"math/big"
	"net"
	"sync"
	"time"

	"github.com/caddyserver/certmagic"
)

// CA is a harness certificate authority (ECDSA P-256).
type CA struct {
	Cert    *x509.Certificate
	CertPEM []byte
	Key     *ecdsa.PrivateKey
	mu      sync.Mutex
	serial  int64
}

func NewCA(cn string) *CA {
	key, err := ecdsa.GenerateKey(elliptic.P256(), rand.Reader)
	if err != nil {
		panic(err)
	}
	tpl := &x509.Certificate{
		SerialNumber: big.NewInt(1), Subject: pkix.Name{CommonName: cn},
		NotBefore: time.Now().Add(-24 * time.Hour), NotAfter: time.Now().Add(10 * 365 * 24 * time.Hour),
		IsCA: true, KeyUsage: x509.KeyUsageCertSign | x509.KeyUsageCRLSign | x509.KeyUsageDigitalSignature,
		BasicConstraintsValid: true,
	}
	der, err := x509.CreateCertificate(rand.Reader, tpl, tpl, &key.PublicKey, key)
	if err != nil {
		panic(err)
	}
	c, _ := x509.ParseCertificate(der)
	return &CA{Cert: c, CertPEM: pem.EncodeToMemory(&pem.Block{Type: "CERTIFICATE", Bytes: der}), Key: key, serial: 100}
}

// LeafOpts controls a leaf certificate.
type LeafOpts struct {
	Names      []string // DNS names or IPs
	NotBefore  time.Time
	NotAfter   time.Time
	OCSPServer []string
	Pub        crypto.PublicKey // default: a fresh P-256 key (returned)
	Serial     int64            // default: next serial
}

// Leaf signs a leaf certificate; returns PEM chain (leaf + CA), the parsed leaf and, if a key was
// generated, the private key (PEM, as certmagic encodes it).
func (ca *CA) Leaf(o LeafOpts) (chainPEM []byte, leaf *x509.Certificate, keyPEM []byte, err error) {
	ca.mu.Lock()
	ca.serial++
	serial := ca.serial
	ca.mu.Unlock()
	if o.Serial != 0 {
		serial = o.Serial
	}
	pub := o.Pub
	if pub == nil {
		k, err := ecdsa.GenerateKey(elliptic.P256(), rand.Reader)
		if err != nil {
			return nil, nil, nil, err
		}
		pub = &k.PublicKey
		keyPEM, err = certmagic.PEMEncodePrivateKey(k)
		if err != nil {
			return nil, nil, nil, err
		}
	}
	if o.NotBefore.IsZero() {
		o.NotBefore = time.Now().Add(-time.Hour)
	}
	if o.NotAfter.IsZero() {
		o.NotAfter = o.NotBefore.Add(90 * 24 * time.Hour)
	}
	tpl := &x509.Certificate{
		SerialNumber: big.NewInt(serial), NotBefore: o.NotBefore, NotAfter: o.NotAfter,
		KeyUsage: x509.KeyUsageDigitalSignature, ExtKeyUsage: []x509.ExtKeyUsage{x509.ExtKeyUsageServerAuth},
		OCSPServer: o.OCSPServer, BasicConstraintsValid: true,
	}
	if len(o.Names) > 0 {
		tpl.Subject = pkix.Name{CommonName: o.Names[0]}
	}
	for _, n := range o.Names {
		if ip := net.ParseIP(n); ip != nil {
			tpl.IPAddresses = append(tpl.IPAddresses, ip)
		} else {
			tpl.DNSNames = append(tpl.DNSNames, n)
		}
	}
	der, err := x509.CreateCertificate(rand.Reader, tpl, ca.Cert, pub, ca.Key)
	if err != nil {
		return nil, nil, nil, err
	}
	leaf, err = x509.ParseCertificate(der)
	if err != nil {
		return nil, nil, nil, err
	}
	chainPEM = append(pem.EncodeToMemory(&pem.Block{Type: "CERTIFICATE", Bytes: der}), ca.CertPEM...)
	return chainPEM, leaf, keyPEM, nil
}

// IssueCall describes one Issue call seen by an IssuerDouble.
type IssueCall struct {
	Names   []string
	PubHash string // digest of the CSR's public key (DER)
	Attempt int    // value of certmagic.AttemptsCtxKey, -1 if absent
	Start   time.Time
	End     time.Time
	Err     string
}

// IssuerDouble implements certmagic.Issuer (and Revoker) by signing the CSR with a harness CA.
// Every call goes through Log (kinds "IssueStart", "IssueEnd", "Revoke") so hooks can gate,
// fail or panic them.
type IssuerDouble struct {
	Key      string
	CA       *CA
	Log      *Log
	Inst     string
	Lifetime time.Duration // validity of issued certs (default 90 days), starting Backdate ago
	Backdate time.Duration
	// Fail, if set, decides the outcome of call number n (0-based) for the names.
	Fail func(n int, names []string) error

	mu    sync.Mutex
	Calls []IssueCall
}

var _ certmagic.Issuer = (*IssuerDouble)(nil)

func (i *IssuerDouble) IssuerKey() string { return i.Key }

func csrNames(csr *x509.CertificateRequest) []string {
	var names []string
	names = append(names, csr.DNSNames...)
	for _, ip := range csr.IPAddresses {
		names = append(names, ip.String())
	}
	names = append(names, csr.EmailAddresses...)
	for _, u := range csr.URIs {
		names = append(names, u.String())
	}
	return names
}

func (i *IssuerDouble) Issue(ctx context.Context, csr *x509.CertificateRequest) (*certmagic.IssuedCertificate, error) {
	names := csrNames(csr)
	pubDER, _ := x509.MarshalPKIXPublicKey(csr.PublicKey)
	attempt := -1
	if a, ok := ctx.Value(certmagic.AttemptsCtxKey).(*int); ok && a != nil {
		attempt = *a
	}
	i.mu.Lock()
	n := len(i.Calls)
	i.Calls = append(i.Calls, IssueCall{Names: names, PubHash: Digest(pubDER), Attempt: attempt, Start: time.Now()})
	i.mu.Unlock()
	finish := func(err error) {
		i.mu.Lock()
		i.Calls[n].End = time.Now()
		if err != nil {
			i.Calls[n].Err = err.Error()
		}
		i.mu.Unlock()
	}
	key := fmt.Sprintf("%s:%v", i.Key, names)
	if i.Log != nil {
		if _, err := i.Log.Begin(Op{Inst: i.Inst, Kind: "IssueStart", Key: key, CtxErr: ctxErr(ctx)}); err != nil {
			finish(err)
			return nil, err
		}
	}
	var err error
	if i.Fail != nil {
		err = i.Fail(n, names)
	}
	if err == nil && ctx.Err() != nil {
		err = ctx.Err()
	}
	var out *certmagic.IssuedCertificate
	if err == nil {
		life := i.Lifetime
		if life == 0 {
			life = 90 * 24 * time.Hour
		}
		nb := time.Now().Add(-i.Backdate)
		chain, _, _, lerr := i.CA.Leaf(LeafOpts{Names: names, NotBefore: nb, NotAfter: nb.Add(life), Pub: csr.PublicKey})
		if lerr != nil {
			err = lerr
		} else {
			out = &certmagic.IssuedCertificate{Certificate: chain, Metadata: map[string]any{"issuer_double": i.Key, "call": n}}
		}
	}
	if i.Log != nil {
		if _, herr := i.Log.Begin(Op{Inst: i.Inst, Kind: "IssueEnd", Key: key}); herr != nil && err == nil {
			err, out = herr, nil
		}
	}
	finish(err)
	return out, err
}

// Revoke implements certmagic.Revoker (always succeeds unless the hook says otherwise).
func (i *IssuerDouble) Revoke(ctx context.Context, cert certmagic.CertificateResource, reason int) error {
	if i.Log != nil {
		if _, err := i.Log.Begin(Op{Inst: i.Inst, Kind: "Revoke", Key: fmt.Sprintf("%s:%v:%d", i.Key, cert.SANs, reason)}); err != nil {
			return err
		}
	}
	return nil
}

// CallsSnapshot returns a copy of the calls so far.
func (i *IssuerDouble) CallsSnapshot() []IssueCall {
	i.mu.Lock()
	defer i.mu.Unlock()
	return append([]IssueCall(nil), i.Calls...)
}
