package doubles

import (
	"context"
	"crypto/tls"
	"net"
	"testing"

	"github.com/caddyserver/certmagic"
)

func TestSmoke(t *testing.T) {
	b := NewMemBackend()
	ca := NewCA("harness CA")
	iss := &IssuerDouble{Key: "dbl", CA: ca, Log: b.Log, Inst: "i1"}
	cfg, cache := NewConfig(b.Handle("i1"), certmagic.Config{}, certmagic.CacheOptions{}, iss)
	defer cache.Stop()
	if err := cfg.ManageSync(context.Background(), []string{"a.example"}); err != nil {
		t.Fatal(err)
	}
	if len(iss.CallsSnapshot()) != 1 {
		t.Fatalf("calls: %v", iss.CallsSnapshot())
	}
	c1, c2 := net.Pipe()
	defer c1.Close()
	defer c2.Close()
	cert, err := cfg.GetCertificate(&tls.ClientHelloInfo{ServerName: "a.example", Conn: c1})
	if err != nil || len(cert.Certificate) == 0 {
		t.Fatal(err)
	}
	for _, o := range b.Log.Snapshot() {
		t.Logf("%d %s %s %s err=%q", o.Seq, o.Inst, o.Kind, o.Key, o.Err)
	}
	if len(b.HeldLocks()) != 0 {
		t.Fatal("locks held", b.HeldLocks())
	}
}
