package main

// Further translator items of C18: who calls the cleaning functions, and where they mutate the storage.
// The model and the harness drive CleanStorage only; its two helpers are modelled as running under the
// storage_clean lock because CleanStorage is their only caller, and there is no timer path inside the package
// that starts a cleaning on its own (callers such as Caddy's cleanStorageRegularly live outside).
// Fails closed: a new caller or a new Delete/Store site changes the emitted definitions and breaks
// Clean/Proofs.v consts_callers_ok.

import (
	"go/ast"
	"sort"
	"strings"
)

func init() { items = append(items, emitC18Callers) }

func emitC18Callers(t *tr) {
	targets := []string{"CleanStorage", "deleteOldOCSPStaples", "deleteExpiredCerts"}
	for _, tg := range targets {
		if fd := t.funcs[tg]; fd == nil || fd.Body == nil {
			t.errf("C18 callers: %s not found", tg)
			return
		}
	}
	t.p("\n(* C18: callers of the cleaning functions inside the package, mutating call sites *)\n")
	users := map[string][]string{}
	var names []string
	for n := range t.funcs {
		names = append(names, n)
	}
	sort.Strings(names)
	for _, n := range names {
		fd := t.funcs[n]
		if fd.Body == nil {
			continue
		}
		seen := map[string]bool{}
		ast.Inspect(fd.Body, func(x ast.Node) bool {
			if id, ok := x.(*ast.Ident); ok { // any mention: a call, `go f(..)`, `defer f(..)`, or f passed as a value
				for _, tg := range targets {
					if id.Name == tg && !seen[tg] {
						seen[tg] = true
						users[tg] = append(users[tg], n)
					}
				}
			}
			return true
		})
	}
	// package-level variable initialisers mentioning them (e.g. a table of maintenance functions)
	for n, e := range t.decls {
		ast.Inspect(e, func(x ast.Node) bool {
			if id, ok := x.(*ast.Ident); ok {
				for _, tg := range targets {
					if id.Name == tg {
						users[tg] = append(users[tg], "var "+n)
					}
				}
			}
			return true
		})
	}
	for _, tg := range targets {
		sort.Strings(users[tg])
		var l []string
		for _, u := range users[tg] {
			l = append(l, coqStr(u))
		}
		t.p("Definition clean_users_%s : list str := [%s]. (* %s *)\n", tg, strings.Join(l, "; "), strings.Join(users[tg], ", "))
	}
	// Delete / Store / Lock / Unlock call sites per function (by method name on any receiver, plus acquireLock / releaseLock)
	count := func(fd *ast.FuncDecl, sel string) int {
		c := 0
		ast.Inspect(fd.Body, func(x ast.Node) bool {
			if ce, ok := x.(*ast.CallExpr); ok {
				switch f := ce.Fun.(type) {
				case *ast.SelectorExpr:
					if f.Sel.Name == sel {
						c++
					}
				case *ast.Ident:
					if f.Name == sel {
						c++
					}
				}
			}
			return true
		})
		return c
	}
	for _, sel := range []string{"Delete", "Store", "acquireLock", "releaseLock", "Lock", "Unlock"} {
		var l []string
		for _, tg := range targets {
			l = append(l, itoa(count(t.funcs[tg], sel)))
		}
		t.p("Definition clean_sites_%s : list nat := [%s]%%nat. (* in CleanStorage, deleteOldOCSPStaples, deleteExpiredCerts *)\n", sel, strings.Join(l, "; "))
	}
}

// FileStorage.Delete: `err := os.RemoveAll(s.Filename(key))` (recursive: the key and everything below it -- the
// model's [remove]); a missing key is not an error (`return nil // nothing to delete`: [do_delete] of an absent
// key succeeds without effect)
func init() { items = append(items, emitC18FsDelete) }

func emitC18FsDelete(t *tr) {
	fd := t.funcs["FileStorage.Delete"]
	if fd == nil || fd.Body == nil || len(fd.Body.List) < 2 {
		t.errf("C18: FileStorage.Delete not found")
		return
	}
	fn, arg := "", ""
	if as, ok := fd.Body.List[0].(*ast.AssignStmt); ok && len(as.Rhs) == 1 {
		if ce, ok := as.Rhs[0].(*ast.CallExpr); ok && len(ce.Args) == 1 {
			if in, ok := ce.Args[0].(*ast.CallExpr); ok && len(in.Args) == 1 {
				fn, arg = exprStr(ce.Fun), exprStr(in.Fun)+"("+exprStr(in.Args[0])+")"
			}
		}
	}
	if fn == "" {
		t.errf("C18: FileStorage.Delete: expected `err := <remover>(s.Filename(key))` as first statement")
		return
	}
	t.p("\n(* C18: FileStorage.Delete (filestorage.go) *)\n")
	t.p("Definition clean_fs_delete_fn : str := %s. (* %s(%s) *)\n", coqStr(fn), fn, arg)
	t.p("Definition clean_fs_delete_arg : str := %s.\n", coqStr(arg))
	// `if errors.Is(keyNotExist(err), fs.ErrNotExist) { return nil }`
	missingOK := false
	for _, st := range fd.Body.List[1:] {
		mentions := false
		if is, ok := st.(*ast.IfStmt); ok {
			ast.Inspect(is.Cond, func(x ast.Node) bool {
				if se, ok := x.(*ast.SelectorExpr); ok && se.Sel.Name == "ErrNotExist" {
					mentions = true
				}
				return true
			})
		}
		if is, ok := st.(*ast.IfStmt); ok && mentions && len(is.Body.List) == 1 {
			if rs, ok := is.Body.List[0].(*ast.ReturnStmt); ok && len(rs.Results) == 1 && exprStr(rs.Results[0]) == "nil" {
				missingOK = true
			}
		}
	}
	t.p("Definition clean_fs_delete_missing_ok : bool := %v.\n", missingOK)
}

func itoa(n int) string {
	if n == 0 {
		return "0"
	}
	s := ""
	for n > 0 {
		s = string(rune('0'+n%10)) + s
		n /= 10
	}
	return s
}
