package main

import (
	"go/ast"
	"go/token"
	"go/types"
	"strings"
)

// c06Str prints any expression as source text (exprStr only knows identifiers and selectors).
func c06Str(e ast.Expr) string { return types.ExprString(e) }

// C06 / C07: the statement order the Bundle model depends on, read from the source on every run:
//   crypto.go  saveCertResource: the keyValue list is [.key, .crt, .json] and goes to storeTx
//   storage.go storeTx: Store in list order; on the first error Delete the keys already written in
//              reverse order, results ignored, and return that error
//   config.go  storageHasCertResources: Exists .crt && .key && .json
//   crypto.go  loadCertResource: Load .key, .crt, .json
//   maintain.go moveCompromisedPrivateKey: Load key, Store key+".compromised" (on error Delete key),
//              Delete key
// File kinds: 0 = SitePrivateKey (.key), 1 = SiteCert (.crt), 2 = SiteMeta (.json).
// Emitted twice (c06_ / c07_ prefix) so that a change is attributed to both properties.
func init() { items = append(items, emitC06BundleShape, emitC07BundleShape) }

func emitC06BundleShape(t *tr) { t.c06EmitShape("c06") }
func emitC07BundleShape(t *tr) { t.c06EmitShape("c07") }

func c06SiteKind(fun string) int {
	switch fun {
	case "StorageKeys.SitePrivateKey":
		return 0
	case "StorageKeys.SiteCert":
		return 1
	case "StorageKeys.SiteMeta":
		return 2
	}
	return -1
}

// c06SiteCalls: the StorageKeys.Site* calls under n, in source order.
func c06SiteCalls(n ast.Node) []int {
	var out []int
	ast.Inspect(n, func(x ast.Node) bool {
		if c, ok := x.(*ast.CallExpr); ok {
			if k := c06SiteKind(exprStr(c.Fun)); k >= 0 {
				out = append(out, k)
			}
		}
		return true
	})
	return out
}

func c06ZList(v []int) string {
	s := make([]string, len(v))
	for i, x := range v {
		s[i] = []string{"0", "1", "2", "3", "4", "5", "6", "7", "8", "9"}[x]
	}
	return "[" + strings.Join(s, "; ") + "]%Z"
}

func (t *tr) c06EmitShape(pfx string) {
	// --- saveCertResource
	fd := t.funcs["Config.saveCertResource"]
	if fd == nil || fd.Body == nil {
		t.errf("missing Config.saveCertResource")
		return
	}
	var order []int
	listVar, viaTx := "", false
	for _, s := range fd.Body.List {
		if as, ok := s.(*ast.AssignStmt); ok && len(as.Lhs) == 1 && len(as.Rhs) == 1 {
			if cl, ok := as.Rhs[0].(*ast.CompositeLit); ok && c06Str(cl.Type) == "[]keyValue" {
				listVar = c06Str(as.Lhs[0])
				for _, el := range cl.Elts {
					ks := c06SiteCalls(el)
					if len(ks) != 1 {
						t.errf("saveCertResource: a keyValue element without exactly one StorageKeys.Site* key")
						return
					}
					order = append(order, ks[0])
				}
			}
		}
		if rs, ok := s.(*ast.ReturnStmt); ok && len(rs.Results) == 1 {
			if c, ok := rs.Results[0].(*ast.CallExpr); ok && exprStr(c.Fun) == "storeTx" && len(c.Args) == 3 &&
				c06Str(c.Args[1]) == "cfg.Storage" && c06Str(c.Args[2]) == listVar && listVar != "" {
				viaTx = true
			}
		}
	}
	if len(order) == 0 {
		t.errf("saveCertResource: no []keyValue literal found")
		return
	}
	t.p("(* crypto.go saveCertResource: keyValue list (0 .key, 1 .crt, 2 .json), handed to storeTx: %v *)\n", viaTx)
	t.p("Definition %s_save_order : list Z := %s.\n", pfx, c06ZList(order))
	t.p("Definition %s_save_via_storetx : bool := %v.\n", pfx, viaTx)

	// --- storeTx
	tx := t.funcs["storeTx"]
	if tx == nil || tx.Body == nil || len(tx.Body.List) != 2 {
		t.errf("storeTx: missing or not `for ... {...}; return nil`")
		return
	}
	rng, ok := tx.Body.List[0].(*ast.RangeStmt)
	forward, reverse, ignored, returnsErr := false, false, false, false
	if ok && c06Str(rng.X) == "all" && rng.Key != nil && rng.Value != nil && len(rng.Body.List) == 2 {
		iv, kv := c06Str(rng.Key), c06Str(rng.Value)
		if as, ok := rng.Body.List[0].(*ast.AssignStmt); ok && len(as.Rhs) == 1 {
			if c, ok := as.Rhs[0].(*ast.CallExpr); ok && exprStr(c.Fun) == "s.Store" && len(c.Args) == 3 &&
				c06Str(c.Args[1]) == kv+".key" && c06Str(c.Args[2]) == kv+".value" {
				forward = true
			}
		}
		if is, ok := rng.Body.List[1].(*ast.IfStmt); ok && c06Str(is.Cond) == "err != nil" && len(is.Body.List) == 2 {
			if fs, ok := is.Body.List[0].(*ast.ForStmt); ok && fs.Init != nil && fs.Cond != nil && fs.Post != nil {
				init, _ := fs.Init.(*ast.AssignStmt)
				post, _ := fs.Post.(*ast.IncDecStmt)
				if init != nil && post != nil && len(init.Lhs) == 1 && len(init.Rhs) == 1 {
					jv := c06Str(init.Lhs[0])
					if c06Str(init.Rhs[0]) == iv+" - 1" && c06Str(fs.Cond) == jv+" >= 0" && post.Tok == token.DEC && c06Str(post.X) == jv &&
						len(fs.Body.List) == 1 {
						if es, ok := fs.Body.List[0].(*ast.ExprStmt); ok {
							if c, ok := es.X.(*ast.CallExpr); ok && exprStr(c.Fun) == "s.Delete" && len(c.Args) == 2 &&
								c06Str(c.Args[1]) == "all["+jv+"].key" {
								reverse, ignored = true, true
							}
						}
					}
				}
			}
			if rs, ok := is.Body.List[1].(*ast.ReturnStmt); ok && len(rs.Results) == 1 && c06Str(rs.Results[0]) == "err" {
				returnsErr = true
			}
		}
	}
	if rs, ok := tx.Body.List[1].(*ast.ReturnStmt); !ok || len(rs.Results) != 1 || c06Str(rs.Results[0]) != "nil" {
		returnsErr = false
	}
	t.p("(* storage.go storeTx: Store in list order: %v; roll back = Delete all[j].key for j = i-1 down to 0: %v, result ignored: %v; returns the Store error, else nil: %v *)\n",
		forward, reverse, ignored, returnsErr)
	t.p("Definition %s_storetx_shape : bool := %v.\n", pfx, forward && reverse && ignored && returnsErr)

	// --- storageHasCertResources
	hf := t.funcs["Config.storageHasCertResources"]
	if hf == nil || hf.Body == nil {
		t.errf("missing Config.storageHasCertResources")
		return
	}
	vars := map[string]int{}
	var exOrder []int
	conj := false
	for _, s := range hf.Body.List {
		if as, ok := s.(*ast.AssignStmt); ok && len(as.Lhs) == 1 && len(as.Rhs) == 1 {
			if ks := c06SiteCalls(as.Rhs[0]); len(ks) == 1 {
				vars[c06Str(as.Lhs[0])] = ks[0]
			}
		}
		if rs, ok := s.(*ast.ReturnStmt); ok && len(rs.Results) == 1 {
			conj = true
			var walk func(e ast.Expr)
			walk = func(e ast.Expr) {
				switch e := e.(type) {
				case *ast.BinaryExpr:
					if e.Op != token.LAND {
						conj = false
					}
					walk(e.X)
					walk(e.Y)
				case *ast.CallExpr:
					if exprStr(e.Fun) == "cfg.Storage.Exists" && len(e.Args) == 2 {
						if k, ok := vars[c06Str(e.Args[1])]; ok {
							exOrder = append(exOrder, k)
							return
						}
					}
					conj = false
				case *ast.ParenExpr:
					walk(e.X)
				default:
					conj = false
				}
			}
			walk(rs.Results[0])
		}
	}
	if !conj || len(exOrder) == 0 {
		t.errf("storageHasCertResources: result is not a conjunction of cfg.Storage.Exists calls on Site* keys")
		return
	}
	t.p("(* config.go storageHasCertResources: Exists of these files, && in this order *)\n")
	t.p("Definition %s_has_order : list Z := %s.\n", pfx, c06ZList(exOrder))

	// --- loadCertResource
	lf := t.funcs["Config.loadCertResource"]
	if lf == nil || lf.Body == nil {
		t.errf("missing Config.loadCertResource")
		return
	}
	var ldOrder []int
	ast.Inspect(lf.Body, func(x ast.Node) bool {
		if c, ok := x.(*ast.CallExpr); ok && exprStr(c.Fun) == "cfg.Storage.Load" && len(c.Args) == 2 {
			if ks := c06SiteCalls(c.Args[1]); len(ks) == 1 {
				ldOrder = append(ldOrder, ks[0])
			} else {
				ldOrder = append(ldOrder, 9)
			}
		}
		return true
	})
	t.p("(* crypto.go loadCertResource: Load of these files in this order *)\n")
	t.p("Definition %s_load_order : list Z := %s.\n", pfx, c06ZList(ldOrder))

	// --- moveCompromisedPrivateKey
	mf := t.funcs["Config.moveCompromisedPrivateKey"]
	if mf == nil || mf.Body == nil {
		t.errf("missing Config.moveCompromisedPrivateKey")
		return
	}
	suffix := ""
	var calls []int // 1 Load, 0 Store, 2 Delete (okind codes of Bundle/Check.v)
	ast.Inspect(mf.Body, func(x ast.Node) bool {
		switch n := x.(type) {
		case *ast.AssignStmt:
			if len(n.Lhs) == 1 && len(n.Rhs) == 1 && c06Str(n.Lhs[0]) == "compromisedPrivKeyStorageKey" {
				if be, ok := n.Rhs[0].(*ast.BinaryExpr); ok && be.Op == token.ADD && c06Str(be.X) == "privKeyStorageKey" {
					if s, ok := t.strLit(be.Y, "moveCompromisedPrivateKey suffix"); ok {
						suffix = s
					}
				}
			}
		case *ast.CallExpr:
			switch exprStr(n.Fun) {
			case "cfg.Storage.Load":
				calls = append(calls, 1)
			case "cfg.Storage.Store":
				calls = append(calls, 0)
			case "cfg.Storage.Delete":
				calls = append(calls, 2)
			}
		}
		return true
	})
	if suffix == "" {
		t.errf("moveCompromisedPrivateKey: no `privKeyStorageKey + \"...\"` found")
		return
	}
	t.p("(* maintain.go moveCompromisedPrivateKey: quarantine key = key + %q; Storage calls in source order (1 Load, 0 Store, 2 Delete) *)\n", suffix)
	t.p("Definition %s_compromised_suffix : str := %s.\n", pfx, coqStr(suffix))
	t.p("Definition %s_move_compromised_calls : list Z := %s.\n", pfx, c06ZList(calls))
}
