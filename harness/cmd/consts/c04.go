package main

// Translator items for C04 (Renewal model): the numeric literals of certNeedsRenewal,
// currentlyInRenewalWindow and expiresAt, read from the working tree. Fails closed on any
// unexpected shape.

import (
	"fmt"
	"go/ast"
	"go/constant"
	"go/token"
	"strings"
)

func init() { items = append(items, emitC04) }

// ratOf evaluates a constant expression to an exact rational (num, den).
func (t *tr) ratOf(e ast.Expr, what string) (string, string, bool) {
	v, err := t.eval(e, 0)
	if err != nil {
		t.errf("%s: %v", what, err)
		return "", "", false
	}
	n, d := constant.Num(v), constant.Denom(v)
	if n.Kind() != constant.Int || d.Kind() != constant.Int {
		t.errf("%s: not an exact rational constant (%s)", what, v.String())
		return "", "", false
	}
	return n.ExactString(), d.ExactString(), true
}

func (t *tr) intOf(e ast.Expr, what string) (string, bool) {
	v, err := t.eval(e, 0)
	if err != nil {
		t.errf("%s: %v", what, err)
		return "", false
	}
	if i := constant.ToInt(v); i.Kind() == constant.Int {
		return i.ExactString(), true
	}
	t.errf("%s: not an integer constant (%s)", what, v.String())
	return "", false
}

func selPath(e ast.Expr) string {
	switch e := e.(type) {
	case *ast.Ident:
		return e.Name
	case *ast.SelectorExpr:
		return selPath(e.X) + "." + e.Sel.Name
	case *ast.CallExpr:
		return selPath(e.Fun) + "()"
	case *ast.ParenExpr:
		return selPath(e.X)
	}
	return fmt.Sprintf("<%T>", e)
}

func emitC04(t *tr) {
	t.p("\n(* ---- C04: renewal decision ---- *)\n")
	// DefaultRenewalWindowRatio = 1.0 / 3.0
	if n, d, ok := t.ratConst("DefaultRenewalWindowRatio"); ok {
		t.p("Definition default_renewal_ratio : Z * Z := (%s, %s)%%Z. (* DefaultRenewalWindowRatio *)\n", n, d)
	}
	t.emitZ("default_renew_check_interval", "DefaultRenewCheckInterval")

	// certNeedsRenewal: the three currentlyInRenewalWindow calls, in source order:
	//   (…, 1.0/20.0) inside `if !cfg.DisableARI`, (…, cfg.RenewalWindowRatio), (…, 1.0/50.0)
	fd := t.funcs["Config.certNeedsRenewal"]
	if fd == nil || fd.Body == nil {
		t.errf("missing Config.certNeedsRenewal")
		return
	}
	type wcall struct {
		cfg  bool
		n, d string
	}
	var calls []wcall
	okShape := true
	var factor string
	nFactor := 0
	var improvGuard int
	ast.Inspect(fd.Body, func(n ast.Node) bool {
		switch x := n.(type) {
		case *ast.CallExpr:
			if id, ok := x.Fun.(*ast.Ident); ok && id.Name == "currentlyInRenewalWindow" {
				if len(x.Args) != 3 {
					okShape = false
					return true
				}
				if selPath(x.Args[2]) == "cfg.RenewalWindowRatio" {
					calls = append(calls, wcall{cfg: true})
				} else if a, b, ok := t.ratOf(x.Args[2], "currentlyInRenewalWindow ratio literal"); ok {
					calls = append(calls, wcall{n: a, d: b})
				} else {
					okShape = false
				}
			}
		case *ast.BinaryExpr:
			// time.Until(expiration) < cfg.certCache.options.RenewCheckInterval*5
			if x.Op == token.LSS && selPath(x.X) == "time.Until()" {
				if m, ok := x.Y.(*ast.BinaryExpr); ok && m.Op == token.MUL && strings.HasSuffix(selPath(m.X), ".RenewCheckInterval") {
					if f, ok := t.intOf(m.Y, "RenewCheckInterval factor"); ok {
						factor = f
						nFactor++
					}
				}
			}
		case *ast.IfStmt:
			// if end <= start { end = start + 1 }
			if b, ok := x.Cond.(*ast.BinaryExpr); ok && b.Op == token.LEQ && selPath(b.X) == "end" && selPath(b.Y) == "start" && len(x.Body.List) == 1 {
				if as, ok := x.Body.List[0].(*ast.AssignStmt); ok && len(as.Lhs) == 1 && selPath(as.Lhs[0]) == "end" && as.Tok == token.ASSIGN {
					if s, ok := as.Rhs[0].(*ast.BinaryExpr); ok && s.Op == token.ADD && selPath(s.X) == "start" {
						if v, ok := t.intOf(s.Y, "degenerate-window guard"); ok && v == "1" {
							improvGuard++
						}
					}
				}
			}
		}
		return true
	})
	if !okShape || len(calls) != 3 || calls[0].cfg || !calls[1].cfg || calls[2].cfg {
		t.errf("Config.certNeedsRenewal: expected three calls currentlyInRenewalWindow(_, _, r) with r = literal, cfg.RenewalWindowRatio, literal in this order (got %d calls)", len(calls))
	} else {
		t.p("Definition ari_emergency_ratio : Z * Z := (%s, %s)%%Z. (* 1st currentlyInRenewalWindow literal in certNeedsRenewal *)\n", calls[0].n, calls[0].d)
		t.p("Definition imminent_ratio : Z * Z := (%s, %s)%%Z. (* 2nd currentlyInRenewalWindow literal in certNeedsRenewal *)\n", calls[2].n, calls[2].d)
	}
	if nFactor != 1 {
		t.errf("Config.certNeedsRenewal: expected exactly one `time.Until(...) < <...>.RenewCheckInterval*K`")
	} else {
		t.p("Definition imminent_interval_factor : Z := (%s)%%Z. (* time.Until(expiration) < RenewCheckInterval*K *)\n", factor)
	}
	// informational (the model is hand-written with this guard; a missing guard is caught by
	// the correspondence on the degenerate-window witnesses)
	t.p("Definition improvise_guard_present : bool := %v. (* `if end <= start { end = start + 1 }` *)\n", improvGuard == 1)

	// expiresAt: return cert.NotAfter.Truncate(time.Second).Add(1 * time.Second)
	ex := t.funcs["expiresAt"]
	if ex == nil || ex.Body == nil || len(ex.Body.List) == 0 {
		t.errf("missing expiresAt")
		return
	}
	rs, ok := ex.Body.List[len(ex.Body.List)-1].(*ast.ReturnStmt)
	done := false
	if ok && len(rs.Results) == 1 {
		if add, ok := rs.Results[0].(*ast.CallExpr); ok && len(add.Args) == 1 {
			if as, ok := add.Fun.(*ast.SelectorExpr); ok && as.Sel.Name == "Add" {
				if tr2, ok := as.X.(*ast.CallExpr); ok && len(tr2.Args) == 1 && selPath(tr2.Fun) == "cert.NotAfter.Truncate" {
					a, ok1 := t.intOf(add.Args[0], "expiresAt Add")
					b, ok2 := t.intOf(tr2.Args[0], "expiresAt Truncate")
					if ok1 && ok2 {
						t.p("Definition expiry_truncate : Z := (%s)%%Z. (* expiresAt: NotAfter.Truncate(d) *)\n", b)
						t.p("Definition expiry_add : Z := (%s)%%Z. (* expiresAt: .Add(d) *)\n", a)
						done = true
					}
				}
			}
		}
	}
	if !done {
		t.errf("expiresAt: expected `return cert.NotAfter.Truncate(D1).Add(D2)`")
	}
}
