package main

import (
	"go/ast"
	"go/token"
)

// C20: the literals of the CA URL rule ("://", "https://", "https"), read from secureCAURL (or,
// in a tree without that helper, from ACMEIssuer.newBasicACMEClient). Fails closed unless each
// of the three shapes occurs exactly once:
//
//	strings.Contains(x, LIT)      x = LIT + x      u.Scheme != LIT
func init() { items = append(items, emitC20) }

func emitC20(t *tr) {
	fd := t.funcs["secureCAURL"]
	where := "secureCAURL"
	if fd == nil {
		fd = t.funcs["ACMEIssuer.newBasicACMEClient"]
		where = "ACMEIssuer.newBasicACMEClient"
	}
	if fd == nil || fd.Body == nil {
		t.errf("missing secureCAURL / ACMEIssuer.newBasicACMEClient")
		return
	}
	var seps, prefixes, schemes []string
	ast.Inspect(fd.Body, func(n ast.Node) bool {
		switch n := n.(type) {
		case *ast.CallExpr:
			if exprStr(n.Fun) == "strings.Contains" && len(n.Args) == 2 {
				if s, ok := t.strLit(n.Args[1], where); ok {
					seps = append(seps, s)
				}
			}
		case *ast.AssignStmt:
			if len(n.Lhs) == 1 && len(n.Rhs) == 1 && n.Tok == token.ASSIGN {
				if be, ok := n.Rhs[0].(*ast.BinaryExpr); ok && be.Op == token.ADD && exprStr(be.Y) == exprStr(n.Lhs[0]) {
					if lit, ok := be.X.(*ast.BasicLit); ok && lit.Kind == token.STRING {
						if s, ok := t.strLit(lit, where); ok {
							prefixes = append(prefixes, s)
						}
					}
				}
			}
		case *ast.BinaryExpr:
			if n.Op == token.NEQ && exprStr(n.X) == "u.Scheme" {
				if s, ok := t.strLit(n.Y, where); ok {
					schemes = append(schemes, s)
				}
			}
		}
		return true
	})
	if len(seps) != 1 || len(prefixes) != 1 || len(schemes) != 1 {
		t.errf("%s: unexpected shape of the URL rule (Contains literals %q, prefix literals %q, scheme literals %q)", where, seps, prefixes, schemes)
		return
	}
	t.p("Definition url_scheme_sep : str := %s. (* %q in %s *)\n", coqStr(seps[0]), seps[0], where)
	t.p("Definition url_https_prefix : str := %s. (* %q in %s *)\n", coqStr(prefixes[0]), prefixes[0], where)
	t.p("Definition url_https_scheme : str := %s. (* %q in %s *)\n", coqStr(schemes[0]), schemes[0], where)
}
