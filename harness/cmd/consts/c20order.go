package main

import (
	"go/ast"
	"go/token"
	"strconv"
	"strings"
)

// C20: statement-order and loop facts the Account model depends on, read from the source on
// every run (the lock-step correspondence observes the same facts dynamically; this item makes
// the check fail closed when the code is restructured). Emitted:
//
//	c20_recreate_attempts / c20_recreate_on_attempt   doIssue: for i := 0; i < N; i++ ... if i == K && ... accountDoesNotExist
//	c20_save_order     saveAccount: the []keyValue literal handed to storeTx (0 registration, 1 private key)
//	c20_delete_order   deleteAccountLocally: order of the Storage.Delete calls
//	c20_load_order     loadAccount: order of the Storage.Load calls
//	c20_storetx_rollback   storeTx: on a failed Store, for j := i - 1; j >= 0; j-- { s.Delete(ctx, all[j].key) }
//	c20_client_order   newACMEClientWithAccount: getAccount, acquireLock (+ deferred releaseLock),
//	                   getAccount, client.NewAccount, iss.saveAccount
func init() { items = append(items, emitC20Order) }

func c20KeyKind(e ast.Expr) int {
	if c, ok := e.(*ast.CallExpr); ok {
		switch {
		case strings.HasSuffix(exprStr(c.Fun), ".storageKeyUserReg"):
			return 0
		case strings.HasSuffix(exprStr(c.Fun), ".storageKeyUserPrivateKey"):
			return 1
		}
	}
	return -1
}

func c20NatList(xs []int) string {
	var parts []string
	for _, x := range xs {
		parts = append(parts, strconv.Itoa(x)+"%nat")
	}
	return "[" + strings.Join(parts, "; ") + "]"
}

func emitC20Order(t *tr) {
	// ---- doIssue: the recreate loop
	if fd := t.funcs["ACMEIssuer.doIssue"]; fd == nil || fd.Body == nil {
		t.errf("missing ACMEIssuer.doIssue")
	} else {
		var bounds, guards []string
		ast.Inspect(fd.Body, func(n ast.Node) bool {
			switch n := n.(type) {
			case *ast.ForStmt:
				if be, ok := n.Cond.(*ast.BinaryExpr); ok && be.Op == token.LSS && exprStr(be.X) == "i" {
					if as, ok := n.Init.(*ast.AssignStmt); ok && len(as.Rhs) == 1 && exprStr(as.Rhs[0]) == "0" {
						if lit, ok := be.Y.(*ast.BasicLit); ok && lit.Kind == token.INT {
							bounds = append(bounds, lit.Value)
						}
					}
				}
			case *ast.IfStmt:
				mentions, guard := false, ""
				ast.Inspect(n.Cond, func(m ast.Node) bool {
					switch m := m.(type) {
					case *ast.SelectorExpr:
						if m.Sel.Name == "ProblemTypeAccountDoesNotExist" {
							mentions = true
						}
					case *ast.BinaryExpr:
						if m.Op == token.EQL && exprStr(m.X) == "i" {
							if lit, ok := m.Y.(*ast.BasicLit); ok && lit.Kind == token.INT {
								guard = lit.Value
							}
						}
					}
					return true
				})
				if mentions {
					guards = append(guards, guard)
				}
			}
			return true
		})
		if len(bounds) != 1 || len(guards) != 1 || guards[0] == "" {
			t.errf("ACMEIssuer.doIssue: unexpected shape of the recreate loop (loop bounds %q, attempt guards of the accountDoesNotExist branch %q)", bounds, guards)
		} else {
			t.p("Definition c20_recreate_attempts : nat := %s%%nat. (* doIssue: for i := 0; i < %s; i++ *)\n", bounds[0], bounds[0])
			t.p("Definition c20_recreate_on_attempt : nat := %s%%nat. (* doIssue: i == %s && ... accountDoesNotExist *)\n", guards[0], guards[0])
		}
	}
	// ---- saveAccount: the key/value list
	if fd := t.funcs["ACMEIssuer.saveAccount"]; fd == nil || fd.Body == nil {
		t.errf("missing ACMEIssuer.saveAccount")
	} else {
		var order []int
		lits, viaTx := 0, false
		ast.Inspect(fd.Body, func(n ast.Node) bool {
			switch n := n.(type) {
			case *ast.CompositeLit:
				if at, ok := n.Type.(*ast.ArrayType); ok && exprStr(at.Elt) == "keyValue" {
					lits++
					for _, el := range n.Elts {
						kind := -1
						if cl, ok := el.(*ast.CompositeLit); ok {
							for _, f := range cl.Elts {
								if kv, ok := f.(*ast.KeyValueExpr); ok && exprStr(kv.Key) == "key" {
									kind = c20KeyKind(kv.Value)
								}
							}
						}
						order = append(order, kind)
					}
				}
			case *ast.ReturnStmt:
				if len(n.Results) == 1 {
					if c, ok := n.Results[0].(*ast.CallExpr); ok && exprStr(c.Fun) == "storeTx" {
						viaTx = true
					}
				}
			}
			return true
		})
		ok := lits == 1 && viaTx && len(order) == 2
		for _, k := range order {
			if k < 0 {
				ok = false
			}
		}
		if !ok {
			t.errf("ACMEIssuer.saveAccount: unexpected shape (keyValue literals %d, returns storeTx %v, keys %v)", lits, viaTx, order)
		} else {
			t.p("Definition c20_save_order : list nat := %s. (* saveAccount -> storeTx; 0 registration, 1 private key *)\n", c20NatList(order))
		}
	}
	// ---- deleteAccountLocally / loadAccount: order of the storage calls
	for _, x := range []struct{ fn, method, coq string }{
		{"ACMEIssuer.deleteAccountLocally", ".Storage.Delete", "c20_delete_order"},
		{"ACMEIssuer.loadAccount", ".Storage.Load", "c20_load_order"},
	} {
		fd := t.funcs[x.fn]
		if fd == nil || fd.Body == nil {
			t.errf("missing %s", x.fn)
			continue
		}
		var order []int
		ast.Inspect(fd.Body, func(n ast.Node) bool {
			if c, ok := n.(*ast.CallExpr); ok && strings.HasSuffix(exprStr(c.Fun), x.method) && len(c.Args) == 2 {
				order = append(order, c20KeyKind(c.Args[1]))
			}
			return true
		})
		ok := len(order) == 2
		for _, k := range order {
			if k < 0 {
				ok = false
			}
		}
		if !ok {
			t.errf("%s: unexpected %s calls %v", x.fn, x.method, order)
			continue
		}
		t.p("Definition %s : list nat := %s. (* %s *)\n", x.coq, c20NatList(order), x.fn)
	}
	// ---- storeTx: the rollback loop
	if fd := t.funcs["storeTx"]; fd == nil || fd.Body == nil {
		t.errf("missing storeTx")
	} else {
		good := false
		ast.Inspect(fd.Body, func(n ast.Node) bool {
			fs, ok := n.(*ast.ForStmt)
			if !ok || fs.Init == nil || fs.Cond == nil || fs.Post == nil {
				return true
			}
			as, ok1 := fs.Init.(*ast.AssignStmt)
			cond, ok2 := fs.Cond.(*ast.BinaryExpr)
			post, ok3 := fs.Post.(*ast.IncDecStmt)
			if !ok1 || !ok2 || !ok3 || len(as.Lhs) != 1 || len(as.Rhs) != 1 || exprStr(as.Lhs[0]) != "j" {
				return true
			}
			init, ok4 := as.Rhs[0].(*ast.BinaryExpr)
			if !ok4 || init.Op != token.SUB || exprStr(init.X) != "i" || exprStr(init.Y) != "1" {
				return true
			}
			if cond.Op != token.GEQ || exprStr(cond.X) != "j" || exprStr(cond.Y) != "0" || post.Tok != token.DEC || exprStr(post.X) != "j" {
				return true
			}
			if len(fs.Body.List) != 1 {
				return true
			}
			es, ok5 := fs.Body.List[0].(*ast.ExprStmt)
			if !ok5 {
				return true
			}
			c, ok6 := es.X.(*ast.CallExpr)
			if !ok6 || exprStr(c.Fun) != "s.Delete" || len(c.Args) != 2 {
				return true
			}
			if sel, ok := c.Args[1].(*ast.SelectorExpr); ok && sel.Sel.Name == "key" {
				if ix, ok := sel.X.(*ast.IndexExpr); ok && exprStr(ix.X) == "all" && exprStr(ix.Index) == "j" {
					good = true
				}
			}
			return true
		})
		if !good {
			t.errf("storeTx: the rollback loop `for j := i - 1; j >= 0; j-- { s.Delete(ctx, all[j].key) }` was not found")
		} else {
			t.p("Definition c20_storetx_rollback : bool := true. (* storeTx: for j := i - 1; j >= 0; j-- { s.Delete(ctx, all[j].key) }, result ignored *)\n")
		}
	}
	// ---- newACMEClientWithAccount: order of the calls that matter
	if fd := t.funcs["ACMEIssuer.newACMEClientWithAccount"]; fd == nil || fd.Body == nil {
		t.errf("missing ACMEIssuer.newACMEClientWithAccount")
	} else {
		var order []int
		deferredRelease := -1 // position (in order) after which the deferred releaseLock was registered
		var walk func(n ast.Node, inDefer bool)
		walk = func(n ast.Node, inDefer bool) {
			ast.Inspect(n, func(m ast.Node) bool {
				switch m := m.(type) {
				case *ast.FuncLit:
					// the getAccount closure is defined, not run, here
					if !inDefer {
						return false
					}
				case *ast.DeferStmt:
					walk(m.Call.Fun, true)
					return false
				case *ast.CallExpr:
					switch exprStr(m.Fun) {
					case "getAccount":
						order = append(order, 1)
					case "acquireLock":
						order = append(order, 2)
					case "client.NewAccount":
						order = append(order, 3)
					case "iss.saveAccount":
						order = append(order, 4)
					case "releaseLock":
						if inDefer && deferredRelease < 0 {
							deferredRelease = len(order)
						} else {
							order = append(order, 9) // a release that is not the deferred one
						}
					}
				}
				return true
			})
		}
		walk(fd.Body, false)
		if deferredRelease != 2 {
			t.errf("ACMEIssuer.newACMEClientWithAccount: releaseLock is not deferred right after acquireLock (calls %v, deferred after %d)", order, deferredRelease)
		} else {
			t.p("Definition c20_client_order : list nat := %s. (* newACMEClientWithAccount: 1 getAccount 2 acquireLock (releaseLock deferred) 3 client.NewAccount 4 iss.saveAccount *)\n", c20NatList(order))
		}
	}
}
