package main

import (
	"go/ast"
	"go/token"
	"strings"
)

// C17: default limits of the internal rate limiter (acmeclient.go) and the structure of the
// throttle call in ACMEIssuer.doIssue (first attempt only, before the order).
func init() { items = append(items, c17Emit) }

func c17Emit(t *tr) {
	t.emitZ("rate_limit_events", "RateLimitEvents")
	t.emitZ("rate_limit_events_window", "RateLimitEventsWindow")
	t.c17EmitThrottleShape()
	t.c17EmitThrottleKey()
	t.c17EmitThrottleCriticalSection()
}

// doIssue must contain, in this order:  useTestCA := attempts > 0  ...
// if !useTestCA { if err := client.throttle(ctx, ...); err != nil { return ... } }  ...
// client.acmeClient.ObtainCertificate(...)
// The translator emits the guard as data: (throttle_guard_attempts_gt, throttle_before_order).
func (t *tr) c17EmitThrottleShape() {
	fd := t.funcs["ACMEIssuer.doIssue"]
	if fd == nil || fd.Body == nil {
		t.errf("missing ACMEIssuer.doIssue")
		return
	}
	useVar := ""     // name of the variable defined as `attempts > K`
	threshold := int64(-1)
	var posGuard, posOrder token.Pos
	nThrottle := 0
	for _, s := range fd.Body.List {
		if as, ok := s.(*ast.AssignStmt); ok && as.Tok == token.DEFINE && len(as.Lhs) == 1 && len(as.Rhs) == 1 {
			if be, ok := as.Rhs[0].(*ast.BinaryExpr); ok && be.Op == token.GTR && exprStr(be.X) == "attempts" {
				if v, err := t.eval(be.Y, 0); err == nil {
					if id, ok := as.Lhs[0].(*ast.Ident); ok && useVar == "" {
						useVar = id.Name
						n, _ := c19ConstantInt64(v)
						threshold = n
					}
				}
			}
		}
		if is, ok := s.(*ast.IfStmt); ok && is.Init == nil {
			if ue, ok := is.Cond.(*ast.UnaryExpr); ok && ue.Op == token.NOT && exprStr(ue.X) == useVar && useVar != "" && is.Else == nil {
				ast.Inspect(is.Body, func(n ast.Node) bool {
					if c, ok := n.(*ast.CallExpr); ok && exprStr(c.Fun) == "client.throttle" {
						posGuard = is.Pos()
					}
					return true
				})
			}
		}
	}
	ast.Inspect(fd.Body, func(n ast.Node) bool {
		if c, ok := n.(*ast.CallExpr); ok {
			switch exprStr(c.Fun) {
			case "client.throttle":
				nThrottle++
			case "client.acmeClient.ObtainCertificate":
				if posOrder == token.NoPos {
					posOrder = c.Pos()
				}
			}
		}
		return true
	})
	if useVar == "" || threshold < 0 {
		t.errf("ACMEIssuer.doIssue: no `x := attempts > K` definition found")
		return
	}
	if posOrder == token.NoPos {
		t.errf("ACMEIssuer.doIssue: no client.acmeClient.ObtainCertificate call found")
		return
	}
	guarded := posGuard != token.NoPos && nThrottle == 1
	t.p("(* ACMEIssuer.doIssue: `%s := attempts > %d`; throttle call guarded by `!%s`: %v; guard precedes the order: %v *)\n",
		useVar, threshold, useVar, guarded, guarded && posGuard < posOrder)
	t.p("Definition throttle_attempts_threshold : Z := (%d)%%Z.\n", threshold)
	t.p("Definition throttle_guarded_by_first_attempt : bool := %v.\n", guarded)
	t.p("Definition throttle_precedes_order : bool := %v.\n", guarded && posGuard < posOrder)
}

// throttle: rateLimiterKey := c.acmeClient.Directory + "," + email
func (t *tr) c17EmitThrottleKey() {
	fd := t.funcs["acmeClient.throttle"]
	if fd == nil || fd.Body == nil {
		t.errf("missing acmeClient.throttle")
		return
	}
	found := false
	for _, s := range fd.Body.List {
		as, ok := s.(*ast.AssignStmt)
		if !ok || len(as.Lhs) != 1 || len(as.Rhs) != 1 || exprStr(as.Lhs[0]) != "rateLimiterKey" {
			continue
		}
		// (Directory + sep) + email
		outer, ok := as.Rhs[0].(*ast.BinaryExpr)
		if !ok || outer.Op != token.ADD || exprStr(outer.Y) != "email" {
			continue
		}
		inner, ok := outer.X.(*ast.BinaryExpr)
		if !ok || inner.Op != token.ADD || exprStr(inner.X) != "c.acmeClient.Directory" {
			continue
		}
		if sep, ok := t.strLit(inner.Y, "throttle key separator"); ok {
			t.p("Definition throttle_key_sep : str := %s. (* rateLimiterKey = Directory + %q + email *)\n", coqStr(sep), sep)
			found = true
		}
	}
	if !found {
		t.errf("acmeClient.throttle: rateLimiterKey is not `c.acmeClient.Directory + sep + email`")
	}
}

// throttle: the look-up of the per-(CA, account) limiter and the insertion of a new one must
// be one critical section of rateLimitersMu. The translator lists, in source order, every
// method call on rateLimitersMu, the map look-up and the map insertion, and emits whether the
// sequence is exactly Lock, lookup, insert, Unlock.
func (t *tr) c17EmitThrottleCriticalSection() {
	fd := t.funcs["acmeClient.throttle"]
	if fd == nil || fd.Body == nil {
		t.errf("missing acmeClient.throttle")
		return
	}
	var evs []string
	ast.Inspect(fd.Body, func(n ast.Node) bool {
		switch n := n.(type) {
		case *ast.CallExpr:
			if sel, ok := n.Fun.(*ast.SelectorExpr); ok && exprStr(sel.X) == "rateLimitersMu" {
				evs = append(evs, sel.Sel.Name)
			}
		case *ast.AssignStmt:
			for _, l := range n.Lhs {
				if ix, ok := l.(*ast.IndexExpr); ok && exprStr(ix.X) == "rateLimiters" {
					evs = append(evs, "insert")
				}
			}
			for _, r := range n.Rhs {
				if ix, ok := r.(*ast.IndexExpr); ok && exprStr(ix.X) == "rateLimiters" {
					evs = append(evs, "lookup")
				}
			}
		}
		return true
	})
	seq := strings.Join(evs, " ")
	if !strings.Contains(seq, "lookup") || !strings.Contains(seq, "insert") {
		t.errf("acmeClient.throttle: no look-up / insertion of rateLimiters found (%s)", seq)
		return
	}
	t.p("(* acmeClient.throttle, operations on rateLimitersMu / rateLimiters in source order: %s *)\n", seq)
	t.p("Definition throttle_lookup_insert_one_critical_section : bool := %v.\n", seq == "Lock lookup insert Unlock")
	// the insertion must be guarded by exactly `!ok` (ok = the key was found): a limiter that is
	// registered is never replaced
	guards := []string{}
	ast.Inspect(fd.Body, func(n ast.Node) bool {
		is, ok := n.(*ast.IfStmt)
		if !ok {
			return true
		}
		inserts := false
		ast.Inspect(is.Body, func(m ast.Node) bool {
			if as, ok := m.(*ast.AssignStmt); ok {
				for _, l := range as.Lhs {
					if ix, ok := l.(*ast.IndexExpr); ok && exprStr(ix.X) == "rateLimiters" {
						inserts = true
					}
				}
			}
			return true
		})
		if inserts {
			g := "?"
			if ue, ok := is.Cond.(*ast.UnaryExpr); ok && ue.Op == token.NOT {
				g = "!" + exprStr(ue.X)
			}
			guards = append(guards, g)
		}
		return true
	})
	t.p("(* acmeClient.throttle: guard(s) of the insertion into rateLimiters: %s *)\n", strings.Join(guards, ", "))
	t.p("Definition throttle_insert_guard_is_absent_only : bool := %v.\n", len(guards) == 1 && guards[0] == "!ok")
}
