package main

import (
	"go/ast"
	"go/token"
	"math/big"
)

// C03: the "almost full" factor in getCertDuringHandshake:
//
//	cacheAlmostFull := cacheCapacity > 0 && float64(cacheSize) >= cacheCapacity*.9
//
// emitted as an exact fraction (the model compares den*size >= num*capacity; the harness
// validates that this agrees with the float64 comparison for every capacity it uses).
func init() { items = append(items, emitC03) }

func emitC03(t *tr) {
	fd := t.funcs["Config.getCertDuringHandshake"]
	if fd == nil || fd.Body == nil {
		t.errf("missing Config.getCertDuringHandshake")
		return
	}
	var lits []*ast.BasicLit
	ast.Inspect(fd.Body, func(n ast.Node) bool {
		as, ok := n.(*ast.AssignStmt)
		if !ok || len(as.Lhs) != 1 || exprStr(as.Lhs[0]) != "cacheAlmostFull" {
			return true
		}
		ast.Inspect(as.Rhs[0], func(m ast.Node) bool {
			be, ok := m.(*ast.BinaryExpr)
			if ok && be.Op == token.MUL && exprStr(be.X) == "cacheCapacity" {
				if bl, ok := be.Y.(*ast.BasicLit); ok && (bl.Kind == token.FLOAT || bl.Kind == token.INT) {
					lits = append(lits, bl)
				}
			}
			return true
		})
		return false
	})
	if len(lits) != 1 {
		t.errf("getCertDuringHandshake: expected exactly one `cacheAlmostFull := ... cacheCapacity*<literal>`, found %d", len(lits))
		return
	}
	r, ok := new(big.Rat).SetString(lits[0].Value)
	if !ok || r.Sign() <= 0 || !r.Num().IsInt64() || !r.Denom().IsInt64() || r.Num().Int64() > 1000 || r.Denom().Int64() > 1000 {
		t.errf("getCertDuringHandshake: almost-full factor %q is not a small positive decimal", lits[0].Value)
		return
	}
	t.p("Definition almost_full_num : nat := %s%%nat. (* cacheCapacity*%s in getCertDuringHandshake *)\n", r.Num().String(), lits[0].Value)
	t.p("Definition almost_full_den : nat := %s%%nat.\n", r.Denom().String())
}
