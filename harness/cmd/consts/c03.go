package main

import (
	"go/ast"
	"go/token"
	"math/big"
	"strings"
)

// C03: the "almost full" factor in getCertDuringHandshake:
//
//	cacheAlmostFull := cacheCapacity > 0 && float64(cacheSize) >= cacheCapacity*.9
//
// emitted as an exact fraction (the model compares den*size >= num*capacity; the harness
// validates that this agrees with the float64 comparison for every capacity it uses).
func init() { items = append(items, emitC03) }

func emitC03(t *tr) {
	fd := t.funcs["Config.getCertDuringHandshake"]
	if fd == nil || fd.Body == nil {
		t.errf("missing Config.getCertDuringHandshake")
		return
	}
	var lits []*ast.BasicLit
	ast.Inspect(fd.Body, func(n ast.Node) bool {
		as, ok := n.(*ast.AssignStmt)
		if !ok || len(as.Lhs) != 1 || exprStr(as.Lhs[0]) != "cacheAlmostFull" {
			return true
		}
		ast.Inspect(as.Rhs[0], func(m ast.Node) bool {
			be, ok := m.(*ast.BinaryExpr)
			if ok && be.Op == token.MUL && exprStr(be.X) == "cacheCapacity" {
				if bl, ok := be.Y.(*ast.BasicLit); ok && (bl.Kind == token.FLOAT || bl.Kind == token.INT) {
					lits = append(lits, bl)
				}
			}
			return true
		})
		return false
	})
	if len(lits) != 1 {
		t.errf("getCertDuringHandshake: expected exactly one `cacheAlmostFull := ... cacheCapacity*<literal>`, found %d", len(lits))
		return
	}
	r, ok := new(big.Rat).SetString(lits[0].Value)
	if !ok || r.Sign() <= 0 || !r.Num().IsInt64() || !r.Denom().IsInt64() || r.Num().Int64() > 1000 || r.Denom().Int64() > 1000 {
		t.errf("getCertDuringHandshake: almost-full factor %q is not a small positive decimal", lits[0].Value)
		return
	}
	t.p("Definition almost_full_num : nat := %s%%nat. (* cacheCapacity*%s in getCertDuringHandshake *)\n", r.Num().String(), lits[0].Value)
	t.p("Definition almost_full_den : nat := %s%%nat.\n", r.Denom().String())
}

// ---- C03: the shapes of the lookup code that Lookup/Model.v writes out by hand ----
//
// Emitted as plain data; Props/C03.v (C03_code_shape_today) states what the model was written
// against, so a re-ordered or re-guarded statement makes that statement stop checking.
func init() { items = append(items, emitC03Shape) }

// c03Calls collects, in source order, the calls `<recv>.<name>(...)` in n.
func c03Calls(n ast.Node, fun string) []*ast.CallExpr {
	var out []*ast.CallExpr
	ast.Inspect(n, func(m ast.Node) bool {
		if c, ok := m.(*ast.CallExpr); ok && exprStr(c.Fun) == fun {
			out = append(out, c)
		}
		return true
	})
	return out
}

// c03SelectAssigns: the statements `cert, <flag> = cfg.selectCert(hello, <arg>)` of a block, in
// source order, as "<arg>:<flag>".
func c03SelectAssigns(n ast.Node) []string {
	var out []string
	ast.Inspect(n, func(m ast.Node) bool {
		as, ok := m.(*ast.AssignStmt)
		if !ok || len(as.Lhs) != 2 || len(as.Rhs) != 1 {
			return true
		}
		c, ok := as.Rhs[0].(*ast.CallExpr)
		if !ok || exprStr(c.Fun) != "cfg.selectCert" || len(c.Args) != 2 {
			return true
		}
		out = append(out, exprStr(c.Args[1])+":"+exprStr(as.Lhs[1]))
		return true
	})
	return out
}

func coqStrList(ss []string) string {
	var parts []string
	for _, s := range ss {
		parts = append(parts, coqStr(s))
	}
	return "[" + strings.Join(parts, "; ") + "]"
}

func emitC03Shape(t *tr) {
	// 1. getCertificateFromCache: if name == "" { addr; normDefault } else { name; loop candidate }; normFallback
	fd := t.funcs["Config.getCertificateFromCache"]
	if fd == nil || fd.Body == nil {
		t.errf("missing Config.getCertificateFromCache")
		return
	}
	var top *ast.IfStmt
	var tail []ast.Stmt
	for i, st := range fd.Body.List {
		if is, ok := st.(*ast.IfStmt); ok {
			if be, ok := is.Cond.(*ast.BinaryExpr); ok && be.Op == token.EQL && exprStr(be.X) == "name" && exprStr(be.Y) == `""` {
				top = is
				tail = fd.Body.List[i+1:]
				break
			}
		}
	}
	if top == nil || top.Else == nil {
		t.errf("getCertificateFromCache: no `if name == \"\" { ... } else { ... }`")
		return
	}
	if len(fd.Body.List) == 0 {
		t.errf("getCertificateFromCache: empty body")
		return
	}
	if as, ok := fd.Body.List[0].(*ast.AssignStmt); !ok || len(as.Rhs) != 1 || exprStr(as.Rhs[0]) != "normalizedName(...)" || exprStr(as.Lhs[0]) != "name" {
		t.errf("getCertificateFromCache: does not start with name := normalizedName(...)")
		return
	}
	noSNI := c03SelectAssigns(top.Body)
	withSNI := c03SelectAssigns(top.Else)
	var fb []string
	for _, st := range tail {
		fb = append(fb, c03SelectAssigns(st)...)
	}
	// every selectCert assignment must be followed by `if <flag> { return }`
	nRet := 0
	ast.Inspect(fd.Body, func(m ast.Node) bool {
		if is, ok := m.(*ast.IfStmt); ok && is.Else == nil && len(is.Body.List) == 1 {
			if _, isRet := is.Body.List[0].(*ast.ReturnStmt); isRet {
				if id := exprStr(is.Cond); id == "matched" || id == "defaulted" {
					nRet++
				}
			}
		}
		return true
	})
	if nRet != len(noSNI)+len(withSNI)+len(fb) {
		t.errf("getCertificateFromCache: %d selectCert assignments but %d `if matched/defaulted { return }`", len(noSNI)+len(withSNI)+len(fb), nRet)
		return
	}
	// the wildcard loop: labels := strings.Split(name, "."); for i := range labels { labels[i] = "*"; candidate := strings.Join(labels, ".") ... }
	loopOK := false
	star, sepSplit, sepJoin := "", "", ""
	ast.Inspect(top.Else, func(m ast.Node) bool {
		switch x := m.(type) {
		case *ast.AssignStmt:
			if len(x.Lhs) == 1 && exprStr(x.Lhs[0]) == "labels" && len(x.Rhs) == 1 {
				if c, ok := x.Rhs[0].(*ast.CallExpr); ok && exprStr(c.Fun) == "strings.Split" && len(c.Args) == 2 && exprStr(c.Args[0]) == "name" {
					sepSplit, _ = t.strLit(c.Args[1], "strings.Split separator")
				}
			}
		case *ast.RangeStmt:
			if exprStr(x.X) != "labels" || x.Key == nil || x.Value != nil || len(x.Body.List) < 2 {
				return true
			}
			k := exprStr(x.Key)
			a0, ok0 := x.Body.List[0].(*ast.AssignStmt)
			a1, ok1 := x.Body.List[1].(*ast.AssignStmt)
			if !ok0 || !ok1 || len(a0.Lhs) != 1 || len(a1.Rhs) != 1 {
				return true
			}
			ix, isIx := a0.Lhs[0].(*ast.IndexExpr)
			if !isIx || exprStr(ix.X) != "labels" || exprStr(ix.Index) != k {
				return true
			}
			star, _ = t.strLit(a0.Rhs[0], "wildcard label")
			if c, ok := a1.Rhs[0].(*ast.CallExpr); ok && exprStr(c.Fun) == "strings.Join" && len(c.Args) == 2 && exprStr(c.Args[0]) == "labels" && exprStr(a1.Lhs[0]) == "candidate" {
				sepJoin, _ = t.strLit(c.Args[1], "strings.Join separator")
				loopOK = true
			}
		}
		return true
	})
	if !loopOK {
		t.errf("getCertificateFromCache: wildcard loop `for i := range labels { labels[i] = \"*\"; candidate := strings.Join(labels, \".\") ...}` not found")
		return
	}
	t.p("(* getCertificateFromCache: the selectCert calls (argument:flag) without SNI, with SNI, afterwards; each followed by `if flag { return }` *)\n")
	t.p("Definition lookup_order_no_sni : list str := %s.\n", coqStrList(noSNI))
	t.p("Definition lookup_order_sni : list str := %s.\n", coqStrList(withSNI))
	t.p("Definition lookup_order_tail : list str := %s.\n", coqStrList(fb))
	t.p("Definition lookup_wildcard_label : str := %s. Definition lookup_split_sep : str := %s. Definition lookup_join_sep : str := %s. (* labels[i] = %q in `for i := range labels` *)\n",
		coqStr(star), coqStr(sepSplit), coqStr(sepJoin), star)

	// 2. normalizedName: strings.ToLower(strings.TrimSpace(serverName))
	if nn := t.funcs["normalizedName"]; nn != nil {
		ok := false
		if c := soleReturnCall(nn); c != nil && exprStr(c.Fun) == "strings.ToLower" && len(c.Args) == 1 {
			if in, isCall := c.Args[0].(*ast.CallExpr); isCall && exprStr(in.Fun) == "strings.TrimSpace" && len(in.Args) == 1 && exprStr(in.Args[0]) == "serverName" {
				ok = true
			}
		}
		if !ok {
			t.errf("normalizedName: not `return strings.ToLower(strings.TrimSpace(serverName))`")
			return
		}
		t.p("Definition normalized_name_is_lower_of_trim : bool := true. (* normalizedName = ToLower . TrimSpace *)\n")
	} else {
		t.errf("missing normalizedName")
		return
	}

	// 3. DefaultCertificateSelector: fast path for one choice, error for none, loop: unsupported -> continue;
	//    best = choice; unexpired -> return choice; finally return best
	ds := t.funcs["DefaultCertificateSelector"]
	if ds == nil || ds.Body == nil {
		t.errf("missing DefaultCertificateSelector")
		return
	}
	var codes []string
	ast.Inspect(ds.Body, func(m ast.Node) bool {
		switch x := m.(type) {
		case *ast.IfStmt:
			if be, ok := x.Cond.(*ast.BinaryExpr); ok && exprStr(be.X) == "len(...)" {
				codes = append(codes, "len"+be.Op.String()+exprStr(be.Y))
			}
			if x.Init != nil {
				if as, ok := x.Init.(*ast.AssignStmt); ok && len(as.Rhs) == 1 && exprStr(as.Rhs[0]) == "hello.SupportsCertificate(...)" {
					if be, ok := x.Cond.(*ast.BinaryExpr); ok && be.Op == token.NEQ && exprStr(be.Y) == "nil" && len(x.Body.List) == 1 {
						if br, ok := x.Body.List[0].(*ast.BranchStmt); ok && br.Tok == token.CONTINUE {
							codes = append(codes, "unsupported-continue")
						}
					}
				}
			}
			if be, ok := x.Cond.(*ast.BinaryExpr); ok && be.Op == token.LAND && exprStr(be.X) == "now.After(...)" && exprStr(be.Y) == "now.Before(...)" {
				if len(x.Body.List) == 1 {
					if rs, ok := x.Body.List[0].(*ast.ReturnStmt); ok && len(rs.Results) == 2 && exprStr(rs.Results[0]) == "choice" {
						ba, bb := be.X.(*ast.CallExpr), be.Y.(*ast.CallExpr)
						if len(ba.Args) == 1 && len(bb.Args) == 1 {
							codes = append(codes, "valid("+exprStr(ba.Args[0])+","+exprStr(bb.Args[0])+")-return-choice")
						}
					}
				}
			}
		case *ast.AssignStmt:
			if len(x.Lhs) == 1 && exprStr(x.Lhs[0]) == "best" && len(x.Rhs) == 1 {
				codes = append(codes, "best="+exprStr(x.Rhs[0]))
			}
		case *ast.ReturnStmt:
			if len(x.Results) == 2 && exprStr(x.Results[0]) == "best" {
				codes = append(codes, "return-best")
			}
		}
		return true
	})
	t.p("(* DefaultCertificateSelector, in source order *)\nDefinition default_selector_shape : list str := %s.\n", coqStrList(codes))

	// 4. selectCert: no choices and no custom selector -> (zero, false); custom selector and no choices -> getAllCerts
	sc := t.funcs["Config.selectCert"]
	if sc == nil || sc.Body == nil {
		t.errf("missing Config.selectCert")
		return
	}
	var scCodes []string
	ast.Inspect(sc.Body, func(m ast.Node) bool {
		switch x := m.(type) {
		case *ast.AssignStmt:
			if len(x.Lhs) == 1 && exprStr(x.Lhs[0]) == "choices" && len(x.Rhs) == 1 {
				scCodes = append(scCodes, "choices="+exprStr(x.Rhs[0]))
			}
		case *ast.IfStmt:
			if be, ok := x.Cond.(*ast.BinaryExpr); ok {
				scCodes = append(scCodes, "if "+exprStr(be.X)+be.Op.String()+exprStr(be.Y))
			}
		case *ast.CallExpr:
			if f := exprStr(x.Fun); f == "DefaultCertificateSelector" || f == "cfg.CertSelection.SelectCertificate" {
				scCodes = append(scCodes, "call "+f)
			}
		}
		return true
	})
	t.p("Definition select_cert_shape : list str := %s.\n", coqStrList(scCodes))

	// 5. loadCertFromStorage: exact name, on fs.ErrNotExist the name with labels[0] = "*"
	lf := t.funcs["Config.loadCertFromStorage"]
	if lf == nil || lf.Body == nil {
		t.errf("missing Config.loadCertFromStorage")
		return
	}
	var lfCodes []string
	ast.Inspect(lf.Body, func(m ast.Node) bool {
		switch x := m.(type) {
		case *ast.IfStmt:
			if c, ok := x.Cond.(*ast.CallExpr); ok && exprStr(c.Fun) == "errors.Is" && len(c.Args) == 2 {
				lfCodes = append(lfCodes, "if errors.Is(err,"+exprStr(c.Args[1])+")")
			}
		case *ast.AssignStmt:
			if len(x.Lhs) == 1 {
				if ix, ok := x.Lhs[0].(*ast.IndexExpr); ok && exprStr(ix.X) == "labels" {
					lit, _ := t.strLit(x.Rhs[0], "loadCertFromStorage wildcard label")
					lfCodes = append(lfCodes, "labels["+exprStr(ix.Index)+"]="+lit)
				}
			}
			if len(x.Rhs) == 1 {
				if c, ok := x.Rhs[0].(*ast.CallExpr); ok && exprStr(c.Fun) == "cfg.CacheManagedCertificate" && len(c.Args) == 2 {
					lfCodes = append(lfCodes, "load "+exprStr(c.Args[1]))
				}
			}
		}
		return true
	})
	t.p("Definition load_from_storage_shape : list str := %s.\n", coqStrList(lfCodes))

	// 6. getNameFromClientHello: idna.Lookup.ToASCII(strings.TrimSpace(hello.ServerName)); name != "" -> name;
	//    DefaultServerName != "" -> normalizedName(DefaultServerName); localIPFromConn(hello.Conn)
	gn := t.funcs["Config.getNameFromClientHello"]
	if gn == nil || gn.Body == nil {
		t.errf("missing Config.getNameFromClientHello")
		return
	}
	var gnCodes []string
	ast.Inspect(gn.Body, func(m ast.Node) bool {
		switch x := m.(type) {
		case *ast.AssignStmt:
			if len(x.Rhs) == 1 {
				if c, ok := x.Rhs[0].(*ast.CallExpr); ok && exprStr(c.Fun) == "idna.Lookup.ToASCII" && len(c.Args) == 1 {
					arg := exprStr(c.Args[0])
					if in, ok := c.Args[0].(*ast.CallExpr); ok && len(in.Args) == 1 {
						arg = exprStr(in.Fun) + "(" + exprStr(in.Args[0]) + ")"
					}
					gnCodes = append(gnCodes, "idna "+arg)
				}
			}
		case *ast.IfStmt:
			if be, ok := x.Cond.(*ast.BinaryExpr); ok {
				gnCodes = append(gnCodes, "if "+exprStr(be.X)+be.Op.String()+exprStr(be.Y))
			}
		case *ast.ReturnStmt:
			if len(x.Results) == 2 {
				r := exprStr(x.Results[0])
				if c, ok := x.Results[0].(*ast.CallExpr); ok && len(c.Args) == 1 {
					r = exprStr(c.Fun) + "(" + exprStr(c.Args[0]) + ")"
				}
				gnCodes = append(gnCodes, "return "+r)
			}
		}
		return true
	})
	t.p("Definition hello_name_shape : list str := %s.\n", coqStrList(gnCodes))

	// 7. the tail of getCertDuringHandshake: loadDynamically := cfg.OnDemand != nil || cacheAlmostFull; the
	//    comparison operators of cacheAlmostFull
	gd := t.funcs["Config.getCertDuringHandshake"]
	var afOps []string
	ast.Inspect(gd.Body, func(m ast.Node) bool {
		as, ok := m.(*ast.AssignStmt)
		if !ok || len(as.Lhs) != 1 || len(as.Rhs) != 1 {
			return true
		}
		switch exprStr(as.Lhs[0]) {
		case "cacheAlmostFull", "loadDynamically":
			ast.Inspect(as.Rhs[0], func(k ast.Node) bool {
				if be, ok := k.(*ast.BinaryExpr); ok {
					afOps = append(afOps, exprStr(as.Lhs[0])+":"+exprStr(be.X)+be.Op.String()+exprStr(be.Y))
				}
				return true
			})
		}
		return true
	})
	t.p("Definition almost_full_shape : list str := %s.\n", coqStrList(afOps))
}

// ---- C03: GetCertificateWithContext (Lookup/Model.v get_certificate) ----
func init() { items = append(items, emitC03Entry) }

func condStr(e ast.Expr) string {
	switch x := e.(type) {
	case *ast.BinaryExpr:
		if x.Op == token.LAND || x.Op == token.LOR {
			return condStr(x.X) + " " + x.Op.String() + " " + condStr(x.Y)
		}
		return operandStr(x.X) + x.Op.String() + operandStr(x.Y)
	case *ast.ParenExpr:
		return "(" + condStr(x.X) + ")"
	}
	return operandStr(e)
}

func operandStr(e ast.Expr) string {
	switch x := e.(type) {
	case *ast.IndexExpr:
		return operandStr(x.X) + "[" + operandStr(x.Index) + "]"
	case *ast.CallExpr:
		var as []string
		for _, a := range x.Args {
			as = append(as, operandStr(a))
		}
		return exprStr(x.Fun) + "(" + strings.Join(as, ",") + ")"
	case *ast.UnaryExpr:
		return x.Op.String() + operandStr(x.X)
	}
	return exprStr(e)
}

func emitC03Entry(t *tr) {
	fd := t.funcs["Config.GetCertificateWithContext"]
	if fd == nil || fd.Body == nil {
		t.errf("missing Config.GetCertificateWithContext")
		return
	}
	var codes []string
	for _, st := range fd.Body.List {
		switch x := st.(type) {
		case *ast.IfStmt:
			c := "if "
			if x.Init != nil {
				if as, ok := x.Init.(*ast.AssignStmt); ok && len(as.Rhs) == 1 {
					if call, ok := as.Rhs[0].(*ast.CallExpr); ok && exprStr(call.Fun) == "cfg.emit" && len(call.Args) >= 2 {
						ev, _ := t.strLit(call.Args[1], "event name")
						c += "err:=cfg.emit(" + ev + "); "
					}
				}
			}
			c += condStr(x.Cond)
			// how the branch ends
			if n := len(x.Body.List); n > 0 {
				if rs, ok := x.Body.List[n-1].(*ast.ReturnStmt); ok {
					var rr []string
					for _, r := range rs.Results {
						rr = append(rr, operandStr(r))
					}
					c += " -> return " + strings.Join(rr, ",")
				} else {
					c += " -> continue"
				}
			}
			codes = append(codes, c)
		case *ast.AssignStmt:
			if len(x.Rhs) == 1 {
				if call, ok := x.Rhs[0].(*ast.CallExpr); ok && exprStr(call.Fun) == "cfg.getCertDuringHandshake" {
					codes = append(codes, "cert,err:="+operandStr(call))
				}
			}
		case *ast.ReturnStmt:
			var rr []string
			for _, r := range x.Results {
				rr = append(rr, operandStr(r))
			}
			codes = append(codes, "return "+strings.Join(rr, ","))
		}
	}
	t.p("(* GetCertificateWithContext, top-level statements in source order *)\nDefinition get_certificate_shape : list str := %s.\n", coqStrList(codes))
}
