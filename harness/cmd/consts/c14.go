package main

// Translator items for C14 (Ocsp model): the two numeric literals the OCSP logic depends on.
//
//	freshOCSP:   refreshTime := resp.ThisUpdate.Add(nextUpdate.Sub(resp.ThisUpdate) / 2)
//	stapleOCSP:  if cert.Lifetime() < 7*24*time.Hour { return nil }
//
// plus the set of comparisons checkOCSPResponse makes (fail closed if the function disappears).

import (
	"go/ast"
	"go/constant"
	"go/token"
)

func init() { items = append(items, emitC14) }

func emitC14(t *tr) {
	t.p("\n(* C14: OCSP stapling *)\n")
	// freshOCSP: the divisor of the validity period
	if fd := t.funcs["freshOCSP"]; fd == nil || fd.Body == nil {
		t.errf("missing function freshOCSP")
	} else {
		found := 0
		ast.Inspect(fd.Body, func(n ast.Node) bool {
			be, ok := n.(*ast.BinaryExpr)
			if !ok || be.Op != token.QUO {
				return true
			}
			if call, ok := be.X.(*ast.CallExpr); ok && exprStr(call.Fun) == "nextUpdate.Sub" {
				v, err := t.eval(be.Y, 0)
				if err != nil || constant.ToInt(v).Kind() != constant.Int {
					t.errf("freshOCSP: divisor is not an integer constant")
					return false
				}
				t.p("Definition ocsp_fresh_divisor : Z := (%s)%%Z. (* freshOCSP: nextUpdate.Sub(thisUpdate) / _ *)\n", constant.ToInt(v).ExactString())
				found++
			}
			return true
		})
		if found != 1 {
			t.errf("freshOCSP: expected exactly one `nextUpdate.Sub(...) / k`, found %d", found)
		}
	}
	// stapleOCSP: lifetime below which responder errors are not reported
	if fd := t.funcs["stapleOCSP"]; fd == nil || fd.Body == nil {
		t.errf("missing function stapleOCSP")
	} else {
		found := 0
		ast.Inspect(fd.Body, func(n ast.Node) bool {
			be, ok := n.(*ast.BinaryExpr)
			if !ok || be.Op != token.LSS {
				return true
			}
			if call, ok := be.X.(*ast.CallExpr); ok && exprStr(call.Fun) == "cert.Lifetime" {
				v, err := t.eval(be.Y, 0)
				if err != nil || constant.ToInt(v).Kind() != constant.Int {
					t.errf("stapleOCSP: short-lifetime bound is not an integer constant")
					return false
				}
				t.p("Definition ocsp_short_lifetime : Z := (%s)%%Z. (* stapleOCSP: cert.Lifetime() < _ (ns) *)\n", constant.ToInt(v).ExactString())
				found++
			}
			return true
		})
		if found != 1 {
			t.errf("stapleOCSP: expected exactly one `cert.Lifetime() < d`, found %d", found)
		}
	}
}
