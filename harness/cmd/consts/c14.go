package main

// Translator items for C14 (Ocsp model): the two numeric literals the OCSP logic depends on.
//
//	freshOCSP:   refreshTime := resp.ThisUpdate.Add(nextUpdate.Sub(resp.ThisUpdate) / 2)
//	stapleOCSP:  if cert.Lifetime() < 7*24*time.Hour { return nil }
//
// plus the set of comparisons checkOCSPResponse makes (fail closed if the function disappears).

import (
	"bytes"
	"go/ast"
	"go/constant"
	"go/printer"
	"go/token"
	"strings"
)

func init() { items = append(items, emitC14) }

func emitC14(t *tr) {
	t.p("\n(* C14: OCSP stapling *)\n")
	// freshOCSP: the divisor of the validity period
	if fd := t.funcs["freshOCSP"]; fd == nil || fd.Body == nil {
		t.errf("missing function freshOCSP")
	} else {
		found := 0
		ast.Inspect(fd.Body, func(n ast.Node) bool {
			be, ok := n.(*ast.BinaryExpr)
			if !ok || be.Op != token.QUO {
				return true
			}
			if call, ok := be.X.(*ast.CallExpr); ok && exprStr(call.Fun) == "nextUpdate.Sub" {
				v, err := t.eval(be.Y, 0)
				if err != nil || constant.ToInt(v).Kind() != constant.Int {
					t.errf("freshOCSP: divisor is not an integer constant")
					return false
				}
				t.p("Definition ocsp_fresh_divisor : Z := (%s)%%Z. (* freshOCSP: nextUpdate.Sub(thisUpdate) / _ *)\n", constant.ToInt(v).ExactString())
				found++
			}
			return true
		})
		if found != 1 {
			t.errf("freshOCSP: expected exactly one `nextUpdate.Sub(...) / k`, found %d", found)
		}
	}
	// stapleOCSP: lifetime below which responder errors are not reported
	if fd := t.funcs["stapleOCSP"]; fd == nil || fd.Body == nil {
		t.errf("missing function stapleOCSP")
	} else {
		found := 0
		ast.Inspect(fd.Body, func(n ast.Node) bool {
			be, ok := n.(*ast.BinaryExpr)
			if !ok || be.Op != token.LSS {
				return true
			}
			if call, ok := be.X.(*ast.CallExpr); ok && exprStr(call.Fun) == "cert.Lifetime" {
				v, err := t.eval(be.Y, 0)
				if err != nil || constant.ToInt(v).Kind() != constant.Int {
					t.errf("stapleOCSP: short-lifetime bound is not an integer constant")
					return false
				}
				t.p("Definition ocsp_short_lifetime : Z := (%s)%%Z. (* stapleOCSP: cert.Lifetime() < _ (ns) *)\n", constant.ToInt(v).ExactString())
				found++
			}
			return true
		})
		if found != 1 {
			t.errf("stapleOCSP: expected exactly one `cert.Lifetime() < d`, found %d", found)
		}
	}
	emitC14Shape(t)
}

// c14Src prints a node of the repo's source exactly, with all white space removed.
func c14Src(t *tr, n ast.Node) string {
	var b bytes.Buffer
	printer.Fprint(&b, t.fset, n)
	return strings.Join(strings.Fields(b.String()), "")
}

// c14Has reports whether function fn contains an if statement with exactly this condition, or
// (kind "stmt") a statement with exactly this text, or (kind "ret") returns exactly this expression.
func c14Has(t *tr, fn, kind, text string) bool {
	fd := t.funcs[fn]
	if fd == nil || fd.Body == nil {
		return false
	}
	want := strings.Join(strings.Fields(text), "")
	found := false
	ast.Inspect(fd.Body, func(n ast.Node) bool {
		switch x := n.(type) {
		case *ast.IfStmt:
			if kind == "if" {
				cond := c14Src(t, x.Cond)
				if x.Init != nil {
					cond = c14Src(t, x.Init) + ";" + cond
				}
				if cond == want {
					found = true
				}
			}
		case *ast.AssignStmt:
			if kind == "stmt" && c14Src(t, x) == want {
				found = true
			}
		case *ast.ReturnStmt:
			if kind == "ret" && len(x.Results) == 1 && c14Src(t, x.Results[0]) == want {
				found = true
			}
		}
		return true
	})
	return found
}

// c14Order reports whether, among the top-level statements of fn, one whose text starts with a
// comes before one whose text starts with b.
func c14Order(t *tr, fn, a, b string) bool {
	fd := t.funcs[fn]
	if fd == nil || fd.Body == nil {
		return false
	}
	ia, ib := -1, -1
	for i, st := range fd.Body.List {
		src := c14Src(t, st)
		if ia < 0 && strings.HasPrefix(src, strings.Join(strings.Fields(a), "")) {
			ia = i
		}
		if ib < 0 && strings.HasPrefix(src, strings.Join(strings.Fields(b), "")) {
			ib = i
		}
	}
	return ia >= 0 && ib >= 0 && ia < ib
}

// emitC14Shape: the comparisons (with their direction), guards and statement order the Ocsp
// model hard-codes, one boolean each; Ocsp/Proofs.v proves that all of them are true
// (Lemma code_shape), so the proofs stop checking when the code no longer has this shape.
func emitC14Shape(t *tr) {
	flag := func(name string, ok bool, what string) {
		v := "false"
		if ok {
			v = "true"
		}
		t.p("Definition ocsp_tie_%s : bool := %s. (* %s *)\n", name, v, what)
	}
	const chk = "checkOCSPResponse"
	flag("serial", c14Has(t, chk, "if", `leaf != nil && (resp.SerialNumber == nil || leaf.SerialNumber == nil || resp.SerialNumber.Cmp(leaf.SerialNumber) != 0)`), "checkOCSPResponse: serial numbers must be equal")
	flag("this_after_now", c14Has(t, chk, "if", `resp.ThisUpdate.After(now)`), "checkOCSPResponse: rejects thisUpdate > now (r_this <= now)")
	flag("next_not_before", c14Has(t, chk, "if", `!resp.NextUpdate.IsZero() && !now.Before(resp.NextUpdate)`), "checkOCSPResponse: zero nextUpdate never expires, else now < nextUpdate")
	flag("rc_is_delegate", c14Has(t, chk, "if", `rc := resp.Certificate; rc != nil && leaf != nil && leaf.CheckSignatureFrom(rc) != nil`), "checkOCSPResponse: embedded certificate that is not the issuer itself")
	flag("rc_validity", c14Has(t, chk, "if", `now.Before(rc.NotBefore) || now.After(rc.NotAfter)`), "checkOCSPResponse: responder certificate valid now (nb <= now <= na)")
	flag("rc_eku", c14Has(t, chk, "if", `eku == x509.ExtKeyUsageOCSPSigning`) && c14Has(t, chk, "if", `!ocspSigning`), "checkOCSPResponse: responder certificate has id-kp-OCSPSigning")
	const st = "stapleOCSP"
	flag("disabled", c14Has(t, st, "if", `ocspConfig.DisableStapling`), "stapleOCSP: DisableStapling returns at once")
	flag("chain_issuer", c14Has(t, st, "if", `len(cert.Certificate.Certificate) > 1`) && c14Has(t, st, "if", `err == nil && issuerCert != nil`), "stapleOCSP: persisted staple only looked at with the issuer from the chain")
	flag("reuse_cond", c14Has(t, st, "if", `freshOCSP(resp) && checkOCSPResponse(resp, cert.Leaf) == nil`), "stapleOCSP: reuse iff fresh and valid for this certificate")
	flag("ask_cond", c14Has(t, st, "if", `ocspResp == nil || len(ocspBytes) == 0`), "stapleOCSP: responder asked iff nothing reusable")
	flag("check_all", c14Has(t, st, "if", `err := checkOCSPResponse(ocspResp, cert.Leaf); err != nil`), "stapleOCSP: every response goes through checkOCSPResponse")
	flag("overlong", c14Has(t, st, "if", `ocspResp.NextUpdate.After(expiresAt(cert.Leaf))`), "stapleOCSP: rejects nextUpdate > expiresAt (r_next <= c_expiry)")
	flag("good_only", c14Has(t, st, "if", `ocspResp.Status == ocsp.Good`), "stapleOCSP: staples (and persists) only Good")
	flag("persist_new_only", c14Has(t, st, "if", `gotNewOCSP`), "stapleOCSP: persists only what it fetched")
	flag("order", c14Order(t, st, `if err := checkOCSPResponse(`, `if ocspResp.NextUpdate.After(`) &&
		c14Order(t, st, `if ocspResp.NextUpdate.After(`, `cert.ocsp = ocspResp`) &&
		c14Order(t, st, `cert.ocsp = ocspResp`, `if ocspResp.Status == ocsp.Good`), "stapleOCSP: checks, then cert.ocsp, then the staple")
	flag("fresh_cap", c14Has(t, "freshOCSP", "if", `resp.Certificate != nil && resp.Certificate.NotAfter.Before(nextUpdate)`), "freshOCSP: validity capped by the responder certificate's NotAfter")
	flag("fresh_before", c14Has(t, "freshOCSP", "ret", `time.Now().Before(refreshTime)`), "freshOCSP: now < refresh time")
	const up = "Cache.updateOCSPStaples"
	flag("tick_skip_expired", c14Has(t, up, "if", `cert.Leaf == nil || cert.Expired()`), "updateOCSPStaples: expired certificates are skipped")
	flag("tick_skip_fresh", c14Has(t, up, "if", `cert.ocsp.Status != ocsp.Unknown && freshOCSP(cert.ocsp)`), "updateOCSPStaples: fresh and not Unknown => skipped")
	flag("tick_writeback", c14Has(t, up, "if", `cert.ocsp != nil && cert.ocsp.Status == ocsp.Good && (lastNextUpdate.IsZero() || lastNextUpdate != cert.ocsp.NextUpdate)`), "updateOCSPStaples: write-back condition")
	flag("force_renew", c14Has(t, "certShouldBeForceRenewed", "ret", `cert.managed && len(cert.Names) > 0 && cert.ocsp != nil && cert.ocsp.Status == ocsp.Revoked`), "certShouldBeForceRenewed")
	flag("hs_due", c14Has(t, "Config.handshakeMaintenance", "if", `cert.ocsp != nil && !freshOCSP(cert.ocsp)`), "handshakeMaintenance: refresh iff a status is recorded and not fresh")
	flag("hs_renew", c14Has(t, "Config.handshakeMaintenance", "if", `certShouldBeForceRenewed(cert)`), "handshakeMaintenance: revoked => forced renewal")
	flag("manage_renew", c14Has(t, "Config.manageOne", "if", `!cert.Expired() && cert.ocsp != nil && cert.ocsp.Status == ocsp.Revoked`), "manageOne: unexpired revoked => forceRenew at once")
	flag("renew_evict", c14Has(t, "Config.forceRenew", "if", `cert.ocsp != nil && cert.ocsp.Status == ocsp.Revoked`) && c14Has(t, "Config.forceRenew", "if", `err != nil && cert.ocsp != nil && cert.ocsp.Status == ocsp.Revoked`), "forceRenew: a revoked certificate that cannot be replaced (or whose replacement cannot be loaded) is removed")
}
