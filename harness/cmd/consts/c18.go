package main

// Translator items of C18 (storage cleaning): the literals and comparison operators that the
// Clean model takes from CleanStorage / deleteOldOCSPStaples / deleteExpiredCerts in maintain.go.
// Fails closed: any unexpected shape is an error.

import (
	"go/ast"
	"go/token"
	"strconv"
	"strings"
)

func init() { items = append(items, emitC18) }

var c18Cmp = map[token.Token]string{token.LSS: "CmpLt", token.LEQ: "CmpLe", token.GTR: "CmpGt", token.GEQ: "CmpGe", token.EQL: "CmpEq", token.NEQ: "CmpNe"}

// localStrConst finds `const name = "..."` declared inside fd's body.
func (t *tr) c18LocalStrConst(fd *ast.FuncDecl, name string) (string, bool) {
	var out string
	found := false
	ast.Inspect(fd.Body, func(n ast.Node) bool {
		gd, ok := n.(*ast.GenDecl)
		if !ok || gd.Tok != token.CONST {
			return true
		}
		for _, s := range gd.Specs {
			vs := s.(*ast.ValueSpec)
			for i, id := range vs.Names {
				if id.Name == name && i < len(vs.Values) {
					if bl, ok := vs.Values[i].(*ast.BasicLit); ok && bl.Kind == token.STRING {
						if v, err := strconv.Unquote(bl.Value); err == nil {
							out, found = v, true
						}
					}
				}
			}
		}
		return true
	})
	if !found {
		t.errf("%s: local string constant %s not found", fd.Name.Name, name)
	}
	return out, found
}

func c18Lit(e ast.Expr) (string, bool) {
	bl, ok := e.(*ast.BasicLit)
	if !ok || bl.Kind != token.STRING {
		return "", false
	}
	v, err := strconv.Unquote(bl.Value)
	return v, err == nil
}

func emitC18(t *tr) {
	cs, ds, de := t.funcs["CleanStorage"], t.funcs["deleteOldOCSPStaples"], t.funcs["deleteExpiredCerts"]
	if cs == nil || ds == nil || de == nil || cs.Body == nil || ds.Body == nil || de.Body == nil {
		t.errf("C18: CleanStorage / deleteOldOCSPStaples / deleteExpiredCerts not found")
		return
	}
	t.p("\n(* C18: storage cleaning (maintain.go) *)\nFrom CM Require Import Lib.CleanSyntax.\n")
	if s, ok := t.c18LocalStrConst(cs, "lockName"); ok {
		t.p("Definition clean_lock_name : str := %s. (* lockName = %q *)\n", coqStr(s), s)
	}
	if s, ok := t.c18LocalStrConst(cs, "storageKey"); ok {
		t.p("Definition clean_storage_key : str := %s. (* storageKey = %q *)\n", coqStr(s), s)
	}
	// CleanStorage: `if opts.Interval > 0` and `if time.Since(lastTLSClean.Timestamp) < opts.Interval`
	var guard, ivl []string
	ast.Inspect(cs.Body, func(n ast.Node) bool {
		is, ok := n.(*ast.IfStmt)
		if !ok {
			return true
		}
		be, ok := is.Cond.(*ast.BinaryExpr)
		if !ok {
			return true
		}
		if exprStr(be.X) == "opts.Interval" {
			if bl, ok := be.Y.(*ast.BasicLit); ok && bl.Value == "0" {
				guard = append(guard, c18Cmp[be.Op])
			}
		}
		if exprStr(be.X) == "time.Since(...)" && exprStr(be.Y) == "opts.Interval" {
			if call := be.X.(*ast.CallExpr); len(call.Args) == 1 && exprStr(call.Args[0]) == "lastTLSClean.Timestamp" {
				ivl = append(ivl, c18Cmp[be.Op])
			}
		}
		return true
	})
	if len(guard) != 1 || guard[0] != "CmpGt" {
		t.errf("CleanStorage: expected exactly one `if opts.Interval > 0` guard, found %v", guard)
	}
	if len(ivl) != 1 || ivl[0] == "" {
		t.errf("CleanStorage: expected exactly one `time.Since(lastTLSClean.Timestamp) <op> opts.Interval`, found %v", ivl)
	} else {
		t.p("Definition clean_interval_cmp : cmp_op := %s. (* skip if time.Since(last) <op> opts.Interval *)\n", ivl[0])
	}
	// every storage.List call in the two helpers is non-recursive
	for _, fd := range []*ast.FuncDecl{ds, de} {
		n := 0
		ast.Inspect(fd.Body, func(x ast.Node) bool {
			call, ok := x.(*ast.CallExpr)
			if !ok || exprStr(call.Fun) != "storage.List" {
				return true
			}
			n++
			if len(call.Args) != 3 || exprStr(call.Args[2]) != "false" {
				t.errf("%s: storage.List call %d is not of the form List(ctx, key, false)", fd.Name.Name, n)
			}
			return true
		})
		if n == 0 {
			t.errf("%s: no storage.List call", fd.Name.Name)
		}
	}
	// deleteOldOCSPStaples: `if time.Now().After(resp.NextUpdate)`
	var st []string
	ast.Inspect(ds.Body, func(n ast.Node) bool {
		is, ok := n.(*ast.IfStmt)
		if !ok {
			return true
		}
		call, ok := is.Cond.(*ast.CallExpr)
		if !ok || len(call.Args) != 1 || exprStr(call.Args[0]) != "resp.NextUpdate" {
			return true
		}
		sel, ok := call.Fun.(*ast.SelectorExpr)
		if !ok || exprStr(sel.X) != "time.Now(...)" {
			return true
		}
		switch sel.Sel.Name {
		case "After":
			st = append(st, "CmpGt")
		case "Before":
			st = append(st, "CmpLt")
		default:
			st = append(st, "")
		}
		return true
	})
	if len(st) != 1 || st[0] == "" {
		t.errf("deleteOldOCSPStaples: expected exactly one `time.Now().After|Before(resp.NextUpdate)`, found %v", st)
	} else {
		t.p("Definition clean_staple_cmp : cmp_op := %s. (* delete if now <op> NextUpdate *)\n", st[0])
	}
	// deleteExpiredCerts: path.Ext(assetKey) != ".crt"; expiredTime := time.Since(expiresAt(cert)); expiredTime >= gracePeriod;
	// strings.TrimSuffix(assetKey, ".crt"); []string{assetKey, baseName + ".key", baseName + ".json"}
	var ext, gr, trim []string
	var related [][]string
	ast.Inspect(de.Body, func(n ast.Node) bool {
		switch x := n.(type) {
		case *ast.IfStmt:
			be, ok := x.Cond.(*ast.BinaryExpr)
			if !ok {
				return true
			}
			if exprStr(be.X) == "path.Ext(...)" && be.Op == token.NEQ {
				if call := be.X.(*ast.CallExpr); len(call.Args) == 1 && exprStr(call.Args[0]) == "assetKey" {
					if s, ok := c18Lit(be.Y); ok {
						if _, isCont := c18FirstStmt(x.Body).(*ast.BranchStmt); isCont {
							ext = append(ext, s)
						}
					}
				}
			}
			if exprStr(be.X) == "expiredTime" && exprStr(be.Y) == "gracePeriod" {
				as, ok := x.Init.(*ast.AssignStmt)
				if ok && len(as.Lhs) == 1 && len(as.Rhs) == 1 && exprStr(as.Lhs[0]) == "expiredTime" && exprStr(as.Rhs[0]) == "time.Since(...)" {
					if c := as.Rhs[0].(*ast.CallExpr); len(c.Args) == 1 && exprStr(c.Args[0]) == "expiresAt(...)" {
						gr = append(gr, c18Cmp[be.Op])
					}
				}
			}
		case *ast.CallExpr:
			if exprStr(x.Fun) == "strings.TrimSuffix" && len(x.Args) == 2 && exprStr(x.Args[0]) == "assetKey" {
				if s, ok := c18Lit(x.Args[1]); ok {
					trim = append(trim, s)
				}
			}
		case *ast.CompositeLit:
			at, ok := x.Type.(*ast.ArrayType)
			if !ok || exprStr(at.Elt) != "string" || len(x.Elts) == 0 || exprStr(x.Elts[0]) != "assetKey" {
				return true
			}
			var sufs []string
			for _, el := range x.Elts[1:] {
				be, ok := el.(*ast.BinaryExpr)
				if !ok || be.Op != token.ADD || exprStr(be.X) != "baseName" {
					sufs = nil
					t.errf("deleteExpiredCerts: related asset %s is not of the form baseName + \"...\"", exprStr(el))
					break
				}
				s, ok := c18Lit(be.Y)
				if !ok {
					t.errf("deleteExpiredCerts: related asset suffix is not a string literal")
					break
				}
				sufs = append(sufs, s)
			}
			related = append(related, sufs)
		}
		return true
	})
	if len(ext) != 1 {
		t.errf("deleteExpiredCerts: expected exactly one `if path.Ext(assetKey) != \"...\" { continue }`, found %v", ext)
	} else {
		t.p("Definition clean_ext_crt : str := %s. (* path.Ext(assetKey) != %q *)\n", coqStr(ext[0]), ext[0])
	}
	if len(gr) != 1 || gr[0] == "" {
		t.errf("deleteExpiredCerts: expected exactly one `expiredTime := time.Since(expiresAt(cert)); expiredTime <op> gracePeriod`, found %v", gr)
	} else {
		t.p("Definition clean_grace_cmp : cmp_op := %s. (* time.Since(expiresAt(cert)) <op> gracePeriod *)\n", gr[0])
	}
	if len(trim) != 1 {
		t.errf("deleteExpiredCerts: expected exactly one strings.TrimSuffix(assetKey, \"...\"), found %v", trim)
	} else {
		t.p("Definition clean_trim_suffix : str := %s. (* strings.TrimSuffix(assetKey, %q) *)\n", coqStr(trim[0]), trim[0])
	}
	if len(related) != 1 {
		t.errf("deleteExpiredCerts: expected exactly one []string{assetKey, baseName + ...} literal, found %d", len(related))
	} else {
		var parts []string
		for _, s := range related[0] {
			parts = append(parts, coqStr(s))
		}
		t.p("Definition clean_related_suffixes : list str := [%s]. (* %q *)\n", strings.Join(parts, "; "), related[0])
	}
}

func c18FirstStmt(b *ast.BlockStmt) ast.Stmt {
	if b == nil || len(b.List) == 0 {
		return nil
	}
	return b.List[0]
}

// ---------------------------------------------------------------- shape of the control flow
//
// emitC18Shape reads what the Clean model hard-codes about the control flow of the three functions:
// the order of the top-level steps of CleanStorage (lock, deferred unlock, interval check, staples,
// certificates, record), which error branches abandon the function (return) and which go on
// (continue), the emptiness test and the Stat guard before the site-folder Delete, the PEM block type.
// Proofs.consts_shape_ok compares them with what the model does.

func init() { items = append(items, emitC18Shape) }

// c18After finds, in any statement list of fd, an assignment whose right-hand side is a call of fun
// (exprStr form, e.g. "storage.Load") with first-after-ctx argument arg ("" = any) and returns the
// statement that follows it.
func c18After(fd *ast.FuncDecl, fun, arg string) (next []ast.Stmt) {
	ast.Inspect(fd.Body, func(n ast.Node) bool {
		bs, ok := n.(*ast.BlockStmt)
		if !ok {
			return true
		}
		for i, st := range bs.List {
			as, ok := st.(*ast.AssignStmt)
			if !ok || len(as.Rhs) != 1 {
				continue
			}
			call, ok := as.Rhs[0].(*ast.CallExpr)
			if !ok || exprStr(call.Fun) != fun {
				continue
			}
			if arg != "" {
				found := false
				for _, a := range call.Args {
					if exprStr(a) == arg {
						found = true
					}
				}
				if !found {
					continue
				}
			}
			if i+1 < len(bs.List) {
				next = append(next, bs.List[i+1])
			} else {
				next = append(next, nil)
			}
		}
		return true
	})
	return next
}

// c18Leaves classifies how the body of an if statement ends: "return", "continue" or "".
func c18Leaves(st ast.Stmt) string {
	is, ok := st.(*ast.IfStmt)
	if !ok || is.Body == nil || len(is.Body.List) == 0 || is.Else != nil {
		return ""
	}
	switch l := is.Body.List[len(is.Body.List)-1].(type) {
	case *ast.ReturnStmt:
		return "return"
	case *ast.BranchStmt:
		if l.Tok == token.CONTINUE {
			return "continue"
		}
	}
	return ""
}

func c18HasCall(n ast.Node, fun string) bool {
	found := false
	ast.Inspect(n, func(x ast.Node) bool {
		if c, ok := x.(*ast.CallExpr); ok && exprStr(c.Fun) == fun {
			found = true
		}
		return true
	})
	return found
}

func emitC18Shape(t *tr) {
	cs, ds, de := t.funcs["CleanStorage"], t.funcs["deleteOldOCSPStaples"], t.funcs["deleteExpiredCerts"]
	if cs == nil || ds == nil || de == nil || cs.Body == nil || ds.Body == nil || de.Body == nil {
		t.errf("C18 shape: CleanStorage / deleteOldOCSPStaples / deleteExpiredCerts not found")
		return
	}
	t.p("\n(* C18: control-flow shape of storage cleaning (maintain.go) *)\n")
	// 1. top-level steps of CleanStorage in source order
	var steps []string
	for _, st := range cs.Body.List {
		name := ""
		switch x := st.(type) {
		case *ast.IfStmt:
			switch {
			case x.Init != nil && c18HasCall(x.Init, "acquireLock"):
				name = "lock"
			case x.Init != nil && c18HasCall(x.Init, "storage.Store"):
				name = "record"
			case exprStr(x.Cond) == "opts.OCSPStaples" && c18HasCall(x.Body, "deleteOldOCSPStaples"):
				name = "staples"
			case exprStr(x.Cond) == "opts.ExpiredCerts" && c18HasCall(x.Body, "deleteExpiredCerts"):
				name = "certs"
			default:
				if be, ok := x.Cond.(*ast.BinaryExpr); ok && exprStr(be.X) == "opts.Interval" && c18HasCall(x.Body, "storage.Load") {
					name = "interval"
				}
			}
		case *ast.DeferStmt:
			if c18HasCall(x, "releaseLock") {
				name = "defer_unlock"
			}
		}
		if name != "" {
			steps = append(steps, name)
			continue
		}
		for _, f := range []string{"storage.Load", "storage.Store", "storage.Delete", "storage.List", "storage.Stat", "storage.Lock", "storage.Unlock", "acquireLock", "releaseLock", "deleteOldOCSPStaples", "deleteExpiredCerts"} {
			if c18HasCall(st, f) {
				t.errf("CleanStorage: unexpected top-level statement calling %s", f)
			}
		}
	}
	var parts []string
	for _, s := range steps {
		parts = append(parts, coqStr(s))
	}
	t.p("Definition clean_steps : list str := [%s]. (* %q *)\n", strings.Join(parts, "; "), steps)
	// 2. error branches
	leave := func(fd *ast.FuncDecl, fun, arg, what string) string {
		nx := c18After(fd, fun, arg)
		if len(nx) != 1 || nx[0] == nil {
			t.errf("%s: expected exactly one `... := %s(..%s..)` followed by a statement, found %d", fd.Name.Name, fun, arg, len(nx))
			return ""
		}
		l := c18Leaves(nx[0])
		if l == "" {
			t.errf("%s: the statement after %s (%s) is not an if ending in return/continue", fd.Name.Name, fun, what)
		}
		return l
	}
	b := func(s string) string {
		if s == "return" {
			return "true"
		}
		return "false"
	}
	l1 := leave(ds, "storage.Load", "key", "staple load error")
	l2 := leave(de, "storage.Load", "assetKey", "certificate load error")
	l3 := leave(de, "pem.Decode", "certFile", "no PEM block")
	l4 := leave(de, "x509.ParseCertificate", "", "x509 parse error")
	l5 := leave(de, "storage.Delete", "siteKey", "site folder delete error")
	if l1 != "" && l2 != "" && l3 != "" && l4 != "" && l5 != "" {
		t.p("Definition clean_staple_load_error_aborts : bool := %s. (* %s *)\n", b(l1), l1)
		t.p("Definition clean_crt_errors_abort : list bool := [%s; %s; %s]. (* Load error: %s; no CERTIFICATE block: %s; x509 error: %s *)\n", b(l2), b(l3), b(l4), l2, l3, l4)
		t.p("Definition clean_folder_delete_error_aborts : bool := %s. (* %s *)\n", b(l5), l5)
	}
	// the three listings of deleteExpiredCerts below the first and the second site listing: continue; first listings: return nil
	nl := c18After(de, "storage.List", "")
	var ls []string
	for _, st := range nl {
		if st == nil {
			ls = append(ls, "")
			continue
		}
		ls = append(ls, c18Leaves(st))
	}
	if len(ls) != 4 || ls[0] != "return" || ls[1] != "continue" || ls[2] != "continue" || ls[3] != "continue" {
		t.errf("deleteExpiredCerts: expected 4 storage.List calls whose error branches end in return, continue, continue, continue; found %q", ls)
	} else {
		t.p("Definition clean_list_errors_abort : list bool := [true; false; false; false]. (* certificates: return nil; issuer, site, site again: continue *)\n")
	}
	// 3. PEM block type, emptiness test, Stat guard
	var pemType, empty []string
	guard := 0
	ast.Inspect(de.Body, func(n ast.Node) bool {
		is, ok := n.(*ast.IfStmt)
		if !ok {
			return true
		}
		if be, ok := is.Cond.(*ast.BinaryExpr); ok {
			if be.Op == token.LOR {
				if l, ok := be.X.(*ast.BinaryExpr); ok && exprStr(l.X) == "block" && exprStr(l.Y) == "nil" && l.Op == token.EQL {
					if r, ok := be.Y.(*ast.BinaryExpr); ok && exprStr(r.X) == "block.Type" && r.Op == token.NEQ {
						if s, ok := c18Lit(r.Y); ok {
							pemType = append(pemType, s)
						}
					}
				}
				if is.Init != nil && c18HasCall(is.Init, "storage.Stat") {
					if l, ok := be.X.(*ast.BinaryExpr); ok && exprStr(l.X) == "err" && exprStr(l.Y) == "nil" && l.Op == token.NEQ &&
						exprStr(be.Y) == "info.IsTerminal" && c18Leaves(is) == "continue" {
						if as, ok := is.Init.(*ast.AssignStmt); ok && len(as.Rhs) == 1 {
							if c, ok := as.Rhs[0].(*ast.CallExpr); ok && len(c.Args) == 2 && exprStr(c.Args[1]) == "siteKey" {
								guard++
							}
						}
					}
				}
			}
			if exprStr(be.X) == "len(...)" {
				if c := be.X.(*ast.CallExpr); len(c.Args) == 1 && exprStr(c.Args[0]) == "siteAssets" {
					if bl, ok := be.Y.(*ast.BasicLit); ok && bl.Value == "0" && c18Cmp[be.Op] != "" {
						empty = append(empty, c18Cmp[be.Op])
					}
				}
			}
		}
		return true
	})
	if len(pemType) != 1 {
		t.errf("deleteExpiredCerts: expected exactly one `block == nil || block.Type != \"...\"`, found %q", pemType)
	} else {
		t.p("Definition clean_pem_type : str := %s. (* block.Type != %q *)\n", coqStr(pemType[0]), pemType[0])
	}
	if len(empty) != 1 {
		t.errf("deleteExpiredCerts: expected exactly one `len(siteAssets) <op> 0`, found %q", empty)
	} else {
		t.p("Definition clean_folder_empty_cmp : cmp_op := %s. (* len(siteAssets) <op> 0 *)\n", empty[0])
	}
	// 4. expiresAt (certificates.go): return cert.NotAfter.Truncate(<d1>).Add(<d2>)
	if ea := t.funcs["expiresAt"]; ea == nil || ea.Body == nil || len(ea.Body.List) == 0 {
		t.errf("expiresAt not found")
	} else {
		ok := false
		if rs, isRet := ea.Body.List[len(ea.Body.List)-1].(*ast.ReturnStmt); isRet && len(rs.Results) == 1 {
			if add, isCall := rs.Results[0].(*ast.CallExpr); isCall && len(add.Args) == 1 {
				if sel, isSel := add.Fun.(*ast.SelectorExpr); isSel && sel.Sel.Name == "Add" {
					if tr, isCall := sel.X.(*ast.CallExpr); isCall && len(tr.Args) == 1 && exprStr(tr.Fun) == "cert.NotAfter.Truncate" {
						d1, e1 := t.eval(tr.Args[0], 0)
						d2, e2 := t.eval(add.Args[0], 0)
						if e1 == nil && e2 == nil {
							t.p("Definition clean_expires_trunc : Z := (%s)%%Z. (* NotAfter.Truncate(..), ns *)\n", d1.ExactString())
							t.p("Definition clean_expires_add : Z := (%s)%%Z. (* .Add(..), ns *)\n", d2.ExactString())
							ok = true
						}
					}
				}
			}
		}
		if !ok {
			t.errf("expiresAt: expected `return cert.NotAfter.Truncate(<const>).Add(<const>)`")
		}
	}
	if guard != 1 {
		t.errf("deleteExpiredCerts: expected exactly one `if info, err := storage.Stat(ctx, siteKey); err != nil || info.IsTerminal { continue }`, found %d", guard)
	} else {
		t.p("Definition clean_folder_guard : bool := true. (* Stat error or terminal key: the folder is left alone *)\n")
	}
}
