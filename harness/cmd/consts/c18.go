package main

// Translator items of C18 (storage cleaning): the literals and comparison operators that the
// Clean model takes from CleanStorage / deleteOldOCSPStaples / deleteExpiredCerts in maintain.go.
// Fails closed: any unexpected shape is an error.

import (
	"go/ast"
	"go/token"
	"strconv"
	"strings"
)

func init() { items = append(items, emitC18) }

var c18Cmp = map[token.Token]string{token.LSS: "CmpLt", token.LEQ: "CmpLe", token.GTR: "CmpGt", token.GEQ: "CmpGe", token.EQL: "CmpEq", token.NEQ: "CmpNe"}

// localStrConst finds `const name = "..."` declared inside fd's body.
func (t *tr) c18LocalStrConst(fd *ast.FuncDecl, name string) (string, bool) {
	var out string
	found := false
	ast.Inspect(fd.Body, func(n ast.Node) bool {
		gd, ok := n.(*ast.GenDecl)
		if !ok || gd.Tok != token.CONST {
			return true
		}
		for _, s := range gd.Specs {
			vs := s.(*ast.ValueSpec)
			for i, id := range vs.Names {
				if id.Name == name && i < len(vs.Values) {
					if bl, ok := vs.Values[i].(*ast.BasicLit); ok && bl.Kind == token.STRING {
						if v, err := strconv.Unquote(bl.Value); err == nil {
							out, found = v, true
						}
					}
				}
			}
		}
		return true
	})
	if !found {
		t.errf("%s: local string constant %s not found", fd.Name.Name, name)
	}
	return out, found
}

func c18Lit(e ast.Expr) (string, bool) {
	bl, ok := e.(*ast.BasicLit)
	if !ok || bl.Kind != token.STRING {
		return "", false
	}
	v, err := strconv.Unquote(bl.Value)
	return v, err == nil
}

func emitC18(t *tr) {
	cs, ds, de := t.funcs["CleanStorage"], t.funcs["deleteOldOCSPStaples"], t.funcs["deleteExpiredCerts"]
	if cs == nil || ds == nil || de == nil || cs.Body == nil || ds.Body == nil || de.Body == nil {
		t.errf("C18: CleanStorage / deleteOldOCSPStaples / deleteExpiredCerts not found")
		return
	}
	t.p("\n(* C18: storage cleaning (maintain.go) *)\nFrom CM Require Import Lib.CleanSyntax.\n")
	if s, ok := t.c18LocalStrConst(cs, "lockName"); ok {
		t.p("Definition clean_lock_name : str := %s. (* lockName = %q *)\n", coqStr(s), s)
	}
	if s, ok := t.c18LocalStrConst(cs, "storageKey"); ok {
		t.p("Definition clean_storage_key : str := %s. (* storageKey = %q *)\n", coqStr(s), s)
	}
	// CleanStorage: `if opts.Interval > 0` and `if time.Since(lastTLSClean.Timestamp) < opts.Interval`
	var guard, ivl []string
	ast.Inspect(cs.Body, func(n ast.Node) bool {
		is, ok := n.(*ast.IfStmt)
		if !ok {
			return true
		}
		be, ok := is.Cond.(*ast.BinaryExpr)
		if !ok {
			return true
		}
		if exprStr(be.X) == "opts.Interval" {
			if bl, ok := be.Y.(*ast.BasicLit); ok && bl.Value == "0" {
				guard = append(guard, c18Cmp[be.Op])
			}
		}
		if exprStr(be.X) == "time.Since(...)" && exprStr(be.Y) == "opts.Interval" {
			if call := be.X.(*ast.CallExpr); len(call.Args) == 1 && exprStr(call.Args[0]) == "lastTLSClean.Timestamp" {
				ivl = append(ivl, c18Cmp[be.Op])
			}
		}
		return true
	})
	if len(guard) != 1 || guard[0] != "CmpGt" {
		t.errf("CleanStorage: expected exactly one `if opts.Interval > 0` guard, found %v", guard)
	}
	if len(ivl) != 1 || ivl[0] == "" {
		t.errf("CleanStorage: expected exactly one `time.Since(lastTLSClean.Timestamp) <op> opts.Interval`, found %v", ivl)
	} else {
		t.p("Definition clean_interval_cmp : cmp_op := %s. (* skip if time.Since(last) <op> opts.Interval *)\n", ivl[0])
	}
	// every storage.List call in the two helpers is non-recursive
	for _, fd := range []*ast.FuncDecl{ds, de} {
		n := 0
		ast.Inspect(fd.Body, func(x ast.Node) bool {
			call, ok := x.(*ast.CallExpr)
			if !ok || exprStr(call.Fun) != "storage.List" {
				return true
			}
			n++
			if len(call.Args) != 3 || exprStr(call.Args[2]) != "false" {
				t.errf("%s: storage.List call %d is not of the form List(ctx, key, false)", fd.Name.Name, n)
			}
			return true
		})
		if n == 0 {
			t.errf("%s: no storage.List call", fd.Name.Name)
		}
	}
	// deleteOldOCSPStaples: `if time.Now().After(resp.NextUpdate)`
	var st []string
	ast.Inspect(ds.Body, func(n ast.Node) bool {
		is, ok := n.(*ast.IfStmt)
		if !ok {
			return true
		}
		call, ok := is.Cond.(*ast.CallExpr)
		if !ok || len(call.Args) != 1 || exprStr(call.Args[0]) != "resp.NextUpdate" {
			return true
		}
		sel, ok := call.Fun.(*ast.SelectorExpr)
		if !ok || exprStr(sel.X) != "time.Now(...)" {
			return true
		}
		switch sel.Sel.Name {
		case "After":
			st = append(st, "CmpGt")
		case "Before":
			st = append(st, "CmpLt")
		default:
			st = append(st, "")
		}
		return true
	})
	if len(st) != 1 || st[0] == "" {
		t.errf("deleteOldOCSPStaples: expected exactly one `time.Now().After|Before(resp.NextUpdate)`, found %v", st)
	} else {
		t.p("Definition clean_staple_cmp : cmp_op := %s. (* delete if now <op> NextUpdate *)\n", st[0])
	}
	// deleteExpiredCerts: path.Ext(assetKey) != ".crt"; expiredTime := time.Since(expiresAt(cert)); expiredTime >= gracePeriod;
	// strings.TrimSuffix(assetKey, ".crt"); []string{assetKey, baseName + ".key", baseName + ".json"}
	var ext, gr, trim []string
	var related [][]string
	ast.Inspect(de.Body, func(n ast.Node) bool {
		switch x := n.(type) {
		case *ast.IfStmt:
			be, ok := x.Cond.(*ast.BinaryExpr)
			if !ok {
				return true
			}
			if exprStr(be.X) == "path.Ext(...)" && be.Op == token.NEQ {
				if call := be.X.(*ast.CallExpr); len(call.Args) == 1 && exprStr(call.Args[0]) == "assetKey" {
					if s, ok := c18Lit(be.Y); ok {
						if _, isCont := c18FirstStmt(x.Body).(*ast.BranchStmt); isCont {
							ext = append(ext, s)
						}
					}
				}
			}
			if exprStr(be.X) == "expiredTime" && exprStr(be.Y) == "gracePeriod" {
				as, ok := x.Init.(*ast.AssignStmt)
				if ok && len(as.Lhs) == 1 && len(as.Rhs) == 1 && exprStr(as.Lhs[0]) == "expiredTime" && exprStr(as.Rhs[0]) == "time.Since(...)" {
					if c := as.Rhs[0].(*ast.CallExpr); len(c.Args) == 1 && exprStr(c.Args[0]) == "expiresAt(...)" {
						gr = append(gr, c18Cmp[be.Op])
					}
				}
			}
		case *ast.CallExpr:
			if exprStr(x.Fun) == "strings.TrimSuffix" && len(x.Args) == 2 && exprStr(x.Args[0]) == "assetKey" {
				if s, ok := c18Lit(x.Args[1]); ok {
					trim = append(trim, s)
				}
			}
		case *ast.CompositeLit:
			at, ok := x.Type.(*ast.ArrayType)
			if !ok || exprStr(at.Elt) != "string" || len(x.Elts) == 0 || exprStr(x.Elts[0]) != "assetKey" {
				return true
			}
			var sufs []string
			for _, el := range x.Elts[1:] {
				be, ok := el.(*ast.BinaryExpr)
				if !ok || be.Op != token.ADD || exprStr(be.X) != "baseName" {
					sufs = nil
					t.errf("deleteExpiredCerts: related asset %s is not of the form baseName + \"...\"", exprStr(el))
					break
				}
				s, ok := c18Lit(be.Y)
				if !ok {
					t.errf("deleteExpiredCerts: related asset suffix is not a string literal")
					break
				}
				sufs = append(sufs, s)
			}
			related = append(related, sufs)
		}
		return true
	})
	if len(ext) != 1 {
		t.errf("deleteExpiredCerts: expected exactly one `if path.Ext(assetKey) != \"...\" { continue }`, found %v", ext)
	} else {
		t.p("Definition clean_ext_crt : str := %s. (* path.Ext(assetKey) != %q *)\n", coqStr(ext[0]), ext[0])
	}
	if len(gr) != 1 || gr[0] == "" {
		t.errf("deleteExpiredCerts: expected exactly one `expiredTime := time.Since(expiresAt(cert)); expiredTime <op> gracePeriod`, found %v", gr)
	} else {
		t.p("Definition clean_grace_cmp : cmp_op := %s. (* time.Since(expiresAt(cert)) <op> gracePeriod *)\n", gr[0])
	}
	if len(trim) != 1 {
		t.errf("deleteExpiredCerts: expected exactly one strings.TrimSuffix(assetKey, \"...\"), found %v", trim)
	} else {
		t.p("Definition clean_trim_suffix : str := %s. (* strings.TrimSuffix(assetKey, %q) *)\n", coqStr(trim[0]), trim[0])
	}
	if len(related) != 1 {
		t.errf("deleteExpiredCerts: expected exactly one []string{assetKey, baseName + ...} literal, found %d", len(related))
	} else {
		var parts []string
		for _, s := range related[0] {
			parts = append(parts, coqStr(s))
		}
		t.p("Definition clean_related_suffixes : list str := [%s]. (* %q *)\n", strings.Join(parts, "; "), related[0])
	}
}

func c18FirstStmt(b *ast.BlockStmt) ast.Stmt {
	if b == nil || len(b.List) == 0 {
		return nil
	}
	return b.List[0]
}
