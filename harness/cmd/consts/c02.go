package main

// Translator items for C02 (SubjectQualifiesForCert, conjunct by conjunct) and C13 (the waiter
// and worker time-outs of the single-flight sections in handshake.go).

import (
	"fmt"
	"go/ast"
	"go/token"
	"strings"
)

func init() { items = append(items, emitQualifies, emitHandshakeTimeouts) }

// emitQualifies translates the body of SubjectQualifiesForCert: a single return of a
// conjunction; every conjunct must have one of the shapes below (fails closed otherwise).
//
//	strings.TrimSpace(subj) != ""                                    QNonBlank
//	!strings.HasPrefix(subj, lit)                                    QNotPrefix lit
//	!strings.HasSuffix(subj, lit)                                    QNotSuffix lit
//	(!strings.Contains(subj, a) || strings.HasPrefix(subj, b) || subj == c)   QOnlyIf a b c
//	!strings.ContainsAny(subj, lit)                                  QNoneOf lit
func emitQualifies(t *tr) {
	fd := t.funcs["SubjectQualifiesForCert"]
	if fd == nil || fd.Body == nil {
		t.errf("missing SubjectQualifiesForCert")
		return
	}
	if len(fd.Type.Params.List) != 1 || len(fd.Type.Params.List[0].Names) != 1 || len(fd.Body.List) != 1 {
		t.errf("SubjectQualifiesForCert: unexpected shape")
		return
	}
	v := fd.Type.Params.List[0].Names[0].Name
	rs, ok := fd.Body.List[0].(*ast.ReturnStmt)
	if !ok || len(rs.Results) != 1 {
		t.errf("SubjectQualifiesForCert: expected a single return")
		return
	}
	var conj []ast.Expr
	var flat func(e ast.Expr)
	flat = func(e ast.Expr) {
		if be, ok := e.(*ast.BinaryExpr); ok && be.Op == token.LAND {
			flat(be.X)
			flat(be.Y)
			return
		}
		conj = append(conj, e)
	}
	flat(rs.Results[0])
	isV := func(a ast.Expr) bool { id, ok := a.(*ast.Ident); return ok && id.Name == v }
	unparen := func(e ast.Expr) ast.Expr {
		for {
			p, ok := e.(*ast.ParenExpr)
			if !ok {
				return e
			}
			e = p.X
		}
	}
	// call f(v, lit) -> lit
	callLit := func(e ast.Expr, fn string) (string, bool) {
		c, ok := unparen(e).(*ast.CallExpr)
		if !ok || exprStr(c.Fun) != fn || len(c.Args) != 2 || !isV(c.Args[0]) {
			return "", false
		}
		return t.strLit(c.Args[1], fn)
	}
	notCallLit := func(e ast.Expr, fn string) (string, bool) {
		u, ok := unparen(e).(*ast.UnaryExpr)
		if !ok || u.Op != token.NOT {
			return "", false
		}
		return callLit(u.X, fn)
	}
	var out []string
	for _, c := range conj {
		c = unparen(c)
		nerr := len(t.errs)
		if be, ok := c.(*ast.BinaryExpr); ok && be.Op == token.NEQ {
			// strings.TrimSpace(subj) != ""
			call, ok1 := be.X.(*ast.CallExpr)
			lit, ok2 := t.strLit(be.Y, "SubjectQualifiesForCert")
			if ok1 && ok2 && lit == "" && exprStr(call.Fun) == "strings.TrimSpace" && len(call.Args) == 1 && isV(call.Args[0]) {
				out = append(out, "QNonBlank")
				continue
			}
		}
		if s, ok := notCallLit(c, "strings.HasPrefix"); ok {
			out = append(out, "QNotPrefix "+coqStr(s))
			continue
		}
		if s, ok := notCallLit(c, "strings.HasSuffix"); ok {
			out = append(out, "QNotSuffix "+coqStr(s))
			continue
		}
		if s, ok := notCallLit(c, "strings.ContainsAny"); ok {
			out = append(out, "QNoneOf "+coqStr(s))
			continue
		}
		// (!Contains(subj,a) || HasPrefix(subj,b) || subj == c)
		if be, ok := c.(*ast.BinaryExpr); ok && be.Op == token.LOR {
			if be2, ok := unparen(be.X).(*ast.BinaryExpr); ok && be2.Op == token.LOR {
				a, ok1 := notCallLit(be2.X, "strings.Contains")
				b, ok2 := callLit(be2.Y, "strings.HasPrefix")
				if eq, ok3 := unparen(be.Y).(*ast.BinaryExpr); ok1 && ok2 && ok3 && eq.Op == token.EQL && isV(eq.X) {
					if cs, ok := t.strLit(eq.Y, "SubjectQualifiesForCert"); ok {
						out = append(out, fmt.Sprintf("QOnlyIf %s %s %s", coqStr(a), coqStr(b), coqStr(cs)))
						continue
					}
				}
			}
		}
		t.errs = t.errs[:nerr]
		t.errf("SubjectQualifiesForCert: untranslatable conjunct at %s", t.fset.Position(c.Pos()))
		return
	}
	t.p("From CM Require Import Lib.QualSteps.\n")
	t.p("(* conjuncts of SubjectQualifiesForCert, in source order *)\nDefinition qualify_conds : list qcond :=\n  [ %s ].\n", strings.Join(out, ";\n    "))
}

// emitHandshakeTimeouts reads the durations of the select time-outs (time.NewTimer) and of the
// worker contexts (context.WithTimeout) in the three single-flight functions of handshake.go.
func emitHandshakeTimeouts(t *tr) {
	durs := func(fn string, callee string) ([]string, bool) {
		fd := t.funcs[fn]
		if fd == nil || fd.Body == nil {
			t.errf("missing %s", fn)
			return nil, false
		}
		var out []string
		okAll := true
		ast.Inspect(fd.Body, func(n ast.Node) bool {
			c, ok := n.(*ast.CallExpr)
			if !ok || exprStr(c.Fun) != callee {
				return true
			}
			arg := c.Args[len(c.Args)-1]
			v, err := t.eval(arg, 0)
			if err != nil {
				t.errf("%s: %s argument: %v", fn, callee, err)
				okAll = false
				return true
			}
			out = append(out, v.ExactString())
			return true
		})
		return out, okAll
	}
	emit := func(coqName, fn, callee string, want int) {
		ds, ok := durs(fn, callee)
		if !ok {
			return
		}
		if len(ds) != want {
			t.errf("%s: expected %d %s call(s), found %d", fn, want, callee, len(ds))
			return
		}
		t.p("Definition %s : list Z := [%s]%%Z. (* ns; %s in %s *)\n", coqName, strings.Join(ds, "; "), callee, fn)
	}
	emit("load_wait_timeouts", "Config.getCertDuringHandshake", "time.NewTimer", 1)
	emit("obtain_wait_timeouts", "Config.obtainOnDemandCertificate", "time.NewTimer", 1)
	emit("renew_wait_timeouts", "Config.renewDynamicCertificate", "time.NewTimer", 1)
	emit("obtain_ctx_timeouts", "Config.obtainOnDemandCertificate", "context.WithTimeout", 1)
	emit("renew_ctx_timeouts", "Config.renewDynamicCertificate", "context.WithTimeout", 2)
}
