package main

// Translator items for C02 (SubjectQualifiesForCert, conjunct by conjunct) and C13 (the waiter
// and worker time-outs of the single-flight sections in handshake.go).

import (
	"fmt"
	"go/ast"
	"go/constant"
	"go/token"
	"strings"
)

func init() {
	items = append(items, c02EmitC02Qualifies, c02EmitC13Timeouts, c02EmitC02GateShape, c02EmitC02PolicyShape)
}

// c02EmitC02Qualifies translates the body of SubjectQualifiesForCert: a single return of a
// conjunction; every conjunct must have one of the shapes below (fails closed otherwise).
//
//	strings.TrimSpace(subj) != ""                                    QNonBlank
//	!strings.HasPrefix(subj, lit)                                    QNotPrefix lit
//	!strings.HasSuffix(subj, lit)                                    QNotSuffix lit
//	(!strings.Contains(subj, a) || strings.HasPrefix(subj, b) || subj == c)   QOnlyIf a b c
//	!strings.ContainsAny(subj, lit)                                  QNoneOf lit
func c02EmitC02Qualifies(t *tr) {
	fd := t.funcs["SubjectQualifiesForCert"]
	if fd == nil || fd.Body == nil {
		t.errf("missing SubjectQualifiesForCert")
		return
	}
	if len(fd.Type.Params.List) != 1 || len(fd.Type.Params.List[0].Names) != 1 || len(fd.Body.List) != 1 {
		t.errf("SubjectQualifiesForCert: unexpected shape")
		return
	}
	v := fd.Type.Params.List[0].Names[0].Name
	rs, ok := fd.Body.List[0].(*ast.ReturnStmt)
	if !ok || len(rs.Results) != 1 {
		t.errf("SubjectQualifiesForCert: expected a single return")
		return
	}
	var conj []ast.Expr
	var flat func(e ast.Expr)
	flat = func(e ast.Expr) {
		if be, ok := e.(*ast.BinaryExpr); ok && be.Op == token.LAND {
			flat(be.X)
			flat(be.Y)
			return
		}
		conj = append(conj, e)
	}
	flat(rs.Results[0])
	isV := func(a ast.Expr) bool { id, ok := a.(*ast.Ident); return ok && id.Name == v }
	unparen := func(e ast.Expr) ast.Expr {
		for {
			p, ok := e.(*ast.ParenExpr)
			if !ok {
				return e
			}
			e = p.X
		}
	}
	// call f(v, lit) -> lit
	callLit := func(e ast.Expr, fn string) (string, bool) {
		c, ok := unparen(e).(*ast.CallExpr)
		if !ok || exprStr(c.Fun) != fn || len(c.Args) != 2 || !isV(c.Args[0]) {
			return "", false
		}
		return t.strLit(c.Args[1], fn)
	}
	notCallLit := func(e ast.Expr, fn string) (string, bool) {
		u, ok := unparen(e).(*ast.UnaryExpr)
		if !ok || u.Op != token.NOT {
			return "", false
		}
		return callLit(u.X, fn)
	}
	var out []string
	for _, c := range conj {
		c = unparen(c)
		nerr := len(t.errs)
		if be, ok := c.(*ast.BinaryExpr); ok && be.Op == token.NEQ {
			// strings.TrimSpace(subj) != ""
			call, ok1 := be.X.(*ast.CallExpr)
			lit, ok2 := t.strLit(be.Y, "SubjectQualifiesForCert")
			if ok1 && ok2 && lit == "" && exprStr(call.Fun) == "strings.TrimSpace" && len(call.Args) == 1 && isV(call.Args[0]) {
				out = append(out, "QNonBlank")
				continue
			}
		}
		if s, ok := notCallLit(c, "strings.HasPrefix"); ok {
			out = append(out, "QNotPrefix "+coqStr(s))
			continue
		}
		if s, ok := notCallLit(c, "strings.HasSuffix"); ok {
			out = append(out, "QNotSuffix "+coqStr(s))
			continue
		}
		if s, ok := notCallLit(c, "strings.ContainsAny"); ok {
			out = append(out, "QNoneOf "+coqStr(s))
			continue
		}
		// (!Contains(subj,a) || HasPrefix(subj,b) || subj == c)
		if be, ok := c.(*ast.BinaryExpr); ok && be.Op == token.LOR {
			if be2, ok := unparen(be.X).(*ast.BinaryExpr); ok && be2.Op == token.LOR {
				a, ok1 := notCallLit(be2.X, "strings.Contains")
				b, ok2 := callLit(be2.Y, "strings.HasPrefix")
				if eq, ok3 := unparen(be.Y).(*ast.BinaryExpr); ok1 && ok2 && ok3 && eq.Op == token.EQL && isV(eq.X) {
					if cs, ok := t.strLit(eq.Y, "SubjectQualifiesForCert"); ok {
						out = append(out, fmt.Sprintf("QOnlyIf %s %s %s", coqStr(a), coqStr(b), coqStr(cs)))
						continue
					}
				}
			}
		}
		t.errs = t.errs[:nerr]
		t.errf("SubjectQualifiesForCert: untranslatable conjunct at %s", t.fset.Position(c.Pos()))
		return
	}
	t.p("From CM Require Import Lib.QualSteps.\n")
	t.p("(* conjuncts of SubjectQualifiesForCert, in source order *)\nDefinition qualify_conds : list qcond :=\n  [ %s ].\n", strings.Join(out, ";\n    "))
}

// c02EmitC13Timeouts reads the durations of the select time-outs (time.NewTimer) and of the
// worker contexts (context.WithTimeout) in the three single-flight functions of handshake.go.
func c02EmitC13Timeouts(t *tr) {
	durs := func(fn string, callee string) ([]string, bool) {
		fd := t.funcs[fn]
		if fd == nil || fd.Body == nil {
			t.errf("missing %s", fn)
			return nil, false
		}
		var out []string
		okAll := true
		ast.Inspect(fd.Body, func(n ast.Node) bool {
			c, ok := n.(*ast.CallExpr)
			if !ok || exprStr(c.Fun) != callee {
				return true
			}
			arg := c.Args[len(c.Args)-1]
			v, err := t.eval(arg, 0)
			if err != nil {
				t.errf("%s: %s argument: %v", fn, callee, err)
				okAll = false
				return true
			}
			out = append(out, v.ExactString())
			return true
		})
		return out, okAll
	}
	emit := func(coqName, fn, callee string, want int) {
		ds, ok := durs(fn, callee)
		if !ok {
			return
		}
		if len(ds) != want {
			t.errf("%s: expected %d %s call(s), found %d", fn, want, callee, len(ds))
			return
		}
		t.p("Definition %s : list Z := [%s]%%Z. (* ns; %s in %s *)\n", coqName, strings.Join(ds, "; "), callee, fn)
	}
	emit("load_wait_timeouts", "Config.getCertDuringHandshake", "time.NewTimer", 1)
	emit("obtain_wait_timeouts", "Config.obtainOnDemandCertificate", "time.NewTimer", 1)
	emit("renew_wait_timeouts", "Config.renewDynamicCertificate", "time.NewTimer", 1)
	emit("obtain_ctx_timeouts", "Config.obtainOnDemandCertificate", "context.WithTimeout", 1)
	emit("renew_ctx_timeouts", "Config.renewDynamicCertificate", "context.WithTimeout", 2)
}

// c02EmitC02GateShape reads the literals the handshake model of C02 depends on:
//   - the requireOnDemand argument of every checkIfCertShouldBeObtained call, per function;
//   - the "almost full" factor of the cache-capacity test in getCertDuringHandshake;
//   - whether the obtainOnDemandCertificate call after a failed load in getCertDuringHandshake is
//     guarded by !errors.Is(err, errMaintainingLoadedCert), and whether loadCertFromStorage wraps
//     that sentinel when maintenance fails without yielding a certificate.
func c02EmitC02GateShape(t *tr) {
	boolArgs := func(fn, callee string, argIdx int) ([]string, bool) {
		fd := t.funcs[fn]
		if fd == nil || fd.Body == nil {
			t.errf("missing %s", fn)
			return nil, false
		}
		var out []string
		okAll := true
		ast.Inspect(fd.Body, func(n ast.Node) bool {
			c, ok := n.(*ast.CallExpr)
			if !ok || exprStr(c.Fun) != callee {
				return true
			}
			if len(c.Args) <= argIdx {
				t.errf("%s: %s called with %d arguments", fn, callee, len(c.Args))
				okAll = false
				return true
			}
			id, ok := c.Args[argIdx].(*ast.Ident)
			if !ok || (id.Name != "true" && id.Name != "false") {
				t.errf("%s: argument %d of %s is not a boolean literal", fn, argIdx, callee)
				okAll = false
				return true
			}
			out = append(out, id.Name)
			return true
		})
		return out, okAll
	}
	var parts []string
	for _, fn := range []string{"Config.getCertDuringHandshake", "Config.handshakeMaintenance", "Config.renewDynamicCertificate"} {
		bs, ok := boolArgs(fn, "cfg.checkIfCertShouldBeObtained", 2)
		if !ok {
			return
		}
		parts = append(parts, "["+strings.Join(bs, "; ")+"]")
	}
	// no other function of the package calls the gate
	for name, fd := range t.funcs {
		if fd.Body == nil || name == "Config.getCertDuringHandshake" || name == "Config.handshakeMaintenance" || name == "Config.renewDynamicCertificate" {
			continue
		}
		ast.Inspect(fd.Body, func(n ast.Node) bool {
			if c, ok := n.(*ast.CallExpr); ok && strings.HasSuffix(exprStr(c.Fun), ".checkIfCertShouldBeObtained") {
				t.errf("unexpected call of checkIfCertShouldBeObtained in %s", name)
			}
			return true
		})
	}
	t.p("(* requireOnDemand argument of the checkIfCertShouldBeObtained calls in getCertDuringHandshake, handshakeMaintenance, renewDynamicCertificate *)\n")
	t.p("Definition hs_gate_require_args : list (list bool) := [%s].\n", strings.Join(parts, "; "))

	// cacheAlmostFull := cacheCapacity > 0 && float64(cacheSize) >= cacheCapacity*<factor>
	fd := t.funcs["Config.getCertDuringHandshake"]
	found := 0
	ast.Inspect(fd.Body, func(n ast.Node) bool {
		as, ok := n.(*ast.AssignStmt)
		if !ok || len(as.Lhs) != 1 || exprStr(as.Lhs[0]) != "cacheAlmostFull" || len(as.Rhs) != 1 {
			return true
		}
		and, ok := as.Rhs[0].(*ast.BinaryExpr)
		if !ok || and.Op != token.LAND {
			t.errf("cacheAlmostFull: expected a conjunction")
			return true
		}
		gt, ok1 := and.X.(*ast.BinaryExpr)
		ge, ok2 := and.Y.(*ast.BinaryExpr)
		if !ok1 || !ok2 || gt.Op != token.GTR || exprStr(gt.X) != "cacheCapacity" || exprStr(gt.Y) != "0" || ge.Op != token.GEQ {
			t.errf("cacheAlmostFull: unexpected shape")
			return true
		}
		mul, ok := ge.Y.(*ast.BinaryExpr)
		if !ok || mul.Op != token.MUL || exprStr(mul.X) != "cacheCapacity" {
			t.errf("cacheAlmostFull: expected cacheCapacity*factor")
			return true
		}
		v, err := t.eval(mul.Y, 0)
		if err != nil {
			t.errf("cacheAlmostFull factor: %v", err)
			return true
		}
		num, den := constant.Num(v), constant.Denom(v)
		t.p("Definition hs_almost_full_num : nat := %s. Definition hs_almost_full_den : nat := %s. (* size >= capacity * %s *)\n",
			num.ExactString(), den.ExactString(), v.String())
		found++
		return true
	})
	if found != 1 {
		t.errf("getCertDuringHandshake: expected one cacheAlmostFull assignment, found %d", found)
		return
	}

	// the guard of the obtain call after a failed load, and the wrapping in loadCertFromStorage
	guarded, calls := 0, 0
	ast.Inspect(fd.Body, func(n ast.Node) bool {
		is, ok := n.(*ast.IfStmt)
		if !ok {
			return true
		}
		direct := false
		for _, st := range is.Body.List {
			if rs, ok := st.(*ast.ReturnStmt); ok && len(rs.Results) == 1 {
				if c, ok := rs.Results[0].(*ast.CallExpr); ok && exprStr(c.Fun) == "cfg.obtainOnDemandCertificate" {
					direct = true
				}
			}
		}
		if !direct {
			return true
		}
		calls++
		var conj []ast.Expr
		var flat func(e ast.Expr)
		flat = func(e ast.Expr) {
			if be, ok := e.(*ast.BinaryExpr); ok && be.Op == token.LAND {
				flat(be.X)
				flat(be.Y)
				return
			}
			conj = append(conj, e)
		}
		flat(is.Cond)
		for _, c := range conj {
			if u, ok := c.(*ast.UnaryExpr); ok && u.Op == token.NOT {
				if call, ok := u.X.(*ast.CallExpr); ok && exprStr(call.Fun) == "errors.Is" && len(call.Args) == 2 && exprStr(call.Args[1]) == "errMaintainingLoadedCert" {
					guarded++
				}
			}
		}
		return true
	})
	if calls != 1 {
		t.errf("getCertDuringHandshake: expected one `return cfg.obtainOnDemandCertificate(...)` inside an if, found %d", calls)
		return
	}
	wraps := false
	if lf := t.funcs["Config.loadCertFromStorage"]; lf != nil && lf.Body != nil {
		ast.Inspect(lf.Body, func(n ast.Node) bool {
			if c, ok := n.(*ast.CallExpr); ok && exprStr(c.Fun) == "fmt.Errorf" && len(c.Args) >= 2 {
				// the sentinel must be the first operand and be wrapped with %w
				if f, ok := t.strLit(c.Args[0], "loadCertFromStorage"); ok && strings.HasPrefix(f, "%w") && exprStr(c.Args[1]) == "errMaintainingLoadedCert" {
					wraps = true
				}
			}
			return true
		})
	} else {
		t.errf("missing Config.loadCertFromStorage")
		return
	}
	t.p("Definition hs_no_obtain_after_maintenance_error : bool := %v. (* !errors.Is(err, errMaintainingLoadedCert) guards the obtain call; loadCertFromStorage wraps the sentinel *)\n", guarded == 1 && wraps)
}

// c02EmitC02PolicyShape reads the statements the policy model of Handshake/Template.v rests on:
//   - newWithCache: `if cfg.OnDemand == nil { cfg.OnDemand = Default.OnDemand }` — the pointer is
//     aliased, not copied;
//   - manageAll: inside `if cfg.OnDemand != nil` the name is recorded with
//     `cfg.OnDemand.hostAllowlist[domainName] = struct{}{}`;
//   - checkIfCertShouldBeObtained: inside `if cfg.OnDemand != nil` the first statement is the
//     DecisionFunc branch, which ends in `return nil`, and the allowlist test
//     `len(cfg.OnDemand.hostAllowlist) > 0` comes after it.
func c02EmitC02PolicyShape(t *tr) {
	get := func(name string) *ast.FuncDecl {
		fd := t.funcs[name]
		if fd == nil || fd.Body == nil {
			t.errf("missing %s", name)
			return nil
		}
		return fd
	}
	nw, ma, ck := get("newWithCache"), get("Config.manageAll"), get("Config.checkIfCertShouldBeObtained")
	if nw == nil || ma == nil || ck == nil {
		return
	}
	isSel := func(e ast.Expr, s string) bool { return exprStr(e) == s }
	aliased := false
	ast.Inspect(nw.Body, func(n ast.Node) bool {
		is, ok := n.(*ast.IfStmt)
		if !ok {
			return true
		}
		c, ok := is.Cond.(*ast.BinaryExpr)
		if !ok || c.Op != token.EQL || !isSel(c.X, "cfg.OnDemand") || !isSel(c.Y, "nil") {
			return true
		}
		if len(is.Body.List) == 1 {
			if as, ok := is.Body.List[0].(*ast.AssignStmt); ok && as.Tok == token.ASSIGN && len(as.Lhs) == 1 && len(as.Rhs) == 1 &&
				isSel(as.Lhs[0], "cfg.OnDemand") && isSel(as.Rhs[0], "Default.OnDemand") {
				aliased = true
			}
		}
		return true
	})
	recorded := false
	ast.Inspect(ma.Body, func(n ast.Node) bool {
		as, ok := n.(*ast.AssignStmt)
		if !ok || len(as.Lhs) != 1 {
			return true
		}
		if ix, ok := as.Lhs[0].(*ast.IndexExpr); ok && isSel(ix.X, "cfg.OnDemand.hostAllowlist") {
			recorded = true
		}
		return true
	})
	decisionFirst := false
	ast.Inspect(ck.Body, func(n ast.Node) bool {
		is, ok := n.(*ast.IfStmt)
		if !ok {
			return true
		}
		c, ok := is.Cond.(*ast.BinaryExpr)
		if !ok || c.Op != token.NEQ || !isSel(c.X, "cfg.OnDemand") || !isSel(c.Y, "nil") || len(is.Body.List) != 2 {
			return true
		}
		d, ok1 := is.Body.List[0].(*ast.IfStmt)
		a, ok2 := is.Body.List[1].(*ast.IfStmt)
		if !ok1 || !ok2 {
			return true
		}
		dc, ok1 := d.Cond.(*ast.BinaryExpr)
		ac, ok2 := a.Cond.(*ast.BinaryExpr)
		if !ok1 || !ok2 || dc.Op != token.NEQ || !isSel(dc.X, "cfg.OnDemand.DecisionFunc") || ac.Op != token.GTR {
			return true
		}
		if lc, ok := ac.X.(*ast.CallExpr); !ok || exprStr(lc.Fun) != "len" || len(lc.Args) != 1 || !isSel(lc.Args[0], "cfg.OnDemand.hostAllowlist") {
			return true
		}
		if len(d.Body.List) > 0 {
			if rs, ok := d.Body.List[len(d.Body.List)-1].(*ast.ReturnStmt); ok && len(rs.Results) == 1 && isSel(rs.Results[0], "nil") {
				decisionFirst = true
			}
		}
		return true
	})
	t.p("Definition hs_template_ondemand_aliased : bool := %v. (* newWithCache: if cfg.OnDemand == nil { cfg.OnDemand = Default.OnDemand } *)\n", aliased)
	t.p("Definition hs_manage_records_allowlist : bool := %v. (* manageAll: cfg.OnDemand.hostAllowlist[name] = struct{}{} *)\n", recorded)
	t.p("Definition hs_decision_before_allowlist : bool := %v. (* checkIfCertShouldBeObtained: DecisionFunc branch (return nil) before the allowlist test *)\n", decisionFirst)
}
