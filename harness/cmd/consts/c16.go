package main

import (
	"go/ast"
	"go/token"
	"strconv"
	"strings"
)

// C15 / C16: literals, comparison directions and statement orders that the Challenge and
// Solvers models hard-code, read from the source on every run (fail closed: an unexpected shape
// is an error). The Coq files Challenge/Tie.v and Solvers/Tie.v state the values the models
// assume; they stop compiling when one of these changes.
//
//	c15_http_method             solveHTTPChallenge / LooksLikeHTTPChallenge: r.Method == http.MethodGet
//	c15_alpn_protos_len         GetCertificateWithContext: len(clientHello.SupportedProtos) == N
//	c15_ip_ident_type           challengeKey: chal.Identifier.Type == "ip"
//	c15_key_strips              challengeKey: reversed[:len(reversed)-N]
//	c15_lookup_order            getChallengeInfo: 0 GetACMEChallenge (memory) before 1 the loop over cfg.Issuers with Storage.Load
//	c15_solve_conjuncts         solveHTTPChallenge: the conjuncts of the condition (0 path ==, 1 EqualFold(challengeHost(r.Host), ident), 2 method ==)
//	c16_wrapper_present_order   solverWrapper.Present: 0 activeChallenges[challengeKey(chal)] = ..., 1 sw.Solver.Present
//	c16_wrapper_cleanup_order   solverWrapper.CleanUp: 0 delete(activeChallenges, challengeKey(chal)), 1 sw.Solver.CleanUp
//	c16_dist_present_order      distributedSolver.Present: 0 storage.Store, 1 solver.Present, both unconditional
//	c16_dist_cleanup_order      distributedSolver.CleanUp: 0 storage.Delete, 1 solver.CleanUp, both unconditional
//	c16_dist_cleanup_fresh_ctx  ... Delete's context is derived with context.WithoutCancel
//	c16_listen_present_order    httpSolver.Present and tlsALPNSolver.Present: 0 si.count++, 1 if si.listener != nil { return nil }, 2 robustTryListen
//	c16_close_at_count          httpSolver.CleanUp and tlsALPNSolver.CleanUp: si.count-- ; if si.count == N { Close; delete(solvers, address) }
//	c16_dns_present_order       DNS01Solver.Present: 0 createRecord, 1 saveDNSPresentMemory
//	c16_dns_forget_deferred     DNS01Solver.CleanUp: defer s.deleteDNSPresentMemory(...)
//	c16_dns_cleanup_fresh_ctx   DNSManager.cleanUpRecord: ignores its context parameter, DeleteRecords gets one derived from context.Background()
func init() { items = append(items, emitC15Order, emitC16Order) }

func natList(xs []int) string {
	var parts []string
	for _, x := range xs {
		parts = append(parts, strconv.Itoa(x)+"%nat")
	}
	return "[" + strings.Join(parts, "; ") + "]"
}

// fullExpr renders selector / call / index expressions more completely than exprStr.
func fullExpr(e ast.Expr) string {
	switch e := e.(type) {
	case *ast.Ident:
		return e.Name
	case *ast.SelectorExpr:
		return fullExpr(e.X) + "." + e.Sel.Name
	case *ast.CallExpr:
		var as []string
		for _, a := range e.Args {
			as = append(as, fullExpr(a))
		}
		return fullExpr(e.Fun) + "(" + strings.Join(as, ",") + ")"
	case *ast.IndexExpr:
		return fullExpr(e.X) + "[" + fullExpr(e.Index) + "]"
	case *ast.BasicLit:
		return e.Value
	case *ast.StarExpr:
		return "*" + fullExpr(e.X)
	case *ast.UnaryExpr:
		return e.Op.String() + fullExpr(e.X)
	case *ast.BinaryExpr:
		return fullExpr(e.X) + e.Op.String() + fullExpr(e.Y)
	case *ast.ParenExpr:
		return "(" + fullExpr(e.X) + ")"
	case *ast.SliceExpr:
		lo, hi := "", ""
		if e.Low != nil {
			lo = fullExpr(e.Low)
		}
		if e.High != nil {
			hi = fullExpr(e.High)
		}
		return fullExpr(e.X) + "[" + lo + ":" + hi + "]"
	case *ast.CompositeLit:
		return "lit{...}"
	}
	return "?"
}

// topLevel returns, for each top-level statement of fd's body, the index of the first marker
// (substring of the rendered statement) that it matches; statements matching none are skipped.
// A marker that only occurs nested inside an if / for / switch body is NOT seen: the models assume
// these calls are unconditional.
func (t *tr) topLevelOrder(fn string, markers []string) ([]int, bool) {
	fd := t.funcs[fn]
	if fd == nil || fd.Body == nil {
		t.errf("missing %s", fn)
		return nil, false
	}
	var out []int
	for _, st := range fd.Body.List {
		var s string
		switch st := st.(type) {
		case *ast.ExprStmt:
			s = fullExpr(st.X)
		case *ast.AssignStmt:
			var l, r []string
			for _, x := range st.Lhs {
				l = append(l, fullExpr(x))
			}
			for _, x := range st.Rhs {
				r = append(r, fullExpr(x))
			}
			s = strings.Join(l, ",") + st.Tok.String() + strings.Join(r, ",")
		case *ast.IncDecStmt:
			s = fullExpr(st.X) + st.Tok.String()
		case *ast.ReturnStmt:
			var r []string
			for _, x := range st.Results {
				r = append(r, fullExpr(x))
			}
			s = "return " + strings.Join(r, ",")
		case *ast.DeferStmt:
			s = "defer " + fullExpr(st.Call)
		case *ast.IfStmt:
			// only the condition (and an init statement) are "unconditional"
			s = "if "
			if as, ok := st.Init.(*ast.AssignStmt); ok {
				for _, x := range as.Rhs {
					s += fullExpr(x) + ";"
				}
			}
			s += fullExpr(st.Cond)
			if len(st.Body.List) == 1 {
				if rs, ok := st.Body.List[0].(*ast.ReturnStmt); ok {
					var r []string
					for _, x := range rs.Results {
						r = append(r, fullExpr(x))
					}
					s += " {return " + strings.Join(r, ",") + "}"
				}
			}
		case *ast.RangeStmt:
			s = "range " + fullExpr(st.X) + " {" + renderBlockCalls(st.Body) + "}"
		default:
			continue
		}
		for i, m := range markers {
			if strings.Contains(s, m) {
				out = append(out, i)
				break
			}
		}
	}
	return out, true
}

func renderBlockCalls(b *ast.BlockStmt) string {
	var parts []string
	ast.Inspect(b, func(n ast.Node) bool {
		if c, ok := n.(*ast.CallExpr); ok {
			parts = append(parts, fullExpr(c.Fun))
		}
		return true
	})
	return strings.Join(parts, ";")
}

func (t *tr) emitOrder(coqName, fn string, markers []string, want []int) {
	got, ok := t.topLevelOrder(fn, markers)
	if !ok {
		return
	}
	if len(got) != len(want) {
		t.errf("%s: expected the top-level statements %v in this order, found %v (by index)", fn, markers, got)
		// still emitted: the Coq side compares
	}
	t.p("Definition %s : list nat := %s. (* %s: %s *)\n", coqName, natList(got), fn, strings.Join(markers, " | "))
}

func emitC15Order(t *tr) {
	// ---- r.Method == http.MethodGet in solveHTTPChallenge and LooksLikeHTTPChallenge
	methods := map[string]bool{}
	for _, fn := range []string{"solveHTTPChallenge", "LooksLikeHTTPChallenge"} {
		fd := t.funcs[fn]
		if fd == nil || fd.Body == nil {
			t.errf("missing %s", fn)
			return
		}
		found := false
		ast.Inspect(fd.Body, func(n ast.Node) bool {
			if be, ok := n.(*ast.BinaryExpr); ok && be.Op == token.EQL && fullExpr(be.X) == "r.Method" {
				switch fullExpr(be.Y) {
				case "http.MethodGet":
					methods["GET"], found = true, true
				default:
					if s, ok := t.strLit(be.Y, fn+": method"); ok {
						methods[s], found = true, true
					}
				}
			}
			return true
		})
		if !found {
			t.errf("%s: no comparison r.Method == <method>", fn)
		}
	}
	if len(methods) == 1 {
		for m := range methods {
			t.p("Definition c15_http_method : str := %s. (* %q: r.Method == http.MethodGet in solveHTTPChallenge and LooksLikeHTTPChallenge *)\n", coqStr(m), m)
		}
	} else {
		t.errf("solveHTTPChallenge / LooksLikeHTTPChallenge compare the method with %v", methods)
	}
	// ---- the conjuncts of solveHTTPChallenge's condition
	if fd := t.funcs["solveHTTPChallenge"]; fd != nil && fd.Body != nil {
		var conj []int
		ast.Inspect(fd.Body, func(n ast.Node) bool {
			is, ok := n.(*ast.IfStmt)
			if !ok || len(conj) > 0 {
				return true
			}
			var flat func(e ast.Expr) []ast.Expr
			flat = func(e ast.Expr) []ast.Expr {
				if be, ok := e.(*ast.BinaryExpr); ok && be.Op == token.LAND {
					return append(flat(be.X), flat(be.Y)...)
				}
				return []ast.Expr{e}
			}
			for _, c := range flat(is.Cond) {
				s := fullExpr(c)
				switch {
				case s == "r.URL.Path==challengeReqPath":
					conj = append(conj, 0)
				case s == "strings.EqualFold(challengeHost(r.Host),challenge.Identifier.Value)":
					conj = append(conj, 1)
				case s == "r.Method==http.MethodGet":
					conj = append(conj, 2)
				default:
					conj = append(conj, 9)
				}
			}
			return true
		})
		t.p("Definition c15_solve_conjuncts : list nat := %s. (* solveHTTPChallenge: 0 r.URL.Path == challengeReqPath, 1 strings.EqualFold(challengeHost(r.Host), challenge.Identifier.Value), 2 r.Method == http.MethodGet; 9 anything else *)\n", natList(conj))
	}
	// ---- len(clientHello.SupportedProtos) == N and clientHello.ServerName != ""
	if fd := t.funcs["Config.GetCertificateWithContext"]; fd == nil || fd.Body == nil {
		t.errf("missing Config.GetCertificateWithContext")
	} else {
		n, sni := "", false
		ast.Inspect(fd.Body, func(x ast.Node) bool {
			be, ok := x.(*ast.BinaryExpr)
			if !ok {
				return true
			}
			if be.Op == token.EQL && fullExpr(be.X) == "len(clientHello.SupportedProtos)" {
				if lit, ok := be.Y.(*ast.BasicLit); ok && lit.Kind == token.INT {
					n = lit.Value
				}
			}
			if be.Op == token.NEQ && fullExpr(be.X) == "clientHello.ServerName" && fullExpr(be.Y) == `""` {
				sni = true
			}
			return true
		})
		if n == "" || !sni {
			t.errf("GetCertificateWithContext: expected len(clientHello.SupportedProtos) == <n> and clientHello.ServerName != \"\"")
		} else {
			t.p("Definition c15_alpn_protos_len : nat := %s%%nat. (* len(clientHello.SupportedProtos) == %s, with clientHello.ServerName != \"\" *)\n", n, n)
		}
	}
	// ---- challengeKey
	if fd := t.funcs["challengeKey"]; fd == nil || fd.Body == nil {
		t.errf("missing challengeKey")
	} else {
		idt, strip, alpn := "", "", false
		ast.Inspect(fd.Body, func(x ast.Node) bool {
			switch x := x.(type) {
			case *ast.BinaryExpr:
				if x.Op == token.EQL && fullExpr(x.X) == "chal.Identifier.Type" {
					if s, ok := t.strLit(x.Y, "challengeKey identifier type"); ok {
						idt = s
					}
				}
				if x.Op == token.EQL && fullExpr(x.X) == "chal.Type" && fullExpr(x.Y) == "acme.ChallengeTypeTLSALPN01" {
					alpn = true
				}
			case *ast.SliceExpr:
				if fullExpr(x.X) == "reversed" && x.Low == nil {
					if be, ok := x.High.(*ast.BinaryExpr); ok && be.Op == token.SUB && fullExpr(be.X) == "len(reversed)" {
						if lit, ok := be.Y.(*ast.BasicLit); ok {
							strip = lit.Value
						}
					}
				}
			}
			return true
		})
		if idt == "" || strip == "" || !alpn {
			t.errf("challengeKey: unexpected shape (identifier type %q, strip %q, tls-alpn test %v)", idt, strip, alpn)
		} else {
			t.p("Definition c15_ip_ident_type : str := %s. (* chal.Type == acme.ChallengeTypeTLSALPN01 && chal.Identifier.Type == %q *)\n", coqStr(idt), idt)
			t.p("Definition c15_key_strips : nat := %s%%nat. (* reversed[:len(reversed)-%s] *)\n", strip, strip)
		}
	}
	// ---- getChallengeInfo: memory first, then the issuers in order
	t.emitOrder("c15_lookup_order", "Config.getChallengeInfo", []string{"GetACMEChallenge(", "range cfg.Issuers"}, []int{0, 1})
}

func emitC16Order(t *tr) {
	// the ports the challenge solvers fall back to (getHTTPPort / getTLSALPNPort)
	t.emitZ("http_challenge_port", "HTTPChallengePort")
	t.emitZ("tlsalpn_challenge_port", "TLSALPNChallengePort")
	for _, x := range []struct{ fn, base, glob, alt, coq string }{
		{"ACMEIssuer.getHTTPPort", "HTTPChallengePort", "HTTPPort", "iss.AltHTTPPort", "c16_http_port_shape"},
		{"ACMEIssuer.getTLSALPNPort", "TLSALPNChallengePort", "HTTPSPort", "iss.AltTLSALPNPort", "c16_tlsalpn_port_shape"}} {
		// use := <base>; if <glob> > 0 && <glob> != <base> { use = <glob> }; if <alt> > 0 { use = <alt> }; return use
		fd := t.funcs[x.fn]
		ok := fd != nil && fd.Body != nil && len(fd.Body.List) == 4
		if ok {
			as, ok1 := fd.Body.List[0].(*ast.AssignStmt)
			if1, ok2 := fd.Body.List[1].(*ast.IfStmt)
			if2, ok3 := fd.Body.List[2].(*ast.IfStmt)
			rs, ok4 := fd.Body.List[3].(*ast.ReturnStmt)
			ok = ok1 && ok2 && ok3 && ok4 && len(as.Rhs) == 1 && fullExpr(as.Rhs[0]) == x.base &&
				fullExpr(if1.Cond) == x.glob+">0&&"+x.glob+"!="+x.base && fullExpr(if2.Cond) == x.alt+">0" &&
				len(rs.Results) == 1 && len(as.Lhs) == 1 && fullExpr(rs.Results[0]) == fullExpr(as.Lhs[0])
			if ok {
				a1, b1 := if1.Body.List[0].(*ast.AssignStmt)
				a2, b2 := if2.Body.List[0].(*ast.AssignStmt)
				ok = b1 && b2 && fullExpr(a1.Rhs[0]) == x.glob && fullExpr(a2.Rhs[0]) == x.alt
			}
		}
		if !ok {
			t.errf("%s: expected  use := %s; if %s > 0 && %s != %s { use = %s }; if %s > 0 { use = %s }; return use", x.fn, x.base, x.glob, x.glob, x.base, x.glob, x.alt, x.alt)
		}
		t.p("Definition %s : bool := %v. (* %s: %s, overridden by %s when > 0 and different, overridden by %s when > 0 *)\n", x.coq, ok, x.fn, x.base, x.glob, x.alt)
	}
	t.emitOrder("c16_wrapper_present_order", "solverWrapper.Present", []string{"activeChallenges[challengeKey(chal)]=", "sw.Solver.Present("}, []int{0, 1})
	t.emitOrder("c16_wrapper_cleanup_order", "solverWrapper.CleanUp", []string{"delete(activeChallenges,challengeKey(chal))", "sw.Solver.CleanUp("}, []int{0, 1})
	t.emitOrder("c16_dist_present_order", "distributedSolver.Present", []string{"dhs.storage.Store(", "dhs.solver.Present("}, []int{0, 1})
	t.emitOrder("c16_dist_cleanup_order", "distributedSolver.CleanUp", []string{"dhs.storage.Delete(", "dhs.solver.CleanUp("}, []int{0, 1})
	// the context handed to Delete
	if fd := t.funcs["distributedSolver.CleanUp"]; fd != nil && fd.Body != nil {
		delCtx, derived := "", map[string]string{}
		ast.Inspect(fd.Body, func(n ast.Node) bool {
			switch n := n.(type) {
			case *ast.AssignStmt:
				if len(n.Lhs) >= 1 && len(n.Rhs) == 1 {
					derived[fullExpr(n.Lhs[0])] = fullExpr(n.Rhs[0])
				}
			case *ast.CallExpr:
				if fullExpr(n.Fun) == "dhs.storage.Delete" && len(n.Args) >= 1 {
					delCtx = fullExpr(n.Args[0])
				}
			}
			return true
		})
		fresh := delCtx != "" && delCtx != "ctx" && strings.Contains(derived[delCtx], "context.WithoutCancel(") || strings.Contains(derived[delCtx], "context.Background()")
		t.p("Definition c16_dist_cleanup_fresh_ctx : bool := %v. (* Delete(%s, ...), %s := %s *)\n", fresh, delCtx, delCtx, derived[delCtx])
	}
	for _, x := range []struct{ coq, recv string }{{"c16_listen_present_order_http", "httpSolver"}, {"c16_listen_present_order_tlsalpn", "tlsALPNSolver"}} {
		t.emitOrder(x.coq, x.recv+".Present", []string{"si.count++", "if si.listener!=nil {return nil}", "robustTryListen(s.address)"}, []int{0, 1, 2})
	}
	for _, x := range []struct{ coq, recv string }{{"c16_close_at_count_http", "httpSolver"}, {"c16_close_at_count_tlsalpn", "tlsALPNSolver"}} {
		fd := t.funcs[x.recv+".CleanUp"]
		if fd == nil || fd.Body == nil {
			t.errf("missing %s.CleanUp", x.recv)
			continue
		}
		dec, n, closes, deletes := -1, "", false, false
		for i, st := range fd.Body.List {
			switch st := st.(type) {
			case *ast.IncDecStmt:
				if fullExpr(st.X) == "si.count" && st.Tok == token.DEC {
					dec = i
				}
			case *ast.IfStmt:
				if be, ok := st.Cond.(*ast.BinaryExpr); ok && be.Op == token.EQL && fullExpr(be.X) == "si.count" && dec >= 0 && i > dec {
					if lit, ok := be.Y.(*ast.BasicLit); ok && lit.Kind == token.INT {
						n = lit.Value
					}
					s := renderBlockCalls(st.Body)
					closes = strings.Contains(s, "si.listener.Close")
					ast.Inspect(st.Body, func(m ast.Node) bool {
						if c, ok := m.(*ast.CallExpr); ok && fullExpr(c) == "delete(solvers,s.address)" {
							deletes = true
						}
						return true
					})
				}
			}
		}
		if n == "" || !closes || !deletes {
			t.errf("%s.CleanUp: expected si.count-- ; if si.count == <n> { ... si.listener.Close() ... delete(solvers, s.address) }", x.recv)
			continue
		}
		t.p("Definition %s : Z := (%s)%%Z. (* %s.CleanUp: si.count--; if si.count == %s { si.listener.Close(); delete(solvers, s.address) } *)\n", x.coq, n, x.recv, n)
	}
	t.emitOrder("c16_dns_present_order", "DNS01Solver.Present", []string{"s.DNSManager.createRecord(", "s.saveDNSPresentMemory("}, []int{0, 1})
	if got, ok := t.topLevelOrder("DNS01Solver.CleanUp", []string{"defer s.deleteDNSPresentMemory(", "s.getDNSPresentMemory(", "s.DNSManager.cleanUpRecord("}); ok {
		t.p("Definition c16_dns_cleanup_order : list nat := %s. (* DNS01Solver.CleanUp: 0 defer s.deleteDNSPresentMemory, 1 s.getDNSPresentMemory, 2 s.DNSManager.cleanUpRecord *)\n", natList(got))
	}
	if fd := t.funcs["DNSManager.cleanUpRecord"]; fd == nil || fd.Body == nil || fd.Type.Params == nil || len(fd.Type.Params.List) < 1 {
		t.errf("missing DNSManager.cleanUpRecord")
	} else {
		ignores := len(fd.Type.Params.List[0].Names) == 1 && fd.Type.Params.List[0].Names[0].Name == "_"
		delCtx, derived := "", map[string]string{}
		ast.Inspect(fd.Body, func(n ast.Node) bool {
			switch n := n.(type) {
			case *ast.AssignStmt:
				if len(n.Lhs) >= 1 && len(n.Rhs) == 1 {
					derived[fullExpr(n.Lhs[0])] = fullExpr(n.Rhs[0])
				}
			case *ast.CallExpr:
				if fullExpr(n.Fun) == "m.DNSProvider.DeleteRecords" && len(n.Args) >= 1 {
					delCtx = fullExpr(n.Args[0])
				}
			}
			return true
		})
		fresh := ignores && delCtx != "" && strings.Contains(derived[delCtx], "context.Background()")
		t.p("Definition c16_dns_cleanup_fresh_ctx : bool := %v. (* cleanUpRecord(_ context.Context, ...): DeleteRecords(%s, ...), %s := %s *)\n", fresh, delCtx, delCtx, derived[delCtx])
	}
}
