package main

// Translator items for C12 (the certificate cache): every constant, comparison direction and
// statement order that coq/theories/Cache/Model.v takes from cache.go, handshake.go and
// maintain.go.  Comparison operators are emitted as codes (0 <, 1 <=, 2 >, 3 >=, 4 ==, 5 !=),
// normalised so that a named operand is on the left; the model evaluates them with
// [cmp_nat]/[cmp_z].  Statement shapes are emitted as booleans / code lists which
// Cache/Proofs.v pins with [code_shape_as_modelled].  Unexpected shapes fail closed.

import (
	"go/ast"
	"go/token"
	"go/types"
	"strconv"
	"strings"
)

func init() { items = append(items, c12EmitC12Cache) }

var c12CmpCode = map[token.Token]int{token.LSS: 0, token.LEQ: 1, token.GTR: 2, token.GEQ: 3, token.EQL: 4, token.NEQ: 5}
var c12Flip = map[token.Token]token.Token{token.LSS: token.GTR, token.LEQ: token.GEQ, token.GTR: token.LSS, token.GEQ: token.LEQ, token.EQL: token.EQL, token.NEQ: token.NEQ}

func c12Src(e ast.Node) string {
	if e == nil {
		return ""
	}
	if x, ok := e.(ast.Expr); ok {
		return types.ExprString(x)
	}
	return ""
}

// c12Cmp: e is a comparison one of whose operands prints as `left`; returns the operator code
// with that operand on the left, and the other operand.
func c12Cmp(e ast.Expr, left string) (int, ast.Expr, bool) {
	if p, ok := e.(*ast.ParenExpr); ok {
		return c12Cmp(p.X, left)
	}
	be, ok := e.(*ast.BinaryExpr)
	if !ok {
		return 0, nil, false
	}
	if _, isCmp := c12CmpCode[be.Op]; !isCmp {
		return 0, nil, false
	}
	if c12Src(be.X) == left {
		return c12CmpCode[be.Op], be.Y, true
	}
	if c12Src(be.Y) == left {
		return c12CmpCode[c12Flip[be.Op]], be.X, true
	}
	return 0, nil, false
}

func c12IntLit(e ast.Expr) (int, bool) {
	if b, ok := e.(*ast.BasicLit); ok && b.Kind == token.INT {
		n, err := strconv.Atoi(b.Value)
		return n, err == nil
	}
	return 0, false
}

// c12Stmt prints simple statements canonically (assignments, expression statements, inc/dec).
func c12Stmt(s ast.Stmt) string {
	switch s := s.(type) {
	case *ast.ExprStmt:
		return c12Src(s.X)
	case *ast.AssignStmt:
		var l, r []string
		for _, x := range s.Lhs {
			l = append(l, c12Src(x))
		}
		for _, x := range s.Rhs {
			r = append(r, c12Src(x))
		}
		return strings.Join(l, ", ") + " " + s.Tok.String() + " " + strings.Join(r, ", ")
	case *ast.IncDecStmt:
		return c12Src(s.X) + s.Tok.String()
	case *ast.BranchStmt:
		return s.Tok.String()
	case *ast.ReturnStmt:
		var r []string
		for _, x := range s.Results {
			r = append(r, c12Src(x))
		}
		return strings.TrimSpace("return " + strings.Join(r, ", "))
	}
	return ""
}

// isLog: logging statements are ignored when a statement sequence is matched.
func c12IsLog(s ast.Stmt) bool {
	txt := c12Stmt(s)
	return strings.Contains(txt, "logger.") || strings.HasPrefix(txt, "logMsg") || strings.HasPrefix(txt, "logger")
}

func c12NoLog(l []ast.Stmt) []ast.Stmt {
	var out []ast.Stmt
	for _, s := range l {
		if !c12IsLog(s) {
			out = append(out, s)
		}
	}
	return out
}

func c12Bool(b bool) string {
	if b {
		return "true"
	}
	return "false"
}

// c12IsCacheMap: an expression denoting the hash -> Certificate map of a Cache
func c12IsCacheMap(e ast.Expr) bool {
	s := c12Src(e)
	return s == "certCache.cache" || strings.HasSuffix(s, ".certCache.cache")
}

// c12StoreSites: every assignment `<cache map>[k] = v` in fd, each with whether it is guarded by
// a presence test of the same key under the same lock section: either inside
// `if x, ok := <map>[k]; ok {` or after `x, ok = <map>[k]` + `if !ok { ... return }` in the same block.
func c12StoreSites(fd *ast.FuncDecl) []bool {
	var out []bool
	var walkBlock func(list []ast.Stmt, guardedKeys map[string]bool)
	walkStmt := func(s ast.Stmt, guarded map[string]bool) {}
	walkBlock = func(list []ast.Stmt, guardedKeys map[string]bool) {
		g := map[string]bool{}
		for k := range guardedKeys {
			g[k] = true
		}
		var pendingKey string // key read by `x, ok = map[k]` awaiting `if !ok { return }`
		for _, s := range list {
			switch s := s.(type) {
			case *ast.AssignStmt:
				if len(s.Lhs) == 1 && len(s.Rhs) == 1 {
					if ix, ok := s.Lhs[0].(*ast.IndexExpr); ok && c12IsCacheMap(ix.X) {
						out = append(out, g[c12Src(ix.Index)])
						continue
					}
				}
				if len(s.Lhs) == 2 && len(s.Rhs) == 1 && c12Src(s.Lhs[1]) == "ok" {
					if ix, ok := s.Rhs[0].(*ast.IndexExpr); ok && c12IsCacheMap(ix.X) {
						pendingKey = c12Src(ix.Index)
						continue
					}
				}
			case *ast.IfStmt:
				// if !ok { ...; return }
				if pendingKey != "" && c12Src(s.Cond) == "!ok" && s.Else == nil && len(s.Body.List) > 0 {
					if _, isRet := s.Body.List[len(s.Body.List)-1].(*ast.ReturnStmt); isRet {
						walkBlock(s.Body.List, guardedKeys)
						g[pendingKey] = true
						pendingKey = ""
						continue
					}
				}
				inner := g
				if as, ok := s.Init.(*ast.AssignStmt); ok && len(as.Lhs) == 2 && len(as.Rhs) == 1 && c12Src(as.Lhs[1]) == "ok" && c12Src(s.Cond) == "ok" {
					if ix, ok := as.Rhs[0].(*ast.IndexExpr); ok && c12IsCacheMap(ix.X) {
						inner = map[string]bool{}
						for k := range g {
							inner[k] = true
						}
						inner[c12Src(ix.Index)] = true
					}
				}
				walkBlock(s.Body.List, inner)
				if s.Else != nil {
					if b, ok := s.Else.(*ast.BlockStmt); ok {
						walkBlock(b.List, g)
					} else {
						walkBlock([]ast.Stmt{s.Else}, g)
					}
				}
				continue
			case *ast.ForStmt:
				walkBlock(s.Body.List, g)
				continue
			case *ast.RangeStmt:
				walkBlock(s.Body.List, g)
				continue
			case *ast.BlockStmt:
				walkBlock(s.List, g)
				continue
			case *ast.ExprStmt:
				// an Unlock ends the critical section: presence tests made before it no longer guard
				if strings.HasSuffix(c12Src(s.X), "mu.Unlock()") {
					g = map[string]bool{}
					pendingKey = ""
				}
			case *ast.GoStmt:
				if fl, ok := s.Call.Fun.(*ast.FuncLit); ok {
					walkBlock(fl.Body.List, map[string]bool{})
				}
				continue
			}
			// closures assigned to variables etc.
			ast.Inspect(s, func(n ast.Node) bool {
				if fl, ok := n.(*ast.FuncLit); ok {
					walkBlock(fl.Body.List, map[string]bool{})
					return false
				}
				return true
			})
		}
	}
	_ = walkStmt
	walkBlock(fd.Body.List, map[string]bool{})
	return out
}

func c12BoolList(bs []bool) string {
	var s []string
	for _, b := range bs {
		s = append(s, c12Bool(b))
	}
	return "[" + strings.Join(s, "; ") + "]"
}

func c12EmitC12Cache(t *tr) {
	need := []string{"Cache.unsyncedCacheCertificate", "Cache.removeCertificate", "Cache.replaceCertificate", "Cache.Remove",
		"Cache.RemoveManaged", "Cache.AllMatchingCertificates", "Cache.SetOptions", "Cache.evictRandomCertificate",
		"Cache.getAllMatchingCerts", "Config.handshakeMaintenance", "Cache.updateOCSPStaples", "Config.updateARI", "Cache.cacheCertificate"}
	for _, n := range need {
		if fd := t.funcs[n]; fd == nil || fd.Body == nil {
			t.errf("missing %s", n)
			return
		}
	}
	t.p("\n(* ---- C12: the certificate cache (cache.go; write-backs in handshake.go, maintain.go) ---- *)\n")
	t.p("(* comparison codes: 0 <  1 <=  2 >  3 >=  4 ==  5 != , the named operand on the left *)\n")

	// ---------- unsyncedCacheCertificate
	{
		fd := t.funcs["Cache.unsyncedCacheCertificate"]
		body := c12NoLog(fd.Body.List)
		bad := func(what string) { t.errf("Cache.unsyncedCacheCertificate: unexpected shape (%s)", what) }
		if len(body) < 6 {
			bad("too few statements")
			return
		}
		// 0: if existingCert, ok := certCache.cache[cert.hash]; ok { tag loop; return }
		is0, ok := body[0].(*ast.IfStmt)
		if !ok || is0.Init == nil || c12Stmt(is0.Init) != "existingCert, ok := certCache.cache[cert.hash]" || c12Src(is0.Cond) != "ok" || is0.Else != nil {
			bad("dedup test")
			return
		}
		in := c12NoLog(is0.Body.List)
		if len(in) != 2 || c12Stmt(in[1]) != "return" {
			bad("dedup branch is not: tag block; return")
			return
		}
		tagIf, ok := in[0].(*ast.IfStmt)
		if !ok || tagIf.Else != nil || tagIf.Init != nil {
			bad("tag guard")
			return
		}
		gc, gother, ok := c12Cmp(tagIf.Cond, "len(cert.Tags)")
		glit, ok2 := c12IntLit(gother)
		if !ok || !ok2 {
			bad("tag guard is not a comparison of len(cert.Tags) with a literal")
			return
		}
		tb := c12NoLog(tagIf.Body.List)
		appendIfMissing, writeInside := false, false
		if len(tb) == 2 {
			if rs, ok := tb[0].(*ast.RangeStmt); ok && c12Src(rs.X) == "cert.Tags" && c12Src(rs.Value) == "tag" && len(rs.Body.List) == 1 {
				if ii, ok := rs.Body.List[0].(*ast.IfStmt); ok && ii.Else == nil && c12Src(ii.Cond) == "!existingCert.HasTag(tag)" && len(ii.Body.List) == 1 &&
					c12Stmt(ii.Body.List[0]) == "existingCert.Tags = append(existingCert.Tags, tag)" {
					appendIfMissing = true
				}
			}
			writeInside = c12Stmt(tb[1]) == "certCache.cache[cert.hash] = existingCert"
		}
		if !appendIfMissing || !writeInside {
			bad("tag loop body")
			return
		}
		t.p("Definition cache_tagloop_guard_cmp : nat := %d%%nat. Definition cache_tagloop_guard_lit : nat := %d%%nat. (* %s *)\n", gc, glit, c12Src(tagIf.Cond))
		t.p("Definition cache_tag_append_if_missing : bool := %s. (* for _, tag := range cert.Tags { if !existingCert.HasTag(tag) { existingCert.Tags = append(existingCert.Tags, tag) } } *)\n", c12Bool(appendIfMissing))
		t.p("Definition cache_tag_writeback_inside_guard : bool := %s. (* certCache.cache[cert.hash] = existingCert, after the loop, inside the guard *)\n", c12Bool(writeInside))
		// capacity test
		idxSize, idxAt, idxEvict, idxStore, idxIndex := -1, -1, -1, -1, -1
		var atExpr ast.Expr
		var evictIf *ast.IfStmt
		for i, s := range body {
			txt := c12Stmt(s)
			switch {
			case txt == "cacheSize := len(certCache.cache)":
				idxSize = i
			case strings.HasPrefix(txt, "atCapacity := "):
				idxAt = i
				atExpr = s.(*ast.AssignStmt).Rhs[0]
			case txt == "certCache.cache[cert.hash] = cert":
				idxStore = i
			}
			if is, ok := s.(*ast.IfStmt); ok && c12Src(is.Cond) == "atCapacity" && is.Else == nil {
				idxEvict, evictIf = i, is
			}
			if rs, ok := s.(*ast.RangeStmt); ok && c12Src(rs.X) == "cert.Names" && c12Src(rs.Value) == "name" && len(rs.Body.List) == 1 &&
				c12Stmt(rs.Body.List[0]) == "certCache.cacheIndex[name] = append(certCache.cacheIndex[name], cert.hash)" {
				idxIndex = i
			}
		}
		if idxSize < 0 || idxAt < idxSize || idxEvict < idxAt || idxStore < idxEvict || idxIndex < idxStore {
			bad("order: size; atCapacity; evict; store; index")
			return
		}
		and, ok := atExpr.(*ast.BinaryExpr)
		if !ok || and.Op != token.LAND {
			bad("atCapacity is not a conjunction")
			return
		}
		pc, pother, ok := c12Cmp(and.X, "certCache.options.Capacity")
		plit, ok2 := c12IntLit(pother)
		if !ok || !ok2 {
			bad("first conjunct of atCapacity is not Capacity <cmp> literal")
			return
		}
		fc, fother, ok := c12Cmp(and.Y, "cacheSize")
		if !ok || c12Src(fother) != "certCache.options.Capacity" {
			bad("second conjunct of atCapacity is not cacheSize <cmp> Capacity")
			return
		}
		t.p("Definition cache_cap_positive_cmp : nat := %d%%nat. Definition cache_cap_positive_lit : nat := %d%%nat. (* %s *)\n", pc, plit, c12Src(and.X))
		t.p("Definition cache_full_cmp : nat := %d%%nat. (* %s, cacheSize on the left *)\n", fc, c12Src(and.Y))
		// the eviction removes through removeCertificate (never a bare delete)
		calls, deletes := 0, 0
		ast.Inspect(evictIf.Body, func(n ast.Node) bool {
			if c, ok := n.(*ast.CallExpr); ok {
				switch c12Src(c.Fun) {
				case "certCache.removeCertificate":
					if len(c.Args) == 1 && c12Src(c.Args[0]) == "randomCert" {
						calls++
					}
				case "delete":
					deletes++
				}
			}
			return true
		})
		t.p("Definition cache_evict_calls_remove : bool := %s. (* the eviction loop calls certCache.removeCertificate(randomCert) once and never delete() *)\n", c12Bool(calls == 1 && deletes == 0))
		t.p("Definition cache_store_then_index : bool := %s. (* evict; certCache.cache[cert.hash] = cert; for name in cert.Names: cacheIndex[name] = append(cacheIndex[name], cert.hash) *)\n", c12Bool(true))
	}

	// ---------- removeCertificate
	{
		fd := t.funcs["Cache.removeCertificate"]
		body := c12NoLog(fd.Body.List)
		bad := func(what string) { t.errf("Cache.removeCertificate: unexpected shape (%s)", what) }
		// the trailing optionsMu.RLock/RUnlock around the log line are not cache statements
		var core []ast.Stmt
		for _, s := range body {
			if strings.Contains(c12Stmt(s), "optionsMu") {
				continue
			}
			core = append(core, s)
		}
		if len(core) != 2 {
			bad("expected: name loop; delete")
			return
		}
		rs, ok := core[0].(*ast.RangeStmt)
		if !ok || c12Src(rs.X) != "cert.Names" || c12Src(rs.Value) != "name" || len(rs.Body.List) != 3 {
			bad("name loop")
			return
		}
		if c12Stmt(rs.Body.List[0]) != "keyList := certCache.cacheIndex[name]" {
			bad("keyList read")
			return
		}
		fs, ok := rs.Body.List[1].(*ast.ForStmt)
		dropAll := false
		if ok && c12Stmt(fs.Init) == "i := 0" && c12Src(fs.Cond) == "i < len(keyList)" && c12Stmt(fs.Post) == "i++" && len(fs.Body.List) == 1 {
			if ii, ok := fs.Body.List[0].(*ast.IfStmt); ok && ii.Else == nil && len(ii.Body.List) == 2 {
				c, other, okc := c12Cmp(ii.Cond, "keyList[i]")
				if okc && c == 4 && c12Src(other) == "cert.hash" && c12Stmt(ii.Body.List[0]) == "keyList = append(keyList[:i], keyList[i + 1:]...)" && c12Stmt(ii.Body.List[1]) == "i--" {
					dropAll = true
				}
			}
		}
		if !dropAll {
			bad("mention-dropping loop")
			return
		}
		ei, ok := rs.Body.List[2].(*ast.IfStmt)
		if !ok || ei.Else == nil {
			bad("empty-list test")
			return
		}
		ec, eother, ok := c12Cmp(ei.Cond, "len(keyList)")
		elit, ok2 := c12IntLit(eother)
		eb, ok3 := ei.Else.(*ast.BlockStmt)
		if !ok || !ok2 || !ok3 || len(ei.Body.List) != 1 || len(eb.List) != 1 ||
			c12Stmt(ei.Body.List[0]) != "delete(certCache.cacheIndex, name)" || c12Stmt(eb.List[0]) != "certCache.cacheIndex[name] = keyList" {
			bad("empty-list branches")
			return
		}
		t.p("Definition cache_remove_drops_every_mention : bool := %s. (* for i := 0; i < len(keyList); i++ { if keyList[i] == cert.hash { keyList = append(keyList[:i], keyList[i+1:]...); i-- } } for every name of cert.Names *)\n", c12Bool(dropAll))
		t.p("Definition cache_remove_empty_cmp : nat := %d%%nat. Definition cache_remove_empty_lit : nat := %d%%nat. (* if %s { delete(certCache.cacheIndex, name) } else { certCache.cacheIndex[name] = keyList } *)\n", ec, elit, c12Src(ei.Cond))
		t.p("Definition cache_remove_deletes_hash : bool := %s. (* delete(certCache.cache, cert.hash) after the name loop *)\n", c12Bool(c12Stmt(core[1]) == "delete(certCache.cache, cert.hash)"))
	}

	// ---------- replaceCertificate, cacheCertificate, Remove, RemoveManaged
	seq := func(fn string, want []string) []int {
		var codes []int
		for _, s := range c12NoLog(t.funcs[fn].Body.List) {
			txt := c12Stmt(s)
			code := 0
			for i, w := range want {
				if txt == w {
					code = i + 1
				}
			}
			codes = append(codes, code)
		}
		return codes
	}
	natList := func(l []int) string {
		var s []string
		for _, x := range l {
			s = append(s, strconv.Itoa(x))
		}
		return "[" + strings.Join(s, "; ") + "]%nat"
	}
	t.p("Definition cache_replace_shape : list nat := %s. (* replaceCertificate: 1 mu.Lock, 2 removeCertificate(oldCert), 3 unsyncedCacheCertificate(newCert), 4 mu.Unlock *)\n",
		natList(seq("Cache.replaceCertificate", []string{"certCache.mu.Lock()", "certCache.removeCertificate(oldCert)", "certCache.unsyncedCacheCertificate(newCert)", "certCache.mu.Unlock()"})))
	t.p("Definition cache_add_shape : list nat := %s. (* cacheCertificate: 1 mu.Lock, 2 unsyncedCacheCertificate(cert), 3 mu.Unlock *)\n",
		natList(seq("Cache.cacheCertificate", []string{"certCache.mu.Lock()", "certCache.unsyncedCacheCertificate(cert)", "certCache.mu.Unlock()"})))
	{
		body := c12NoLog(t.funcs["Cache.Remove"].Body.List)
		okShape := len(body) == 3 && c12Stmt(body[0]) == "certCache.mu.Lock()" && c12Stmt(body[2]) == "certCache.mu.Unlock()"
		if okShape {
			rs, ok := body[1].(*ast.RangeStmt)
			okShape = ok && c12Src(rs.X) == "hashes" && c12Src(rs.Value) == "h" && len(rs.Body.List) == 2 &&
				c12Stmt(rs.Body.List[0]) == "cert := certCache.cache[h]" && c12Stmt(rs.Body.List[1]) == "certCache.removeCertificate(cert)"
		}
		t.p("Definition cache_remove_api_shape : bool := %s. (* Remove: Lock; for _, h := range hashes { cert := certCache.cache[h]; removeCertificate(cert) }; Unlock *)\n", c12Bool(okShape))
	}
	{
		body := c12NoLog(t.funcs["Cache.RemoveManaged"].Body.List)
		okShape := false
		if len(body) == 3 && c12Stmt(body[2]) == "certCache.Remove(deleteQueue)" {
			if rs, ok := body[1].(*ast.RangeStmt); ok && c12Src(rs.X) == "subjects" && c12Src(rs.Value) == "subj" && len(rs.Body.List) == 2 &&
				c12Stmt(rs.Body.List[0]) == "certs := certCache.getAllMatchingCerts(subj.Subject)" {
				if r2, ok := rs.Body.List[1].(*ast.RangeStmt); ok && c12Src(r2.X) == "certs" && c12Src(r2.Value) == "cert" && len(r2.Body.List) == 2 {
					i1, ok1 := r2.Body.List[0].(*ast.IfStmt)
					i2, ok2 := r2.Body.List[1].(*ast.IfStmt)
					if ok1 && ok2 && c12Src(i1.Cond) == "!cert.managed" && len(i1.Body.List) == 1 && c12Stmt(i1.Body.List[0]) == "continue" &&
						c12Src(i2.Cond) == `subj.IssuerKey == "" || cert.issuerKey == subj.IssuerKey` && i2.Else == nil && len(i2.Body.List) == 1 &&
						c12Stmt(i2.Body.List[0]) == "deleteQueue = append(deleteQueue, cert.hash)" {
						okShape = true
					}
				}
			}
		}
		t.p("Definition cache_remove_managed_shape : bool := %s. (* per subject: getAllMatchingCerts(subj.Subject) (exact); skip unmanaged; issuer filter `subj.IssuerKey == \"\" || cert.issuerKey == subj.IssuerKey`; then Remove(queue) *)\n", c12Bool(okShape))
	}
	{
		body := t.funcs["Cache.getAllMatchingCerts"].Body.List
		var txt []string
		for _, s := range body {
			if rs, ok := s.(*ast.RangeStmt); ok {
				txt = append(txt, "range "+c12Src(rs.X))
				for _, b := range rs.Body.List {
					txt = append(txt, c12Stmt(b))
				}
				continue
			}
			if d, ok := s.(*ast.DeferStmt); ok {
				txt = append(txt, "defer "+c12Src(d.Call))
				continue
			}
			txt = append(txt, c12Stmt(s))
		}
		want := "certCache.mu.RLock()|defer certCache.mu.RUnlock()|allCertKeys := certCache.cacheIndex[subject]|certs := make([]Certificate, len(allCertKeys))|range allCertKeys|certs[i] = certCache.cache[allCertKeys[i]]|return certs"
		t.p("Definition cache_exact_lookup_shape : bool := %s. (* getAllMatchingCerts: under RLock, certs[i] = cache[cacheIndex[subject][i]] *)\n", c12Bool(strings.Join(txt, "|") == want))
	}

	// ---------- AllMatchingCertificates
	{
		body := t.funcs["Cache.AllMatchingCertificates"].Body.List
		bad := func(what string) { t.errf("Cache.AllMatchingCertificates: unexpected shape (%s)", what) }
		if len(body) != 4 || c12Stmt(body[0]) != "certs := certCache.getAllMatchingCerts(name)" || c12Stmt(body[3]) != "return certs" {
			bad("exact lookup first; return certs")
			return
		}
		sp, ok := body[1].(*ast.AssignStmt)
		if !ok || len(sp.Rhs) != 1 || c12Src(sp.Lhs[0]) != "labels" {
			bad("labels := strings.Split")
			return
		}
		spc, ok := sp.Rhs[0].(*ast.CallExpr)
		if !ok || c12Src(spc.Fun) != "strings.Split" || len(spc.Args) != 2 || c12Src(spc.Args[0]) != "name" {
			bad("strings.Split(name, sep)")
			return
		}
		sep1, ok := t.strLit(spc.Args[1], "label separator")
		if !ok {
			return
		}
		rs, ok := body[2].(*ast.RangeStmt)
		if !ok || c12Src(rs.X) != "labels" || c12Src(rs.Key) != "i" || rs.Value != nil || len(rs.Body.List) != 3 {
			bad("for i := range labels")
			return
		}
		st, ok := rs.Body.List[0].(*ast.AssignStmt)
		if !ok || c12Src(st.Lhs[0]) != "labels[i]" || st.Tok != token.ASSIGN {
			bad("labels[i] = star")
			return
		}
		star, ok := t.strLit(st.Rhs[0], "wildcard label")
		if !ok {
			return
		}
		jn, ok := rs.Body.List[1].(*ast.AssignStmt)
		if !ok || c12Src(jn.Lhs[0]) != "candidate" {
			bad("candidate := strings.Join")
			return
		}
		jc, ok := jn.Rhs[0].(*ast.CallExpr)
		if !ok || c12Src(jc.Fun) != "strings.Join" || len(jc.Args) != 2 || c12Src(jc.Args[0]) != "labels" {
			bad("strings.Join(labels, sep)")
			return
		}
		sep2, ok := t.strLit(jc.Args[1], "label separator")
		if !ok {
			return
		}
		if c12Stmt(rs.Body.List[2]) != "certs = append(certs, certCache.getAllMatchingCerts(candidate)...)" {
			bad("append of the candidate's exact matches")
			return
		}
		if len([]rune(star)) != 1 || len([]rune(sep1)) != 1 || sep1 != sep2 {
			bad("wildcard label / separator are not single characters, or Split and Join use different separators")
			return
		}
		t.p("Definition cache_wildcard_char : N := %d. (* labels[i] = %q *)\n", []rune(star)[0], star)
		t.p("Definition cache_label_sep_char : N := %d. (* strings.Split(name, %q) / strings.Join(labels, %q) *)\n", []rune(sep1)[0], sep1, sep2)
		t.p("Definition cache_allmatching_shape : bool := true. (* exact matches first; for i := range labels { labels[i] = \"*\"; candidate := Join; certs = append(certs, getAllMatchingCerts(candidate)...) } *)\n")
	}

	// ---------- SetOptions (clamp; the options change and the trim happen under certCache.mu)
	{
		fd := t.funcs["Cache.SetOptions"]
		bad := func(what string) { t.errf("Cache.SetOptions: unexpected shape (%s)", what) }
		found := false
		idxLock, idxSet, idxTrim, idxUnlock := -1, -1, -1, -1
		var trimIf *ast.IfStmt
		for i, s := range fd.Body.List {
			if is, ok := s.(*ast.IfStmt); ok && is.Else == nil && len(is.Body.List) == 1 {
				if c, other, okc := c12Cmp(is.Cond, "opts.Capacity"); okc {
					if lit, okl := c12IntLit(other); okl {
						if as, ok := is.Body.List[0].(*ast.AssignStmt); ok && c12Src(as.Lhs[0]) == "opts.Capacity" && as.Tok == token.ASSIGN {
							if v, okv := c12IntLit(as.Rhs[0]); okv && !found {
								found = true
								t.p("Definition cache_clamp_cmp : nat := %d%%nat. Definition cache_clamp_lit : Z := (%d)%%Z. Definition cache_clamp_value : nat := %d%%nat. (* if %s { opts.Capacity = %d } *)\n", c, lit, v, c12Src(is.Cond), v)
								continue
							}
						}
						if _, isFor := is.Body.List[0].(*ast.ForStmt); isFor {
							idxTrim, trimIf = i, is
						}
					}
				}
			}
			switch c12Stmt(s) {
			case "certCache.mu.Lock()":
				idxLock = i
			case "certCache.options = opts":
				idxSet = i
			case "certCache.mu.Unlock()":
				idxUnlock = i
			}
		}
		if !found {
			bad("capacity clamp")
			return
		}
		if idxLock < 0 || idxSet < idxLock || idxTrim < idxSet || idxUnlock < idxTrim {
			bad("order: mu.Lock; options = opts; trim; mu.Unlock")
			return
		}
		gc, gother, _ := c12Cmp(trimIf.Cond, "opts.Capacity")
		glit, _ := c12IntLit(gother)
		fs := trimIf.Body.List[0].(*ast.ForStmt)
		lc, lother, okc := c12Cmp(fs.Cond, "excess")
		llit, okl := c12IntLit(lother)
		if !okc || !okl || c12Stmt(fs.Init) != "excess := len(certCache.cache) - opts.Capacity" || c12Stmt(fs.Post) != "excess--" ||
			len(fs.Body.List) != 1 || c12Stmt(fs.Body.List[0]) != "certCache.evictRandomCertificate()" {
			bad("trim loop")
			return
		}
		t.p("Definition cache_trim_guard_cmp : nat := %d%%nat. Definition cache_trim_guard_lit : nat := %d%%nat. (* if %s { trim } *)\n", gc, glit, c12Src(trimIf.Cond))
		t.p("Definition cache_trim_loop_cmp : nat := %d%%nat. Definition cache_trim_loop_lit : nat := %d%%nat. (* for excess := len(certCache.cache) - opts.Capacity; %s; excess-- { certCache.evictRandomCertificate() } *)\n", lc, llit, c12Src(fs.Cond))
		t.p("Definition cache_setoptions_atomic : bool := true. (* mu.Lock; options = opts; trim; mu.Unlock, in that order *)\n")
		// evictRandomCertificate removes through removeCertificate
		calls, deletes := 0, 0
		ast.Inspect(t.funcs["Cache.evictRandomCertificate"].Body, func(n ast.Node) bool {
			if c, ok := n.(*ast.CallExpr); ok {
				switch c12Src(c.Fun) {
				case "certCache.removeCertificate":
					if len(c.Args) == 1 && c12Src(c.Args[0]) == "randomCert" {
						calls++
					}
				case "delete":
					deletes++
				}
			}
			return true
		})
		t.p("Definition cache_trim_calls_remove : bool := %s. (* evictRandomCertificate calls certCache.removeCertificate(randomCert) once and never delete() *)\n", c12Bool(calls == 1 && deletes == 0))
	}

	// ---------- every store into / delete from the cache map, in the whole package
	{
		t.p("(* stores `<cache map>[k] = v`, in source order, each with: guarded by a presence test of k in the same critical section *)\n")
		t.p("Definition cache_store_guards_add : list bool := %s. (* unsyncedCacheCertificate: tag write-back (cached), insertion (not cached) *)\n", c12BoolList(c12StoreSites(t.funcs["Cache.unsyncedCacheCertificate"])))
		t.p("Definition cache_store_guards_handshake : list bool := %s. (* handshakeMaintenance *)\n", c12BoolList(c12StoreSites(t.funcs["Config.handshakeMaintenance"])))
		t.p("Definition cache_store_guards_ocsp : list bool := %s. (* updateOCSPStaples *)\n", c12BoolList(c12StoreSites(t.funcs["Cache.updateOCSPStaples"])))
		t.p("Definition cache_store_guards_ari : list bool := %s. (* updateARI: storage path, issuer path *)\n", c12BoolList(c12StoreSites(t.funcs["Config.updateARI"])))
		stores, deletes := 0, 0
		var names []string
		for n := range t.funcs {
			names = append(names, n)
		}
		for _, n := range names {
			fd := t.funcs[n]
			if fd.Body == nil {
				continue
			}
			stores += len(c12StoreSites(fd))
			ast.Inspect(fd.Body, func(nd ast.Node) bool {
				if c, ok := nd.(*ast.CallExpr); ok && c12Src(c.Fun) == "delete" && len(c.Args) == 2 && c12IsCacheMap(c.Args[0]) {
					deletes++
				}
				return true
			})
		}
		t.p("Definition cache_map_store_sites : nat := %d%%nat. Definition cache_map_delete_sites : nat := %d%%nat. (* in all non-test files *)\n", stores, deletes)
	}
}
