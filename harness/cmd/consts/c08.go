package main

// Translator items for C08 (FileLock model): the timing constants of the file lock and two
// structural facts of the code that the model is parameterised by.

import (
	"go/ast"
	"go/constant"
	"go/token"
)

func init() { items = append(items, emitC08) }

func (t *tr) c08EvalInt(e ast.Expr, what string) (string, bool) {
	v, err := t.eval(e, 0)
	if err != nil {
		t.errf("%s: %v", what, err)
		return "", false
	}
	if v.Kind() != constant.Int {
		if f := constant.ToInt(v); f.Kind() == constant.Int {
			v = f
		} else {
			t.errf("%s: not an integer constant (%s)", what, v.String())
			return "", false
		}
	}
	return v.ExactString(), true
}

func emitC08(t *tr) {
	t.p("\n(* C08: file lock timing (filestorage.go) *)\n")
	t.emitZ("lock_freshness_interval", "lockFreshnessInterval")
	t.emitZ("file_lock_poll_interval", "fileLockPollInterval")

	// fileLockIsStale: return time.Since(ref) > lockFreshnessInterval*N
	if fd := t.funcs["fileLockIsStale"]; fd != nil && fd.Body != nil {
		found := false
		ast.Inspect(fd.Body, func(n ast.Node) bool {
			rs, ok := n.(*ast.ReturnStmt)
			if !ok || len(rs.Results) != 1 {
				return true
			}
			be, ok := rs.Results[0].(*ast.BinaryExpr)
			if !ok || be.Op != token.GTR || exprStr(be.X) != "time.Since(...)" {
				return true
			}
			m, ok := be.Y.(*ast.BinaryExpr)
			if !ok || m.Op != token.MUL {
				return true
			}
			var factor ast.Expr
			switch {
			case exprStr(m.X) == "lockFreshnessInterval":
				factor = m.Y
			case exprStr(m.Y) == "lockFreshnessInterval":
				factor = m.X
			default:
				return true
			}
			if s, ok := t.c08EvalInt(factor, "staleness factor"); ok {
				t.p("Definition lock_stale_factor : Z := (%s)%%Z. (* fileLockIsStale: time.Since(ref) > lockFreshnessInterval*%s *)\n", s, s)
				found = true
			}
			return false
		})
		if !found {
			t.errf("fileLockIsStale: expected `return time.Since(ref) > lockFreshnessInterval*N`")
		}
	} else {
		t.errf("missing fileLockIsStale")
	}

	// FileStorage.Lock: `emptyCount < N`, time.After(<empty sleep>) inside that branch,
	// time.After(fileLockPollInterval), and whether emptyCount is ever reset
	if fd := t.funcs["FileStorage.Lock"]; fd != nil && fd.Body != nil {
		var retries, sleep string
		poll, resets := false, false
		ast.Inspect(fd.Body, func(n ast.Node) bool {
			switch x := n.(type) {
			case *ast.IfStmt:
				if be, ok := x.Cond.(*ast.BinaryExpr); ok && be.Op == token.LSS && exprStr(be.X) == "emptyCount" {
					if s, ok := t.c08EvalInt(be.Y, "empty retry count"); ok {
						retries = s
					}
					ast.Inspect(x.Body, func(m ast.Node) bool {
						if c, ok := m.(*ast.CallExpr); ok && exprStr(c.Fun) == "time.After" && len(c.Args) == 1 {
							if s, ok := t.c08EvalInt(c.Args[0], "empty retry sleep"); ok {
								sleep = s
							}
						}
						return true
					})
				}
			case *ast.CallExpr:
				if exprStr(x.Fun) == "time.After" && len(x.Args) == 1 && exprStr(x.Args[0]) == "fileLockPollInterval" {
					poll = true
				}
			case *ast.AssignStmt:
				if len(x.Lhs) == 1 && exprStr(x.Lhs[0]) == "emptyCount" && x.Tok == token.ASSIGN {
					resets = true
				}
			}
			return true
		})
		if retries == "" || sleep == "" || !poll {
			t.errf("FileStorage.Lock: expected `emptyCount < N` with time.After(...) inside and time.After(fileLockPollInterval)")
		} else {
			t.p("Definition lock_empty_retries : Z := (%s)%%Z. (* Lock: emptyCount < %s *)\n", retries, retries)
			t.p("Definition lock_empty_sleep : Z := (%s)%%Z. (* Lock: time.After between empty reads *)\n", sleep)
			t.p("Definition lock_empty_count_resets : bool := %v. (* Lock: emptyCount is %s *)\n", resets,
				map[bool]string{true: "reset by an assignment", false: "never reset: cumulative over the whole call"}[resets])
		}
	} else {
		t.errf("missing FileStorage.Lock")
	}

	// updateLockfileFreshness: does the heartbeat compare the file's Created with its own?
	if fd := t.funcs["updateLockfileFreshness"]; fd != nil && fd.Body != nil {
		checks := false
		ast.Inspect(fd.Body, func(n ast.Node) bool {
			if ifs, ok := n.(*ast.IfStmt); ok {
				ast.Inspect(ifs.Cond, func(m ast.Node) bool {
					if c, ok := m.(*ast.CallExpr); ok && exprStr(c.Fun) == "meta.Created.Equal" {
						// the branch must terminate the heartbeat before the truncate
						for _, s := range ifs.Body.List {
							if _, ok := s.(*ast.ReturnStmt); ok {
								checks = true
							}
						}
					}
					return true
				})
			}
			return true
		})
		t.p("Definition lock_hb_checks_created : bool := %v. (* updateLockfileFreshness %s *)\n", checks,
			map[bool]string{true: "returns when the file's Created differs from the one it wrote", false: "refreshes whatever lock file it finds"}[checks])
	} else {
		t.errf("missing updateLockfileFreshness")
	}
}
