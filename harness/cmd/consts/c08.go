package main

// Translator items for C08 (FileLock model): the timing constants of the file lock and two
// structural facts of the code that the model is parameterised by.

import (
	"go/ast"
	"go/constant"
	"go/token"
)

func init() { items = append(items, emitC08) }

func (t *tr) c08EvalInt(e ast.Expr, what string) (string, bool) {
	v, err := t.eval(e, 0)
	if err != nil {
		t.errf("%s: %v", what, err)
		return "", false
	}
	if v.Kind() != constant.Int {
		if f := constant.ToInt(v); f.Kind() == constant.Int {
			v = f
		} else {
			t.errf("%s: not an integer constant (%s)", what, v.String())
			return "", false
		}
	}
	return v.ExactString(), true
}

func emitC08(t *tr) {
	t.p("\n(* C08: file lock timing (filestorage.go) *)\n")
	t.emitZ("lock_freshness_interval", "lockFreshnessInterval")
	t.emitZ("file_lock_poll_interval", "fileLockPollInterval")

	// fileLockIsStale: return time.Since(ref) > lockFreshnessInterval*N
	if fd := t.funcs["fileLockIsStale"]; fd != nil && fd.Body != nil {
		found := false
		ast.Inspect(fd.Body, func(n ast.Node) bool {
			rs, ok := n.(*ast.ReturnStmt)
			if !ok || len(rs.Results) != 1 {
				return true
			}
			be, ok := rs.Results[0].(*ast.BinaryExpr)
			if !ok || be.Op != token.GTR || exprStr(be.X) != "time.Since(...)" {
				return true
			}
			m, ok := be.Y.(*ast.BinaryExpr)
			if !ok || m.Op != token.MUL {
				return true
			}
			var factor ast.Expr
			switch {
			case exprStr(m.X) == "lockFreshnessInterval":
				factor = m.Y
			case exprStr(m.Y) == "lockFreshnessInterval":
				factor = m.X
			default:
				return true
			}
			if s, ok := t.c08EvalInt(factor, "staleness factor"); ok {
				t.p("Definition lock_stale_factor : Z := (%s)%%Z. (* fileLockIsStale: time.Since(ref) > lockFreshnessInterval*%s *)\n", s, s)
				found = true
			}
			return false
		})
		if !found {
			t.errf("fileLockIsStale: expected `return time.Since(ref) > lockFreshnessInterval*N`")
		}
	} else {
		t.errf("missing fileLockIsStale")
	}

	// FileStorage.Lock: `emptyCount < N`, time.After(<empty sleep>) inside that branch,
	// time.After(fileLockPollInterval), and whether emptyCount is ever reset
	if fd := t.funcs["FileStorage.Lock"]; fd != nil && fd.Body != nil {
		var retries, sleep string
		poll, resets, guard, undec := false, false, false, false
		ast.Inspect(fd.Body, func(n ast.Node) bool {
			switch x := n.(type) {
			case *ast.IfStmt:
				// the branch that counts empty reads: `if err2 != nil {` or `if errors.Is(err2, io.EOF) {`
				if len(x.Body.List) > 0 {
					for _, st := range x.Body.List {
						if inc, isInc := st.(*ast.IncDecStmt); isInc && exprStr(inc.X) == "emptyCount" {
							if c, isBin := x.Cond.(*ast.BinaryExpr); isBin && c.Op == token.NEQ && exprStr(c.X) == "err2" && exprStr(c.Y) == "nil" {
								undec = true
							}
						}
					}
				}
				be, ok := x.Cond.(*ast.BinaryExpr)
				// `emptyCount < N || lockfileRecentlyModified(filename)`: the retry limit only counts once
				// the file has not been modified for a while
				if ok && be.Op == token.LOR {
					if l, ok2 := be.X.(*ast.BinaryExpr); ok2 && l.Op == token.LSS && exprStr(l.X) == "emptyCount" && exprStr(be.Y) == "lockfileRecentlyModified(...)" {
						be, guard = l, true
					}
				}
				if ok && be.Op == token.LSS && exprStr(be.X) == "emptyCount" {
					if s, ok := t.c08EvalInt(be.Y, "empty retry count"); ok {
						retries = s
					}
					ast.Inspect(x.Body, func(m ast.Node) bool {
						if c, ok := m.(*ast.CallExpr); ok && exprStr(c.Fun) == "time.After" && len(c.Args) == 1 {
							if s, ok := t.c08EvalInt(c.Args[0], "empty retry sleep"); ok {
								sleep = s
							}
						}
						return true
					})
				}
			case *ast.CallExpr:
				if exprStr(x.Fun) == "time.After" && len(x.Args) == 1 && exprStr(x.Args[0]) == "fileLockPollInterval" {
					poll = true
				}
			case *ast.AssignStmt:
				if len(x.Lhs) == 1 && exprStr(x.Lhs[0]) == "emptyCount" && x.Tok == token.ASSIGN {
					resets = true
				}
			}
			return true
		})
		if retries == "" || sleep == "" || !poll {
			t.errf("FileStorage.Lock: expected `emptyCount < N` with time.After(...) inside and time.After(fileLockPollInterval)")
		} else {
			t.p("Definition lock_empty_retries : Z := (%s)%%Z. (* Lock: emptyCount < %s *)\n", retries, retries)
			t.p("Definition lock_empty_sleep : Z := (%s)%%Z. (* Lock: time.After between empty reads *)\n", sleep)
			t.p("Definition lock_empty_count_resets : bool := %v. (* Lock: emptyCount is %s *)\n", resets,
				map[bool]string{true: "reset by an assignment", false: "never reset: cumulative over the whole call"}[resets])
			// the guard counts only if lockfileRecentlyModified is `... time.Since(fi.ModTime()) <= lockFreshnessInterval*K`
			gfactor := ""
			if fd := t.funcs["lockfileRecentlyModified"]; guard && fd != nil && fd.Body != nil {
				ast.Inspect(fd.Body, func(n ast.Node) bool {
					if be, ok := n.(*ast.BinaryExpr); ok && be.Op == token.LEQ && exprStr(be.X) == "time.Since(...)" {
						if m, ok := be.Y.(*ast.BinaryExpr); ok && m.Op == token.MUL {
							var f ast.Expr
							switch {
							case exprStr(m.X) == "lockFreshnessInterval":
								f = m.Y
							case exprStr(m.Y) == "lockFreshnessInterval":
								f = m.X
							}
							if c, ok := be.X.(*ast.CallExpr); ok && f != nil && len(c.Args) == 1 && exprStr(c.Args[0]) == "fi.ModTime(...)" {
								if s, ok := t.c08EvalInt(f, "mtime guard factor"); ok {
									gfactor = s
								}
							}
						}
					}
					return true
				})
			}
			if gfactor == "" {
				guard, gfactor = false, "0"
			}
			t.p("Definition lock_undecodable_as_empty : bool := %v. (* Lock: the empty-file branch is entered on %s *)\n", undec,
				map[bool]string{true: "any decode error (err2 != nil)", false: "io.EOF only; other decode errors are returned"}[undec])
			t.p("Definition lock_empty_mtime_guard : bool := %v. (* Lock: %s *)\n", guard,
				map[bool]string{true: "an empty lock file is treated as stale only when it was not modified recently", false: "the empty-read retry limit alone decides"}[guard])
			t.p("Definition lock_empty_mtime_factor : Z := (%s)%%Z. (* lockfileRecentlyModified: time.Since(mtime) <= lockFreshnessInterval*%s *)\n", gfactor, gfactor)
		}
	} else {
		t.errf("missing FileStorage.Lock")
	}

	// updateLockfileFreshness: does the heartbeat compare the file's Created with its own?
	if fd := t.funcs["updateLockfileFreshness"]; fd != nil && fd.Body != nil {
		checks := false
		ast.Inspect(fd.Body, func(n ast.Node) bool {
			if ifs, ok := n.(*ast.IfStmt); ok {
				ast.Inspect(ifs.Cond, func(m ast.Node) bool {
					if c, ok := m.(*ast.CallExpr); ok && exprStr(c.Fun) == "meta.Created.Equal" {
						// the branch must terminate the heartbeat before the truncate
						for _, s := range ifs.Body.List {
							if _, ok := s.(*ast.ReturnStmt); ok {
								checks = true
							}
						}
					}
					return true
				})
			}
			return true
		})
		t.p("Definition lock_hb_checks_created : bool := %v. (* updateLockfileFreshness %s *)\n", checks,
			map[bool]string{true: "returns when the file's Created differs from the one it wrote", false: "refreshes whatever lock file it finds"}[checks])
	} else {
		t.errf("missing updateLockfileFreshness")
	}
}

// ---------------------------------------------------------------------------------------------
// Second item: the statement-level shape of the lock code that the FileLock LTS is built on.
// Each fact is emitted as a boolean (or a constant); Props/C08.v proves by reflexivity that
// they have the values the model assumes, so an edit that changes one of them breaks a proof.

func init() { items = append(items, emitC08Shape) }

func c08HasCall(n ast.Node, fun string) bool {
	found := false
	ast.Inspect(n, func(m ast.Node) bool {
		if c, ok := m.(*ast.CallExpr); ok && exprStr(c.Fun) == fun {
			found = true
		}
		return !found
	})
	return found
}

func c08OrOperands(e ast.Expr, into map[string]bool) {
	if be, ok := e.(*ast.BinaryExpr); ok && be.Op == token.OR {
		c08OrOperands(be.X, into)
		c08OrOperands(be.Y, into)
		return
	}
	if pe, ok := e.(*ast.ParenExpr); ok {
		c08OrOperands(pe.X, into)
		return
	}
	into[exprStr(e)] = true
}

func emitC08Shape(t *tr) {
	t.p("\n(* C08: shape of the file lock code (filestorage.go) *)\n")
	b := func(name string, v bool, what string) {
		t.p("Definition %s : bool := %v. (* %s *)\n", name, v, what)
	}

	// atomicallyCreateFile: os.OpenFile(filename, os.O_CREATE|os.O_WRONLY|os.O_EXCL, ...)
	if fd := t.funcs["atomicallyCreateFile"]; fd != nil && fd.Body != nil {
		excl, n := false, 0
		ast.Inspect(fd.Body, func(m ast.Node) bool {
			if c, ok := m.(*ast.CallExpr); ok && exprStr(c.Fun) == "os.OpenFile" && len(c.Args) == 3 {
				n++
				fl := map[string]bool{}
				c08OrOperands(c.Args[1], fl)
				excl = fl["os.O_CREATE"] && fl["os.O_EXCL"]
			}
			return true
		})
		if n != 1 {
			t.errf("atomicallyCreateFile: expected exactly one os.OpenFile call, found %d", n)
		} else {
			b("lock_create_is_excl", excl, "atomicallyCreateFile opens with O_CREATE|O_EXCL")
		}
	} else {
		t.errf("missing atomicallyCreateFile")
	}

	// createLockfile: created, err := atomicallyCreateFile(filename, true); go keepLockfileFresh(filename, created)
	if fd := t.funcs["createLockfile"]; fd != nil && fd.Body != nil {
		starts, creates := false, c08HasCall(fd.Body, "atomicallyCreateFile")
		ast.Inspect(fd.Body, func(m ast.Node) bool {
			if g, ok := m.(*ast.GoStmt); ok && exprStr(g.Call.Fun) == "keepLockfileFresh" {
				starts = true
			}
			return true
		})
		b("lock_create_starts_heartbeat", starts && creates, "createLockfile: atomicallyCreateFile, then go keepLockfileFresh")
	} else {
		t.errf("missing createLockfile")
	}

	// keepLockfileFresh: for { time.Sleep(P); done, err := updateLockfileFreshness(...) ... }
	if fd := t.funcs["keepLockfileFresh"]; fd != nil && fd.Body != nil {
		period := ""
		ast.Inspect(fd.Body, func(m ast.Node) bool {
			fs, ok := m.(*ast.ForStmt)
			if !ok || fs.Cond != nil || len(fs.Body.List) < 2 {
				return true
			}
			if es, ok := fs.Body.List[0].(*ast.ExprStmt); ok {
				if c, ok := es.X.(*ast.CallExpr); ok && exprStr(c.Fun) == "time.Sleep" && len(c.Args) == 1 && c08HasCall(fs.Body.List[1], "updateLockfileFreshness") {
					if s, ok := t.c08EvalInt(c.Args[0], "heartbeat period"); ok {
						period = s
					}
				}
			}
			return true
		})
		if period == "" {
			t.errf("keepLockfileFresh: expected `for { time.Sleep(<period>); ... updateLockfileFreshness(...) ...}`")
		} else {
			t.p("Definition lock_hb_period : Z := (%s)%%Z. (* keepLockfileFresh: time.Sleep between refreshes *)\n", period)
		}
	} else {
		t.errf("missing keepLockfileFresh")
	}

	// updateLockfileFreshness: Created check, then Truncate, then Encode, then Sync (top-level order)
	if fd := t.funcs["updateLockfileFreshness"]; fd != nil && fd.Body != nil {
		idx := map[string]int{"check": -1, "trunc": -1, "encode": -1, "sync": -1, "open": -1}
		for i, st := range fd.Body.List {
			set := func(k string) {
				if idx[k] < 0 {
					idx[k] = i
				}
			}
			if c08HasCall(st, "os.OpenFile") {
				set("open")
			}
			if ifs, ok := st.(*ast.IfStmt); ok && c08HasCall(ifs.Cond, "meta.Created.Equal") {
				set("check")
			}
			if c08HasCall(st, "f.Truncate") {
				set("trunc")
			}
			if c08HasCall(st, "json.NewEncoder(...).Encode") {
				set("encode")
			}
			if c08HasCall(st, "f.Sync") {
				set("sync")
			}
		}
		order := idx["open"] >= 0 && idx["open"] < idx["trunc"] && idx["trunc"] < idx["encode"] && idx["encode"] < idx["sync"]
		b("lock_hb_open_truncate_write_sync", order, "updateLockfileFreshness: OpenFile, Truncate, Encode, Sync in this order")
		b("lock_hb_check_before_truncate", idx["check"] >= 0 && idx["check"] < idx["trunc"], "updateLockfileFreshness: the Created comparison precedes the Truncate")
	} else {
		t.errf("missing updateLockfileFreshness")
	}

	// Unlock: return os.Remove(s.lockFilename(name))
	if fd := t.funcs["FileStorage.Unlock"]; fd != nil {
		ok := false
		if c := soleReturnCall(fd); c != nil && exprStr(c.Fun) == "os.Remove" && len(c.Args) == 1 && exprStr(c.Args[0]) == "s.lockFilename(...)" {
			ok = true
		}
		b("lock_unlock_removes_lock_file", ok, "Unlock is `return os.Remove(s.lockFilename(name))`")
	} else {
		t.errf("missing FileStorage.Unlock")
	}

	// Lock: every select has a `case <-ctx.Done(): return ctx.Err()`; the stale branch removes the
	// file by name and retries; Lock uses the same file name for create, open and remove
	if fd := t.funcs["FileStorage.Lock"]; fd != nil && fd.Body != nil {
		selects, withCtx := 0, 0
		staleOK := false
		ast.Inspect(fd.Body, func(m ast.Node) bool {
			switch x := m.(type) {
			case *ast.SelectStmt:
				selects++
				for _, cl := range x.Body.List {
					cc, ok := cl.(*ast.CommClause)
					if !ok || cc.Comm == nil {
						continue
					}
					es, ok := cc.Comm.(*ast.ExprStmt)
					if !ok {
						continue
					}
					ue, ok := es.X.(*ast.UnaryExpr)
					if !ok || ue.Op != token.ARROW || exprStr(ue.X) != "ctx.Done(...)" || len(cc.Body) != 1 {
						continue
					}
					if rs, ok := cc.Body[0].(*ast.ReturnStmt); ok && len(rs.Results) == 1 && exprStr(rs.Results[0]) == "ctx.Err(...)" {
						withCtx++
					}
				}
			case *ast.CaseClause:
				if len(x.List) == 1 && exprStr(x.List[0]) == "fileLockIsStale(...)" && len(x.Body) > 0 {
					last, isBranch := x.Body[len(x.Body)-1].(*ast.BranchStmt)
					removes := false
					for _, st := range x.Body {
						ast.Inspect(st, func(k ast.Node) bool {
							if c, ok := k.(*ast.CallExpr); ok && exprStr(c.Fun) == "os.Remove" && len(c.Args) == 1 && exprStr(c.Args[0]) == "filename" {
								removes = true
							}
							return true
						})
					}
					staleOK = removes && isBranch && last.Tok == token.CONTINUE
				}
			}
			return true
		})
		t.p("Definition lock_selects : Z := (%d)%%Z. (* Lock: number of select statements *)\n", selects)
		t.p("Definition lock_selects_with_ctx : Z := (%d)%%Z. (* ... of which have `case <-ctx.Done(): return ctx.Err()` *)\n", withCtx)
		b("lock_stale_branch_removes_and_retries", staleOK, "Lock: case fileLockIsStale(meta): os.Remove(filename) ... continue")
		b("lock_uses_one_file_name", c08HasCall(fd.Body, "createLockfile") && c08HasCall(fd.Body, "os.Open"), "Lock: createLockfile(filename), os.Open(filename)")
	} else {
		t.errf("missing FileStorage.Lock")
	}

	// fileLockIsStale: ref := meta.Updated; if ref.IsZero() { ref = meta.Created }
	if fd := t.funcs["fileLockIsStale"]; fd != nil && fd.Body != nil && len(fd.Body.List) >= 3 {
		ok := false
		if as, isAs := fd.Body.List[0].(*ast.AssignStmt); isAs && len(as.Lhs) == 1 && len(as.Rhs) == 1 && exprStr(as.Lhs[0]) == "ref" && exprStr(as.Rhs[0]) == "meta.Updated" {
			if ifs, isIf := fd.Body.List[1].(*ast.IfStmt); isIf && exprStr(ifs.Cond) == "ref.IsZero(...)" && len(ifs.Body.List) == 1 {
				if a2, isAs2 := ifs.Body.List[0].(*ast.AssignStmt); isAs2 && len(a2.Lhs) == 1 && len(a2.Rhs) == 1 && exprStr(a2.Lhs[0]) == "ref" && exprStr(a2.Rhs[0]) == "meta.Created" {
					ok = true
				}
			}
		}
		b("lock_stale_ref_updated_else_created", ok, "fileLockIsStale: ref = Updated, or Created when Updated is zero")
	} else {
		t.errf("fileLockIsStale: missing or unexpected shape")
	}
}
