package main

import (
	"go/ast"
	"go/constant"
	"strings"
)

// C19: the back-off table and the retry horizon of doWithRetry (async.go).
func init() { items = append(items, c19Emit) }

func c19ConstantInt64(v constant.Value) (int64, bool) {
	if v.Kind() != constant.Int {
		v = constant.ToInt(v)
	}
	if v.Kind() != constant.Int {
		return 0, false
	}
	return constant.Int64Val(v)
}

func c19Emit(t *tr) {
	d, ok := t.decls["retryIntervals"]
	if !ok {
		t.errf("missing declaration retryIntervals")
		return
	}
	cl, ok := d.(*ast.CompositeLit)
	if !ok {
		t.errf("retryIntervals: expected a composite literal")
		return
	}
	if at, ok := cl.Type.(*ast.ArrayType); !ok || at.Len != nil || exprStr(at.Elt) != "time.Duration" {
		t.errf("retryIntervals: expected []time.Duration{...}")
		return
	}
	var vs []string
	for _, e := range cl.Elts {
		v, err := t.eval(e, 0)
		if err != nil {
			t.errf("retryIntervals: %v", err)
			return
		}
		if v.Kind() != constant.Int {
			v = constant.ToInt(v)
		}
		if v.Kind() != constant.Int {
			t.errf("retryIntervals: non-integer element")
			return
		}
		vs = append(vs, "("+v.ExactString()+")")
	}
	t.p("(* retryIntervals (async.go), nanoseconds *)\nDefinition retry_intervals : list Z := [%s]%%Z.\n", strings.Join(vs, "; "))
	t.emitZ("max_retry_duration", "maxRetryDuration")
}
