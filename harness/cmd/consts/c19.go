package main

import (
	"go/ast"
	"go/constant"
	"go/token"
	"sort"
	"strings"
)

// C19: the back-off table and the retry horizon of doWithRetry (async.go).
func init() { items = append(items, c19Emit) }

func c19ConstantInt64(v constant.Value) (int64, bool) {
	if v.Kind() != constant.Int {
		v = constant.ToInt(v)
	}
	if v.Kind() != constant.Int {
		return 0, false
	}
	return constant.Int64Val(v)
}

func c19Emit(t *tr) {
	d, ok := t.decls["retryIntervals"]
	if !ok {
		t.errf("missing declaration retryIntervals")
		return
	}
	cl, ok := d.(*ast.CompositeLit)
	if !ok {
		t.errf("retryIntervals: expected a composite literal")
		return
	}
	if at, ok := cl.Type.(*ast.ArrayType); !ok || at.Len != nil || exprStr(at.Elt) != "time.Duration" {
		t.errf("retryIntervals: expected []time.Duration{...}")
		return
	}
	var vs []string
	for _, e := range cl.Elts {
		v, err := t.eval(e, 0)
		if err != nil {
			t.errf("retryIntervals: %v", err)
			return
		}
		if v.Kind() != constant.Int {
			v = constant.ToInt(v)
		}
		if v.Kind() != constant.Int {
			t.errf("retryIntervals: non-integer element")
			return
		}
		vs = append(vs, "("+v.ExactString()+")")
	}
	t.p("(* retryIntervals (async.go), nanoseconds *)\nDefinition retry_intervals : list Z := [%s]%%Z.\n", strings.Join(vs, "; "))
	t.emitZ("max_retry_duration", "maxRetryDuration")
	t.c19EmitSecureCAURL()
	t.c19EmitIssueShape()
	t.c19EmitDefaultCAs()
}

// DefaultACME = ACMEIssuer{CA: ..., TestCA: ...}: the directory URLs NewACMEIssuer fills in.
func (t *tr) c19EmitDefaultCAs() {
	d, ok := t.decls["DefaultACME"]
	if !ok {
		t.errf("missing declaration DefaultACME")
		return
	}
	cl, ok := d.(*ast.CompositeLit)
	if !ok {
		t.errf("DefaultACME: expected a composite literal")
		return
	}
	found := 0
	for _, e := range cl.Elts {
		kv, ok := e.(*ast.KeyValueExpr)
		if !ok {
			continue
		}
		switch exprStr(kv.Key) {
		case "CA":
			if v, ok := t.strLit(kv.Value, "DefaultACME.CA"); ok {
				t.p("Definition default_acme_ca : str := %s. (* DefaultACME.CA = %q *)\n", coqStr(v), v)
				found++
			}
		case "TestCA":
			if v, ok := t.strLit(kv.Value, "DefaultACME.TestCA"); ok {
				t.p("Definition default_acme_test_ca : str := %s. (* DefaultACME.TestCA = %q *)\n", coqStr(v), v)
				found++
			}
		}
	}
	if found != 2 {
		t.errf("DefaultACME: CA / TestCA not both found")
	}
}

// secureCAURL (acmeclient.go) must begin with
//
//	if !strings.Contains(caURL, SEP) { caURL = PREFIX + caURL }
//
// the two literals are what the model's norm_url is instantiated with.
func (t *tr) c19EmitSecureCAURL() {
	fd := t.funcs["secureCAURL"]
	if fd == nil || fd.Body == nil || len(fd.Body.List) == 0 {
		t.errf("missing secureCAURL")
		return
	}
	is, ok := fd.Body.List[0].(*ast.IfStmt)
	if !ok || is.Init != nil || is.Else != nil || len(is.Body.List) != 1 {
		t.errf("secureCAURL: first statement is not the scheme test")
		return
	}
	ue, ok := is.Cond.(*ast.UnaryExpr)
	if !ok || ue.Op != token.NOT {
		t.errf("secureCAURL: scheme test is not a negation")
		return
	}
	call, ok := ue.X.(*ast.CallExpr)
	if !ok || exprStr(call.Fun) != "strings.Contains" || len(call.Args) != 2 || exprStr(call.Args[0]) != "caURL" {
		t.errf("secureCAURL: scheme test is not !strings.Contains(caURL, ...)")
		return
	}
	sep, ok1 := t.strLit(call.Args[1], "secureCAURL scheme separator")
	as, ok := is.Body.List[0].(*ast.AssignStmt)
	if !ok || len(as.Lhs) != 1 || len(as.Rhs) != 1 || exprStr(as.Lhs[0]) != "caURL" || as.Tok != token.ASSIGN {
		t.errf("secureCAURL: body of the scheme test is not an assignment to caURL")
		return
	}
	be, ok := as.Rhs[0].(*ast.BinaryExpr)
	if !ok || be.Op != token.ADD || exprStr(be.Y) != "caURL" {
		t.errf("secureCAURL: expected caURL = PREFIX + caURL")
		return
	}
	pre, ok2 := t.strLit(be.X, "secureCAURL default scheme")
	if ok1 && ok2 {
		t.p("(* secureCAURL: if !strings.Contains(caURL, %q) { caURL = %q + caURL } *)\n", sep, pre)
		t.p("Definition ca_scheme_sep : str := %s.\nDefinition ca_default_scheme : str := %s.\n", coqStr(sep), coqStr(pre))
	}
}

// ACMEIssuer.Issue (acmeissuer.go): the shape the model's [issue] hard-codes.
//
//	isRetry := attempts > 0
//	cert, usedTestCA, err := am.doIssue(ctx, csr, attempts)
//	if isRetry && usedTestCA && am.CA != am.TestCA { cert, _, err = am.doIssue(ctx, csr, 0) ... StatusTooManyRequests ... ErrNoRetry }
//
// Emitted: the threshold of isRetry, the attempts argument of the second doIssue call, the condition
// of the second order as a sorted list of conjuncts, whether the 429 test and the ErrNoRetry wrap are there.
func (t *tr) c19EmitIssueShape() {
	fd := t.funcs["ACMEIssuer.Issue"]
	if fd == nil || fd.Body == nil {
		t.errf("missing ACMEIssuer.Issue")
		return
	}
	threshold := int64(-1)
	var calls []*ast.CallExpr
	var secondCond string
	secondArg := int64(-1)
	has429, hasNoRetry := false, false
	for _, s := range fd.Body.List {
		if as, ok := s.(*ast.AssignStmt); ok && as.Tok == token.DEFINE && len(as.Lhs) == 1 && exprStr(as.Lhs[0]) == "isRetry" {
			if be, ok := as.Rhs[0].(*ast.BinaryExpr); ok && be.Op == token.GTR && exprStr(be.X) == "attempts" {
				if v, err := t.eval(be.Y, 0); err == nil {
					threshold, _ = c19ConstantInt64(v)
				}
			}
		}
	}
	ast.Inspect(fd.Body, func(n ast.Node) bool {
		if c, ok := n.(*ast.CallExpr); ok && exprStr(c.Fun) == "am.doIssue" {
			calls = append(calls, c)
		}
		if is, ok := n.(*ast.IfStmt); ok {
			inner := false
			ast.Inspect(is.Body, func(m ast.Node) bool {
				if c, ok := m.(*ast.CallExpr); ok && exprStr(c.Fun) == "am.doIssue" {
					inner = true
				}
				return true
			})
			if inner && secondCond == "" {
				var conj []string
				var walk func(e ast.Expr)
				walk = func(e ast.Expr) {
					if be, ok := e.(*ast.BinaryExpr); ok && be.Op == token.LAND {
						walk(be.X)
						walk(be.Y)
						return
					}
					if be, ok := e.(*ast.BinaryExpr); ok {
						conj = append(conj, exprStr(be.X)+" "+be.Op.String()+" "+exprStr(be.Y))
						return
					}
					conj = append(conj, exprStr(e))
				}
				walk(is.Cond)
				sort.Strings(conj)
				secondCond = strings.Join(conj, " && ")
			}
		}
		if se, ok := n.(*ast.SelectorExpr); ok && exprStr(se) == "http.StatusTooManyRequests" {
			has429 = true
		}
		if cl, ok := n.(*ast.CompositeLit); ok && exprStr(cl.Type) == "ErrNoRetry" {
			hasNoRetry = true
		}
		return true
	})
	if len(calls) == 2 && len(calls[1].Args) == 3 {
		if v, err := t.eval(calls[1].Args[2], 0); err == nil {
			secondArg, _ = c19ConstantInt64(v)
		}
	}
	firstArgOK := len(calls) >= 1 && len(calls[0].Args) == 3 && exprStr(calls[0].Args[2]) == "attempts"
	t.p("(* ACMEIssuer.Issue: isRetry := attempts > %d; %d doIssue calls; second order iff %s; second call with attempts %d *)\n",
		threshold, len(calls), secondCond, secondArg)
	t.p("Definition issue_retry_threshold : Z := (%d)%%Z.\n", threshold)
	t.p("Definition issue_second_order_attempts : Z := (%d)%%Z.\n", secondArg)
	t.p("Definition issue_shape_ok : bool := %v.\n",
		len(calls) == 2 && firstArgOK && secondCond == "am.CA != am.TestCA && isRetry && usedTestCA" && has429 && hasNoRetry)
}
