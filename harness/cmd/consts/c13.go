package main

// Translator item for C13: the statement shapes of the single-flight sections of handshake.go that
// the LTS of SingleFlight/Model.v takes as atomic steps or as literals.

import (
	"fmt"
	"go/ast"
	"go/token"
	"strings"
)

func init() { items = append(items, c13EmitC13Shape) }

// c13ReleaseCodes encodes the statements of a release closure:
// 1 = <mu>.Lock()  2 = close(wait)  3 = delete(<map>, name)  4 = <mu>.Unlock()  0 = anything else
func c13ReleaseCodes(body *ast.BlockStmt, mu, m string) []string {
	var out []string
	for _, st := range body.List {
		code := "0"
		if es, ok := st.(*ast.ExprStmt); ok {
			if c, ok := es.X.(*ast.CallExpr); ok {
				switch f := exprStr(c.Fun); {
				case f == mu+".Lock" && len(c.Args) == 0:
					code = "1"
				case f == "close" && len(c.Args) == 1 && exprStr(c.Args[0]) == "wait":
					code = "2"
				case f == "delete" && len(c.Args) == 2 && exprStr(c.Args[0]) == m && exprStr(c.Args[1]) == "name":
					code = "3"
				case f == mu+".Unlock" && len(c.Args) == 0:
					code = "4"
				}
			}
		}
		out = append(out, code)
	}
	return out
}

func c13EmitC13Shape(t *tr) {
	fns := []string{"Config.getCertDuringHandshake", "Config.obtainOnDemandCertificate", "Config.renewDynamicCertificate"}
	for _, fn := range fns {
		if fd := t.funcs[fn]; fd == nil || fd.Body == nil {
			t.errf("missing %s", fn)
			return
		}
	}
	// 1. every re-entry into getCertDuringHandshake from the three functions: the literal value of
	//    loadOrObtainIfNecessary (waiters re-enter with loading disabled)
	var re []string
	for _, fn := range fns {
		var bs []string
		ok := true
		ast.Inspect(t.funcs[fn].Body, func(n ast.Node) bool {
			c, isCall := n.(*ast.CallExpr)
			if !isCall || exprStr(c.Fun) != "cfg.getCertDuringHandshake" {
				return true
			}
			if len(c.Args) != 3 {
				t.errf("%s: getCertDuringHandshake called with %d arguments", fn, len(c.Args))
				ok = false
				return true
			}
			id, isId := c.Args[2].(*ast.Ident)
			if !isId || (id.Name != "true" && id.Name != "false") {
				t.errf("%s: loadOrObtainIfNecessary of a re-entry is not a literal", fn)
				ok = false
				return true
			}
			bs = append(bs, id.Name)
			return true
		})
		if !ok {
			return
		}
		re = append(re, "["+strings.Join(bs, "; ")+"]")
	}
	t.p("(* loadOrObtainIfNecessary of the getCertDuringHandshake calls inside getCertDuringHandshake, obtainOnDemandCertificate, renewDynamicCertificate *)\n")
	t.p("Definition hs_reentry_load_args : list (list bool) := [%s].\n", strings.Join(re, "; "))

	// 2. the release sections: the deferred closure of getCertDuringHandshake and the unblockWaiters
	//    closures: Lock; close(wait); delete(map, name); Unlock — one critical section
	var shapes []string
	{
		var lits []*ast.FuncLit
		ast.Inspect(t.funcs[fns[0]].Body, func(n ast.Node) bool {
			if d, ok := n.(*ast.DeferStmt); ok {
				if fl, ok := d.Call.Fun.(*ast.FuncLit); ok {
					lits = append(lits, fl)
				}
			}
			return true
		})
		if len(lits) != 1 {
			t.errf("getCertDuringHandshake: expected one deferred closure, found %d", len(lits))
			return
		}
		shapes = append(shapes, "["+strings.Join(c13ReleaseCodes(lits[0].Body, "certLoadWaitChansMu", "certLoadWaitChans"), "; ")+"]")
	}
	unblockCalls := []string{}
	for _, fn := range fns[1:] {
		var lit *ast.FuncLit
		n := 0
		calls := 0
		ast.Inspect(t.funcs[fn].Body, func(nd ast.Node) bool {
			switch x := nd.(type) {
			case *ast.AssignStmt:
				if len(x.Lhs) == 1 && exprStr(x.Lhs[0]) == "unblockWaiters" && len(x.Rhs) == 1 {
					if fl, ok := x.Rhs[0].(*ast.FuncLit); ok {
						lit = fl
						n++
					}
				}
			case *ast.CallExpr:
				if exprStr(x.Fun) == "unblockWaiters" {
					calls++
				}
			case *ast.DeferStmt:
				if exprStr(x.Call.Fun) == "unblockWaiters" {
					t.errf("%s: unblockWaiters is deferred (the model releases before the re-entry)", fn)
				}
			}
			return true
		})
		if n != 1 {
			t.errf("%s: expected one unblockWaiters closure, found %d", fn, n)
			return
		}
		shapes = append(shapes, "["+strings.Join(c13ReleaseCodes(lit.Body, "obtainCertWaitChansMu", "obtainCertWaitChans"), "; ")+"]")
		unblockCalls = append(unblockCalls, fmt.Sprint(calls))
	}
	t.p("(* statements of the three release sections (1 Lock, 2 close(wait), 3 delete(map, name), 4 Unlock): load defer, obtain unblockWaiters, renew unblockWaiters *)\n")
	t.p("Definition hs_release_shapes : list (list nat) := [%s]%%nat.\n", strings.Join(shapes, "; "))
	t.p("Definition hs_unblock_call_counts : list nat := [%s]%%nat. (* unblockWaiters() calls in obtainOnDemandCertificate, renewDynamicCertificate *)\n", strings.Join(unblockCalls, "; "))

	// 3. obtainOnDemandCertificate: top-level statement order ... ObtainCertAsync ... unblockWaiters() ; return
	{
		body := t.funcs[fns[1]].Body.List
		idxObtain, idxUnblock, idxRet := -1, -1, -1
		for i, st := range body {
			switch x := st.(type) {
			case *ast.AssignStmt:
				if len(x.Rhs) == 1 {
					if c, ok := x.Rhs[0].(*ast.CallExpr); ok && exprStr(c.Fun) == "cfg.ObtainCertAsync" {
						idxObtain = i
					}
				}
			case *ast.ExprStmt:
				if c, ok := x.X.(*ast.CallExpr); ok && exprStr(c.Fun) == "unblockWaiters" {
					idxUnblock = i
				}
			case *ast.ReturnStmt:
				idxRet = i
			}
		}
		okOrder := idxObtain >= 0 && idxObtain < idxUnblock && idxUnblock+1 == idxRet && idxRet == len(body)-1
		t.p("Definition hs_obtain_unblock_then_return : bool := %v. (* obtainOnDemandCertificate: ObtainCertAsync ... unblockWaiters(); return *)\n", okOrder)
	}

	// 4. renewDynamicCertificate: the serve-current test inside `if ok {` and the background test
	{
		serve, bg, bgCtx := false, false, false
		ast.Inspect(t.funcs[fns[2]].Body, func(n ast.Node) bool {
			is, ok := n.(*ast.IfStmt)
			if !ok {
				return true
			}
			if and, ok := is.Cond.(*ast.BinaryExpr); ok && and.Op == token.LAND {
				l, ok1 := and.X.(*ast.BinaryExpr)
				r, ok2 := and.Y.(*ast.UnaryExpr)
				if ok1 && ok2 && l.Op == token.GTR && exprStr(l.X) == "timeLeft" && exprStr(l.Y) == "0" && r.Op == token.NOT && exprStr(r.X) == "revoked" {
					if len(is.Body.List) > 0 {
						if rs, ok := is.Body.List[len(is.Body.List)-1].(*ast.ReturnStmt); ok && len(rs.Results) == 2 && exprStr(rs.Results[0]) == "currentCert" && exprStr(rs.Results[1]) == "nil" {
							serve = true
						}
					}
				}
			}
			if gt, ok := is.Cond.(*ast.BinaryExpr); ok && gt.Op == token.GTR && exprStr(gt.X) == "timeLeft" && exprStr(gt.Y) == "0" {
				hasGo, hasRet := false, false
				for _, st := range is.Body.List {
					if g, ok := st.(*ast.GoStmt); ok && exprStr(g.Call.Fun) == "renewAndReload" {
						hasGo = true
					}
					if rs, ok := st.(*ast.ReturnStmt); ok && len(rs.Results) == 2 && exprStr(rs.Results[0]) == "currentCert" && exprStr(rs.Results[1]) == "nil" {
						hasRet = true
					}
				}
				if hasGo && hasRet {
					bg = true
					// its context: context.WithTimeout(context.Background(), ...), not derived from the handshake's
					for _, st := range is.Body.List {
						if as, ok := st.(*ast.AssignStmt); ok && len(as.Rhs) == 1 {
							if c, ok := as.Rhs[0].(*ast.CallExpr); ok && exprStr(c.Fun) == "context.WithTimeout" && len(c.Args) == 2 {
								if c0, ok := c.Args[0].(*ast.CallExpr); ok && exprStr(c0.Fun) == "context.Background" && len(c0.Args) == 0 {
									bgCtx = true
								}
							}
						}
					}
				}
			}
			return true
		})
		t.p("Definition hs_serve_current_iff_unexpired_unrevoked : bool := %v. (* if timeLeft > 0 && !revoked { ... return currentCert, nil } *)\n", serve)
		t.p("Definition hs_background_iff_unexpired : bool := %v. (* if timeLeft > 0 { go renewAndReload(...); return currentCert, nil } *)\n", bg)
		t.p("Definition hs_background_ctx_is_background : bool := %v. (* ... ctx, cancel := context.WithTimeout(context.Background(), 5*time.Minute) *)\n", bgCtx)
	}
}
