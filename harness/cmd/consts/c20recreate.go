package main

import (
	"go/ast"
	"go/token"
	"strings"
)

// C20: the compare-and-delete of the recreate path (f0aaa6b), read from the source on every run
// and compared with the model's program points DWantLock .. DUnlock in Account/Tie.v. Emitted:
//
//	c20_cad_order      deleteAccountLocallyIfCurrent, in source order: 2 acquireLock (releaseLock
//	                   deferred right after it), 5 am.loadAccount, 6 `if errors.Is(err, fs.ErrNotExist)
//	                   { return nil }`, 7 `if err != nil { return err }`, 8 `if stored.Location !=
//	                   account.Location { return nil }`, 9 return am.deleteAccountLocally(...)
//	c20_cad_lock_key   the lock is the registration lock: acquireLock(ctx, _, accountRegLockKey(account))
//	c20_recreate_calls doIssue, inside the accountDoesNotExist branch: 10 deleteAccountLocallyIfCurrent,
//	                   11 newACMEClientWithAccount, 12 `params.Account = client.account`, 13 continue
//	c20_delete_call_sites  number of calls of deleteAccountLocally in the package (only the one above)
func init() { items = append(items, emitC20Recreate) }

func c20IsNil(e ast.Expr) bool { return exprStr(e) == "nil" }

func emitC20Recreate(t *tr) {
	fd := t.funcs["ACMEIssuer.deleteAccountLocallyIfCurrent"]
	if fd == nil || fd.Body == nil {
		t.errf("missing ACMEIssuer.deleteAccountLocallyIfCurrent")
	} else {
		var order []int
		deferredAfter, regLock := -1, false
		lockVar := ""
		// top-level statements only: the function is straight-line code with guards
		for _, st := range fd.Body.List {
			switch st := st.(type) {
			case *ast.AssignStmt:
				if len(st.Rhs) == 1 {
					if c, ok := st.Rhs[0].(*ast.CallExpr); ok {
						switch {
						case exprStr(c.Fun) == "accountRegLockKey" && len(c.Args) == 1 && exprStr(c.Args[0]) == "account" && len(st.Lhs) == 1:
							lockVar = exprStr(st.Lhs[0])
						case strings.HasSuffix(exprStr(c.Fun), ".loadAccount"):
							if len(st.Lhs) == 2 && exprStr(st.Lhs[0]) == "stored" && exprStr(st.Lhs[1]) == "err" {
								order = append(order, 5)
							} else {
								order = append(order, 50)
							}
						default:
							order = append(order, 99)
						}
					}
				}
			case *ast.DeferStmt:
				rel := false
				ast.Inspect(st.Call, func(n ast.Node) bool {
					if c, ok := n.(*ast.CallExpr); ok && exprStr(c.Fun) == "releaseLock" && len(c.Args) == 3 && exprStr(c.Args[2]) == lockVar {
						rel = true
					}
					return true
				})
				if rel && deferredAfter < 0 {
					deferredAfter = len(order)
				} else {
					order = append(order, 98)
				}
			case *ast.IfStmt:
				ret := ""
				if len(st.Body.List) == 1 && st.Else == nil {
					if r, ok := st.Body.List[0].(*ast.ReturnStmt); ok && len(r.Results) == 1 {
						ret = exprStr(r.Results[0])
						if c, ok := r.Results[0].(*ast.CallExpr); ok && exprStr(c.Fun) == "fmt.Errorf" {
							ret = "error"
						}
					}
				}
				switch {
				case st.Init != nil:
					// if err := acquireLock(ctx, am.config.Storage, key); err != nil { return error }
					as, ok := st.Init.(*ast.AssignStmt)
					c, ok2 := (ast.Expr)(nil), false
					if ok && len(as.Rhs) == 1 {
						c, ok2 = as.Rhs[0], true
					}
					if ok2 {
						if call, ok := c.(*ast.CallExpr); ok && exprStr(call.Fun) == "acquireLock" && len(call.Args) == 3 && ret == "error" {
							order = append(order, 2)
							regLock = lockVar != "" && exprStr(call.Args[2]) == lockVar
							continue
						}
					}
					order = append(order, 97)
				case ret == "nil":
					if c, ok := st.Cond.(*ast.CallExpr); ok && exprStr(c.Fun) == "errors.Is" && len(c.Args) == 2 && exprStr(c.Args[0]) == "err" && exprStr(c.Args[1]) == "fs.ErrNotExist" {
						order = append(order, 6)
					} else if be, ok := st.Cond.(*ast.BinaryExpr); ok && be.Op == token.NEQ &&
						((exprStr(be.X) == "stored.Location" && exprStr(be.Y) == "account.Location") || (exprStr(be.X) == "account.Location" && exprStr(be.Y) == "stored.Location")) {
						order = append(order, 8)
					} else {
						order = append(order, 96)
					}
				case ret == "err":
					if be, ok := st.Cond.(*ast.BinaryExpr); ok && be.Op == token.NEQ && exprStr(be.X) == "err" && c20IsNil(be.Y) {
						order = append(order, 7)
					} else {
						order = append(order, 95)
					}
				default:
					order = append(order, 94)
				}
			case *ast.ReturnStmt:
				if len(st.Results) == 1 {
					if c, ok := st.Results[0].(*ast.CallExpr); ok && strings.HasSuffix(exprStr(c.Fun), ".deleteAccountLocally") {
						order = append(order, 9)
						continue
					}
				}
				order = append(order, 93)
			default:
				order = append(order, 92)
			}
		}
		if deferredAfter != 1 {
			t.errf("ACMEIssuer.deleteAccountLocallyIfCurrent: releaseLock is not deferred right after acquireLock (statements %v, deferred after %d)", order, deferredAfter)
		} else {
			t.p("Definition c20_cad_order : list nat := %s. (* deleteAccountLocallyIfCurrent: 2 acquireLock (releaseLock deferred) 5 loadAccount 6 ErrNotExist -> nil 7 err -> err 8 Location differs -> nil 9 deleteAccountLocally *)\n", c20NatList(order))
			t.p("Definition c20_cad_lock_key : bool := %v. (* the lock taken is accountRegLockKey(account) *)\n", regLock)
		}
	}
	// ---- doIssue: what the accountDoesNotExist branch does, in order
	if fd := t.funcs["ACMEIssuer.doIssue"]; fd == nil || fd.Body == nil {
		t.errf("missing ACMEIssuer.doIssue")
	} else {
		var calls []int
		branches := 0
		ast.Inspect(fd.Body, func(n ast.Node) bool {
			is, ok := n.(*ast.IfStmt)
			if !ok {
				return true
			}
			mentions := false
			ast.Inspect(is.Cond, func(m ast.Node) bool {
				if se, ok := m.(*ast.SelectorExpr); ok && se.Sel.Name == "ProblemTypeAccountDoesNotExist" {
					mentions = true
				}
				return true
			})
			if !mentions {
				return true
			}
			branches++
			ast.Inspect(is.Body, func(m ast.Node) bool {
				switch m := m.(type) {
				case *ast.CallExpr:
					switch {
					case strings.HasSuffix(exprStr(m.Fun), ".deleteAccountLocallyIfCurrent"):
						calls = append(calls, 10)
					case strings.HasSuffix(exprStr(m.Fun), ".deleteAccountLocally"):
						calls = append(calls, 19)
					case strings.HasSuffix(exprStr(m.Fun), ".newACMEClientWithAccount"):
						calls = append(calls, 11)
					}
				case *ast.AssignStmt:
					if len(m.Lhs) == 1 && len(m.Rhs) == 1 && exprStr(m.Lhs[0]) == "params.Account" && exprStr(m.Rhs[0]) == "client.account" {
						calls = append(calls, 12)
					}
				case *ast.BranchStmt:
					if m.Tok == token.CONTINUE {
						calls = append(calls, 13)
					}
				}
				return true
			})
			return false
		})
		if branches != 1 {
			t.errf("ACMEIssuer.doIssue: %d branches mention ProblemTypeAccountDoesNotExist, expected 1", branches)
		} else {
			t.p("Definition c20_recreate_calls : list nat := %s. (* doIssue, accountDoesNotExist branch: 10 deleteAccountLocallyIfCurrent 11 newACMEClientWithAccount 12 params.Account = client.account 13 continue *)\n", c20NatList(calls))
		}
	}
	// ---- who else deletes an account
	sites := 0
	for _, fd := range t.funcs {
		if fd.Body == nil {
			continue
		}
		ast.Inspect(fd.Body, func(n ast.Node) bool {
			if c, ok := n.(*ast.CallExpr); ok && strings.HasSuffix(exprStr(c.Fun), ".deleteAccountLocally") {
				sites++
			}
			return true
		})
	}
	t.p("Definition c20_delete_call_sites : nat := %d%%nat. (* calls of deleteAccountLocally in the package *)\n", sites)
}
