// Command consts is translator T: it reads the current working tree of /repo with go/ast and
// regenerates coq/theories/Gen/Consts.v — named constants, tables, string literals and the
// statement sequence of KeyBuilder.Safe that the Coq models depend on. It fails closed: a
// missing declaration or an unexpected shape is an error (exit 2), never a guess.
package main

import (
	"encoding/json"
	"fmt"
	"go/ast"
	"go/constant"
	"go/parser"
	"go/token"
	"os"
	"path/filepath"
	"reflect"
	"runtime"
	"sort"
	"strconv"
	"strings"
)

type tr struct {
	fset   *token.FileSet
	files  map[string]*ast.File
	decls  map[string]ast.Expr // package-level const/var name -> value expr
	funcs  map[string]*ast.FuncDecl
	errs   []string
	out    strings.Builder
	status []itemStatus
}

func (t *tr) errf(f string, a ...any) { t.errs = append(t.errs, fmt.Sprintf(f, a...)) }

func main() {
	repo := "/repo"
	outPath := ""
	if len(os.Args) > 1 {
		repo = os.Args[1]
	}
	if len(os.Args) > 2 {
		outPath = os.Args[2]
	}
	t := &tr{fset: token.NewFileSet(), files: map[string]*ast.File{}, decls: map[string]ast.Expr{}, funcs: map[string]*ast.FuncDecl{}}
	matches, _ := filepath.Glob(filepath.Join(repo, "*.go"))
	sort.Strings(matches)
	for _, m := range matches {
		if strings.HasSuffix(m, "_test.go") || strings.HasPrefix(filepath.Base(m), "verif_") {
			continue
		}
		f, err := parser.ParseFile(t.fset, m, nil, parser.ParseComments)
		if err != nil {
			t.errf("parse %s: %v", m, err)
			continue
		}
		if hasBuildTagVerif(f) {
			continue
		}
		t.files[filepath.Base(m)] = f
		for _, d := range f.Decls {
			switch d := d.(type) {
			case *ast.GenDecl:
				for _, s := range d.Specs {
					if vs, ok := s.(*ast.ValueSpec); ok {
						for i, n := range vs.Names {
							if i < len(vs.Values) {
								t.decls[n.Name] = vs.Values[i]
							}
						}
					}
				}
			case *ast.FuncDecl:
				name := d.Name.Name
				if d.Recv != nil && len(d.Recv.List) == 1 {
					name = recvName(d.Recv.List[0].Type) + "." + name
				}
				t.funcs[name] = d
			}
		}
	}
	refPath := ""
	if len(os.Args) > 3 {
		refPath = os.Args[3]
	}
	failed := t.emitAll(refPath)
	for _, e := range t.errs {
		fmt.Fprintln(os.Stderr, "consts: "+e)
	}
	if failed < 0 { // an item failed and no reference text was available for it
		os.Exit(2)
	}
	if outPath == "" {
		fmt.Print(t.out.String())
	} else {
		old, _ := os.ReadFile(outPath)
		if string(old) != t.out.String() {
			if err := os.WriteFile(outPath, []byte(t.out.String()), 0o644); err != nil {
				fmt.Fprintln(os.Stderr, err)
				os.Exit(2)
			}
		}
		b, _ := json.MarshalIndent(t.status, "", " ")
		os.WriteFile(outPath+".status.json", b, 0o644)
	}
	if failed > 0 {
		os.Exit(3) // Consts.v written, but some items fell back to their reference text
	}
}

// itemStatus records, per translator item, whether it could be regenerated from the tree.
type itemStatus struct {
	Name string   `json:"name"`
	OK   bool     `json:"ok"`
	Errs []string `json:"errs,omitempty"`
	Text string   `json:"text"`
}

func hasBuildTagVerif(f *ast.File) bool {
	for _, cg := range f.Comments {
		for _, c := range cg.List {
			if strings.HasPrefix(c.Text, "//go:build") && strings.Contains(c.Text, "verif") {
				return true
			}
		}
	}
	return false
}

func recvName(e ast.Expr) string {
	switch e := e.(type) {
	case *ast.StarExpr:
		return recvName(e.X)
	case *ast.Ident:
		return e.Name
	case *ast.IndexExpr:
		return recvName(e.X)
	}
	return "?"
}

var timeUnits = map[string]int64{"Nanosecond": 1, "Microsecond": 1e3, "Millisecond": 1e6, "Second": 1e9, "Minute": 60e9, "Hour": 3600e9}

// eval evaluates a constant expression (ints, floats, time units, package-level names).
func (t *tr) eval(e ast.Expr, depth int) (constant.Value, error) {
	if depth > 20 {
		return nil, fmt.Errorf("constant expression too deep")
	}
	switch e := e.(type) {
	case *ast.BasicLit:
		v := constant.MakeFromLiteral(e.Value, e.Kind, 0)
		if v.Kind() == constant.Unknown {
			return nil, fmt.Errorf("bad literal %s", e.Value)
		}
		return v, nil
	case *ast.ParenExpr:
		return t.eval(e.X, depth+1)
	case *ast.Ident:
		if d, ok := t.decls[e.Name]; ok {
			return t.eval(d, depth+1)
		}
		return nil, fmt.Errorf("unknown identifier %s", e.Name)
	case *ast.SelectorExpr:
		if x, ok := e.X.(*ast.Ident); ok && x.Name == "time" {
			if u, ok := timeUnits[e.Sel.Name]; ok {
				return constant.MakeInt64(u), nil
			}
		}
		return nil, fmt.Errorf("unsupported selector %s", exprStr(e))
	case *ast.UnaryExpr:
		x, err := t.eval(e.X, depth+1)
		if err != nil {
			return nil, err
		}
		return constant.UnaryOp(e.Op, x, 0), nil
	case *ast.BinaryExpr:
		x, err := t.eval(e.X, depth+1)
		if err != nil {
			return nil, err
		}
		y, err := t.eval(e.Y, depth+1)
		if err != nil {
			return nil, err
		}
		op := e.Op
		if op == token.QUO && x.Kind() == constant.Int && y.Kind() == constant.Int {
			op = token.QUO_ASSIGN // integer division
		}
		return constant.BinaryOp(x, op, y), nil
	case *ast.CallExpr:
		// conversions like time.Duration(x) / float64(x)
		if len(e.Args) == 1 {
			return t.eval(e.Args[0], depth+1)
		}
	}
	return nil, fmt.Errorf("unsupported constant expression %s", exprStr(e))
}

func exprStr(e ast.Expr) string {
	switch e := e.(type) {
	case *ast.Ident:
		return e.Name
	case *ast.SelectorExpr:
		return exprStr(e.X) + "." + e.Sel.Name
	case *ast.BasicLit:
		return e.Value
	case *ast.CallExpr:
		return exprStr(e.Fun) + "(...)"
	}
	return fmt.Sprintf("%T", e)
}

func (t *tr) intConst(name string) (string, bool) {
	d, ok := t.decls[name]
	if !ok {
		t.errf("missing declaration %s", name)
		return "", false
	}
	v, err := t.eval(d, 0)
	if err != nil {
		t.errf("%s: %v", name, err)
		return "", false
	}
	if v.Kind() != constant.Int {
		if f := constant.ToInt(v); f.Kind() == constant.Int {
			v = f
		} else {
			t.errf("%s: not an integer constant (%s)", name, v.String())
			return "", false
		}
	}
	return v.ExactString(), true
}

// ratConst returns numerator, denominator of a numeric constant.
func (t *tr) ratConst(name string) (string, string, bool) {
	d, ok := t.decls[name]
	if !ok {
		t.errf("missing declaration %s", name)
		return "", "", false
	}
	v, err := t.eval(d, 0)
	if err != nil {
		t.errf("%s: %v", name, err)
		return "", "", false
	}
	n, dn := constant.Num(v), constant.Denom(v)
	if n.Kind() != constant.Int || dn.Kind() != constant.Int {
		t.errf("%s: not rational", name)
		return "", "", false
	}
	return n.ExactString(), dn.ExactString(), true
}

func (t *tr) strConst(name string) (string, bool) {
	d, ok := t.decls[name]
	if !ok {
		t.errf("missing declaration %s", name)
		return "", false
	}
	return t.strLit(d, name)
}

func (t *tr) strLit(e ast.Expr, what string) (string, bool) {
	switch e := e.(type) {
	case *ast.BasicLit:
		if e.Kind == token.STRING {
			s, err := strconv.Unquote(e.Value)
			if err == nil {
				return s, true
			}
		}
	case *ast.Ident:
		if d, ok := t.decls[e.Name]; ok {
			return t.strLit(d, what)
		}
	case *ast.SelectorExpr:
		// acmez.ACMETLS1Protocol and the like are resolved by a table of known externals
		if s, ok := knownExternalStrings[exprStr(e)]; ok {
			return s, true
		}
	}
	t.errf("%s: expected string literal, got %s", what, exprStr(e))
	return "", false
}

// strings from dependencies that the code refers to by name; the harness validates each
// against the real value at run time (cmd/run prints them and the driver compares).
var knownExternalStrings = map[string]string{
	"acmez.ACMETLS1Protocol": "acme-tls/1",
}

func coqStr(s string) string {
	var b strings.Builder
	b.WriteString("[")
	first := true
	for _, r := range s {
		if !first {
			b.WriteString("; ")
		}
		first = false
		b.WriteString(strconv.Itoa(int(r)))
	}
	b.WriteString("]%N")
	return b.String()
}

func (t *tr) p(f string, a ...any) { fmt.Fprintf(&t.out, f, a...) }

// emitAll runs every item separately. An item that fails (fail closed: missing declaration,
// unexpected shape) contributes its text from the reference status file (written by `setup` on the
// unchanged tree) so that the other models still build; its failure is recorded and reported by the
// driver for the properties that item serves. Returns the number of failed items, -1 if one failed
// without reference text.
func (t *tr) emitAll(refPath string) int {
	ref := map[string]string{}
	if refPath != "" {
		if b, err := os.ReadFile(refPath); err == nil {
			var st []itemStatus
			if json.Unmarshal(b, &st) == nil {
				for _, i := range st {
					if i.OK {
						ref[i.Name] = i.Text
					}
				}
			}
		}
	}
	var all strings.Builder
	all.WriteString("(* GENERATED by harness/cmd/consts from the working tree of /repo. Do not edit. *)\n")
	all.WriteString("From Coq Require Import List NArith ZArith.\nFrom CM Require Import Lib.Str Lib.SafeSteps.\nImport ListNotations.\nOpen Scope N_scope.\n\n")
	failed := 0
	for _, item := range items {
		name := runtime.FuncForPC(reflect.ValueOf(item).Pointer()).Name()
		name = name[strings.LastIndex(name, ".")+1:]
		t.out.Reset()
		before := len(t.errs)
		item(t)
		st := itemStatus{Name: name, OK: len(t.errs) == before, Text: t.out.String()}
		if !st.OK {
			st.Errs = append([]string(nil), t.errs[before:]...)
			if txt, ok := ref[name]; ok {
				st.Text = txt
				if failed >= 0 {
					failed++
				}
			} else {
				failed = -1
			}
		}
		t.status = append(t.status, st)
		all.WriteString(st.Text)
	}
	t.out.Reset()
	t.out.WriteString(all.String())
	return failed
}

var items = []func(*tr){emitSafe, emitPrefixes, emitFileLockNames, emitAccountNames}

func (t *tr) emitStr(coqName, goName string) {
	if s, ok := t.strConst(goName); ok {
		t.p("Definition %s : str := %s. (* %s = %q *)\n", coqName, coqStr(s), goName, s)
	}
}

func (t *tr) emitZ(coqName, goName string) {
	if s, ok := t.intConst(goName); ok {
		t.p("Definition %s : Z := (%s)%%Z. (* %s *)\n", coqName, s, goName)
	}
}

func emitPrefixes(t *tr) {
	t.emitStr("prefix_certs", "prefixCerts")
	t.emitStr("prefix_ocsp", "prefixOCSP")
	t.emitStr("prefix_acme", "prefixACME")
}

// "locks" in FileStorage.lockDir and ".lock" in FileStorage.lockFilename
func emitFileLockNames(t *tr) {
	ld := t.funcs["FileStorage.lockDir"]
	lf := t.funcs["FileStorage.lockFilename"]
	if ld == nil || lf == nil {
		t.errf("missing FileStorage.lockDir / lockFilename")
		return
	}
	// return filepath.Join(s.Path, "locks")
	if call := soleReturnCall(ld); call != nil && exprStr(call.Fun) == "filepath.Join" && len(call.Args) == 2 && exprStr(call.Args[0]) == "s.Path" {
		if s, ok := t.strLit(call.Args[1], "lockDir"); ok {
			t.p("Definition lock_dir_name : str := %s. (* %q *)\n", coqStr(s), s)
		}
	} else {
		t.errf("FileStorage.lockDir: unexpected shape")
	}
	// return filepath.Join(s.lockDir(), StorageKeys.Safe(name)+".lock")
	if call := soleReturnCall(lf); call != nil && exprStr(call.Fun) == "filepath.Join" && len(call.Args) == 2 && exprStr(call.Args[0]) == "s.lockDir(...)" {
		be, ok := call.Args[1].(*ast.BinaryExpr)
		if ok && be.Op == token.ADD && exprStr(be.X) == "StorageKeys.Safe(...)" {
			if s, ok := t.strLit(be.Y, "lockFilename"); ok {
				t.p("Definition lock_suffix : str := %s. (* %q *)\n", coqStr(s), s)
				return
			}
		}
	}
	t.errf("FileStorage.lockFilename: unexpected shape")
}

func soleReturnCall(fd *ast.FuncDecl) *ast.CallExpr {
	if fd.Body == nil || len(fd.Body.List) != 1 {
		return nil
	}
	rs, ok := fd.Body.List[0].(*ast.ReturnStmt)
	if !ok || len(rs.Results) != 1 {
		return nil
	}
	c, _ := rs.Results[0].(*ast.CallExpr)
	return c
}

// emitSafe translates the body of KeyBuilder.Safe statement by statement.
func emitSafe(t *tr) {
	fd := t.funcs["KeyBuilder.Safe"]
	if fd == nil || fd.Body == nil {
		t.errf("missing KeyBuilder.Safe")
		return
	}
	if len(fd.Type.Params.List) != 1 || len(fd.Type.Params.List[0].Names) != 1 {
		t.errf("KeyBuilder.Safe: unexpected parameters")
		return
	}
	v := fd.Type.Params.List[0].Names[0].Name
	replacers := map[string]string{} // local var -> coq pairs
	var steps []string
	returned := false
	bad := func(s ast.Stmt) {
		t.errf("KeyBuilder.Safe: untranslatable statement at %s", t.fset.Position(s.Pos()))
	}
	// call returns the coq step for an expression `f(v...)` whose result becomes the new v
	var stepOf func(e ast.Expr) (string, bool)
	stepOf = func(e ast.Expr) (string, bool) {
		call, ok := e.(*ast.CallExpr)
		if !ok {
			return "", false
		}
		fn := exprStr(call.Fun)
		isV := func(a ast.Expr) bool { id, ok := a.(*ast.Ident); return ok && id.Name == v }
		switch {
		case fn == "strings.ToLower" && len(call.Args) == 1 && isV(call.Args[0]):
			return "SLower", true
		case fn == "strings.TrimSpace" && len(call.Args) == 1 && isV(call.Args[0]):
			return "STrim", true
		case fn == "strings.ReplaceAll" && len(call.Args) == 3 && isV(call.Args[0]):
			o, ok1 := t.strLit(call.Args[1], "ReplaceAll old")
			n, ok2 := t.strLit(call.Args[2], "ReplaceAll new")
			if !ok1 || !ok2 || o == "" {
				return "", false
			}
			return fmt.Sprintf("SReplaceAll %s %s", coqStr(o), coqStr(n)), true
		case strings.HasSuffix(fn, ".Replace") && len(call.Args) == 1 && isV(call.Args[0]):
			sel := call.Fun.(*ast.SelectorExpr)
			if id, ok := sel.X.(*ast.Ident); ok {
				if pairs, ok := replacers[id.Name]; ok {
					return "SReplacer " + pairs, true
				}
			}
		case strings.HasSuffix(fn, ".ReplaceAllLiteralString") && len(call.Args) == 2 && isV(call.Args[0]):
			sel := call.Fun.(*ast.SelectorExpr)
			repl, ok := t.strLit(call.Args[1], "ReplaceAllLiteralString repl")
			if !ok || repl != "" {
				return "", false
			}
			if id, ok := sel.X.(*ast.Ident); ok {
				if ranges, ok := t.regexKeepRanges(id.Name); ok {
					return "SRegexStrip " + ranges, true
				}
			}
		}
		return "", false
	}
	for _, s := range fd.Body.List {
		if returned {
			bad(s)
			return
		}
		switch s := s.(type) {
		case *ast.AssignStmt:
			if len(s.Lhs) != 1 || len(s.Rhs) != 1 {
				bad(s)
				return
			}
			lhs, ok := s.Lhs[0].(*ast.Ident)
			if !ok {
				bad(s)
				return
			}
			if s.Tok == token.DEFINE {
				// repl := strings.NewReplacer(...)
				call, ok := s.Rhs[0].(*ast.CallExpr)
				if !ok || exprStr(call.Fun) != "strings.NewReplacer" || len(call.Args)%2 != 0 {
					bad(s)
					return
				}
				var ps []string
				for i := 0; i < len(call.Args); i += 2 {
					o, ok1 := t.strLit(call.Args[i], "replacer old")
					n, ok2 := t.strLit(call.Args[i+1], "replacer new")
					if !ok1 || !ok2 {
						return
					}
					if o == "" {
						t.errf("KeyBuilder.Safe: empty replacer key is not modelled")
						return
					}
					ps = append(ps, fmt.Sprintf("(%s, %s)", coqStr(o), coqStr(n)))
				}
				replacers[lhs.Name] = "[" + strings.Join(ps, "; ") + "]"
				continue
			}
			if s.Tok != token.ASSIGN || lhs.Name != v {
				bad(s)
				return
			}
			st, ok := stepOf(s.Rhs[0])
			if !ok {
				bad(s)
				return
			}
			steps = append(steps, st)
		case *ast.ReturnStmt:
			if len(s.Results) != 1 {
				bad(s)
				return
			}
			if id, ok := s.Results[0].(*ast.Ident); ok && id.Name == v {
				returned = true
				continue
			}
			st, ok := stepOf(s.Results[0])
			if !ok {
				bad(s)
				return
			}
			steps = append(steps, st)
			returned = true
		default:
			bad(s)
			return
		}
	}
	if !returned {
		t.errf("KeyBuilder.Safe: no return")
		return
	}
	t.p("(* statement sequence of KeyBuilder.Safe *)\nDefinition safe_steps : list safe_step :=\n  [ %s ].\n", strings.Join(steps, ";\n    "))
}

// regexKeepRanges parses `var X = regexp.MustCompile(`[^...]`)` (a single negated class of
// literals, ranges and \w \d) into the list of kept code point ranges.
func (t *tr) regexKeepRanges(name string) (string, bool) {
	d, ok := t.decls[name]
	if !ok {
		t.errf("missing declaration %s", name)
		return "", false
	}
	call, ok := d.(*ast.CallExpr)
	if !ok || exprStr(call.Fun) != "regexp.MustCompile" || len(call.Args) != 1 {
		t.errf("%s: expected regexp.MustCompile(literal)", name)
		return "", false
	}
	src, ok := t.strLit(call.Args[0], name)
	if !ok {
		return "", false
	}
	if !strings.HasPrefix(src, "[^") || !strings.HasSuffix(src, "]") || len(src) < 4 {
		t.errf("%s: regexp %q is not a single negated class", name, src)
		return "", false
	}
	body := []rune(src[2 : len(src)-1])
	type rg struct{ lo, hi rune }
	var rs []rg
	i := 0
	readAtom := func() (rune, []rg, bool) { // returns literal or a class expansion
		if body[i] == '\\' {
			if i+1 >= len(body) {
				return 0, nil, false
			}
			c := body[i+1]
			i += 2
			switch c {
			case 'w':
				return 0, []rg{{'0', '9'}, {'A', 'Z'}, {'_', '_'}, {'a', 'z'}}, true
			case 'd':
				return 0, []rg{{'0', '9'}}, true
			case '.', '-', '\\', ']', '[', '^', '/', '@':
				return c, nil, true
			}
			return 0, nil, false
		}
		if body[i] == '[' || body[i] == ']' {
			return 0, nil, false
		}
		c := body[i]
		i++
		return c, nil, true
	}
	for i < len(body) {
		c, cls, ok := readAtom()
		if !ok {
			t.errf("%s: regexp class %q not understood", name, src)
			return "", false
		}
		if cls != nil {
			rs = append(rs, cls...)
			continue
		}
		if i+1 < len(body) && body[i] == '-' { // range a-b (a '-' that is last is a literal)
			i++
			hi, cls2, ok := readAtom()
			if !ok || cls2 != nil || hi < c {
				t.errf("%s: regexp class %q not understood", name, src)
				return "", false
			}
			rs = append(rs, rg{c, hi})
			continue
		}
		rs = append(rs, rg{c, c})
	}
	var ps []string
	for _, r := range rs {
		ps = append(ps, fmt.Sprintf("(%d, %d)", r.lo, r.hi))
	}
	return "[" + strings.Join(ps, "; ") + "]", true
}

// second argument literal of `return path.Join(x, "lit")` in a one-statement function
func (t *tr) joinLiteral(fn string, coqName string) {
	fd := t.funcs[fn]
	if fd == nil {
		t.errf("missing %s", fn)
		return
	}
	if call := soleReturnCall(fd); call != nil && exprStr(call.Fun) == "path.Join" && len(call.Args) == 2 {
		if s, ok := t.strLit(call.Args[1], fn); ok {
			t.p("Definition %s : str := %s. (* %q in %s *)\n", coqName, coqStr(s), s, fn)
			return
		}
	}
	t.errf("%s: unexpected shape", fn)
}

func emitAccountNames(t *tr) {
	t.emitStr("empty_email", "emptyEmail")
	t.joinLiteral("ACMEIssuer.storageKeyUsersPrefix", "users_dir_name")
	t.joinLiteral("distributedSolver.challengeTokensPrefix", "challenge_tokens_dir_name")
	t.userKeyDefault("ACMEIssuer.storageKeyUserReg", "reg_default_name", ".json")
	t.userKeyDefault("ACMEIssuer.storageKeyUserPrivateKey", "key_default_name", ".key")
}

// `return am.storageSafeUserKey(caURL, email, "registration", ".json")`
func (t *tr) userKeyDefault(fn, coqName, wantExt string) {
	fd := t.funcs[fn]
	if fd == nil {
		t.errf("missing %s", fn)
		return
	}
	if call := soleReturnCall(fd); call != nil && exprStr(call.Fun) == "am.storageSafeUserKey" && len(call.Args) == 4 {
		d, ok1 := t.strLit(call.Args[2], fn)
		e, ok2 := t.strLit(call.Args[3], fn)
		if ok1 && ok2 && e == wantExt {
			t.p("Definition %s : str := %s. (* %q in %s *)\n", coqName, coqStr(d), d, fn)
			return
		}
	}
	t.errf("%s: unexpected shape", fn)
}
