package main

import (
	"go/ast"
	"go/token"
)

// C15: the HTTP challenge base path (httphandlers.go) and the ALPN protocol name the handshake
// compares with (handshake.go refers to acmez.ACMETLS1Protocol; its value is validated against
// the real constant by the harness on every run).
func init() { items = append(items, emitC15) }

func emitC15(t *tr) {
	t.emitStr("acme_http_challenge_base_path", "acmeHTTPChallengeBasePath")
	// the comparison `clientHello.SupportedProtos[0] == <X>` inside GetCertificateWithContext
	fd := t.funcs["Config.GetCertificateWithContext"]
	if fd == nil || fd.Body == nil {
		t.errf("missing Config.GetCertificateWithContext")
		return
	}
	found := ""
	ok := false
	ast.Inspect(fd.Body, func(n ast.Node) bool {
		be, isBin := n.(*ast.BinaryExpr)
		if !isBin || be.Op != token.EQL {
			return true
		}
		if ix, isIx := be.X.(*ast.IndexExpr); isIx && exprStr(ix.X) == "clientHello.SupportedProtos" {
			if s, good := t.strLit(be.Y, "ALPN protocol compared in GetCertificateWithContext"); good {
				found, ok = s, true
			}
		}
		return true
	})
	if !ok {
		t.errf("Config.GetCertificateWithContext: no comparison of clientHello.SupportedProtos[i] with a protocol name")
		return
	}
	t.p("Definition acme_tls1_protocol : str := %s. (* %q: compared with SupportedProtos[0] in GetCertificateWithContext *)\n", coqStr(found), found)
}
