package main

import (
	"bytes"
	"go/ast"
	"go/printer"
	"go/token"
	"strings"
)

// C05: facts about the source text that the maintenance model (Maintain.Model / Maintain.XModel)
// depends on and that the correspondence can only see indirectly:
//   - RenewManagedCertificates scans under the cache's read lock and acts (reload loop, then renewal
//     loop) after releasing it; the scan skips unmanaged certificates and on-demand configs and does
//     not itself reload or queue;
//   - the job names: "renew_"+Names[0] in queueRenewalTask, "renew_"+domainName and "" (obtain) in
//     manageOne — the same prefix, so that a pass and a manage call de-duplicate against each other;
//   - renewCert / obtainCert take the name's lock before, and outside of, doWithRetry;
//   - forceRenew forces the renewal (force=true) and removes the certificate only when its status is
//     Revoked; certShouldBeForceRenewed = managed && ... && Status == Revoked.
func init() { items = append(items, c05Emit) }

func c05Src(t *tr, n ast.Node) string {
	var b bytes.Buffer
	printer.Fprint(&b, t.fset, n)
	return strings.Join(strings.Fields(b.String()), " ")
}

func c05Emit(t *tr) {
	t.c05PassShape()
	t.c05JobNames()
	t.c05LockOutsideRetry("renewCert", "renew_lock_outside_retry")
	t.c05LockOutsideRetry("obtainCert", "obtain_lock_outside_retry")
	t.c05ForceRenew()
}

func (t *tr) c05PassShape() {
	fd := t.funcs["Cache.RenewManagedCertificates"]
	if fd == nil || fd.Body == nil {
		t.errf("missing Cache.RenewManagedCertificates")
		return
	}
	pos := map[string]token.Pos{}
	var scan *ast.RangeStmt
	for _, s := range fd.Body.List {
		switch s := s.(type) {
		case *ast.ExprStmt:
			switch c05Src(t, s.X) {
			case "certCache.mu.RLock()":
				pos["rlock"] = s.Pos()
			case "certCache.mu.RUnlock()":
				pos["runlock"] = s.Pos()
			}
		case *ast.RangeStmt:
			switch c05Src(t, s.X) {
			case "certCache.cache":
				pos["scan"] = s.Pos()
				scan = s
			case "reloadQueue":
				if strings.Contains(c05Src(t, s.Body), "cfg.reloadManagedCertificate(ctx, oldCert)") {
					pos["reload"] = s.Pos()
				}
			case "renewQueue":
				if strings.Contains(c05Src(t, s.Body), "certCache.queueRenewalTask(ctx, oldCert, cfg)") {
					pos["renew"] = s.Pos()
				}
			}
		}
	}
	for _, k := range []string{"rlock", "scan", "runlock", "reload", "renew"} {
		if pos[k] == token.NoPos {
			t.errf("Cache.RenewManagedCertificates: statement %q not found at the top level of the body", k)
			return
		}
	}
	under := pos["rlock"] < pos["scan"] && pos["scan"] < pos["runlock"]
	outside := pos["runlock"] < pos["reload"] && pos["reload"] < pos["renew"]
	body := c05Src(t, scan.Body)
	skips := strings.Contains(body, "if !cert.managed { continue }") && strings.Contains(body, "if cfg.OnDemand != nil { continue }")
	pure := !strings.Contains(body, "reloadManagedCertificate") && !strings.Contains(body, "queueRenewalTask") &&
		!strings.Contains(body, "removeCertificate") && !strings.Contains(body, "Submit(")
	// the decision: due -> (stored copy not due and no error) -> reload queue, else renewal queue
	decides := strings.Contains(body, "if cert.NeedsRenewal(cfg) {") &&
		strings.Contains(body, "storedCertNeedsRenew, err := cfg.managedCertInStorageNeedsRenewal(ctx, cert)") &&
		strings.Contains(body, "} else if !storedCertNeedsRenew {") &&
		strings.Contains(body, "reloadQueue = append(reloadQueue, cert) continue }") &&
		strings.Contains(body, "renewQueue.insert(cert)")
	t.p("(* Cache.RenewManagedCertificates: RLock < scan loop < RUnlock: %v; RUnlock < reload loop < renewal loop: %v; the scan skips unmanaged / on-demand: %v, only queues: %v, decision shape: %v *)\n",
		under, outside, skips, pure, decides)
	t.p("Definition pass_scans_under_read_lock : bool := %v.\n", under)
	t.p("Definition pass_acts_outside_lock_reload_then_renew : bool := %v.\n", outside)
	t.p("Definition pass_scan_skips_unmanaged_and_on_demand : bool := %v.\n", skips)
	t.p("Definition pass_scan_only_queues : bool := %v.\n", pure)
	t.p("Definition pass_scan_decision_shape : bool := %v.\n", decides)
}

// c05SubmitNames lists the second argument of every jm.Submit call in a function.
func (t *tr) c05SubmitNames(fn string) ([]ast.Expr, bool) {
	fd := t.funcs[fn]
	if fd == nil || fd.Body == nil {
		t.errf("missing %s", fn)
		return nil, false
	}
	var out []ast.Expr
	ast.Inspect(fd.Body, func(n ast.Node) bool {
		if c, ok := n.(*ast.CallExpr); ok && c05Src(t, c.Fun) == "jm.Submit" && len(c.Args) == 3 {
			out = append(out, c.Args[1])
		}
		return true
	})
	return out, true
}

func (t *tr) c05JobNames() {
	q, ok1 := t.c05SubmitNames("Cache.queueRenewalTask")
	m, ok2 := t.c05SubmitNames("Config.manageOne")
	if !ok1 || !ok2 {
		return
	}
	if len(q) != 1 {
		t.errf("Cache.queueRenewalTask: expected exactly one jm.Submit call, found %d", len(q))
		return
	}
	if len(m) != 2 {
		t.errf("Config.manageOne: expected exactly two jm.Submit calls, found %d", len(m))
		return
	}
	prefixOf := func(e ast.Expr, operand string) (string, bool) {
		be, ok := e.(*ast.BinaryExpr)
		if !ok || be.Op != token.ADD || c05Src(t, be.Y) != operand {
			return "", false
		}
		return t.strLit(be.X, "job name prefix")
	}
	pq, okq := prefixOf(q[0], "renewName")
	if !okq {
		t.errf("Cache.queueRenewalTask: job name is not `<literal> + renewName` (%s)", c05Src(t, q[0]))
		return
	}
	fdq := t.funcs["Cache.queueRenewalTask"]
	renewNameIsFirst := strings.Contains(c05Src(t, fdq.Body), "renewName := oldCert.Names[0]") &&
		strings.Contains(c05Src(t, fdq.Body), "cfg.RenewCertAsync(ctx, renewName, false)")
	var pm string
	obtainUnnamed, renewNamed := false, false
	for _, e := range m {
		if bl, isLit := e.(*ast.BasicLit); isLit {
			if s, ok := t.strLit(bl, "job name"); ok && s == "" {
				obtainUnnamed = true
			}
			continue
		}
		if p, ok := prefixOf(e, "domainName"); ok {
			pm, renewNamed = p, true
		}
	}
	if !renewNamed {
		t.errf("Config.manageOne: no jm.Submit with name `<literal> + domainName`")
		return
	}
	t.p("(* job names: queueRenewalTask %q+Names[0] (renewName := oldCert.Names[0]: %v); manageOne %q+domainName, obtain job unnamed: %v *)\n",
		pq, renewNameIsFirst, pm, obtainUnnamed)
	t.p("Definition renew_job_prefix : str := %s.\n", coqStr(pq))
	t.p("Definition renew_job_named_after_first_name : bool := %v.\n", renewNameIsFirst)
	t.p("Definition manage_renew_job_same_name : bool := %v.\n", pm == pq)
	t.p("Definition manage_obtain_job_unnamed : bool := %v.\n", obtainUnnamed)
}

// renewCert / obtainCert: acquireLock(...) precedes doWithRetry(...) at the top level of the body,
// the unlock is deferred, and the retried function does not take the lock itself.
func (t *tr) c05LockOutsideRetry(fn, coqName string) {
	fd := t.funcs["Config."+fn]
	if fd == nil || fd.Body == nil {
		t.errf("missing Config.%s", fn)
		return
	}
	var posLock, posRetry, posDefer token.Pos
	var fLit *ast.FuncLit
	for _, s := range fd.Body.List {
		src := c05Src(t, s)
		if posLock == token.NoPos && strings.Contains(src, "acquireLock(ctx, cfg.Storage, lockKey)") {
			if _, isDefer := s.(*ast.DeferStmt); !isDefer {
				posLock = s.Pos()
			}
		}
		if d, ok := s.(*ast.DeferStmt); ok && strings.Contains(c05Src(t, d), "releaseLock(") {
			posDefer = d.Pos()
		}
		if as, ok := s.(*ast.AssignStmt); ok && len(as.Lhs) == 1 && c05Src(t, as.Lhs[0]) == "f" && len(as.Rhs) == 1 {
			if fl, ok := as.Rhs[0].(*ast.FuncLit); ok {
				fLit = fl
			}
		}
		if strings.Contains(src, "doWithRetry(ctx, log, f)") && posRetry == token.NoPos {
			posRetry = s.Pos()
		}
	}
	if posLock == token.NoPos || posRetry == token.NoPos || fLit == nil {
		t.errf("Config.%s: acquireLock / f := func / doWithRetry(ctx, log, f) not found at the top level", fn)
		return
	}
	inner := c05Src(t, fLit.Body)
	ok := posLock < fLit.Pos() && fLit.Pos() < posRetry && posDefer != token.NoPos && posLock < posDefer && posDefer < posRetry &&
		!strings.Contains(inner, "acquireLock(") && !strings.Contains(inner, "releaseLock(")
	t.p("(* Config.%s: acquireLock, deferred releaseLock, f := func..., doWithRetry(ctx, log, f) in this order; f does not lock: %v *)\n", fn, ok)
	t.p("Definition %s : bool := %v.\n", coqName, ok)
}

func (t *tr) c05ForceRenew() {
	fd := t.funcs["Config.forceRenew"]
	sh := t.funcs["certShouldBeForceRenewed"]
	if fd == nil || fd.Body == nil || sh == nil || sh.Body == nil {
		t.errf("missing Config.forceRenew / certShouldBeForceRenewed")
		return
	}
	body := c05Src(t, fd.Body)
	forced := strings.Contains(body, "cfg.RenewCertAsync(ctx, renewName, true)") && strings.Contains(body, "renewName := cert.Names[0]")
	// every removeCertificate call sits in an if whose condition requires Status == ocsp.Revoked
	guarded, removals := true, 0
	var walk func(n ast.Node, underRevoked bool)
	walk = func(n ast.Node, underRevoked bool) {
		ast.Inspect(n, func(m ast.Node) bool {
			if m == n {
				return true
			}
			switch m := m.(type) {
			case *ast.IfStmt:
				cond := c05Src(t, m.Cond)
				walk(m.Body, underRevoked || strings.Contains(cond, "cert.ocsp.Status == ocsp.Revoked"))
				if m.Else != nil {
					walk(m.Else, underRevoked)
				}
				return false
			case *ast.CallExpr:
				if strings.HasSuffix(c05Src(t, m.Fun), "removeCertificate") {
					removals++
					if !underRevoked {
						guarded = false
					}
				}
			}
			return true
		})
	}
	walk(fd.Body, false)
	reloads := strings.Contains(body, "cfg.reloadManagedCertificate(ctx, cert)")
	should := c05Src(t, sh.Body)
	shouldOK := strings.Contains(should, "return cert.managed &&") && strings.Contains(should, "cert.ocsp.Status == ocsp.Revoked")
	t.p("(* Config.forceRenew: RenewCertAsync(ctx, Names[0], force=true): %v; %d removeCertificate calls, all under Status == Revoked: %v; reloads afterwards: %v; certShouldBeForceRenewed = managed && ... && Revoked: %v *)\n",
		forced, removals, guarded && removals > 0, reloads, shouldOK)
	t.p("Definition force_renew_forces_first_name : bool := %v.\n", forced)
	t.p("Definition force_renew_removes_only_revoked : bool := %v.\n", guarded && removals > 0)
	t.p("Definition force_renew_reloads : bool := %v.\n", reloads)
	t.p("Definition force_renew_for_managed_revoked : bool := %v.\n", shouldOK)
}
