package main

import (
	"go/ast"
	"go/token"
	"sort"
	"strings"
)

// C09 / C01: source-shape facts of the lock discipline that the Issuance model takes for granted.
//
//   - every acquireLock(ctx, S, K) call site is followed, after its error return, by
//     `defer func() { ... releaseLock(_, S, K) ... }()` in the same block (nothing in between that
//     could return or panic), and these are the only call sites of the two functions;
//   - releaseLock calls storage.Unlock with context.WithoutCancel(ctx) and deletes the entry of
//     the process-level record only when Unlock returned nil; acquireLock records after Lock
//     returned nil;
//   - the lock names: certIssueLockOp, the "%s_%s" format of Config.lockKey, "storage_clean",
//     "ari_", "register_acme_account";
//   - obtainCert: pre-check, then acquire, then the re-check inside the attempt closure;
//     renewCert: the "no longer needs to be renewed" return sits inside the closure, after the load.
func init() { items = append(items, emitC09) }

type c09Site struct {
	fn, storage, key string
	deferred         bool
}

// c09Sites walks all blocks of fd and reports each acquireLock call with whether the block
// continues with the deferred release of the same (storage, key).
func c09Sites(name string, fd *ast.FuncDecl) []c09Site {
	var out []c09Site
	acquireOf := func(s ast.Stmt) (*ast.CallExpr, bool) { // returns the call and whether s itself is the `if err := acquire; err != nil` form
		switch s := s.(type) {
		case *ast.AssignStmt:
			if len(s.Rhs) == 1 {
				if c, ok := s.Rhs[0].(*ast.CallExpr); ok && exprStr(c.Fun) == "acquireLock" {
					return c, false
				}
			}
		case *ast.IfStmt:
			if as, ok := s.Init.(*ast.AssignStmt); ok && len(as.Rhs) == 1 {
				if c, ok := as.Rhs[0].(*ast.CallExpr); ok && exprStr(c.Fun) == "acquireLock" {
					return c, true
				}
			}
		}
		return nil, false
	}
	isErrReturn := func(s ast.Stmt) bool {
		ifs, ok := s.(*ast.IfStmt)
		if !ok || ifs.Else != nil || len(ifs.Body.List) != 1 {
			return false
		}
		be, ok := ifs.Cond.(*ast.BinaryExpr)
		if !ok || be.Op != token.NEQ || exprStr(be.X) != "err" || exprStr(be.Y) != "nil" {
			return false
		}
		_, ok = ifs.Body.List[0].(*ast.ReturnStmt)
		return ok
	}
	releaseIn := func(s ast.Stmt) (string, string, bool) {
		d, ok := s.(*ast.DeferStmt)
		if !ok {
			return "", "", false
		}
		fl, ok := d.Call.Fun.(*ast.FuncLit)
		if !ok {
			if exprStr(d.Call.Fun) == "releaseLock" && len(d.Call.Args) == 3 {
				return exprStr(d.Call.Args[1]), exprStr(d.Call.Args[2]), true
			}
			return "", "", false
		}
		var st, k string
		n := 0
		ast.Inspect(fl.Body, func(x ast.Node) bool {
			if c, ok := x.(*ast.CallExpr); ok && exprStr(c.Fun) == "releaseLock" && len(c.Args) == 3 {
				st, k = exprStr(c.Args[1]), exprStr(c.Args[2])
				n++
			}
			return true
		})
		// the release must be reached unconditionally: it is the first statement of the closure or
		// preceded only by expression statements (logging)
		uncond := false
		for _, bs := range fl.Body.List {
			if _, ok := bs.(*ast.ExprStmt); ok {
				continue
			}
			has := false
			switch b := bs.(type) {
			case *ast.IfStmt:
				if b.Init != nil {
					ast.Inspect(b.Init, func(x ast.Node) bool {
						if c, ok := x.(*ast.CallExpr); ok && exprStr(c.Fun) == "releaseLock" {
							has = true
						}
						return true
					})
				}
			case *ast.AssignStmt:
				ast.Inspect(b, func(x ast.Node) bool {
					if c, ok := x.(*ast.CallExpr); ok && exprStr(c.Fun) == "releaseLock" {
						has = true
					}
					return true
				})
			}
			uncond = has
			break
		}
		return st, k, n == 1 && uncond
	}
	ast.Inspect(fd.Body, func(n ast.Node) bool {
		blk, ok := n.(*ast.BlockStmt)
		if !ok {
			return true
		}
		for i, s := range blk.List {
			c, ifForm := acquireOf(s)
			if c == nil || len(c.Args) != 3 {
				continue
			}
			site := c09Site{fn: name, storage: exprStr(c.Args[1]), key: exprStr(c.Args[2])}
			j := i + 1
			if ifForm {
				ifs := s.(*ast.IfStmt)
				if len(ifs.Body.List) != 1 {
					j = -1
				} else if _, ok := ifs.Body.List[0].(*ast.ReturnStmt); !ok {
					j = -1
				}
			} else if j < len(blk.List) && isErrReturn(blk.List[j]) {
				j++
			} else {
				j = -1
			}
			if j >= 0 && j < len(blk.List) {
				if st, k, ok := releaseIn(blk.List[j]); ok && st == site.storage && k == site.key {
					site.deferred = true
				}
			}
			out = append(out, site)
		}
		return true
	})
	return out
}

func c09CountCalls(fd *ast.FuncDecl, fn string) int {
	n := 0
	ast.Inspect(fd.Body, func(x ast.Node) bool {
		if c, ok := x.(*ast.CallExpr); ok && exprStr(c.Fun) == fn {
			n++
		}
		return true
	})
	return n
}

func emitC09(t *tr) {
	// 1. call sites
	var names []string
	for name, fd := range t.funcs {
		if fd.Body == nil || name == "acquireLock" || name == "releaseLock" {
			continue
		}
		if c09CountCalls(fd, "acquireLock")+c09CountCalls(fd, "releaseLock") > 0 {
			names = append(names, name)
		}
	}
	sort.Strings(names)
	allOK := true
	var descr []string
	for _, name := range names {
		fd := t.funcs[name]
		sites := c09Sites(name, fd)
		na, nr := c09CountCalls(fd, "acquireLock"), c09CountCalls(fd, "releaseLock")
		ok := len(sites) == na && na == nr && na > 0
		for _, s := range sites {
			ok = ok && s.deferred
		}
		allOK = allOK && ok
		descr = append(descr, name+":"+map[bool]string{true: "ok", false: "BAD"}[ok])
	}
	want := []string{"ACMEIssuer.deleteAccountLocallyIfCurrent", "ACMEIssuer.newACMEClientWithAccount", "CleanStorage", "Config.obtainCert", "Config.renewCert", "Config.updateARI"}
	if strings.Join(names, ",") != strings.Join(want, ",") {
		t.errf("lock call sites: expected exactly %v, found %v", want, names)
		return
	}
	t.p("(* C09: functions calling acquireLock/releaseLock and whether each acquire is followed (after its error return) by the deferred release of the same storage and key: %s *)\n", strings.Join(descr, " "))
	t.p("Definition c09_lock_site_count : nat := %d%%nat.\n", len(names))
	t.p("Definition c09_every_acquire_has_deferred_release : bool := %v.\n", allOK)

	// 2. releaseLock / acquireLock
	rel, acq := t.funcs["releaseLock"], t.funcs["acquireLock"]
	if rel == nil || acq == nil || rel.Body == nil || acq.Body == nil {
		t.errf("missing acquireLock / releaseLock")
		return
	}
	withoutCancel, relGuarded := false, false
	if len(rel.Body.List) == 3 {
		if as, ok := rel.Body.List[0].(*ast.AssignStmt); ok && len(as.Rhs) == 1 {
			if c, ok := as.Rhs[0].(*ast.CallExpr); ok && exprStr(c.Fun) == "storage.Unlock" && len(c.Args) == 2 {
				if w, ok := c.Args[0].(*ast.CallExpr); ok && exprStr(w.Fun) == "context.WithoutCancel" && len(w.Args) == 1 && exprStr(w.Args[0]) == "ctx" {
					withoutCancel = exprStr(c.Args[1]) == "lockKey"
				}
			}
		}
		relGuarded = c09GuardedMapOp(rel.Body.List[1], "delete") && c09ReturnsErr(rel.Body.List[2])
	}
	acqGuarded := false
	if len(acq.Body.List) == 3 {
		if as, ok := acq.Body.List[0].(*ast.AssignStmt); ok && len(as.Rhs) == 1 {
			if c, ok := as.Rhs[0].(*ast.CallExpr); ok && exprStr(c.Fun) == "storage.Lock" && len(c.Args) == 2 && exprStr(c.Args[0]) == "ctx" && exprStr(c.Args[1]) == "lockKey" {
				acqGuarded = c09GuardedMapOp(acq.Body.List[1], "insert") && c09ReturnsErr(acq.Body.List[2])
			}
		}
	}
	t.p("Definition c09_release_uses_context_without_cancel : bool := %v. (* releaseLock: storage.Unlock(context.WithoutCancel(ctx), lockKey) *)\n", withoutCancel)
	t.p("Definition c09_record_deleted_iff_unlock_ok : bool := %v. (* releaseLock: if err == nil { delete(locks, lockKey) } *)\n", relGuarded)
	t.p("Definition c09_record_inserted_iff_lock_ok : bool := %v. (* acquireLock: storage.Lock(ctx, lockKey); if err == nil { locks[lockKey] = storage } *)\n", acqGuarded)

	// 3. lock names
	t.emitStr("c01_cert_issue_lock_op", "certIssueLockOp")
	if fd := t.funcs["Config.lockKey"]; fd != nil && fd.Body != nil && len(fd.Body.List) == 1 {
		okf := false
		if r, ok := fd.Body.List[0].(*ast.ReturnStmt); ok && len(r.Results) == 1 {
			if c, ok := r.Results[0].(*ast.CallExpr); ok && exprStr(c.Fun) == "fmt.Sprintf" && len(c.Args) == 3 {
				if f, ok := t.strLit(c.Args[0], "lockKey format"); ok {
					okf = f == "%s_%s" && exprStr(c.Args[1]) == "op" && exprStr(c.Args[2]) == "domainName"
				}
			}
		}
		t.p("Definition c01_lock_key_is_op_underscore_name : bool := %v. (* Config.lockKey: fmt.Sprintf(\"%%s_%%s\", op, domainName) *)\n", okf)
	} else {
		t.errf("Config.lockKey: expected a single return statement")
	}
	c09LocalStr := func(fn, varName, coqName string, prefixOnly bool) {
		fd := t.funcs[fn]
		if fd == nil || fd.Body == nil {
			t.errf("missing %s", fn)
			return
		}
		found := false
		ast.Inspect(fd.Body, func(x ast.Node) bool {
			var lhs, rhs ast.Expr
			switch s := x.(type) {
			case *ast.AssignStmt:
				if len(s.Lhs) == 1 && len(s.Rhs) == 1 {
					lhs, rhs = s.Lhs[0], s.Rhs[0]
				}
			case *ast.ValueSpec:
				if len(s.Names) == 1 && len(s.Values) == 1 {
					lhs, rhs = s.Names[0], s.Values[0]
				}
			}
			if lhs == nil || exprStr(lhs) != varName || found {
				return true
			}
			if prefixOnly {
				if be, ok := rhs.(*ast.BinaryExpr); ok && be.Op == token.ADD {
					rhs = be.X
				}
			}
			if bl, ok := rhs.(*ast.BasicLit); ok && bl.Kind == token.STRING {
				if s, ok := t.strLit(bl, fn+" "+varName); ok {
					t.p("Definition %s : str := %s. (* %s: %s = %q%s *)\n", coqName, coqStr(s), fn, varName, s, map[bool]string{true: " + ...", false: ""}[prefixOnly])
					found = true
				}
			}
			return true
		})
		if !found {
			t.errf("%s: no string literal assigned to %s", fn, varName)
		}
	}
	c09LocalStr("CleanStorage", "lockName", "c09_clean_lock_name", false)
	c09LocalStr("Config.updateARI", "lockName", "c09_ari_lock_prefix", true)
	c09LocalStr("accountRegLockKey", "key", "c09_account_lock_prefix", false)

	// 4. order inside obtainCert / renewCert
	t.c01EmitOrder()
}

func c09ReturnsErr(s ast.Stmt) bool {
	r, ok := s.(*ast.ReturnStmt)
	return ok && len(r.Results) == 1 && exprStr(r.Results[0]) == "err"
}

// c09GuardedMapOp: `if err == nil { locksMu.Lock(); <op on locks[lockKey]>; locksMu.Unlock() }`
func c09GuardedMapOp(s ast.Stmt, op string) bool {
	ifs, ok := s.(*ast.IfStmt)
	if !ok || ifs.Else != nil || ifs.Init != nil || len(ifs.Body.List) != 3 {
		return false
	}
	be, ok := ifs.Cond.(*ast.BinaryExpr)
	if !ok || be.Op != token.EQL || exprStr(be.X) != "err" || exprStr(be.Y) != "nil" {
		return false
	}
	call := func(s ast.Stmt) string {
		if es, ok := s.(*ast.ExprStmt); ok {
			if c, ok := es.X.(*ast.CallExpr); ok {
				return exprStr(c.Fun)
			}
		}
		return ""
	}
	if call(ifs.Body.List[0]) != "locksMu.Lock" || call(ifs.Body.List[2]) != "locksMu.Unlock" {
		return false
	}
	switch op {
	case "delete":
		es, ok := ifs.Body.List[1].(*ast.ExprStmt)
		if !ok {
			return false
		}
		c, ok := es.X.(*ast.CallExpr)
		return ok && exprStr(c.Fun) == "delete" && len(c.Args) == 2 && exprStr(c.Args[0]) == "locks" && exprStr(c.Args[1]) == "lockKey"
	case "insert":
		as, ok := ifs.Body.List[1].(*ast.AssignStmt)
		if !ok || len(as.Lhs) != 1 || len(as.Rhs) != 1 {
			return false
		}
		ix, ok := as.Lhs[0].(*ast.IndexExpr)
		return ok && exprStr(ix.X) == "locks" && exprStr(ix.Index) == "lockKey" && exprStr(as.Rhs[0]) == "storage"
	}
	return false
}

// c01EmitOrder: positions of the calls the model's program counters follow.
func (t *tr) c01EmitOrder() {
	ob, rn := t.funcs["Config.obtainCert"], t.funcs["Config.renewCert"]
	if ob == nil || rn == nil || ob.Body == nil || rn.Body == nil {
		t.errf("missing Config.obtainCert / Config.renewCert")
		return
	}
	// source positions of the first call of each name, outside and inside the attempt closure `f`
	type posm map[string]token.Pos
	scan := func(fd *ast.FuncDecl) (outer, inner posm, closure *ast.FuncLit) {
		outer, inner = posm{}, posm{}
		for _, s := range fd.Body.List {
			if as, ok := s.(*ast.AssignStmt); ok && len(as.Lhs) == 1 && exprStr(as.Lhs[0]) == "f" && len(as.Rhs) == 1 {
				if fl, ok := as.Rhs[0].(*ast.FuncLit); ok {
					closure = fl
				}
			}
		}
		ast.Inspect(fd.Body, func(x ast.Node) bool {
			if c, ok := x.(*ast.CallExpr); ok {
				n := exprStr(c.Fun)
				m := outer
				if closure != nil && c.Pos() >= closure.Pos() && c.End() <= closure.End() {
					m = inner
				}
				if _, seen := m[n]; !seen {
					m[n] = c.Pos()
				}
			}
			return true
		})
		return
	}
	oo, oi, oc := scan(ob)
	ro, ri, rc := scan(rn)
	if oc == nil || rc == nil {
		t.errf("obtainCert / renewCert: attempt closure `f := func(ctx) error {...}` not found")
		return
	}
	has := func(m posm, ks ...string) bool {
		for _, k := range ks {
			if _, ok := m[k]; !ok {
				return false
			}
		}
		return true
	}
	obOK := has(oo, "cfg.storageHasCertResourcesAnyIssuer", "cfg.checkStorage", "acquireLock") &&
		has(oi, "cfg.storageHasCertResourcesAnyIssuer", "cfg.emit", "cfg.saveCertResource") &&
		oo["cfg.storageHasCertResourcesAnyIssuer"] < oo["cfg.checkStorage"] && oo["cfg.checkStorage"] < oo["acquireLock"] &&
		oo["acquireLock"] < oc.Pos() &&
		oi["cfg.storageHasCertResourcesAnyIssuer"] < oi["cfg.emit"] && oi["cfg.emit"] < oi["cfg.saveCertResource"]
	if !has(oo, "cfg.storageHasCertResourcesAnyIssuer") && !has(oi, "cfg.storageHasCertResourcesAnyIssuer") {
		t.errf("obtainCert: no call of cfg.storageHasCertResourcesAnyIssuer found (calls outside the closure: %v)", keysOf(oo))
		return
	}
	rnOK := has(ro, "cfg.checkStorage", "acquireLock") &&
		has(ri, "cfg.loadCertResourceAnyIssuer", "cfg.managedCertNeedsRenewal", "cfg.emit", "cfg.saveCertResource") &&
		ro["cfg.checkStorage"] < ro["acquireLock"] && ro["acquireLock"] < rc.Pos() &&
		ri["cfg.loadCertResourceAnyIssuer"] < ri["cfg.managedCertNeedsRenewal"] &&
		ri["cfg.managedCertNeedsRenewal"] < ri["cfg.emit"] && ri["cfg.emit"] < ri["cfg.saveCertResource"]
	t.p("Definition c01_obtain_precheck_lock_recheck_order : bool := %v. (* obtainCert: storageHasCertResourcesAnyIssuer, checkStorage, acquireLock; in the closure: storageHasCertResourcesAnyIssuer, emit, saveCertResource *)\n", obOK)
	t.p("Definition c01_renew_lock_load_decide_order : bool := %v. (* renewCert: checkStorage, acquireLock; in the closure: loadCertResourceAnyIssuer, managedCertNeedsRenewal, emit, saveCertResource *)\n", rnOK)
}

func keysOf(m map[string]token.Pos) []string {
	var ks []string
	for k := range m {
		ks = append(ks, k)
	}
	sort.Strings(ks)
	return ks
}
