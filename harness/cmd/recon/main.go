package main

import (
	"context"
	"fmt"

	"github.com/caddyserver/certmagic"
	"verifharness/pkg/doubles"
)

func main() {
	for _, name := range []string{"a.example", "*.a.example", "bücher.example", "xn--bcher-kva.example", "192.0.2.1", "2001:db8::1", "2001:db8:0:0:0:0:0:1", "ExAmple.COM"} {
		b := doubles.NewMemBackend()
		ca := doubles.NewCA("harness CA")
		iss := &doubles.IssuerDouble{Key: "dbl", CA: ca, Log: b.Log, Inst: "i1"}
		cfg, cache := doubles.NewConfig(b.Handle("i1"), certmagic.Config{DisableARI: true}, certmagic.CacheOptions{}, iss)
		err := cfg.ManageSync(context.Background(), []string{name})
		fmt.Printf("== %q ManageSync err=%v issues=%d\n", name, err, len(iss.CallsSnapshot()))
		for _, o := range b.Log.Snapshot() {
			fmt.Printf("   %d %s %s err=%q\n", o.Seq, o.Kind, o.Key, o.Err)
		}
		fmt.Println("   keys:", b.Keys())
		cache.Stop()
		cfg2, cache2 := doubles.NewConfig(b.Handle("i2"), certmagic.Config{DisableARI: true}, certmagic.CacheOptions{}, iss)
		err = cfg2.ManageSync(context.Background(), []string{name})
		fmt.Printf("   second ManageSync err=%v issues=%d\n", err, len(iss.CallsSnapshot()))
		err = cfg2.ObtainCertSync(context.Background(), name)
		fmt.Printf("   direct ObtainCertSync err=%v issues=%d\n", err, len(iss.CallsSnapshot()))
		cache2.Stop()
	}
}
