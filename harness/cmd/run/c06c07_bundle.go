//go:build !skip_c06c07_bundle

package main

// Shared driver of the bundle checks (C06, C07): runs histories of obtain / renew / manage /
// revoke on the REAL certmagic code over the in-memory storage double, with issuer doubles whose
// answers (up/down, NotBefore, validity class) are part of the case, and turns everything the
// real code did into the integers of the Coq model: keys are numbered by generation order
// (public-key digests), certificates by issuance order (serial numbers), directories and names
// by tables computed with the real key builders. Equality of key numbers on this side is a
// comparison of real public keys parsed from the stored PEM.

import (
	"context"
	"crypto"
	"crypto/x509"
	"encoding/json"
	"encoding/pem"
	"errors"
	"fmt"
	"io/fs"
	"path"
	"sort"
	"strconv"
	"strings"
	"time"

	"github.com/caddyserver/certmagic"
	"golang.org/x/crypto/ocsp"
	"golang.org/x/net/idna"

	"verifharness/pkg/doubles"
	"verifharness/pkg/emit"
)

type c06Outcome struct {
	Up  bool  `json:"up"`
	NB  int64 `json:"nb"`  // NotBefore = t0 + NB hours
	Val int   `json:"val"` // 0 not due, 1 due (not expired), 2 expired
}
type c06Oracle struct {
	Out  []c06Outcome `json:"out"`
	Perm []int        `json:"perm,omitempty"`
}
type c06Hop struct {
	Op    string    `json:"op"` // obtain renew manage revenv revapi
	Force bool      `json:"force,omitempty"`
	I     int       `json:"i,omitempty"`
	KC    bool      `json:"kc,omitempty"`
	Orc   c06Oracle `json:"orc"`
	// Fails (C06 only): indices of this step's Storage calls that return an injected error
	Fails []int `json:"fails,omitempty"`
	// More (C06 only): non-empty = the retrying entry point (ObtainCertAsync / RenewCertAsync); the issuers'
	// answers of the 2nd, 3rd ... attempt (Orc = first attempt). A failure in the last listed attempt is final.
	More []c06Oracle `json:"more,omitempty"`
	// Cancel (C06 only): the retrying entry point is called with a context that is cancelled: "pre" = before the
	// call, "backoff" = by the first failing issuer answer. Ran = attempts seen to run (observed; the select
	// between the zero back-off timer and ctx.Done() is a race).
	Cancel string `json:"cancel,omitempty"`
	Ran    int    `json:"ran,omitempty"`
}

// c06AttemptsRun: how many attempts of a retrying call ran = issuer calls on the issuer that was asked first.
func c06AttemptsRun(o c06Obs) int {
	first, n := int64(-1), 0
	for _, ev := range o.logEnc {
		if ev[0] != 1 {
			continue
		}
		if first < 0 {
			first = ev[1]
		}
		if ev[1] == first {
			n++
		}
	}
	return n
}

// c06CallCtx: the context of one operation; for cancel steps it is cancelled up front or by the issuer double.
func (w *c06World) c06CallCtx(ctx context.Context, h c06Hop) (context.Context, context.CancelFunc) {
	c2, cancel := context.WithCancel(ctx)
	w.cancelOnFail = nil
	switch h.Cancel {
	case "pre":
		cancel()
	case "backoff":
		w.cancelOnFail = cancel
	}
	return c2, cancel
}

type c06Cfg struct {
	N       int    `json:"n"`
	Reuse   bool   `json:"reuse"`
	Rnd     bool   `json:"rnd"`
	KeyType string `json:"keytype"`
}
type c06Subject struct {
	Kind      string `json:"kind"`
	Spelling  string `json:"spelling"`
	Canonical string `json:"canonical"` // hand-written expectation: IDN-normalized, lower case, canonical IP
}
type c06Plan struct {
	Fails []int `json:"fails,omitempty"`
	From  int   `json:"from"`  // -1: none
	Crash int   `json:"crash"` // -1: none
}

func (p *c06Plan) fails(n int) bool {
	if p.From >= 0 && n >= p.From {
		return true
	}
	for _, f := range p.Fails {
		if f == n {
			return true
		}
	}
	return false
}

type c06Seen struct {
	Ser   int   `json:"ser"`
	Key   int   `json:"key"`
	Names []int `json:"names"`
}
type c06Entry struct {
	I, D, K int
	Val     []int64 // encoded fval
	Text    string
}
type c06Obs struct {
	Res      int      `json:"res"`
	Cached   *c06Seen `json:"cached,omitempty"`
	ProbeRes int      `json:"probe_res"`
	Probe    *c06Seen `json:"probe,omitempty"`
	Log      []string `json:"log"`
	St       []string `json:"storage"`
	Err      string   `json:"err,omitempty"`
	logEnc   [][]int64
	stEnc    []c06Entry
}

type c06Crash struct{}

var c06ErrInjected = errors.New("injected fault (harness)")

type c06World struct {
	b    *doubles.MemBackend
	cfg  c06Cfg
	subj c06Subject
	cas  []*doubles.CA
	iss  []*c06Issuer
	t0   time.Time
	now  time.Time

	keyIDs    map[string]int
	nextKey   int
	serIDs    map[string]int
	nextSer   int
	dirIDs    map[string]int
	nameIDs   map[string]int
	stapleSer map[string]int
	// the chain each issuance returned (digest of the PEM bytes, number of certificates): what is stored
	// and what is loaded back must be these very bytes
	chainDigest  map[int]string
	chainBlocks  map[int]int
	orc          *c06Oracle
	more         []c06Oracle
	cancelOnFail context.CancelFunc
	inst         int
	curInst      string

	plan         *c06Plan
	cnt          int
	crashPending bool
	crashed      bool
	dropped      map[int]bool

	// sink receives the non-Storage events (issuer calls, key generations); nil = the memory
	// double's log. onGenKey / onIssued: extra notifications used by the process-death driver.
	// rawGet / rawPut / snapFn: raw access to the storage contents for the harness itself (planting an
	// OCSP staple, decoding the stored files); nil = the memory double
	rawGet   func(key string) ([]byte, bool)
	rawPut   func(key string, val []byte)
	snapFn   func(o *c06Obs)
	sink     func(kind, key string)
	onGenKey func(id int, digest string)
	onIssued func(ser int, serial, stapleKey, chainDigest string, blocks int)

	sPre, sLoad, sSave, sID int
	revoked                 map[int]bool // model serial -> revoked for key compromise?
	oracleNotes             []string
}

var c06IssuerKeys = []string{"ca-a", "ca-b", "ca-c", "ca-d"}

type c06Issuer struct {
	w   *c06World
	idx int
	key string
	ca  *doubles.CA
}

func (i *c06Issuer) IssuerKey() string { return i.key }

// note records a non-Storage event of the current instance (this is also where a pending crash of
// the memory double fires).
func (w *c06World) note(kind, key string) {
	if w.sink != nil {
		w.sink(kind, key)
		return
	}
	w.b.Log.Begin(doubles.Op{Inst: w.curInst, Kind: kind, Key: key})
}

func c06CSRNames(csr *x509.CertificateRequest) []string {
	var names []string
	names = append(names, csr.DNSNames...)
	for _, ip := range csr.IPAddresses {
		names = append(names, ip.String())
	}
	return names
}

func c06PubDigest(pub crypto.PublicKey) string {
	der, err := x509.MarshalPKIXPublicKey(pub)
	if err != nil {
		return "unmarshalable"
	}
	return doubles.Digest(der) + fmt.Sprint(len(der))
}

func (w *c06World) keyID(pub crypto.PublicKey) int {
	if id, ok := w.keyIDs[c06PubDigest(pub)]; ok {
		return id
	}
	return 999999
}

func (i *c06Issuer) Issue(ctx context.Context, csr *x509.CertificateRequest) (*certmagic.IssuedCertificate, error) {
	w := i.w
	kid := w.keyID(csr.PublicKey)
	out := c06Outcome{}
	// the attempt number of a retrying call selects the answers; only the last listed attempt fails for good
	attempt := 0
	if p, ok := ctx.Value(certmagic.AttemptsCtxKey).(*int); ok && p != nil {
		attempt = *p
	}
	orc, final := w.orc, true
	if attempt > 0 && len(w.more) > 0 {
		orc = &w.more[min(attempt, len(w.more))-1]
	}
	if attempt < len(w.more) {
		final = false
	}
	if orc != nil && i.idx < len(orc.Out) {
		out = orc.Out[i.idx]
	}
	if !out.Up {
		w.note("IssueFail", fmt.Sprintf("%d:%d", i.idx, kid))
		if !final {
			if w.cancelOnFail != nil {
				w.cancelOnFail() // the context is cancelled while doWithRetry is about to back off
			}
			return nil, errors.New("issuer down (harness), try again")
		}
		return nil, certmagic.ErrNoRetry{Err: errors.New("issuer down (harness)")}
	}
	w.note("IssueOK", fmt.Sprintf("%d:%d", i.idx, kid))
	ser := w.nextSer
	w.nextSer++
	names := c06CSRNames(csr)
	nb := w.t0.Add(time.Duration(out.NB) * time.Hour)
	var na time.Time
	switch out.Val {
	case 0:
		na = w.now.Add(20000 * time.Hour)
	case 1:
		na = w.now.Add(48 * time.Hour)
	default:
		na = w.now.Add(-24 * time.Hour)
	}
	chain, leaf, _, err := i.ca.Leaf(doubles.LeafOpts{Names: names, NotBefore: nb, NotAfter: na, Pub: csr.PublicKey, Serial: int64(1000 + ser)})
	if err != nil {
		return nil, certmagic.ErrNoRetry{Err: err}
	}
	w.serIDs[leaf.SerialNumber.String()] = ser
	w.chainDigest[ser] = doubles.Digest(chain)
	w.chainBlocks[ser] = strings.Count(string(chain), "-----BEGIN CERTIFICATE-----")
	if len(names) > 0 {
		sk := certmagic.StorageKeys.OCSPStaple(&certmagic.Certificate{Names: []string{strings.ToLower(names[0])}}, chain)
		w.stapleSer[sk] = ser
		if w.onIssued != nil {
			w.onIssued(ser, leaf.SerialNumber.String(), sk, w.chainDigest[ser], w.chainBlocks[ser])
		}
	}
	return &certmagic.IssuedCertificate{Certificate: chain, Metadata: map[string]any{"harness_issuer": i.key, "n": ser}}, nil
}

func (i *c06Issuer) Revoke(ctx context.Context, cert certmagic.CertificateResource, reason int) error {
	return nil
}

type c06KeyGen struct {
	w   *c06World
	typ certmagic.KeyType
}

func (g *c06KeyGen) GenerateKey() (crypto.PrivateKey, error) {
	id := g.w.nextKey
	// the log call is where a pending crash fires: nothing is generated after the process died
	g.w.note("GenKey", strconv.Itoa(id))
	k, err := certmagic.StandardKeyGenerator{KeyType: g.typ}.GenerateKey()
	if err != nil {
		return nil, err
	}
	g.w.nextKey++
	g.w.keyIDs[c06PubDigest(k.(crypto.Signer).Public())] = id
	if g.w.onGenKey != nil {
		g.w.onGenKey(id, c06PubDigest(k.(crypto.Signer).Public()))
	}
	return k, nil
}

func c06NewWorld(cfg c06Cfg, subj c06Subject) *c06World {
	now := time.Now().Truncate(time.Second)
	w := &c06World{b: doubles.NewMemBackend(), cfg: cfg, subj: subj, now: now, t0: now.Add(-3000 * time.Hour),
		keyIDs: map[string]int{}, serIDs: map[string]int{}, dirIDs: map[string]int{}, nameIDs: map[string]int{},
		stapleSer: map[string]int{}, dropped: map[int]bool{}, revoked: map[int]bool{},
		chainDigest: map[int]string{}, chainBlocks: map[int]int{}}
	for i := 0; i < cfg.N; i++ {
		ca := doubles.NewCA("harness CA " + c06IssuerKeys[i])
		w.cas = append(w.cas, ca)
		w.iss = append(w.iss, &c06Issuer{w: w, idx: i, key: c06IssuerKeys[i], ca: ca})
	}
	// the subject as the code sees it, computed with the real key builders
	dirOf := func(name string) string {
		return path.Base(certmagic.StorageKeys.CertsSitePrefix("x", name))
	}
	ascii, err := idna.ToASCII(subj.Spelling)
	if err != nil {
		ascii = subj.Spelling
	}
	w.sPre = w.dirID(dirOf(subj.Spelling))
	w.sLoad = w.dirID(dirOf(ascii))
	w.sSave = w.dirID(dirOf(subj.Canonical))
	w.sID = w.nameID(subj.Canonical)
	// assumption of the model ([canon]): for the canonical name the three directories coincide
	ca2, _ := idna.ToASCII(subj.Canonical)
	if dirOf(ca2) != dirOf(subj.Canonical) {
		w.oracleNotes = append(w.oracleNotes, "canonical name "+subj.Canonical+" has different pre/load directories")
	}
	w.b.Log.Hook = w.hook
	return w
}

func (w *c06World) dirID(d string) int {
	if id, ok := w.dirIDs[d]; ok {
		return id
	}
	id := len(w.dirIDs)
	w.dirIDs[d] = id
	return id
}
func (w *c06World) nameID(n string) int {
	if id, ok := w.nameIDs[n]; ok {
		return id
	}
	id := len(w.nameIDs)
	w.nameIDs[n] = id
	return id
}

func c06CountedKind(k string) bool {
	switch k {
	case "Store", "Load", "Delete", "Exists", "Lock", "Unlock", "List", "Stat":
		return true
	}
	return false
}

// hook: fault plan of the current (faulted) instance. Operation indices count Storage calls only.
func (w *c06World) hook(op *doubles.Op) error {
	if w.plan == nil || op.Inst != w.curInst {
		return nil
	}
	if w.crashed || w.crashPending {
		// the process is dead: this call never happened
		w.crashed = true
		w.dropped[op.Seq] = true
		panic(c06Crash{})
	}
	if !c06CountedKind(op.Kind) {
		return nil
	}
	n := w.cnt
	w.cnt++
	if w.plan.Crash == n {
		w.crashPending = true
	}
	if w.plan.fails(n) {
		return c06ErrInjected
	}
	return nil
}

func (w *c06World) newConfig(inst string, onDemand bool) (*certmagic.Config, *certmagic.Cache) {
	return w.newConfigOn(w.b.Handle(inst), onDemand)
}

func (w *c06World) newConfigOn(st certmagic.Storage, onDemand bool) (*certmagic.Config, *certmagic.Cache) {
	tmpl := certmagic.Config{DisableARI: true, ReusePrivateKeys: w.cfg.Reuse,
		KeySource: &c06KeyGen{w: w, typ: certmagic.KeyType(w.cfg.KeyType)}}
	if w.cfg.Rnd {
		tmpl.IssuerPolicy = certmagic.UseFirstRandomIssuer
	}
	if onDemand {
		tmpl.OnDemand = &certmagic.OnDemandConfig{DecisionFunc: func(ctx context.Context, name string) error { return nil }}
	}
	issuers := make([]certmagic.Issuer, len(w.iss))
	for i, is := range w.iss {
		issuers[i] = is
	}
	return doubles.NewConfig(st, tmpl, certmagic.CacheOptions{}, issuers...)
}

func c06Classify(err error, dead bool) int {
	if dead {
		return 6
	}
	if err == nil {
		return 0
	}
	s := err.Error()
	switch {
	case strings.Contains(s, "injected fault"):
		return 2
	case strings.Contains(s, "private key does not match public key"):
		return 3
	case strings.Contains(s, "issuer down"):
		return 4
	case errors.Is(err, fs.ErrNotExist) || strings.Contains(s, "file does not exist") || strings.Contains(s, "no such file or directory"):
		return 1
	}
	return 5
}

func (w *c06World) seenOf(cert certmagic.Certificate) *c06Seen {
	s := &c06Seen{Ser: 777777, Key: 999999}
	if cert.Leaf != nil {
		if id, ok := w.serIDs[cert.Leaf.SerialNumber.String()]; ok {
			s.Ser = id
			// loading back yields the same bytes: the whole chain, not just the leaf
			if n, ok := w.chainBlocks[id]; ok && len(cert.Certificate.Certificate) != n {
				s.Ser = 777777
			}
		}
	}
	if sg, ok := cert.PrivateKey.(crypto.Signer); ok {
		s.Key = w.keyID(sg.Public())
	}
	for _, n := range cert.Names {
		s.Names = append(s.Names, w.nameID(n))
	}
	return s
}

// probe: a fresh instance loads the bundle back with the requested spelling.
func (w *c06World) probe() (int, *c06Seen, string) {
	cfg, cache := w.newConfig("probe", false)
	defer cache.Stop()
	cert, err := cfg.CacheManagedCertificate(context.Background(), w.subj.Spelling)
	if err != nil {
		return c06Classify(err, false), nil, err.Error()
	}
	return 0, w.seenOf(cert), ""
}

func (w *c06World) revokeEnv(i int, kc bool) {
	if i >= len(w.iss) {
		return
	}
	key := certmagic.StorageKeys.SiteCert(w.iss[i].key, w.subj.Canonical)
	get, put := w.b.Get, w.b.Put
	if w.rawGet != nil {
		get, put = w.rawGet, w.rawPut
	}
	data, ok := get(key)
	if !ok {
		return
	}
	blk, _ := pem.Decode(data)
	if blk == nil {
		return
	}
	leaf, err := x509.ParseCertificate(blk.Bytes)
	if err != nil {
		return
	}
	reason := ocsp.Superseded
	if kc {
		reason = ocsp.KeyCompromise
	}
	ca := w.cas[i]
	resp, err := ocsp.CreateResponse(ca.Cert, ca.Cert, ocsp.Response{Status: ocsp.Revoked, SerialNumber: leaf.SerialNumber,
		ThisUpdate: w.now.Add(-time.Hour), NextUpdate: w.now.Add(40 * time.Hour), RevokedAt: w.now.Add(-2 * time.Hour),
		RevocationReason: reason}, ca.Key)
	if err != nil {
		panic(err)
	}
	name := leaf.Subject.CommonName
	sk := certmagic.StorageKeys.OCSPStaple(&certmagic.Certificate{Names: []string{strings.ToLower(name)}}, data)
	put(sk, resp)
	if id, ok := w.serIDs[leaf.SerialNumber.String()]; ok {
		w.revoked[id] = kc
	}
}

// runHop executes one high-level operation on a fresh instance. plan != nil injects faults.
func (w *c06World) runHop(h c06Hop, plan *c06Plan, doProbe bool) c06Obs {
	w.orc, w.more = &h.Orc, h.More
	inst := fmt.Sprintf("i%d", w.inst)
	w.inst++
	w.curInst = inst
	w.plan, w.cnt, w.crashPending, w.crashed = plan, 0, false, false
	start := len(w.b.Log.Snapshot())
	cfg, cache := w.newConfig(inst, false)
	defer cache.Stop()
	ctx, cancel := context.WithTimeout(context.Background(), 20*time.Second)
	defer cancel()
	var err error
	dead := false
	func() {
		defer func() {
			if r := recover(); r != nil {
				if _, ok := r.(c06Crash); ok {
					dead = true
					return
				}
				panic(r)
			}
		}()
		switch h.Op {
		case "obtain":
			if len(h.More) > 0 || h.Cancel != "" {
				c2, cancel2 := w.c06CallCtx(ctx, h)
				err = cfg.ObtainCertAsync(c2, w.subj.Spelling)
				cancel2()
			} else {
				err = cfg.ObtainCertSync(ctx, w.subj.Spelling)
			}
		case "renew":
			if len(h.More) > 0 || h.Cancel != "" {
				c2, cancel2 := w.c06CallCtx(ctx, h)
				err = cfg.RenewCertAsync(c2, w.subj.Spelling, h.Force)
				cancel2()
			} else {
				err = cfg.RenewCertSync(ctx, w.subj.Spelling, h.Force)
			}
		case "manage":
			err = cfg.ManageSync(ctx, []string{w.subj.Spelling})
		case "revenv":
			w.revokeEnv(h.I, h.KC)
		case "revapi":
			err = cfg.RevokeCert(ctx, w.subj.Spelling, 0, true)
		default:
			panic("unknown op " + h.Op)
		}
	}()
	if w.crashPending || w.crashed {
		dead = true
	}
	w.plan = nil
	o := c06Obs{Res: c06Classify(err, dead)}
	if err != nil {
		o.Err = err.Error()
	}
	if h.Op == "manage" && err == nil && !dead {
		certs := certmagic.VerifBundleCachedCertificates(cache)
		if len(certs) == 1 {
			o.Cached = w.seenOf(certs[0])
		} else {
			o.Cached = &c06Seen{Ser: 666666, Key: len(certs)}
		}
	}
	if doProbe {
		o.ProbeRes, o.Probe, _ = w.probe()
	}
	w.events(start, inst, &o)
	w.snapshot(&o)
	return o
}

// recoverLocks models the Locker's staleness rule after the holder died / failed to unlock.
func (w *c06World) breakLocks() {
	for _, l := range w.b.HeldLocks() {
		w.b.BreakLock(l)
	}
}

func (w *c06World) target(key string) ([]int64, string) {
	switch {
	case strings.HasPrefix(key, "rw_test_"):
		return []int64{2}, "test"
	case strings.HasPrefix(key, "ocsp/"):
		ser, ok := w.stapleSer[key]
		if !ok {
			ser = 555555
		}
		return []int64{3, int64(ser)}, fmt.Sprintf("ocsp(%d)", ser)
	case strings.HasPrefix(key, "issue_cert_"):
		return []int64{4}, "lock"
	case strings.HasPrefix(key, "certificates/"):
		parts := strings.Split(key, "/")
		ii := 99
		if len(parts) >= 2 {
			for i, is := range w.iss {
				if is.key == parts[1] {
					ii = i
				}
			}
		}
		if len(parts) == 3 {
			return []int64{1, int64(ii), int64(w.dirID(parts[2]))}, fmt.Sprintf("dir(%d,%s)", ii, parts[2])
		}
		if len(parts) == 4 {
			d := w.dirID(parts[2])
			k := c06FileKind(parts[2], parts[3])
			return []int64{0, int64(ii), int64(d), int64(k)}, fmt.Sprintf("file(%d,%s,%s)", ii, parts[2], []string{"key", "crt", "json", "compromised", "?"}[min(k, 4)])
		}
	}
	return []int64{9}, "unknown:" + key
}

func c06FileKind(dir, file string) int {
	switch file {
	case dir + ".key":
		return 0
	case dir + ".crt":
		return 1
	case dir + ".json":
		return 2
	case dir + ".key.compromised":
		return 3
	}
	return 7
}

func (w *c06World) events(start int, inst string, o *c06Obs) {
	ops := w.b.Log.Snapshot()
	for _, op := range ops[start:] {
		if op.Inst != inst || w.dropped[op.Seq] {
			continue
		}
		w.addEvent(o, op.Kind, op.Key, op.Err)
	}
}

// addEvent turns one logged event (Storage call with its error text, issuer call, key generation)
// into the model's encoding.
func (w *c06World) addEvent(o *c06Obs, opKind, opKey, opErr string) {
	switch opKind {
	case "LockAcquired":
		return
	case "IssueOK", "IssueFail":
		var i, k int
		fmt.Sscanf(opKey, "%d:%d", &i, &k)
		ok := int64(0)
		if opKind == "IssueOK" {
			ok = 1
		}
		o.logEnc = append(o.logEnc, []int64{1, int64(i), int64(k), ok})
		o.Log = append(o.Log, fmt.Sprintf("%s issuer=%d key=%d", opKind, i, k))
	case "GenKey":
		k, _ := strconv.Atoi(opKey)
		o.logEnc = append(o.logEnc, []int64{2, int64(k)})
		o.Log = append(o.Log, fmt.Sprintf("GenKey %d", k))
	default:
		kind := map[string]int64{"Store": 0, "Load": 1, "Delete": 2, "Exists": 3, "Lock": 4, "Unlock": 5}
		kc, ok := kind[opKind]
		if !ok {
			kc = 9
		}
		tg, txt := w.target(opKey)
		ec := int64(0)
		switch {
		case opErr == "":
		case strings.Contains(opErr, "injected fault"):
			ec = 2
		case strings.Contains(opErr, "does not exist"):
			ec = 1
		default:
			ec = 5
		}
		enc := append([]int64{0, kc}, tg...)
		enc = append(enc, ec)
		o.logEnc = append(o.logEnc, enc)
		o.Log = append(o.Log, fmt.Sprintf("%s %s err=%d", opKind, txt, ec))
	}
}

func (w *c06World) valClass(na time.Time) int {
	d := na.Sub(w.now)
	switch {
	case d > 10000*time.Hour:
		return 0
	case d > 0:
		return 1
	}
	return 2
}

// snapshot decodes the raw storage contents (certificates/ namespace) with real crypto.
func (w *c06World) snapshot(o *c06Obs) {
	if w.snapFn != nil {
		w.snapFn(o)
		return
	}
	w.snapshotFrom(o, w.b.Keys(), func(k string) []byte { v, _ := w.b.Get(k); return v })
}

func (w *c06World) snapshotFrom(o *c06Obs, keys []string, get func(string) []byte) {
	for _, key := range keys {
		if !strings.HasPrefix(key, "certificates/") {
			continue
		}
		tg, txt := w.target(key)
		data := get(key)
		e := c06Entry{I: 99, D: 99, K: 3, Val: []int64{0, 888888}, Text: txt}
		if len(tg) == 4 && tg[0] == 0 {
			e.I, e.D, e.K = int(tg[1]), int(tg[2]), int(tg[3])
			switch e.K {
			case 0, 3:
				kid := 999999
				if sg, err := certmagic.PEMDecodePrivateKey(data); err == nil {
					kid = w.keyID(sg.Public())
				}
				e.Val = []int64{0, int64(kid)}
				e.Text += fmt.Sprintf("=key%d", kid)
			case 1:
				pub, sub, nb, val, ser := 999999, 999999, int64(-1), 2, 777777
				if blk, _ := pem.Decode(data); blk != nil {
					if leaf, err := x509.ParseCertificate(blk.Bytes); err == nil {
						pub = w.keyID(leaf.PublicKey)
						var names []string
						names = append(names, leaf.DNSNames...)
						for _, ip := range leaf.IPAddresses {
							names = append(names, ip.String())
						}
						if len(names) == 1 {
							sub = w.nameID(strings.ToLower(names[0]))
						}
						dd := leaf.NotBefore.Sub(w.t0)
						if dd%time.Hour == 0 {
							nb = int64(dd / time.Hour)
						}
						val = w.valClass(leaf.NotAfter)
						if id, ok := w.serIDs[leaf.SerialNumber.String()]; ok {
							ser = id
							// the stored file must be the chain the issuer returned, byte for byte; otherwise
							// it does not count as a certificate for the subject
							if d, ok := w.chainDigest[id]; ok && d != doubles.Digest(data) {
								sub = 999999
							}
						}
					}
				}
				e.Val = []int64{1, int64(pub), int64(sub), nb, int64(val), int64(ser)}
				e.Text += fmt.Sprintf("=cert%d(pub=key%d nb=%d val=%d)", ser, pub, nb, val)
			case 2:
				var m struct {
					SANs []string `json:"sans"`
				}
				enc := []int64{2}
				if err := json.Unmarshal(data, &m); err == nil {
					enc = append(enc, int64(len(m.SANs)))
					for _, s := range m.SANs {
						enc = append(enc, int64(w.nameID(strings.ToLower(s))))
					}
				} else {
					enc = append(enc, 1, 999999)
				}
				e.Val = enc
				e.Text += fmt.Sprintf("=meta%v", m.SANs)
			default:
				e.K = 3
			}
		}
		o.stEnc = append(o.stEnc, e)
		o.St = append(o.St, e.Text)
	}
	sort.Strings(o.St)
}

// ---- wire encoders (format of Bundle/Check.v) ----

func c06EncCfg(e *emit.Enc, c c06Cfg) { e.Int(c.N).Bool(c.Reuse).Bool(c.Rnd) }
func (w *c06World) encSubject(e *emit.Enc) {
	e.Int(w.sPre).Int(w.sLoad).Int(w.sSave).Int(w.sID)
}
func c06EncOracle(e *emit.Enc, o c06Oracle) {
	e.Len(len(o.Out))
	for _, x := range o.Out {
		if !x.Up {
			e.Bool(false)
		} else {
			e.Bool(true).Z(x.NB).Int(x.Val)
		}
	}
	e.Len(len(o.Perm))
	for _, p := range o.Perm {
		e.Int(p)
	}
}
func c06EncHop(e *emit.Enc, h c06Hop) {
	switch h.Op {
	case "obtain":
		e.Int(0)
	case "renew":
		e.Int(1).Bool(h.Force)
	case "manage":
		e.Int(2)
	case "revenv":
		e.Int(3).Int(h.I).Bool(h.KC)
	default:
		e.Int(4)
	}
}
func c06EncSeen(e *emit.Enc, s *c06Seen) {
	if s == nil {
		e.Bool(false)
		return
	}
	e.Bool(true).Int(s.Ser).Int(s.Key).Len(len(s.Names))
	for _, n := range s.Names {
		e.Int(n)
	}
}
func c06EncStorage(e *emit.Enc, st []c06Entry) {
	e.Len(len(st))
	for _, x := range st {
		e.Int(x.I).Int(x.D).Int(x.K)
		for _, v := range x.Val {
			e.Z(v)
		}
	}
}
func c06EncObs(e *emit.Enc, o c06Obs) {
	e.Int(o.Res)
	c06EncSeen(e, o.Cached)
	e.Int(o.ProbeRes)
	c06EncSeen(e, o.Probe)
	e.Len(len(o.logEnc))
	for _, ev := range o.logEnc {
		for _, v := range ev {
			e.Z(v)
		}
	}
	c06EncStorage(e, o.stEnc)
}

// c06CompletePerm fills in the order UseFirstRandomIssuer produced: the issuers that were tried, in
// the order observed, then the untried ones (their order cannot influence anything).
func c06CompletePerm(n int, o c06Obs) []int {
	var perm []int
	seen := map[int]bool{}
	for _, ev := range o.logEnc {
		if ev[0] == 1 && !seen[int(ev[1])] {
			seen[int(ev[1])] = true
			perm = append(perm, int(ev[1]))
		}
	}
	for i := 0; i < n; i++ {
		if !seen[i] {
			perm = append(perm, i)
		}
	}
	return perm
}

var c06Subjects = []c06Subject{
	{"dns", "a.example", "a.example"},
	{"wildcard", "*.w.example", "*.w.example"},
	{"idn-unicode", "bücher.example", "xn--bcher-kva.example"},
	{"idn-punycode", "xn--bcher-kva.example", "xn--bcher-kva.example"},
	{"ipv4", "192.0.2.7", "192.0.2.7"},
	{"ipv6-compressed", "2001:db8::1", "2001:db8::1"},
	{"ipv6-expanded", "2001:db8:0:0:0:0:0:1", "2001:db8::1"},
	{"mixed-case", "MiXed.Example", "mixed.example"},
}

// c06PemCodecOracle checks PEMDecodePrivateKey (PEMEncodePrivateKey k) = k on real keys of every type.
func c06PemCodecOracle(types []string) emit.OracleCheck {
	ok, det := true, ""
	for _, t := range types {
		k, err := certmagic.StandardKeyGenerator{KeyType: certmagic.KeyType(t)}.GenerateKey()
		if err != nil {
			ok, det = false, det+t+": "+err.Error()+"; "
			continue
		}
		p, err := certmagic.PEMEncodePrivateKey(k)
		if err != nil {
			ok, det = false, det+t+": "+err.Error()+"; "
			continue
		}
		k2, err := certmagic.PEMDecodePrivateKey(p)
		if err != nil || c06PubDigest(k2.Public()) != c06PubDigest(k.(crypto.Signer).Public()) {
			ok, det = false, det+t+": round trip differs; "
			continue
		}
		p2, _ := certmagic.PEMEncodePrivateKey(k2)
		if string(p2) != string(p) {
			ok, det = false, det+t+": re-encoding differs; "
		}
	}
	return emit.OracleCheck{Name: "PEM codec: PEMDecodePrivateKey(PEMEncodePrivateKey k) = k, re-encoding byte-identical (" + strings.Join(types, ",") + ")", OK: ok, Detail: det}
}
