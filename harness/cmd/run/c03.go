//go:build !skip_c03

package main

// C03 — a handshake gets a complete certificate covering the requested name, or an error.
//
// The REAL Config.GetCertificate is driven over caches filled through the public
// CacheUnmanagedTLSCertificate / CacheUnmanagedCertificatePEMBytes with real certificates
// signed by a harness CA.  Before every call both cache maps are snapshotted (hashes are
// replaced by short aliases, an injective renaming); the per-(hello, certificate) attribute
// hello.SupportsCertificate and the validity of each leaf are observed and handed to the model
// as oracle attributes, as are getNameFromClientHello / SubjectQualifiesForCert and what the
// storage holds for the almost-full branch.  MatchWildcard and normalizedName are compared on
// their own.

import (
	"context"
	"crypto/ecdsa"
	"crypto/ed25519"
	"crypto/elliptic"
	"crypto/rand"
	"crypto/rsa"
	"crypto/tls"
	"encoding/json"
	"fmt"
	mrand "math/rand"
	"net"
	"sort"
	"strings"
	"time"
	"unicode"

	"github.com/caddyserver/certmagic"
	"golang.org/x/net/idna"

	"verifharness/pkg/doubles"
	"verifharness/pkg/emit"
)

func init() { register("C03", runC03) }

type c03Cert struct {
	ID      string
	Names   []string
	Due     bool // within its renewal window but still valid (80 of 90 days gone)
	Future  bool // not valid yet (NotBefore two hours ahead)
	Ed      bool // Ed25519 key: not supported by the default harness ClientHello
	RSA     bool // RSA key: supported only by the "rsa" ClientHello / RSA-only real clients
	Expired bool
	tls     tls.Certificate
	chain   []byte
	key     []byte
	hash    string
}

type fakeConn struct {
	net.Conn
	local, remote net.Addr
}

func (c fakeConn) LocalAddr() net.Addr  { return c.local }
func (c fakeConn) RemoteAddr() net.Addr { return c.remote }

var c03Locals = map[string]net.Addr{
	"127.0.0.1": &net.TCPAddr{IP: net.ParseIP("127.0.0.1"), Port: 443},
	"10.0.0.1":  &net.TCPAddr{IP: net.ParseIP("10.0.0.1"), Port: 8443},
	"fe80::1":   &net.TCPAddr{IP: net.ParseIP("fe80::1"), Port: 443, Zone: "eth0"},
	// the same IPv4 address as a 4-byte net.IP (net.ParseIP yields the 16-byte form)
	"10.0.0.1/4": &net.TCPAddr{IP: net.IPv4(10, 0, 0, 1).To4(), Port: 443},
	"::1":        &net.TCPAddr{IP: net.ParseIP("::1"), Port: 443},
}

// c03Hello: a synthetic ClientHello. kind "" supports ECDSA P-256 only, "ed25519" adds Ed25519,
// "rsa" supports RSA certificates only (TLS 1.2 and 1.3), "tls12" is the default restricted to TLS 1.2.
func c03Hello(sni, local, kind string) *tls.ClientHelloInfo {
	var conn net.Conn // local "none": a ClientHelloInfo without a connection (not made by crypto/tls)
	if local != "none" {
		conn = fakeConn{local: c03Locals[local], remote: &net.TCPAddr{IP: net.ParseIP("192.0.2.7"), Port: 5555}}
	}
	h := &tls.ClientHelloInfo{ServerName: sni,
		Conn:              conn,
		SupportedVersions: []uint16{tls.VersionTLS13, tls.VersionTLS12},
		SignatureSchemes:  []tls.SignatureScheme{tls.ECDSAWithP256AndSHA256},
		CipherSuites:      []uint16{tls.TLS_AES_128_GCM_SHA256, tls.TLS_ECDHE_ECDSA_WITH_AES_128_GCM_SHA256},
		SupportedCurves:   []tls.CurveID{tls.X25519, tls.CurveP256},
		SupportedPoints:   []uint8{0},
	}
	switch kind {
	case "ed25519":
		h.SignatureSchemes = append(h.SignatureSchemes, tls.Ed25519)
	case "rsa":
		h.SignatureSchemes = []tls.SignatureScheme{tls.PSSWithSHA256, tls.PKCS1WithSHA256}
		h.CipherSuites = []uint16{tls.TLS_AES_128_GCM_SHA256, tls.TLS_ECDHE_RSA_WITH_AES_128_GCM_SHA256}
	case "tls12":
		h.SupportedVersions = []uint16{tls.VersionTLS12}
	}
	return h
}

var c03PoolDef = []c03Cert{
	{ID: "e1", Names: []string{"a.x"}},
	{ID: "e2", Names: []string{"a.x"}, Expired: true},
	{ID: "e3", Names: []string{"a.x"}, Ed: true},
	{ID: "w1", Names: []string{"*.x"}},
	{ID: "w2", Names: []string{"*.x"}, Expired: true},
	{ID: "m1", Names: []string{"b.x", "a.b.x", "*.b.x"}},
	{ID: "ww", Names: []string{"*.*.x"}},
	{ID: "i1", Names: []string{"127.0.0.1", "::1"}},
	{ID: "i2", Names: []string{"10.0.0.1", "a.x"}},
	{ID: "i6", Names: []string{"fe80::1", "127.0.0.1"}, Expired: true},
	{ID: "fb", Names: []string{"fb.y"}},
	{ID: "fx", Names: []string{"fb.y", "df.y"}, Expired: true},
	{ID: "df", Names: []string{"df.y"}},
	{ID: "r1", Names: []string{"a.x", "q.x"}, RSA: true},
	{ID: "nv", Names: []string{"a.x", "*.b.x"}, Future: true},
}

// more pool certificates, used by the random blocks only (not part of the enumerated universe):
// names made of wildcard labels only, an IDN in its A-label form, an upper-case-free 4-label name
var c03ExtraDef = []c03Cert{
	{ID: "s1", Names: []string{"*"}},
	{ID: "s2", Names: []string{"*.*"}},
	{ID: "s3", Names: []string{"*.*.*", "*.*.*.x"}},
	{ID: "u1", Names: []string{"xn--bcher-kva.x"}},
	{ID: "u2", Names: []string{"*.r.x", "q.r.x"}, Expired: true},
	{ID: "uc", Names: []string{"Up.X", "*.UP.x"}}, // upper case in the leaf: certmagic lower-cases its Names
}

// server names for the random blocks only (the enumerated universe uses c03Queries)
var c03ExtraQueries = []string{"up.x", "Q.Up.x ", "UP.X", "x.y.z", "q.r", "r", "bücher.x", "BÜCHER.X", "q.r.x", "a.q.r.x", "*", "*.*"}

// certificates that can sit in storage as managed certificates (almost-full branch)
var c03StoredDef = []c03Cert{
	{ID: "La", Names: []string{"a.x"}},
	{ID: "Lx", Names: []string{"a.x"}, Expired: true},
	{ID: "Lw", Names: []string{"*.b.x"}},
	{ID: "Lz", Names: []string{"zz.x"}, Expired: true},
	{ID: "Ld", Names: []string{"due.y"}, Due: true},
	{ID: "Le", Names: []string{"*.q.y"}, Due: true},
}
var c03Storages = map[string][]string{"empty": nil, "valid-a": {"La"}, "expired-a": {"Lx"}, "wild-b+expired-zz": {"Lw", "Lz"},
	"broken-qb+wild-b": {"Lw"}, "broken-wild-b+valid-a": {"Lw", "La"}, "due-y": {"Ld", "Le"}}

// names whose resources cannot be read in a storage variant: Load fails with an error that is not fs.ErrNotExist
var c03Broken = map[string][]string{"broken-qb+wild-b": {"q.b.x"}, "broken-wild-b+valid-a": {"*.b.x"}}

func c03Make(ca *doubles.CA, c *c03Cert) error {
	o := doubles.LeafOpts{Names: c.Names}
	if c.Expired {
		o.NotBefore, o.NotAfter = time.Now().Add(-72*time.Hour), time.Now().Add(-2*time.Hour)
	}
	if c.Due {
		o.NotBefore, o.NotAfter = time.Now().Add(-80*24*time.Hour), time.Now().Add(10*24*time.Hour)
	}
	if c.Future {
		o.NotBefore, o.NotAfter = time.Now().Add(2*time.Hour), time.Now().Add(90*24*time.Hour)
	}
	var keyPEM []byte
	if c.Ed {
		pub, priv, err := ed25519.GenerateKey(rand.Reader)
		if err != nil {
			return err
		}
		o.Pub = pub
		if keyPEM, err = certmagic.PEMEncodePrivateKey(priv); err != nil {
			return err
		}
	} else if c.RSA {
		k, err := rsa.GenerateKey(rand.Reader, 2048)
		if err != nil {
			return err
		}
		o.Pub = &k.PublicKey
		if keyPEM, err = certmagic.PEMEncodePrivateKey(k); err != nil {
			return err
		}
	} else {
		k, err := ecdsa.GenerateKey(elliptic.P256(), rand.Reader)
		if err != nil {
			return err
		}
		o.Pub = &k.PublicKey
		if keyPEM, err = certmagic.PEMEncodePrivateKey(k); err != nil {
			return err
		}
	}
	chain, leaf, _, err := ca.Leaf(o)
	if err != nil {
		return err
	}
	tc, err := tls.X509KeyPair(chain, keyPEM)
	if err != nil {
		return err
	}
	tc.Leaf = leaf
	c.tls, c.chain, c.key = tc, chain, keyPEM
	return nil
}

type c03In struct {
	Certs    []string `json:"certs"` // pool ids, in insertion order
	Cap      int      `json:"cap"`
	Default  string   `json:"default"`
	Fallback string   `json:"fallback"`
	SNI      string   `json:"sni"`
	Local    string   `json:"local"`
	Storage  string   `json:"storage"`
	// RealTLS: the ClientHello comes from a real crypto/tls client over TCP loopback against
	// tls.Server(cfg.TLSConfig()); the served leaf is compared with GetCertificate's answer.
	RealTLS bool `json:"real_tls,omitempty"`
	// Client: configuration of the real client ("" default, "tls12-ecdsa", "tls12-rsa", "tls13")
	Client string `json:"client,omitempty"`
	// Hello: kind of the synthetic ClientHello (see c03Hello)
	Hello string `json:"hello,omitempty"`
	// Policy: Config.CertSelection ("" = nil: DefaultCertificateSelector; "min", "max",
	// "good-min", "refuse": harness doubles, see c03Selector)
	Policy string `json:"policy,omitempty"`
	// Protos: hello.SupportedProtos (ALPN); Abort: the "tls_get_certificate" event handler vetoes
	Protos []string `json:"protos,omitempty"`
	Abort  bool     `json:"abort,omitempty"`
}

// ALPN offers: none (most), ordinary, the TLS-ALPN challenge protocol alone, and mixed with others
var c03ProtoSets = [][]string{nil, nil, nil, {"h2", "http/1.1"}, {"acme-tls/1"}, {"acme-tls/1", "h2"}, {"h2", "acme-tls/1"}, {"acme-tls/1", "acme-tls/1"}, {"ACME-TLS/1"}}

var c03Policies = map[string]int{"": 0, "min": 1, "max": 2, "good-min": 3, "refuse": 4}

// c03Selector is a Config.CertSelection double. It identifies the choices by their hash (renamed
// to the pool ids) and decides by a rule that does not depend on their order (getAllCerts
// iterates a map): the smallest / largest id, the smallest among the choices the ClientHello
// supports and that are within their validity, or none at all.
type c03Selector struct {
	env    *c03Env
	policy string
	calls  [][]string // the choices offered, per call
}

func (sel *c03Selector) SelectCertificate(hello *tls.ClientHelloInfo, choices []certmagic.Certificate) (certmagic.Certificate, error) {
	var ids []string
	byID := map[string]certmagic.Certificate{}
	for _, c := range choices {
		id := sel.env.al(c.Hash())
		ids = append(ids, id)
		byID[id] = c
	}
	sort.Strings(ids)
	sel.calls = append(sel.calls, ids)
	now := time.Now()
	var ok []string
	for _, id := range ids {
		switch sel.policy {
		case "min", "max":
			ok = append(ok, id)
		case "good-min":
			c := byID[id]
			if hello.SupportsCertificate(&c.Certificate) == nil && now.After(c.Leaf.NotBefore) && now.Before(c.Leaf.NotAfter) {
				ok = append(ok, id)
			}
		}
	}
	if len(ok) == 0 {
		return certmagic.Certificate{}, fmt.Errorf("selector double: no acceptable choice among %v", ids)
	}
	if sel.policy == "max" {
		return byID[ok[len(ok)-1]], nil
	}
	return byID[ok[0]], nil
}

type c03Env struct {
	backend *doubles.MemBackend
	cfg     *certmagic.Config
	cache   *certmagic.Cache
	getter  certmagic.ConfigGetter
	pool    map[string]*c03Cert
	stored  map[string]*c03Cert
	alias   map[string]string // real hash -> alias
	curKey  string            // identity of the cache content currently built
	curSnap *c12Snap
	// oracle bookkeeping
	loadedNotCovering []string
	namesMismatch     []string
	nSup, nUnsup      int
	haveV6            bool
}

func newC03Env() (*c03Env, error) {
	env := &c03Env{backend: doubles.NewMemBackend(), pool: map[string]*c03Cert{}, stored: map[string]*c03Cert{}, alias: map[string]string{}}
	ca := doubles.NewCA("c03 CA")
	iss := &doubles.IssuerDouble{Key: "dbl", CA: ca, Log: env.backend.Log, Inst: "c03"}
	// (a synthetic ClientHelloInfo has a nil Context(), which the TLS-ALPN branch hands to Storage.Load)
	cfg, cache := doubles.NewConfig(doubles.NilCtxStorage{S: env.backend.Handle("c03")}, certmagic.Config{}, certmagic.CacheOptions{}, iss)
	env.cfg, env.cache = cfg, cache
	env.getter = func(certmagic.Certificate) (*certmagic.Config, error) { return cfg, nil }
	for i := range c03PoolDef {
		c := c03PoolDef[i]
		if err := c03Make(ca, &c); err != nil {
			return nil, err
		}
		// learn the hash certmagic gives it
		h, err := cfg.CacheUnmanagedTLSCertificate(context.Background(), c.tls, nil)
		if err != nil {
			return nil, err
		}
		c.hash = h
		env.alias[h] = c.ID
		env.pool[c.ID] = &c
	}
	for i := range c03ExtraDef {
		c := c03ExtraDef[i]
		if err := c03Make(ca, &c); err != nil {
			return nil, err
		}
		h, err := cfg.CacheUnmanagedTLSCertificate(context.Background(), c.tls, nil)
		if err != nil {
			return nil, err
		}
		c.hash = h
		env.alias[h] = c.ID
		env.pool[c.ID] = &c
	}
	for i := range c03StoredDef {
		c := c03StoredDef[i]
		if err := c03Make(ca, &c); err != nil {
			return nil, err
		}
		h, err := cfg.CacheUnmanagedTLSCertificate(context.Background(), c.tls, nil)
		if err != nil {
			return nil, err
		}
		c.hash = h
		env.alias[h] = c.ID
		env.stored[c.ID] = &c
	}
	cache.VerifReset()
	if ln, err := net.Listen("tcp", "[::1]:0"); err == nil {
		ln.Close()
		env.haveV6 = true
	}
	return env, nil
}

func (env *c03Env) close() { env.cache.Stop() }

// c03StorageKey: where certmagic keeps the resources of a certificate -- written out here, NOT
// taken from certmagic.StorageKeys (whose own answer is compared once per run, see the oracle
// "storage key names"): certificates/<issuer>/<name>/<name>.{crt,key,json}, a "*" in the name
// spelled "wildcard_".
func c03StorageKey(issuer, name, ext string) string {
	safe := strings.ReplaceAll(name, "*", "wildcard_")
	return "certificates/" + issuer + "/" + safe + "/" + safe + ext
}

func (env *c03Env) setStorage(variant string) {
	for _, k := range env.backend.Keys() {
		env.backend.Remove(k)
	}
	for _, id := range c03Storages[variant] {
		c := env.stored[id]
		n := c.Names[0]
		env.backend.Put(c03StorageKey("dbl", n, ".crt"), c.chain)
		env.backend.Put(c03StorageKey("dbl", n, ".key"), c.key)
		meta, _ := json.Marshal(certmagic.CertificateResource{SANs: c.Names})
		env.backend.Put(c03StorageKey("dbl", n, ".json"), meta)
	}
	env.backend.Log.Ops = nil
	env.backend.Log.Hook = nil
	if br := c03Broken[variant]; len(br) > 0 {
		bad := map[string]bool{}
		for _, n := range br {
			for _, ext := range []string{".crt", ".key", ".json"} {
				bad[c03StorageKey("dbl", n, ext)] = true
			}
		}
		env.backend.Log.Hook = func(op *doubles.Op) error {
			if op.Kind == "Load" && bad[op.Key] {
				return fmt.Errorf("storage double: injected read failure for %s", op.Key)
			}
			return nil
		}
	}
}

func c03LeafNames(c *c03Cert) []string {
	var out []string
	for _, d := range c.tls.Leaf.DNSNames {
		out = append(out, strings.ToLower(d))
	}
	for _, ip := range c.tls.Leaf.IPAddresses {
		out = append(out, ip.String())
	}
	return out
}

func sameSet(a, b []string) bool {
	m := map[string]int{}
	for _, x := range a {
		m[x] |= 1
	}
	for _, x := range b {
		m[x] |= 2
	}
	for _, v := range m {
		if v != 3 {
			return false
		}
	}
	return true
}

// c03Covers: the reference meaning of "san covers name": equal, or name with its k >= 1 leftmost
// labels each replaced by "*" (independent of certmagic.MatchWildcard).
func c03Covers(san, name string) bool {
	if san == name {
		return true
	}
	labels := strings.Split(name, ".")
	for i := range labels {
		labels[i] = "*"
		if san == strings.Join(labels, ".") {
			return true
		}
	}
	return false
}

// c03HelloName: the name a ClientHello asks for, computed here with x/net/idna and the standard
// library (NOT with certmagic's getNameFromClientHello): IDNA Lookup profile of the trimmed
// server name; ok=false if that fails.
func c03IDNA(sni string) (string, bool) {
	n, err := idna.Lookup.ToASCII(strings.TrimSpace(sni))
	return n, err == nil
}

// build (re)fills the cache with the given pool certificates in order, alternating between the
// two public entry points.
func (env *c03Env) build(ids []string, capacity int) error {
	env.cache.SetOptions(certmagic.CacheOptions{GetConfigForCert: env.getter, Capacity: 0, Logger: env.cfg.Logger})
	env.cache.VerifReset()
	for i, id := range ids {
		c := env.pool[id]
		var err error
		if i%2 == 0 {
			_, err = env.cfg.CacheUnmanagedTLSCertificate(context.Background(), c.tls, nil)
		} else {
			_, err = env.cfg.CacheUnmanagedCertificatePEMBytes(context.Background(), c.chain, c.key, []string{"pem"})
		}
		if err != nil {
			return err
		}
	}
	env.cache.SetOptions(certmagic.CacheOptions{GetConfigForCert: env.getter, Capacity: capacity, Logger: env.cfg.Logger})
	env.curKey = fmt.Sprint(ids, capacity)
	s := env.snap()
	env.curSnap = &s
	return nil
}

func (env *c03Env) al(h string) string {
	if a, ok := env.alias[h]; ok {
		return a
	}
	return h
}

// snap: both maps with hashes replaced by aliases.
func (env *c03Env) snap() c12Snap {
	k, c, ix := env.cache.VerifSnapshot()
	s := c12Snap{Keys: []string{}, Certs: []c12Info{}, Index: map[string][]string{}}
	for i := range k {
		s.Keys = append(s.Keys, env.al(k[i]))
		ci := c[i]
		ci.Hash = env.al(ci.Hash)
		ci.OCSPSerial = 0
		s.Certs = append(s.Certs, ci)
	}
	// keep keys sorted after renaming
	idx := make([]int, len(s.Keys))
	for i := range idx {
		idx[i] = i
	}
	sort.Slice(idx, func(a, b int) bool { return s.Keys[idx[a]] < s.Keys[idx[b]] })
	ks, cs := make([]string, len(idx)), make([]c12Info, len(idx))
	for i, j := range idx {
		ks[i], cs[i] = s.Keys[j], s.Certs[j]
	}
	s.Keys, s.Certs = ks, cs
	for n, hs := range ix {
		var as []string
		for _, h := range hs {
			as = append(as, env.al(h))
		}
		s.Index[n] = as
	}
	return s
}

// realHandshake performs a real TLS handshake over TCP loopback against
// tls.Server(cfg.TLSConfig()) with GetCertificate wrapped by observe; it returns the leaf the
// client was served (nil if the handshake failed) and the client's handshake error.
func (env *c03Env) realHandshake(sni, client string, protos []string, observe func(*tls.ClientHelloInfo) (*tls.Certificate, error)) ([]byte, error) {
	addr := "127.0.0.1:0"
	if strings.HasSuffix(client, "@v6") && env.haveV6 {
		addr = "[::1]:0"
	}
	ln, err := net.Listen("tcp", addr)
	if err != nil {
		return nil, err
	}
	defer ln.Close()
	tc := env.cfg.TLSConfig()
	tc.GetCertificate = observe
	done := make(chan struct{})
	go func() {
		defer close(done)
		c, err := ln.Accept()
		if err != nil {
			return
		}
		defer c.Close()
		c.SetDeadline(time.Now().Add(5 * time.Second))
		tls.Server(c, tc).Handshake()
	}()
	var served []byte
	d := &net.Dialer{Timeout: 5 * time.Second}
	cc := &tls.Config{ServerName: sni, InsecureSkipVerify: true, NextProtos: protos}
	switch strings.TrimSuffix(client, "@v6") {
	case "tls12-ecdsa":
		cc.MaxVersion = tls.VersionTLS12
		cc.CipherSuites = []uint16{tls.TLS_ECDHE_ECDSA_WITH_AES_128_GCM_SHA256}
	case "tls12-rsa":
		cc.MaxVersion = tls.VersionTLS12
		cc.CipherSuites = []uint16{tls.TLS_ECDHE_RSA_WITH_AES_128_GCM_SHA256}
	case "tls13":
		cc.MinVersion = tls.VersionTLS13
	}
	conn, herr := tls.DialWithDialer(d, "tcp", ln.Addr().String(), cc)
	if herr == nil {
		if pcs := conn.ConnectionState().PeerCertificates; len(pcs) > 0 {
			served = pcs[0].Raw
		}
		conn.Close()
	}
	ln.Close()
	<-done
	return served, herr
}

func snapEqual(a, b c12Snap) bool {
	x, _ := json.Marshal(a)
	y, _ := json.Marshal(b)
	return string(x) == string(y)
}

func encTables(e *emit.Enc, strs ...string) {
	seen := map[rune]bool{}
	var lt [][2]rune
	var st []rune
	for _, a := range strs {
		for _, r := range a {
			if r >= 128 && !seen[r] {
				seen[r] = true
				lt = append(lt, [2]rune{r, unicode.ToLower(r)})
				if unicode.IsSpace(r) {
					st = append(st, r)
				}
			}
		}
	}
	e.Len(len(lt))
	for _, p := range lt {
		e.Z(int64(p[0])).Z(int64(p[1]))
	}
	e.Len(len(st))
	for _, r := range st {
		e.Z(int64(r))
	}
}

// lookupCase performs one GetCertificate call and emits the case.
func (env *c03Env) lookupCase(w *emit.Writer, in c03In, class string) error {
	key := fmt.Sprint(in.Certs, in.Cap)
	if env.curKey != key || env.curSnap == nil {
		if err := env.build(in.Certs, in.Cap); err != nil {
			return err
		}
	}
	env.setStorage(in.Storage)
	env.cfg.DefaultServerName, env.cfg.FallbackServerName = in.Default, in.Fallback
	var selector *c03Selector
	env.cfg.CertSelection = nil
	if in.Policy != "" {
		if _, ok := c03Policies[in.Policy]; !ok {
			return fmt.Errorf("unknown policy %q", in.Policy)
		}
		selector = &c03Selector{env: env, policy: in.Policy}
		env.cfg.CertSelection = selector
	}
	defer func() { env.cfg.CertSelection = nil }()
	before := *env.curSnap
	// oracle attributes and the call, on the ClientHello the server side sees
	type at struct{ sup, valid, complete bool }
	attrs := map[string]at{}
	storedSup := map[string]bool{}
	var err, obsErr error
	var called, hasConn bool
	var panicked string
	var amc []string
	var protosSeen []string
	var ip, implIP, sni string
	var idnaName string
	var idnaOK bool
	var implName string
	var implNameErr error
	var cert *tls.Certificate
	observe := func(hello *tls.ClientHelloInfo) (*tls.Certificate, error) {
		called = true
		sni = hello.ServerName
		protosSeen = append([]string{}, hello.SupportedProtos...)
		now := time.Now()
		for _, id := range in.Certs {
			c := env.pool[id]
			valid := now.After(c.tls.Leaf.NotBefore.Add(time.Minute)) && now.Before(c.tls.Leaf.NotAfter.Add(-time.Minute))
			if valid == (c.Expired || c.Future) {
				obsErr = fmt.Errorf("pool certificate %s: validity margin violated", id)
			}
			attrs[id] = at{hello.SupportsCertificate(&c.tls) == nil, valid, len(c.tls.Certificate) > 0 && c.tls.PrivateKey != nil}
			if attrs[id].sup {
				env.nSup++
			} else {
				env.nUnsup++
			}
		}
		for id, c := range env.stored {
			storedSup[id] = hello.SupportsCertificate(&c.tls) == nil
		}
		// the name the ClientHello asks for and the connection's local IP as the property means
		// them, computed here (x/net/idna, net.TCPAddr) and NOT taken from the code's own
		// getNameFromClientHello / localIPFromConn, whose answers are only recorded
		idnaName, idnaOK = c03IDNA(hello.ServerName)
		implName, implNameErr = env.cfg.VerifNameFromClientHello(hello)
		implIP = certmagic.VerifLocalIPFromConn(hello.Conn)
		ip = ""
		hasConn = hello.Conn != nil
		if hasConn {
			ip = implIP
			if ta, ok := hello.Conn.LocalAddr().(*net.TCPAddr); ok && ta != nil && ta.IP != nil {
				ip = ta.IP.String()
			}
		}
		// the other public view of the same cache, before the call: AllMatchingCertificates of the
		// normalised server name
		amc = []string{}
		for _, c := range env.cache.AllMatchingCertificates(strings.ToLower(strings.TrimSpace(hello.ServerName))) {
			amc = append(amc, env.al(c.Hash()))
		}
		// the call (a panic is an observation too: neither an error nor a certificate)
		func() {
			defer func() {
				if r := recover(); r != nil {
					panicked = fmt.Sprint(r)
					cert, err = nil, nil
				}
			}()
			cert, err = env.cfg.GetCertificate(hello)
		}()
		return cert, err
	}
	var served []byte
	var herr error
	env.cfg.OnEvent = nil
	if in.Abort {
		env.cfg.OnEvent = func(ctx context.Context, event string, data map[string]any) error {
			if event == "tls_get_certificate" {
				return fmt.Errorf("event handler double: handshake vetoed")
			}
			return nil
		}
	}
	defer func() { env.cfg.OnEvent = nil }()
	if !in.RealTLS {
		h := c03Hello(in.SNI, in.Local, in.Hello)
		h.SupportedProtos = in.Protos
		observe(h)
	} else {
		served, herr = env.realHandshake(in.SNI, in.Client, in.Protos, observe)
		if !called {
			w.Hist("real_tls_no_hello") // the client refused the server name: nothing reached the server
			return nil
		}
	}
	if obsErr != nil {
		return obsErr
	}
	// a stored certificate that is due but still valid is served and then removed from the cache by
	// the background renewal goroutine (renewing is not allowed without on-demand TLS): wait for that
	// (and for the goroutine to deregister itself) before looking at the cache
	if err == nil && cert != nil && len(cert.Certificate) > 0 {
		for _, c := range env.stored {
			if c.Due && string(c.tls.Certificate[0]) == string(cert.Certificate[0]) {
				gone := false
				for i := 0; i < 2000 && !gone; i++ {
					gone = !keySet(env.snap())[c.ID]
					if gone {
						_, obtaining := certmagic.VerifWaitChans()
						gone = len(obtaining) == 0
					}
					if !gone {
						time.Sleep(5 * time.Millisecond)
					}
				}
				if !gone {
					w.Hist("skipped_boundary_background_removal_not_seen")
					env.curKey = ""
					return nil
				}
				w.Hist("due_certificate_served_then_removed")
			}
		}
	}
	after := env.snap()
	// the eviction victim: a key cached before and not afterwards
	victim := ""
	{
		a := keySet(after)
		for _, k := range before.Keys {
			if !a[k] {
				victim = k
				break
			}
		}
	}
	e := &emit.Enc{}
	e.Int(0)
	encTables(e, sni, in.Default, in.Fallback, idnaName)
	e.Int(in.Cap)
	encSnap(e, before)
	ids := append([]string{}, in.Certs...)
	sort.Strings(ids)
	e.Len(len(ids))
	for _, id := range ids {
		a := attrs[id]
		// the subject names the leaf really carries (DNS names, IP addresses), read from the x509
		// leaf the harness issued -- not the Names certmagic derived
		real := c03LeafNames(env.pool[id])
		e.Str(id).Bool(a.sup).Bool(a.valid).Bool(a.complete).StrList(real)
		for i, k := range before.Keys {
			if k == id && !sameSet(before.Certs[i].Names, real) {
				env.namesMismatch = append(env.namesMismatch, fmt.Sprintf("%s: certmagic %v, leaf %v", id, before.Certs[i].Names, real))
			}
		}
	}
	e.Str(in.Default).Str(in.Fallback).Str(sni).Str(ip).Bool(hasConn)
	e.Bool(in.Abort).StrList(protosSeen)
	e.Int(c03Policies[in.Policy])
	if idnaOK {
		e.Bool(true).Str(idnaName)
	} else {
		e.Bool(false)
	}
	// what storage holds: the name each certificate resource is stored under, the certificate as
	// CacheManagedCertificate caches it, whether it is fresh (an expired one cannot be renewed
	// without on-demand TLS: its maintenance fails and it is removed again), and complete
	st := c03Storages[in.Storage]
	e.Len(len(st))
	for _, id := range st {
		c := env.stored[id]
		e.Str(c.Names[0])
		encCert(e, c12Info{Hash: c.ID, Names: c.Names, Managed: true, IssuerKey: "dbl"})
		e.Bool(!c.Expired && !c.Due).Bool(!c.Expired).Bool(len(c.tls.Certificate) > 0 && c.tls.PrivateKey != nil)
		covered := false
		for _, san := range c.Names {
			covered = covered || san == c.Names[0]
		}
		if !covered {
			env.loadedNotCovering = append(env.loadedNotCovering, c.ID)
		}
	}
	e.StrList(c03Broken[in.Storage])
	encVictim(e, victim)
	obs := map[string]any{}
	res := "error"
	answered := ""
	switch {
	case err != nil:
		e.Int(0)
		obs["error"] = err.Error()
	case panicked != "":
		e.Int(2)
		res = "PANIC"
		obs["panic"] = panicked
	case cert == nil || len(cert.Certificate) == 0:
		e.Int(2)
		res = "EMPTY-CERT-NIL-ERROR"
		obs["empty"] = true
	default:
		id := "?unknown"
		for _, m := range []map[string]*c03Cert{env.pool, env.stored} {
			for _, c := range m {
				if string(c.tls.Certificate[0]) == string(cert.Certificate[0]) {
					id = c.ID
				}
			}
		}
		answered = id
		complete := len(cert.Certificate) > 0 && cert.PrivateKey != nil
		if in.RealTLS {
			// what the client was served must be the answer; the handshake may fail only if the
			// ClientHello does not support the answer
			sup, known := storedSup[id]
			if a, ok := attrs[id]; ok {
				sup, known = a.sup, true
			}
			switch {
			case herr == nil && (served == nil || string(served) != string(cert.Certificate[0])):
				id = "?served-differs-from-answer"
			case herr != nil && known && sup:
				id = "?handshake-failed-although-answer-supported"
				obs["handshake_error"] = herr.Error()
			case herr != nil:
				w.Hist("real_tls_answer_unsupported_handshake_failed")
			}
		}
		e.Int(1).Str(id).Bool(complete)
		res = "cert"
		obs["cert"], obs["complete"] = id, complete
	}
	if !hasConn {
		w.Hist("hello_without_conn")
	}
	if in.Abort {
		w.Hist("event_handler_veto")
	}
	if len(protosSeen) > 0 {
		w.Hist("alpn=" + strings.Join(protosSeen, ","))
	}
	if in.RealTLS && (err != nil || cert == nil || len(cert.Certificate) == 0) && herr == nil {
		// the handshake succeeded although GetCertificate gave nothing
		return fmt.Errorf("real TLS handshake for %q succeeded although GetCertificate answered %v", in.SNI, err)
	}
	encSnap(e, after)
	e.StrList(amc)
	obs["all_matching_certificates"] = amc
	obs["local_ip"] = ip
	if implIP != ip {
		obs["local_ip_as_code_sees_it"] = implIP
	}
	if idnaOK {
		obs["idna_name"] = idnaName
	} else {
		obs["idna_name"] = nil
	}
	obs["name_as_code_sees_it"] = implName
	if implNameErr != nil {
		obs["name_error_as_code_sees_it"] = implNameErr.Error()
	}
	if selector != nil {
		obs["selector_calls"] = selector.calls
	}
	if !snapEqual(after, before) {
		obs["cache_after"] = after
	}
	sniClass := "plain"
	norm := strings.ToLower(strings.TrimSpace(sni))
	if in.RealTLS {
		w.Hist("real_tls_handshake")
		w.Hist("real_tls_client=" + in.Client)
		obs["sni_seen_by_server"] = sni
	}
	switch {
	case norm == "":
		sniClass = "empty"
	case norm != sni:
		sniClass = "needs-normalizing"
	case !idnaOK:
		sniClass = "idna-error"
	case idnaName != norm:
		sniClass = "idn"
	}
	capKind := "unlimited"
	if in.Cap > 0 {
		capKind = "full"
		if len(in.Certs) < in.Cap {
			capKind = "below-capacity"
			if float64(len(in.Certs)) >= float64(in.Cap)*.9 {
				capKind = "almost-full"
			}
		}
	}
	how := "none"
	switch {
	case answered == "":
	case env.stored[answered] != nil:
		how = "loaded-from-storage"
	default:
		covers := false
		for _, san := range c03LeafNames(env.pool[answered]) {
			covers = covers || (norm != "" && c03Covers(san, norm)) || (norm == "" && san == ip)
		}
		how = "covering"
		if !covers {
			how = "non-covering(default/fallback/custom)"
		}
	}
	pol := in.Policy
	if pol == "" {
		pol = "default"
	}
	desc := map[string]any{"class": class, "kind": "lookup", "size": len(in.Certs), "cap": capKind, "result": res, "sni": sniClass, "storage": in.Storage, "policy": pol}
	b, _ := json.Marshal(in)
	w.Add(emit.Case{Desc: desc, In: in, Obs: obs, Wire: e.String(), Nontrivial: len(in.Certs) > 0, Key: string(b)})
	w.Hist("kind=lookup")
	w.Hist("result=" + res)
	w.Hist("answer=" + how)
	w.Hist("sni=" + sniClass)
	w.Hist("cap=" + capKind)
	w.Hist(fmt.Sprintf("size=%d", len(in.Certs)))
	w.Hist("storage=" + in.Storage)
	w.Hist(fmt.Sprintf("default=%v,fallback=%v", in.Default != "", in.Fallback != ""))
	w.Hist("class=" + class)
	w.Hist("policy=" + pol)
	if in.Hello != "" {
		w.Hist("hello=" + in.Hello)
	}
	if victim != "" {
		w.Hist("lookup_evicted_a_certificate")
	}
	// the almost-full branch may have changed the cache: rebuild lazily
	if !snapEqual(after, before) {
		env.curKey = ""
		w.Hist("cache_changed_by_lookup")
	}
	return nil
}

// qualCase: one SubjectQualifiesForCert call.
func qualCase(w *emit.Writer, s string) {
	o := certmagic.SubjectQualifiesForCert(s)
	e := (&emit.Enc{}).Int(3)
	var st []rune
	seen := map[rune]bool{}
	for _, r := range s {
		if r >= 128 && !seen[r] && unicode.IsSpace(r) {
			seen[r] = true
			st = append(st, r)
		}
	}
	e.Len(len(st))
	for _, r := range st {
		e.Z(int64(r))
	}
	e.Str(s).Bool(o)
	w.Add(emit.Case{Desc: map[string]any{"kind": "SubjectQualifiesForCert", "class": "qual"}, In: s, Obs: o, Wire: e.String(), Nontrivial: true, Key: "qual:" + s})
	w.Hist("kind=SubjectQualifiesForCert")
	w.Hist(fmt.Sprintf("qualifies=%v", o))
}

// nameCase: one getNameFromClientHello call (server name, DefaultServerName, local address).
func (env *c03Env) nameCase(w *emit.Writer, sni, dflt, local string) {
	env.cfg.DefaultServerName = dflt
	hello := c03Hello(sni, local, "")
	o, oerr := env.cfg.VerifNameFromClientHello(hello)
	ip := ""
	if hello.Conn != nil {
		if ta, ok := hello.Conn.LocalAddr().(*net.TCPAddr); ok && ta != nil && ta.IP != nil {
			ip = ta.IP.String()
		}
	}
	n, ok := c03IDNA(sni)
	e := (&emit.Enc{}).Int(4)
	encTables(e, dflt)
	e.Str(dflt).Str(ip)
	if ok {
		e.Bool(true).Str(n)
	} else {
		e.Bool(false)
	}
	obs := map[string]any{"name": o}
	if oerr == nil {
		e.Bool(true).Str(o)
	} else {
		e.Bool(false)
		obs["error"] = oerr.Error()
	}
	w.Add(emit.Case{Desc: map[string]any{"kind": "getNameFromClientHello", "class": "name"}, In: []string{sni, dflt, local}, Obs: obs, Wire: e.String(),
		Nontrivial: true, Key: "name:" + sni + "|" + dflt + "|" + local})
	w.Hist("kind=getNameFromClientHello")
}

func matchCase(w *emit.Writer, subject, wildcard string) {
	o := certmagic.MatchWildcard(subject, wildcard)
	e := (&emit.Enc{}).Int(1)
	seen := map[rune]bool{}
	var lt [][2]rune
	for _, r := range subject + wildcard {
		if r >= 128 && !seen[r] {
			seen[r] = true
			lt = append(lt, [2]rune{r, unicode.ToLower(r)})
		}
	}
	e.Len(len(lt))
	for _, p := range lt {
		e.Z(int64(p[0])).Z(int64(p[1]))
	}
	e.Str(subject).Str(wildcard).Bool(o)
	w.Add(emit.Case{Desc: map[string]any{"kind": "MatchWildcard", "class": "match"}, In: []string{subject, wildcard}, Obs: o, Wire: e.String(),
		Nontrivial: strings.Contains(wildcard, "*") || strings.EqualFold(subject, wildcard), Key: "mw:" + subject + "|" + wildcard})
	w.Hist("kind=MatchWildcard")
	w.Hist(fmt.Sprintf("match=%v", o))
}

func normCase(w *emit.Writer, s string) {
	o := certmagic.VerifNormalizedName(s)
	e := (&emit.Enc{}).Int(2)
	encTables(e, s)
	e.Str(s).Str(o)
	w.Add(emit.Case{Desc: map[string]any{"kind": "normalizedName", "class": "norm"}, In: s, Obs: o, Wire: e.String(), Nontrivial: s != o, Key: "norm:" + s})
	w.Hist("kind=normalizedName")
}

var c03Queries = []string{
	"", "  ", "a.x", "A.X", " a.x ", "a.x\t", "b.x", "a.b.x", "b.b.x", "c.b.x", "q.x", "x", "a.b.c.x", "q.r.x",
	"fb.y", "df.y", "FB.Y", "zz.x", "*.x", "*.b.x", "a..x", "a.x.", ".a.x", "bücher.x", "BÜCHER.X", "é.x", " a.x　",
	"127.0.0.1", "10.0.0.1", "a_b.x", "a!.x", "xn--bcher-kva.x", "ａ.x", "a.X", "q.b.x", "y", "a.b.y", "x.", "İ.x", "a.x:443",
}
var c03Configs = [][2]string{{"", ""}, {"df.y", ""}, {"", "fb.y"}, {" DF.Y ", "FB.y"}}

func c03Subsets(n, maxSize int) [][]int {
	var out [][]int
	var rec func(start int, cur []int)
	rec = func(start int, cur []int) {
		out = append(out, append([]int{}, cur...))
		if len(cur) == maxSize {
			return
		}
		for i := start; i < n; i++ {
			rec(i+1, append(cur, i))
		}
	}
	rec(0, nil)
	return out
}

func runC03(tier string, seed int64, outdir string, replay string) error {
	w := emit.NewWriter(outdir, "C03", tier, seed)
	w.Meta.Oracles = []emit.OracleCheck{}
	defer w.Close()
	env, err := newC03Env()
	if err != nil {
		return err
	}
	defer env.close()
	w.Meta.Rule = "lookup: distinct (cache content and order, capacity, default, fallback, server name, local address, storage) tuples with a non-empty cache; MatchWildcard: distinct pairs whose reference name contains a wildcard or equals the subject; normalizedName: inputs changed by normalisation"
	if replay != "" {
		rc, err := loadReplay(replay)
		if err != nil {
			return err
		}
		switch rc.Desc["kind"] {
		case "MatchWildcard":
			var a []string
			if err := json.Unmarshal(rc.In, &a); err != nil {
				return err
			}
			matchCase(w, a[0], a[1])
		case "normalizedName":
			var s string
			if err := json.Unmarshal(rc.In, &s); err != nil {
				return err
			}
			normCase(w, s)
		case "SubjectQualifiesForCert":
			var s string
			if err := json.Unmarshal(rc.In, &s); err != nil {
				return err
			}
			qualCase(w, s)
		case "getNameFromClientHello":
			var a []string
			if err := json.Unmarshal(rc.In, &a); err != nil {
				return err
			}
			env.nameCase(w, a[0], a[1], a[2])
		default:
			var in c03In
			if err := json.Unmarshal(rc.In, &in); err != nil {
				return err
			}
			cl, _ := rc.Desc["class"].(string)
			return env.lookupCase(w, in, cl)
		}
		return nil
	}
	// oracle hypothesis: the integer form of the almost-full test agrees with the float64 one
	afOK, afDet := true, ""
	for c := 1; c <= 3000 && afOK; c++ {
		for s := 0; s <= c+1; s++ {
			if (float64(s) >= float64(c)*.9) != (10*s >= 9*c) {
				afOK, afDet = false, fmt.Sprintf("cap=%d size=%d", c, s)
				break
			}
		}
	}
	w.Meta.Oracles = append(w.Meta.Oracles, emit.OracleCheck{Name: "float64(size) >= float64(cap)*.9 <=> 10*size >= 9*cap for all cap <= 3000", OK: afOK, Detail: afDet})

	// ---- corpus: the witnesses of the two fixed findings, and hand-picked cases ----
	corpus := []struct {
		class string
		in    c03In
	}{
		{"almost-full-load-fails", c03In{Certs: []string{"fb"}, Cap: 1, Fallback: "fb.y", SNI: "zz.x", Local: "127.0.0.1", Storage: "empty"}},
		{"almost-full-load-fails", c03In{Certs: []string{"fb"}, Cap: 1, SNI: "zz.x", Local: "127.0.0.1", Storage: "empty"}},
		{"almost-full-load-fails", c03In{Certs: []string{"df"}, Cap: 1, Default: "df.y", SNI: "", Local: "10.0.0.1", Storage: "empty"}},
		{"almost-full-loaded-maintenance-fails", c03In{Certs: []string{"fb"}, Cap: 1, Fallback: "fb.y", SNI: "a.x", Local: "127.0.0.1", Storage: "expired-a"}},
		{"almost-full-loaded-maintenance-fails", c03In{Certs: []string{"fb"}, Cap: 1, SNI: "a.x", Local: "127.0.0.1", Storage: "expired-a"}},
		{"almost-full-loaded-maintenance-fails", c03In{Certs: []string{"w1", "fb", "df"}, Cap: 3, Fallback: "fb.y", SNI: "zz.x", Local: "127.0.0.1", Storage: "wild-b+expired-zz"}},
		{"nil-conn-no-certificate", c03In{Certs: []string{"e1"}, Cap: 0, SNI: "nomatch.x", Local: "none", Storage: "empty"}},
		{"nil-conn-no-certificate", c03In{Certs: nil, Cap: 0, SNI: "", Local: "none", Storage: "empty"}},
		{"nil-conn-no-certificate", c03In{Certs: []string{"i1", "fb"}, Cap: 0, Default: "df.y", Fallback: "fb.y", SNI: "", Local: "none", Storage: "empty"}},
		{"nil-conn-no-certificate", c03In{Certs: []string{"fb"}, Cap: 1, Fallback: "fb.y", SNI: "a!.x", Local: "none", Storage: "valid-a"}},
		{"corpus", c03In{Certs: []string{"fb"}, Cap: 1, Fallback: "fb.y", SNI: "a.x", Local: "127.0.0.1", Storage: "valid-a"}},
		{"corpus", c03In{Certs: []string{"fb"}, Cap: 1, Fallback: "fb.y", SNI: "due.y", Local: "127.0.0.1", Storage: "due-y"}},
		{"corpus", c03In{Certs: []string{"fb", "e1"}, Cap: 2, SNI: "Z.q.y", Local: "127.0.0.1", Storage: "due-y"}},
		{"corpus", c03In{Certs: []string{"e2", "e3", "e1"}, Cap: 0, SNI: "A.x ", Local: "127.0.0.1", Storage: "empty"}},
		{"corpus", c03In{Certs: []string{"w1", "ww", "m1"}, Cap: 0, SNI: "q.b.x", Local: "127.0.0.1", Storage: "empty"}},
		{"corpus", c03In{Certs: []string{"i1", "df", "fb"}, Cap: 0, Default: "df.y", Fallback: "fb.y", SNI: "", Local: "127.0.0.1", Storage: "empty"}},
	}
	for _, c := range corpus {
		if err := env.lookupCase(w, c.in, c.class); err != nil {
			return err
		}
	}
	// the almost-full boundary (size against 0.9 x capacity) and the storage fault points: caches of
	// 8..11 certificates none of which covers "q.b.x", capacities size..size+3
	{
		nonCovering := []string{"e1", "e2", "e3", "w1", "w2", "i1", "i2", "i6", "fb", "fx", "df"}
		for size := 8; size <= 11; size++ {
			for capacity := size; capacity <= size+3; capacity++ {
				for _, stv := range []string{"wild-b+expired-zz", "broken-qb+wild-b", "broken-wild-b+valid-a"} {
					for _, q := range []string{"q.b.x", " Q.B.X ", "a.b.x", "zz.x"} {
						for _, fbk := range []string{"fb.y", ""} {
							in := c03In{Certs: nonCovering[:size], Cap: capacity, Fallback: fbk, SNI: q, Local: "127.0.0.1", Storage: stv}
							if err := env.lookupCase(w, in, "almost-full-boundary"); err != nil {
								return err
							}
						}
					}
				}
			}
		}
	}
	// ---- MatchWildcard and normalizedName ----
	labelAlpha := []string{"a", "b", "", "*"}
	var namesU []string
	var recN func(prefix []string, n int)
	recN = func(prefix []string, n int) {
		if len(prefix) > 0 {
			namesU = append(namesU, strings.Join(prefix, "."))
		}
		if n == 0 {
			return
		}
		for _, l := range labelAlpha {
			recN(append(append([]string{}, prefix...), l), n-1)
		}
	}
	recN(nil, 3)
	namesU = append(namesU, "A.b", "*.B", "É.a", "é.a", "*.a.b.a", "a.b.a.b", "*.*.a.b", "*.*.*.*", "a.b.a.a", " a.b", "*.İ", "i̇.a")
	for _, s := range namesU {
		for _, wc := range namesU {
			matchCase(w, s, wc)
		}
	}
	for _, q := range append(append([]string{}, c03Queries...), " \t\n\v\f\r A.B \u0085", " Ǆ.x ", "ẞ.X", "K.x", "Σς.x", "  ", "a b", "​A​") {
		normCase(w, q)
	}
	// ---- SubjectQualifiesForCert and getNameFromClientHello on their own ----
	qualInputs := append([]string{}, c03Queries...)
	for _, ch := range "()[]{}<> \t\n\"\\!@#$%^&|;'+=*.-_:/?~`,\r\u00a0\u2003" {
		qualInputs = append(qualInputs, string(ch), "a"+string(ch)+"b.x", string(ch)+".x", "a.x"+string(ch))
	}
	qualInputs = append(qualInputs, "*", "*.", "*.x", "**.x", "a.*.x", "*a.x", "a*.x", "*.*.x", ".", "..", " ", "\u00a0", "\u2003\u00a0", "\u00a0a.x", "xn--bcher-kva.x", "bücher.x", "127.0.0.1", "fe80::1", "[::1]", "a.x.", ".a.x", "-a.x", "a.x-")
	for _, q := range qualInputs {
		qualCase(w, q)
	}
	for _, q := range append(append([]string{}, c03Queries...), "\u00a0a.x\u2003", " BÜCHER.x ", "faß.x", "Σς.x", "a\u200db.x", "xn--a.x", "a..x ", "\t", "-a.x", "a-.x", "ab--c.x") {
		for _, d := range []string{"", "df.y", " DF.Y ", "Ünï.y "} {
			for _, l := range []string{"127.0.0.1", "fe80::1", "10.0.0.1/4", "none"} {
				if strings.TrimSpace(q) != "" && l != "127.0.0.1" {
					continue
				}
				env.nameCase(w, q, d, l)
			}
		}
	}
	// oracle hypothesis: certmagic stores the resources of a certificate where the harness puts them
	skOK, skDet := true, ""
	for _, n := range []string{"a.x", "*.b.x", "zz.x"} {
		for ext, f := range map[string]func(string, string) string{".crt": certmagic.StorageKeys.SiteCert, ".key": certmagic.StorageKeys.SitePrivateKey, ".json": certmagic.StorageKeys.SiteMeta} {
			if got, want := f("dbl", n), c03StorageKey("dbl", n, ext); got != want {
				skOK, skDet = false, fmt.Sprintf("%s: code %q, harness %q", n, got, want)
			}
		}
	}
	w.Meta.Oracles = append(w.Meta.Oracles, emit.OracleCheck{Name: "storage key names: certificates/<issuer>/<name>/<name>.{crt,key,json} with * spelled wildcard_ (written out by the harness) are the keys certmagic uses", OK: skOK, Detail: skDet})
	// ---- the lookup universe ----
	r := mrand.New(mrand.NewSource(seed))
	subsets := c03Subsets(len(c03PoolDef), 3)
	total := 0
	quickTarget := 40000.0
	// number of cases in the full universe (computed by a dry pass)
	perCap := 0
	for _, q := range c03Queries {
		n := 1
		if strings.TrimSpace(q) == "" {
			n = len(c03Locals)
		}
		perCap += n * len(c03Configs)
	}
	perFullExtra := 10 * 4 * len(c03Configs) // storage-variant queries at full capacity
	universeSize := 0
	for _, sub := range subsets {
		orders := 1
		if len(sub) >= 2 {
			orders = 2
		}
		n := perCap // unlimited
		if len(sub) > 0 {
			n += perCap + perFullExtra // capacity = size
		}
		universeSize += orders * n
	}
	p := 1.0
	if tier != "thorough" {
		p = quickTarget / float64(universeSize)
	}
	take := func() bool { return p >= 1 || r.Float64() < p }
	locals := []string{"127.0.0.1", "10.0.0.1", "fe80::1"}
	storageQueries := []string{"a.x", "q.b.x", "zz.x", " A.X", "*.b.x", "b.x", "x.q.b.x", "due.y", " DUE.Y", "z.q.y"}
	for _, sub := range subsets {
		ids := make([]string, len(sub))
		for i, j := range sub {
			ids[i] = c03PoolDef[j].ID
		}
		orders := [][]string{ids}
		if len(ids) >= 2 {
			rev := make([]string, len(ids))
			for i := range ids {
				rev[len(ids)-1-i] = ids[i]
			}
			orders = append(orders, rev)
		}
		for _, ord := range orders {
			caps := []int{0, len(ord)}
			if len(ord) == 0 {
				caps = []int{0}
			}
			for _, capacity := range caps {
				for _, cf := range c03Configs {
					for _, q := range c03Queries {
						ls := locals[:1]
						if strings.TrimSpace(q) == "" {
							ls = locals
						}
						for _, l := range ls {
							if !take() {
								continue
							}
							total++
							if err := env.lookupCase(w, c03In{Certs: ord, Cap: capacity, Default: cf[0], Fallback: cf[1], SNI: q, Local: l, Storage: "empty"}, "universe"); err != nil {
								return err
							}
						}
					}
					if capacity > 0 {
						for _, stv := range []string{"valid-a", "expired-a", "wild-b+expired-zz", "due-y"} {
							for _, q := range storageQueries {
								if !take() {
									continue
								}
								total++
								if err := env.lookupCase(w, c03In{Certs: ord, Cap: capacity, Default: cf[0], Fallback: cf[1], SNI: q, Local: "127.0.0.1", Storage: stv}, "universe"); err != nil {
									return err
								}
							}
						}
					}
				}
			}
		}
	}
	w.Meta.Universe = fmt.Sprintf("lookup: %d pool certificates (exact, wildcard, double wildcard, multi-SAN, IPv4/IPv6, expired, Ed25519 = unsupported by the ClientHello), every subset of size <= 3 in two insertion orders x %d server names (case/space variants, IDN, empty, malformed) x %d default/fallback configurations x capacity in {unlimited, full} x local address (3, for empty SNI) x storage content (4, at full capacity): %d cases; MatchWildcard: all %d^2 pairs of names of <= 3 labels over {a,b,empty,*} plus case/non-ASCII variants",
		len(c03PoolDef), len(c03Queries), len(c03Configs), universeSize, len(namesU))
	w.Meta.Exhaustive = tier == "thorough"
	if tier != "thorough" {
		w.Meta.Notes = append(w.Meta.Notes, fmt.Sprintf("quick tier: %d of the %d lookup cases of the universe, sampled with VERIF_SEED", total, universeSize))
	}
	// ---- real crypto/tls handshakes over TCP loopback (the ClientHello is the real client's) ----
	nReal := 150
	if tier == "thorough" {
		nReal = 1500
	}
	realNames := []string{"", "a.x", "A.X", "b.x", "a.b.x", "q.b.x", "q.x", "q.r.x", "zz.x", "fb.y", "x", "xn--bcher-kva.x", "a.x.", "BÜCHER.x", "a_b.x", "Q.X"}
	clients := []string{"", "", "tls12-ecdsa", "tls12-rsa", "tls13", "@v6", "tls12-rsa@v6"}
	for i := 0; i < nReal; i++ {
		perm := r.Perm(len(c03PoolDef))
		n := 1 + r.Intn(4)
		ids := make([]string, n)
		for k := 0; k < n; k++ {
			ids[k] = c03PoolDef[perm[k]].ID
		}
		cf := c03Configs[r.Intn(len(c03Configs))]
		in := c03In{Certs: ids, Cap: []int{0, n}[r.Intn(2)], Default: cf[0], Fallback: cf[1], SNI: realNames[r.Intn(len(realNames))], Local: "127.0.0.1", Storage: "empty", RealTLS: true,
			Client: clients[r.Intn(len(clients))], Protos: c03ProtoSets[r.Intn(len(c03ProtoSets))]}
		if in.Cap > 0 && r.Intn(2) == 0 {
			in.Storage = []string{"valid-a", "expired-a", "wild-b+expired-zz"}[r.Intn(3)]
		}
		if r.Intn(6) == 0 {
			in.Policy = []string{"min", "max", "good-min", "refuse"}[r.Intn(4)]
		}
		if err := env.lookupCase(w, in, "real-tls"); err != nil {
			return err
		}
	}
	// ---- custom selection policies (Config.CertSelection doubles), other ClientHellos ----
	nCustom := 2500
	if tier == "thorough" {
		nCustom = 25000
	}
	allLocals := []string{"127.0.0.1", "10.0.0.1", "fe80::1", "10.0.0.1/4", "::1", "none"}
	fullPool := append(append([]c03Cert{}, c03PoolDef...), c03ExtraDef...)
	for i := 0; i < nCustom; i++ {
		perm := r.Perm(len(fullPool))
		n := r.Intn(5)
		ids := make([]string, n)
		for k := 0; k < n; k++ {
			ids[k] = fullPool[perm[k]].ID
		}
		cf := c03Configs[r.Intn(len(c03Configs))]
		allQueries := append(append([]string{}, c03Queries...), c03ExtraQueries...)
		in := c03In{Certs: ids, Cap: []int{0, 0, n, n + 1}[r.Intn(4)], Default: cf[0], Fallback: cf[1], SNI: allQueries[r.Intn(len(allQueries))],
			Local: allLocals[r.Intn(len(allLocals))], Storage: "empty",
			Policy: []string{"", "min", "max", "good-min", "good-min", "refuse"}[r.Intn(6)],
			Hello:  []string{"", "", "ed25519", "rsa", "tls12"}[r.Intn(5)],
			Protos: c03ProtoSets[r.Intn(len(c03ProtoSets))], Abort: r.Intn(12) == 0}
		if in.Cap > 0 && r.Intn(2) == 0 {
			in.Storage = []string{"valid-a", "expired-a", "wild-b+expired-zz", "broken-qb+wild-b", "broken-wild-b+valid-a", "due-y"}[r.Intn(6)]
			if r.Intn(2) == 0 {
				in.SNI = storageQueries[r.Intn(len(storageQueries))]
			}
		}
		if err := env.lookupCase(w, in, "custom-selection"); err != nil {
			return err
		}
	}
	// ---- random larger caches (almost full but not full: 9 of 10, 10 of 11) ----
	nBig := 600
	if tier == "thorough" {
		nBig = 6000
	}
	for i := 0; i < nBig; i++ {
		perm := r.Perm(len(fullPool))
		n := 4 + r.Intn(len(fullPool)-3)
		ids := make([]string, n)
		for k := 0; k < n; k++ {
			ids[k] = fullPool[perm[k]].ID
		}
		capacity := []int{0, n, n + 1, n + 2, n + 5}[r.Intn(5)]
		cf := c03Configs[r.Intn(len(c03Configs))]
		stv := []string{"empty", "empty", "valid-a", "expired-a", "wild-b+expired-zz", "broken-qb+wild-b", "broken-wild-b+valid-a", "due-y"}[r.Intn(8)]
		for k := 0; k < 6; k++ {
			q := c03Queries[r.Intn(len(c03Queries))]
			if k == 3 {
				q = c03ExtraQueries[r.Intn(len(c03ExtraQueries))]
			}
			if k >= 4 {
				q = storageQueries[r.Intn(len(storageQueries))]
			}
			if err := env.lookupCase(w, c03In{Certs: ids, Cap: capacity, Default: cf[0], Fallback: cf[1], SNI: q, Local: allLocals[r.Intn(len(allLocals))], Storage: stv,
				Hello: []string{"", "", "", "ed25519", "rsa"}[r.Intn(5)], Protos: c03ProtoSets[r.Intn(len(c03ProtoSets))], Abort: r.Intn(15) == 0}, "random-large"); err != nil {
				return err
			}
		}
	}
	det := strings.Join(env.loadedNotCovering, "; ")
	if len(det) > 300 {
		det = det[:300]
	}
	w.Meta.Oracles = append(w.Meta.Oracles,
		emit.OracleCheck{Name: "every certificate resource in the storage double is stored under one of the certificate's own names (C06)", OK: len(env.loadedNotCovering) == 0, Detail: det},
		emit.OracleCheck{Name: "the Names of every cached certificate are the DNS names and IP addresses its leaf carries", OK: len(env.namesMismatch) == 0, Detail: strings.Join(env.namesMismatch[:min(len(env.namesMismatch), 3)], "; ")},
		emit.OracleCheck{Name: "hello.SupportsCertificate was observed both true and false over the pool", OK: env.nSup > 0 && env.nUnsup > 0, Detail: fmt.Sprintf("supported=%d unsupported=%d", env.nSup, env.nUnsup)})
	return nil
}
