//go:build !skip_c07

package main

import (
	"context"
	"crypto"
	"encoding/json"
	"fmt"
	"os"
	"sort"
	"strings"
	"sync"
	"time"

	"github.com/caddyserver/certmagic"

	"verifharness/pkg/doubles"
	"verifharness/pkg/emit"
)

func init() { register("C07", c07Run) }

type c07In struct {
	Variant string     `json:"variant"`
	Cfg     c06Cfg     `json:"cfg"`
	Subj    c06Subject `json:"subject"`
	Setup   []c06Hop   `json:"setup"`
	Hop     c06Hop     `json:"hop"`
	Plan    c06Plan    `json:"plan"`
	Kind    string     `json:"kind"`
	Rec     c06Oracle  `json:"recover_oracle"`
	Backend string     `json:"backend,omitempty"` // "" = in-memory double, "filestorage-sigkill" = child process on FileStorage
}

type c07Variant struct {
	Name  string
	Cfg   c06Cfg
	Setup []c06Hop
	Hop   c06Hop
}

func c07Variants() []c07Variant {
	var vs []c07Variant
	for _, reuse := range []bool{false, true} {
		k := map[bool]string{false: "fresh-key", true: "reused-key"}[reuse]
		c1 := c06Cfg{N: 1, Reuse: reuse, KeyType: "p256"}
		c2 := c06Cfg{N: 2, Reuse: reuse, KeyType: "p256"}
		m := func(o ...c06Outcome) c06Hop { return c06Hop{Op: "manage", Orc: c06Orc(o...)} }
		vs = append(vs,
			c07Variant{"obtain/1-issuer/" + k, c1, nil, m(c06Up(10, 0))},
			c07Variant{"renew/1-issuer/" + k, c1, []c06Hop{m(c06Up(10, 1))}, m(c06Up(20, 0))},
			c07Variant{"renew-expired/1-issuer/" + k, c1, []c06Hop{m(c06Up(10, 2))}, m(c06Up(20, 0))},
			c07Variant{"renew-direct-forced/1-issuer/" + k, c1, []c06Hop{m(c06Up(10, 0))}, c06Hop{Op: "renew", Force: true, Orc: c06Orc(c06Up(20, 0))}},
			c07Variant{"obtain-direct/1-issuer/" + k, c1, nil, c06Hop{Op: "obtain", Orc: c06Orc(c06Up(10, 0))}},
			c07Variant{"obtain/2-issuers-first-down/" + k, c2, nil, m(c06Down, c06Up(10, 0))},
			c07Variant{"obtain/2-issuers/" + k, c2, nil, m(c06Up(10, 0), c06Up(10, 0))},
			c07Variant{"renew/2-issuers-same-issuer/" + k, c2, []c06Hop{m(c06Up(10, 1), c06Down)}, m(c06Up(20, 0), c06Up(20, 0))},
			c07Variant{"renew/2-issuers-old-B-new-A/" + k, c2, []c06Hop{m(c06Down, c06Up(10, 1))}, m(c06Up(20, 0), c06Up(20, 0))},
			c07Variant{"renew/2-issuers-old-A-new-B/" + k, c2, []c06Hop{m(c06Up(10, 1), c06Down)}, m(c06Down, c06Up(20, 0))},
			c07Variant{"renew/2-issuers-older-A-newer-B-new-A/" + k, c2, []c06Hop{m(c06Up(10, 1), c06Down), m(c06Down, c06Up(20, 1))}, m(c06Up(30, 0), c06Up(30, 0))},
			c07Variant{"renew/2-issuers-newer-A-older-B-new-B/" + k, c2, []c06Hop{m(c06Down, c06Up(10, 1)), m(c06Up(20, 1), c06Down)}, m(c06Down, c06Up(30, 0))},
		)
		// forced replacement of a revoked certificate (forceRenew): key compromise = quarantine the key,
		// then obtain; otherwise forced renewal. In-memory double only (the staple is planted there).
		rev := func(i int, kc bool) c06Hop { return c06Hop{Op: "revenv", I: i, KC: kc} }
		vs = append(vs,
			c07Variant{"renew-revoked-keycompromise/1-issuer/" + k, c1, []c06Hop{m(c06Up(10, 0)), rev(0, true)}, m(c06Up(20, 0))},
			c07Variant{"renew-revoked-superseded/1-issuer/" + k, c1, []c06Hop{m(c06Up(10, 0)), rev(0, false)}, m(c06Up(20, 0))},
			c07Variant{"renew-revoked-keycompromise/2-issuers-old-A-new-A/" + k, c2, []c06Hop{m(c06Up(10, 0), c06Down), rev(0, true)}, m(c06Up(20, 0), c06Up(20, 0))},
			c07Variant{"renew-revoked-keycompromise/2-issuers-old-A-new-B/" + k, c2, []c06Hop{m(c06Up(10, 0), c06Down), rev(0, true)}, m(c06Down, c06Up(20, 0))},
		)
	}
	return vs
}

func c07VariantMemoryOnly(name string) bool { return strings.HasPrefix(name, "renew-revoked-") }

var c07Seq int

// c07RunCase: set-up, faulted run, recovery by ManageSync on a fresh instance and (on a copy of the
// surviving storage) by an on-demand handshake.
func c07RunCase(w *emit.Writer, in c07In) (counted int, faulted c06Obs) {
	c07Seq++
	if in.Subj.Spelling == "" {
		n := fmt.Sprintf("c%d.c07.example", c07Seq)
		in.Subj = c06Subject{Kind: "dns", Spelling: n, Canonical: n}
	}
	bw := c06NewWorld(in.Cfg, in.Subj)
	for _, h := range in.Setup {
		bw.runHop(h, nil, false)
	}
	var s0 c06Obs
	bw.snapshot(&s0)
	plan := in.Plan
	o1 := bw.runHop(in.Hop, &plan, false)
	counted = bw.cnt
	// copy of the surviving storage for the handshake twin
	clone := doubles.NewMemBackend()
	for _, k := range bw.b.Keys() {
		v, _ := bw.b.Get(k)
		clone.Put(k, v)
	}
	bw.breakLocks()
	rec := c06Hop{Op: "manage", Orc: in.Rec}
	o2 := bw.runHop(rec, nil, true)
	twin := bw.handshakeTwin(clone)

	class, window := c07Classify(in, o1)
	e := c07Encode(bw, in, s0, o1, o2, twin)

	w.Hist("variant=" + in.Variant)
	w.Hist("kind=" + in.Kind)
	w.Hist("window=" + window)
	w.Hist(fmt.Sprintf("faulted_res=%d", o1.Res))
	w.Hist(fmt.Sprintf("recover_res=%d", o2.Res))
	w.Hist(fmt.Sprintf("twin_ok=%v", twin))
	w.Hist("class=" + class)
	key, _ := json.Marshal([]any{in.Variant, in.Plan})
	faultHit := plan.Crash >= 0 && plan.Crash < counted || plan.From >= 0 && plan.From < counted
	for _, f := range plan.Fails {
		if f < counted {
			faultHit = true
		}
	}
	w.Add(emit.Case{
		Desc: map[string]any{"class": class, "variant": in.Variant, "kind": in.Kind, "window": window,
			"reuse": in.Cfg.Reuse, "issuers": in.Cfg.N, "fresh_key": c07FreshKey(o1), "backend": "memory"},
		In: in, Obs: map[string]any{"faulted": o1, "recovered": o2, "handshake_twin_ok": twin, "storage_before": s0.St},
		Wire: e.String(), Nontrivial: faultHit, Key: string(key)})
	return counted, o1
}

// c07Classify: class of the case, from the trace of the faulted run: was the save torn between the
// Store of the new key and the Store of the new certificate, without the key being rolled back, over
// a directory that held an older certificate?
func c07Classify(in c07In, o1 c06Obs) (class, window string) {
	keyStored, crtStored, keyDeleted := false, false, false
	for _, l := range o1.Log {
		switch {
		case strings.HasPrefix(l, "Store file(") && strings.Contains(l, ",key) err=0"):
			keyStored = true
		case strings.HasPrefix(l, "Store file(") && strings.Contains(l, ",crt) err=0"):
			crtStored = true
		case strings.HasPrefix(l, "Delete file(") && strings.Contains(l, ",key) err=0") && keyStored:
			keyDeleted = true
		}
	}
	torn := keyStored && !crtStored && !keyDeleted
	class = "fault"
	if torn && c07FreshKey(o1) && strings.HasPrefix(in.Variant, "renew") {
		class = "torn-save-fresh-key-over-old-cert"
	}
	window = "outside-save"
	switch {
	case torn:
		window = "key-stored-crt-not-stored-no-rollback"
	case keyStored && crtStored:
		window = "crt-stored"
	case keyStored:
		window = "key-stored-rolled-back"
	}
	return class, window
}

// c07FreshKey: did the faulted run generate a key (no reuse, or the old key was quarantined)?
func c07FreshKey(o1 c06Obs) bool {
	for _, l := range o1.Log {
		if strings.HasPrefix(l, "GenKey ") {
			return true
		}
	}
	return false
}

// c07Encode: the wire line of one fault experiment (format of Bundle/Check.v get_case7).
func c07Encode(bw *c06World, in c07In, s0, o1, o2 c06Obs, twin bool) *emit.Enc {
	plan := in.Plan
	e := &emit.Enc{}
	c06EncCfg(e, in.Cfg)
	bw.encSubject(e)
	e.Len(len(in.Setup))
	for _, h := range in.Setup {
		c06EncHop(e, h)
		c06EncOracle(e, h.Orc)
	}
	c06EncStorage(e, s0.stEnc)
	c06EncHop(e, in.Hop)
	c06EncOracle(e, in.Hop.Orc)
	e.Len(len(plan.Fails))
	for _, f := range plan.Fails {
		e.Int(f)
	}
	if plan.From >= 0 {
		e.Bool(true).Int(plan.From)
	} else {
		e.Bool(false)
	}
	if plan.Crash >= 0 {
		e.Bool(true).Int(plan.Crash)
	} else {
		e.Bool(false)
	}
	c06EncObs(e, o1)
	c06EncOracle(e, in.Rec)
	c06EncObs(e, o2)
	e.Bool(twin)
	return e
}

// handshakeTwin: a fresh on-demand instance on a copy of the surviving storage gets a handshake for
// the name; ok = it serves an unexpired certificate whose key matches the leaf.
func (w *c06World) handshakeTwin(clone *doubles.MemBackend) bool {
	return w.handshakeTwinOn(clone.Handle("twin"))
}

func (w *c06World) handshakeTwinOn(st certmagic.Storage) bool {
	w.curInst = "twin"
	cfg, cache := w.newConfigOn(st, true)
	defer cache.Stop()
	hello, done := doubles.Hello(w.subj.Canonical)
	defer done()
	ctx, cancel := context.WithTimeout(context.Background(), 90*time.Second)
	defer cancel()
	cert, err := cfg.GetCertificateWithContext(ctx, hello)
	if err != nil || cert == nil || cert.Leaf == nil {
		return false
	}
	sg, ok := cert.PrivateKey.(crypto.Signer)
	if !ok {
		return false
	}
	return c06PubDigest(cert.Leaf.PublicKey) == c06PubDigest(sg.Public()) && cert.Leaf.NotAfter.After(time.Now())
}

func c07Run(tier string, seed int64, outdir string, replay string) error {
	w := emit.NewWriter(outdir, "C07", tier, seed)
	defer w.Close()
	w.Meta.Rule = "a case counts as non-trivial when the injected fault or crash point lies inside the operation (its index is below the number of Storage calls the faulted run made); distinct = distinct (variant, plan)"
	w.Meta.Oracles = append(w.Meta.Oracles, c06PemCodecOracle([]string{"p256"}))
	recOrc := c06Orc(c06Up(100, 0), c06Up(100, 0))
	if replay != "" {
		rc, err := loadReplay(replay)
		if err != nil {
			return err
		}
		var in c07In
		if err := json.Unmarshal(rc.In, &in); err != nil {
			return err
		}
		in.Subj = c06Subject{}
		if in.Backend == c07BackendFS || in.Backend == c07BackendFSErr {
			base, err := os.MkdirTemp("", "c07fs-")
			if err != nil {
				return err
			}
			defer os.RemoveAll(base)
			c07EmitFS(w, c07RunFSCases([]c07In{in}, base, 1))
			return nil
		}
		c07RunCase(w, in)
		return nil
	}
	// 1. fault-free runs: learn the number of Storage calls of every variant and where the save starts
	variants := c07Variants()
	type learned struct {
		L, storeKey, storeComp int
	}
	info := make([]learned, len(variants))
	for vi, v := range variants {
		in := c07In{Variant: v.Name, Cfg: v.Cfg, Setup: v.Setup, Hop: v.Hop, Rec: recOrc}
		in.Plan, in.Kind = c06Plan{From: -1, Crash: -1}, "none"
		L, o := c07RunCase(w, in)
		w.Hist(fmt.Sprintf("ops_in_faultfree_run=%d", L))
		info[vi] = learned{L: L, storeKey: -1, storeComp: -1}
		n := 0
		for _, ev := range o.logEnc {
			if ev[0] != 0 {
				continue
			}
			if ev[1] == 0 && len(ev) >= 7 && ev[2] == 0 && ev[5] == 0 && ev[6] == 0 && info[vi].storeKey < 0 {
				info[vi].storeKey = n // Store of a .key file
			}
			if ev[1] == 0 && len(ev) >= 7 && ev[2] == 0 && ev[5] == 3 && ev[6] == 0 && info[vi].storeComp < 0 {
				info[vi].storeComp = n // Store of a .key.compromised file (quarantine)
			}
			n++
		}
	}
	// 2. real process death on FileStorage, in the background (these mostly sleep: the recovery waits
	// out the dead holder's lock, about 10 s): quick = the Store of the new .key and one more crash
	// point per variant (rotating with the seed), thorough = every crash point of every variant
	var fsIns []c07In
	for vi, v := range variants {
		if c07VariantMemoryOnly(v.Name) {
			continue
		}
		ks := map[int]bool{}
		if tier == "thorough" {
			for k := 0; k < info[vi].L; k++ {
				ks[k] = true
			}
		} else {
			if info[vi].storeKey >= 0 {
				ks[info[vi].storeKey] = true
			}
			if info[vi].L > 0 {
				ks[int((seed*5+int64(vi)*7)%int64(info[vi].L))] = true
			}
		}
		var sorted []int
		for k := range ks {
			sorted = append(sorted, k)
		}
		sort.Ints(sorted)
		fcfg := v.Cfg
		fcfg.KeyType = []string{"p256", "ed25519", "p384"}[vi%3] // real key files of three types on disk
		for _, k := range sorted {
			fsIns = append(fsIns, c07In{Variant: v.Name, Cfg: fcfg, Setup: v.Setup, Hop: v.Hop, Rec: recOrc,
				Plan: c06Plan{From: -1, Crash: k}, Kind: "crash-after-k", Backend: c07BackendFS})
		}
	}
	// storage errors on the real FileStorage (wrapper-injected, in process): quick = the three Stores of the
	// save with {error at k, errors at k and k+1}; thorough = every index with {error at k, errors from k on,
	// errors at k and k+1}
	for vi, v := range variants {
		if c07VariantMemoryOnly(v.Name) {
			continue
		}
		var ks []int
		if tier == "thorough" {
			for k := 0; k < info[vi].L; k++ {
				ks = append(ks, k)
			}
		} else if info[vi].storeKey >= 0 {
			ks = []int{info[vi].storeKey, info[vi].storeKey + 1, info[vi].storeKey + 2}
		}
		for _, k := range ks {
			plans := []struct {
				kind string
				p    c06Plan
			}{
				{"error-at-k", c06Plan{Fails: []int{k}, From: -1, Crash: -1}},
				{"error-at-k-and-k+1", c06Plan{Fails: []int{k, k + 1}, From: -1, Crash: -1}},
			}
			if tier == "thorough" {
				plans = append(plans, struct {
					kind string
					p    c06Plan
				}{"errors-from-k", c06Plan{From: k, Crash: -1}})
			}
			for _, pl := range plans {
				fsIns = append(fsIns, c07In{Variant: v.Name, Cfg: v.Cfg, Setup: v.Setup, Hop: v.Hop, Rec: recOrc,
					Plan: pl.p, Kind: pl.kind, Backend: c07BackendFSErr})
			}
		}
	}
	base, err := os.MkdirTemp("", "c07fs-")
	if err != nil {
		return err
	}
	defer os.RemoveAll(base)
	fsDone := make(chan []c07FSResult, 1)
	go func() { fsDone <- c07RunFSCases(fsIns, base, 48) }()

	// 3. the in-memory double: every call index x six fault kinds
	total := 0
	for vi, v := range variants {
		base := c07In{Variant: v.Name, Cfg: v.Cfg, Setup: v.Setup, Hop: v.Hop, Rec: recOrc}
		L := info[vi].L
		for k := 0; k < L; k++ {
			plans := []struct {
				kind string
				p    c06Plan
			}{
				{"crash-after-k", c06Plan{From: -1, Crash: k}},
				{"error-at-k", c06Plan{Fails: []int{k}, From: -1, Crash: -1}},
				{"errors-from-k", c06Plan{From: k, Crash: -1}},
				{"error-at-k-and-k+1", c06Plan{Fails: []int{k, k + 1}, From: -1, Crash: -1}},
				{"error-at-k-and-k+2", c06Plan{Fails: []int{k, k + 2}, From: -1, Crash: -1}},
				{"error-at-k-crash-after-k", c06Plan{Fails: []int{k}, From: -1, Crash: k}},
			}
			if c07VariantMemoryOnly(v.Name) {
				// forceRenew goes through the retrying (Async) entry points: a storage error there is retried
				// with minutes of back-off, which the model does not have; process death needs no retry - and
				// neither do errors inside the quarantine of the compromised key, whose result is only logged
				sc := info[vi].storeComp
				if sc >= 0 && k >= sc-1 && k <= sc+1 {
					plans = plans[:2]
				} else {
					plans = plans[:1]
				}
			}
			for _, pl := range plans {
				in := base
				in.Plan, in.Kind = pl.p, pl.kind
				c07RunCase(w, in)
				total++
			}
		}
	}
	nfs := c07EmitFS(w, <-fsDone)
	w.Meta.Exhaustive = true
	w.Meta.Universe = fmt.Sprintf("%d variants (obtain/renew x fresh/reused key x 1/2 issuers x which issuer holds the old bundle) x every Storage-call index k of the fault-free run x {crash after k, error at k, errors from k on, errors at k and k+1, errors at k and k+2, error at k then crash}: %d fault experiments on the in-memory double (exhaustive); plus %d experiments on the real FileStorage (real process deaths: child SIGKILLed after call k; and wrapper-injected storage errors)", len(variants), total, nfs)
	return nil
}

const c07BackendFS = "filestorage-sigkill"
const c07BackendFSErr = "filestorage-errors"

// c07RunFSCases runs the process-death experiments, at most width at a time.
func c07RunFSCases(ins []c07In, base string, width int) []c07FSResult {
	out := make([]c07FSResult, len(ins))
	sem := make(chan struct{}, width)
	var wg sync.WaitGroup
	for i := range ins {
		in := ins[i]
		n := fmt.Sprintf("f%d-%d.c07.example", os.Getpid(), i)
		in.Subj = c06Subject{Kind: "dns", Spelling: n, Canonical: n}
		wg.Add(1)
		sem <- struct{}{}
		go func(i int, in c07In) {
			defer wg.Done()
			defer func() { <-sem }()
			out[i] = c07RunFSCase(in, base, i)
		}(i, in)
	}
	wg.Wait()
	return out
}

func c07EmitFS(w *emit.Writer, rs []c07FSResult) int {
	n := 0
	for _, r := range rs {
		if r.skip != "" {
			w.Hist("fs:skipped_boundary")
			w.Meta.Notes = append(w.Meta.Notes, "filestorage case skipped: "+r.skip)
			continue
		}
		for _, h := range r.hist {
			w.Hist(h)
		}
		w.Add(r.c)
		n++
	}
	return n
}
