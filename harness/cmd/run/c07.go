package main

import (
	"context"
	"crypto"
	"encoding/json"
	"fmt"
	"strings"
	"time"

	"verifharness/pkg/doubles"
	"verifharness/pkg/emit"
)

func init() { register("C07", runC07) }

type c07In struct {
	Variant string   `json:"variant"`
	Cfg     bCfg     `json:"cfg"`
	Subj    bSubject `json:"subject"`
	Setup   []bHop   `json:"setup"`
	Hop     bHop     `json:"hop"`
	Plan    bPlan    `json:"plan"`
	Kind    string   `json:"kind"`
	Rec     bOracle  `json:"recover_oracle"`
}

type c07Variant struct {
	Name  string
	Cfg   bCfg
	Setup []bHop
	Hop   bHop
}

func c07Variants() []c07Variant {
	var vs []c07Variant
	for _, reuse := range []bool{false, true} {
		k := map[bool]string{false: "fresh-key", true: "reused-key"}[reuse]
		c1 := bCfg{N: 1, Reuse: reuse, KeyType: "p256"}
		c2 := bCfg{N: 2, Reuse: reuse, KeyType: "p256"}
		m := func(o ...bOutcome) bHop { return bHop{Op: "manage", Orc: orc(o...)} }
		vs = append(vs,
			c07Variant{"obtain/1-issuer/" + k, c1, nil, m(up(10, 0))},
			c07Variant{"renew/1-issuer/" + k, c1, []bHop{m(up(10, 1))}, m(up(20, 0))},
			c07Variant{"renew-expired/1-issuer/" + k, c1, []bHop{m(up(10, 2))}, m(up(20, 0))},
			c07Variant{"renew-direct-forced/1-issuer/" + k, c1, []bHop{m(up(10, 0))}, bHop{Op: "renew", Force: true, Orc: orc(up(20, 0))}},
			c07Variant{"obtain-direct/1-issuer/" + k, c1, nil, bHop{Op: "obtain", Orc: orc(up(10, 0))}},
			c07Variant{"obtain/2-issuers-first-down/" + k, c2, nil, m(down, up(10, 0))},
			c07Variant{"obtain/2-issuers/" + k, c2, nil, m(up(10, 0), up(10, 0))},
			c07Variant{"renew/2-issuers-same-issuer/" + k, c2, []bHop{m(up(10, 1), down)}, m(up(20, 0), up(20, 0))},
			c07Variant{"renew/2-issuers-old-B-new-A/" + k, c2, []bHop{m(down, up(10, 1))}, m(up(20, 0), up(20, 0))},
			c07Variant{"renew/2-issuers-old-A-new-B/" + k, c2, []bHop{m(up(10, 1), down)}, m(down, up(20, 0))},
			c07Variant{"renew/2-issuers-older-A-newer-B-new-A/" + k, c2, []bHop{m(up(10, 1), down), m(down, up(20, 1))}, m(up(30, 0), up(30, 0))},
			c07Variant{"renew/2-issuers-newer-A-older-B-new-B/" + k, c2, []bHop{m(down, up(10, 1)), m(up(20, 1), down)}, m(down, up(30, 0))},
		)
	}
	return vs
}

var c07Seq int

// runC07Case: set-up, faulted run, recovery by ManageSync on a fresh instance and (on a copy of the
// surviving storage) by an on-demand handshake.
func runC07Case(w *emit.Writer, in c07In) (counted int) {
	c07Seq++
	if in.Subj.Spelling == "" {
		n := fmt.Sprintf("c%d.c07.example", c07Seq)
		in.Subj = bSubject{Kind: "dns", Spelling: n, Canonical: n}
	}
	bw := newBWorld(in.Cfg, in.Subj)
	for _, h := range in.Setup {
		bw.runHop(h, nil, false)
	}
	var s0 bObs
	bw.snapshot(&s0)
	plan := in.Plan
	o1 := bw.runHop(in.Hop, &plan, false)
	counted = bw.cnt
	// copy of the surviving storage for the handshake twin
	clone := doubles.NewMemBackend()
	for _, k := range bw.b.Keys() {
		v, _ := bw.b.Get(k)
		clone.Put(k, v)
	}
	bw.breakLocks()
	rec := bHop{Op: "manage", Orc: in.Rec}
	o2 := bw.runHop(rec, nil, true)
	twin := bw.handshakeTwin(clone)

	// class of the case, from the plan and the trace of the faulted run: was the save torn between
	// the Store of the new key and the Store of the new certificate, without the key being rolled back,
	// over a directory that held an older certificate?
	keyStored, crtStored, keyDeleted := false, false, false
	for _, l := range o1.Log {
		switch {
		case strings.HasPrefix(l, "Store file(") && strings.Contains(l, ",key) err=0"):
			keyStored = true
		case strings.HasPrefix(l, "Store file(") && strings.Contains(l, ",crt) err=0"):
			crtStored = true
		case strings.HasPrefix(l, "Delete file(") && strings.Contains(l, ",key) err=0") && keyStored:
			keyDeleted = true
		}
	}
	torn := keyStored && !crtStored && !keyDeleted
	class := "fault"
	if torn && !in.Cfg.Reuse && strings.HasPrefix(in.Variant, "renew") {
		class = "torn-save-fresh-key-over-old-cert"
	}
	window := "outside-save"
	switch {
	case torn:
		window = "key-stored-crt-not-stored-no-rollback"
	case keyStored && crtStored:
		window = "crt-stored"
	case keyStored:
		window = "key-stored-rolled-back"
	}

	e := &emit.Enc{}
	encCfg(e, in.Cfg)
	bw.encSubject(e)
	e.Len(len(in.Setup))
	for _, h := range in.Setup {
		encHop(e, h)
		encOracle(e, h.Orc)
	}
	encStorage(e, s0.stEnc)
	encHop(e, in.Hop)
	encOracle(e, in.Hop.Orc)
	e.Len(len(plan.Fails))
	for _, f := range plan.Fails {
		e.Int(f)
	}
	if plan.From >= 0 {
		e.Bool(true).Int(plan.From)
	} else {
		e.Bool(false)
	}
	if plan.Crash >= 0 {
		e.Bool(true).Int(plan.Crash)
	} else {
		e.Bool(false)
	}
	encObs(e, o1)
	encOracle(e, in.Rec)
	encObs(e, o2)
	e.Bool(twin)

	w.Hist("variant=" + in.Variant)
	w.Hist("kind=" + in.Kind)
	w.Hist("window=" + window)
	w.Hist(fmt.Sprintf("faulted_res=%d", o1.Res))
	w.Hist(fmt.Sprintf("recover_res=%d", o2.Res))
	w.Hist(fmt.Sprintf("twin_ok=%v", twin))
	w.Hist("class=" + class)
	key, _ := json.Marshal([]any{in.Variant, in.Plan})
	faultHit := plan.Crash >= 0 && plan.Crash < counted || plan.From >= 0 && plan.From < counted
	for _, f := range plan.Fails {
		if f < counted {
			faultHit = true
		}
	}
	w.Add(emit.Case{
		Desc: map[string]any{"class": class, "variant": in.Variant, "kind": in.Kind, "window": window,
			"reuse": in.Cfg.Reuse, "issuers": in.Cfg.N},
		In: in, Obs: map[string]any{"faulted": o1, "recovered": o2, "handshake_twin_ok": twin, "storage_before": s0.St},
		Wire: e.String(), Nontrivial: faultHit, Key: string(key)})
	return counted
}

// handshakeTwin: a fresh on-demand instance on a copy of the surviving storage gets a handshake for
// the name; ok = it serves an unexpired certificate whose key matches the leaf.
func (w *bWorld) handshakeTwin(clone *doubles.MemBackend) bool {
	w.curInst = "twin"
	cfg, cache := w.newConfigOn(clone.Handle("twin"), true)
	defer cache.Stop()
	hello, done := doubles.Hello(w.subj.Canonical)
	defer done()
	ctx, cancel := context.WithTimeout(context.Background(), 20*time.Second)
	defer cancel()
	cert, err := cfg.GetCertificateWithContext(ctx, hello)
	if err != nil || cert == nil || cert.Leaf == nil {
		return false
	}
	sg, ok := cert.PrivateKey.(crypto.Signer)
	if !ok {
		return false
	}
	return pubDigest(cert.Leaf.PublicKey) == pubDigest(sg.Public()) && cert.Leaf.NotAfter.After(time.Now())
}

func runC07(tier string, seed int64, outdir string, replay string) error {
	w := emit.NewWriter(outdir, "C07", tier, seed)
	defer w.Close()
	w.Meta.Rule = "a case counts as non-trivial when the injected fault or crash point lies inside the operation (its index is below the number of Storage calls the faulted run made); distinct = distinct (variant, plan)"
	w.Meta.Oracles = append(w.Meta.Oracles, pemCodecOracle([]string{"p256"}))
	recOrc := orc(up(100, 0), up(100, 0))
	if replay != "" {
		rc, err := loadReplay(replay)
		if err != nil {
			return err
		}
		var in c07In
		if err := json.Unmarshal(rc.In, &in); err != nil {
			return err
		}
		in.Subj = bSubject{}
		runC07Case(w, in)
		return nil
	}
	total := 0
	for _, v := range c07Variants() {
		base := c07In{Variant: v.Name, Cfg: v.Cfg, Setup: v.Setup, Hop: v.Hop, Rec: recOrc}
		// fault-free run: learn the number of Storage calls
		in := base
		in.Plan, in.Kind = bPlan{From: -1, Crash: -1}, "none"
		L := runC07Case(w, in)
		w.Hist(fmt.Sprintf("ops_in_faultfree_run=%d", L))
		for k := 0; k < L; k++ {
			plans := []struct {
				kind string
				p    bPlan
			}{
				{"crash-after-k", bPlan{From: -1, Crash: k}},
				{"error-at-k", bPlan{Fails: []int{k}, From: -1, Crash: -1}},
				{"errors-from-k", bPlan{From: k, Crash: -1}},
				{"error-at-k-and-k+1", bPlan{Fails: []int{k, k + 1}, From: -1, Crash: -1}},
				{"error-at-k-and-k+2", bPlan{Fails: []int{k, k + 2}, From: -1, Crash: -1}},
				{"error-at-k-crash-after-k", bPlan{Fails: []int{k}, From: -1, Crash: k}},
			}
			for _, pl := range plans {
				in := base
				in.Plan, in.Kind = pl.p, pl.kind
				runC07Case(w, in)
				total++
			}
		}
	}
	w.Meta.Exhaustive = true
	w.Meta.Universe = fmt.Sprintf("%d variants (obtain/renew x fresh/reused key x 1/2 issuers x which issuer holds the old bundle) x every Storage-call index k of the fault-free run x {crash after k, error at k, errors from k on, errors at k and k+1, errors at k and k+2, error at k then crash}: %d fault experiments", len(c07Variants()), total)
	return nil
}
