//go:build !skip_c17c19_mock

package main

import (
	"crypto/x509"
	"encoding/pem"
	"fmt"
	"os"
	"os/exec"
	"path/filepath"
	"strings"
	"sync"
	"time"

	"verifharness/pkg/mockca"
)

// c1719Env is a pair of mock ACME CAs (production over HTTPS, test over plain HTTP on 127.0.0.1)
// shared by many cases that run at the same time. A case is recognised at the CA by the contact
// address of the account that signed the request ("mailto:<tag>@example.com"); every newOrder
// request is logged per tag with its arrival instant, and answered as the case's script says.
type c1719Env struct {
	cas []*mockca.CA // 0 production, 1 test

	mu      sync.Mutex
	scripts map[string]*c1719Script
}

// c1719Order is one newOrder request as the CA saw it.
type c1719Order struct {
	CA      int       `json:"ca"`      // 0 production, 1 test
	Outcome string    `json:"outcome"` // ok | 429 | fail
	At      time.Time `json:"-"`
	AtNs    int64     `json:"at_ns"`
	Seq     int       `json:"-"`               // index of the request in the CA's own log
	Names   []string  `json:"names,omitempty"` // identifiers of the order (from the CA's log; filled by ordersWithNames)
}

type c1719Script struct {
	// outcomes of the successive orders of this case at each CA; "ok" when the list is exhausted
	perCA  [2][]string
	seen   [2]int
	orders []c1719Order
	t0     time.Time
}

func c1719NewEnv() *c1719Env {
	env := &c1719Env{scripts: map[string]*c1719Script{}}
	env.cas = []*mockca.CA{
		mockca.New(mockca.Options{TLS: true, AutoValidate: true}),
		mockca.New(mockca.Options{TLS: false, AutoValidate: true}),
	}
	for i := range env.cas {
		env.cas[i].Hook = env.hook(i)
	}
	return env
}

func (env *c1719Env) close() {
	for _, c := range env.cas {
		c.Close()
	}
}

// register installs the script of a case; t0 is the origin of the recorded instants.
func (env *c1719Env) register(tag string, prod, test []string, t0 time.Time) {
	env.mu.Lock()
	env.scripts[tag] = &c1719Script{perCA: [2][]string{prod, test}, t0: t0}
	env.mu.Unlock()
}

// orders returns a copy of the order log of a case.
func (env *c1719Env) orders(tag string) []c1719Order {
	env.mu.Lock()
	defer env.mu.Unlock()
	s := env.scripts[tag]
	if s == nil {
		return nil
	}
	return append([]c1719Order(nil), s.orders...)
}

// ordersWithNames is orders plus the identifiers each order was for, read from the CAs' request
// logs (the hook runs before the payload is parsed). Call it when the case's requests are done.
func (env *c1719Env) ordersWithNames(tag string) []c1719Order {
	os := env.orders(tag)
	logs := [][]mockca.Request{env.cas[0].Requests(), env.cas[1].Requests()}
	for i := range os {
		if l := logs[os[i].CA]; os[i].Seq < len(l) {
			os[i].Names = l[os[i].Seq].Identifiers
		}
	}
	return os
}

func (env *c1719Env) tagOf(c int, kid string) string {
	for _, a := range env.cas[c].Accounts() {
		if a.URL == kid {
			for _, ct := range a.Contact {
				if strings.HasPrefix(ct, "mailto:") {
					return strings.TrimSuffix(strings.TrimPrefix(ct, "mailto:"), "@example.com")
				}
			}
		}
	}
	return ""
}

func (env *c1719Env) hook(c int) func(*mockca.Request) *mockca.Problem {
	return func(q *mockca.Request) *mockca.Problem {
		if q.Kind != "newOrder" {
			return nil
		}
		now := time.Now()
		tag := env.tagOf(c, q.Kid)
		env.mu.Lock()
		defer env.mu.Unlock()
		s := env.scripts[tag]
		if s == nil {
			return nil
		}
		out := "ok"
		if k := s.seen[c]; k < len(s.perCA[c]) {
			out = s.perCA[c][k]
		}
		s.seen[c]++
		s.orders = append(s.orders, c1719Order{CA: c, Outcome: out, At: now, AtNs: int64(now.Sub(s.t0)), Seq: q.Seq})
		switch out {
		case "429":
			return mockca.Prob(429, "rateLimited", "too many certificates already issued (scripted)")
		case "fail":
			return mockca.Prob(403, "unauthorized", "order refused (scripted)")
		}
		return nil
	}
}

// signerOf says which of the two CAs signed the leaf of a PEM chain: 0 production, 1 test,
// -1 neither / no certificate. Decided by the signature alone.
func (env *c1719Env) signerOf(chainPEM []byte) int {
	blk, _ := pem.Decode(chainPEM)
	if blk == nil {
		return -1
	}
	leaf, err := x509.ParseCertificate(blk.Bytes)
	if err != nil {
		return -1
	}
	for i, c := range env.cas {
		if leaf.CheckSignatureFrom(c.Signer.Cert) == nil {
			return i
		}
	}
	return -1
}

// c1719ScratchRepo copies the library's non-test Go files, go.mod/go.sum and internal/ from
// $VERIF_REPO into a fresh directory under the run's temp dir, for classes that compile and run an
// in-package test as a separate process (race detector; a shrunk retry horizon). The repository
// itself is never touched.
func c1719ScratchRepo(prefix string) (dir string, cleanup func(), err error) {
	repo := os.Getenv("VERIF_REPO")
	if repo == "" {
		repo = "/repo"
	}
	tmp, err := os.MkdirTemp("", prefix)
	if err != nil {
		return "", nil, err
	}
	cleanup = func() { os.RemoveAll(tmp) }
	ents, err := os.ReadDir(repo)
	if err != nil {
		cleanup()
		return "", nil, err
	}
	for _, e := range ents {
		n := e.Name()
		if e.IsDir() || strings.HasSuffix(n, "_test.go") || !(strings.HasSuffix(n, ".go") || n == "go.mod" || n == "go.sum") {
			continue
		}
		b, err := os.ReadFile(filepath.Join(repo, n))
		if err == nil {
			err = os.WriteFile(filepath.Join(tmp, n), b, 0o644)
		}
		if err != nil {
			cleanup()
			return "", nil, err
		}
	}
	if err := exec.Command("cp", "-r", filepath.Join(repo, "internal"), filepath.Join(tmp, "internal")).Run(); err != nil {
		cleanup()
		return "", nil, fmt.Errorf("copying internal/: %v", err)
	}
	return tmp, cleanup, nil
}

// c1719GoEnv is the environment for a go command run by the harness (offline, local toolchain).
func c1719GoEnv(cgo bool) []string {
	env := append(os.Environ(), "GOFLAGS=-mod=mod", "GOPROXY=off", "GOSUMDB=off", "GOTOOLCHAIN=local")
	if cgo {
		env = append(env, "CGO_ENABLED=1")
	}
	return env
}
