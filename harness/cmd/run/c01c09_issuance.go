//go:build !skip_c01c09_issuance

package main

// Lock-step driver shared by C01 and C09: runs obtainCert / renewCert / manageOne /
// CleanStorage / updateARI of the real certmagic code as goroutines ("threads", one certmagic
// instance each) against one gated in-memory storage+Locker, one visible operation at a time,
// and records the global trace (thread, injected fault, operation, key class, outcome) for the
// Coq model (coq/theories/Issuance) to replay.

import (
	"context"
	"crypto/tls"
	"crypto/x509"
	"encoding/json"
	"encoding/pem"
	"errors"
	"fmt"
	"io/fs"
	"math/rand"
	"net/http"
	"net/url"
	"sort"
	"strconv"
	"strings"
	"sync"
	"time"

	"github.com/caddyserver/certmagic"
	"github.com/mholt/acmez/v3/acme"
	"go.uber.org/zap"
	"golang.org/x/net/idna"

	"verifharness/pkg/doubles"
	"verifharness/pkg/emit"
	"verifharness/pkg/mockca09"
)

const (
	c01fNone   = 0
	c01fErr    = 1
	c01fCancel = 2
	c01fPanic  = 3
)

var c01FaultNames = []string{"none", "error", "cancel", "panic"}

type c01issThread struct {
	Prog     string `json:"prog"` // obtain | renew | manage | clean | ari
	Async    bool   `json:"async,omitempty"`
	Name     string `json:"name,omitempty"`
	Reuse    bool   `json:"reuse,omitempty"`
	NoChk    bool   `json:"nochk,omitempty"`
	Force    bool   `json:"force,omitempty"`
	IssDue   bool   `json:"issdue,omitempty"`
	Interval bool   `json:"interval,omitempty"`              // clean: opts.Interval > 0
	Newer    bool   `json:"newer,omitempty"`                 // ari: storage holds newer renewal info
	Cb       bool   `json:"cb,omitempty"`                    // acct: NewAccountFunc configured
	Email    string `json:"email,omitempty"`                 // acct: account e-mail address
	Store    int    `json:"store,omitempty"`                 // index of the storage this instance uses (cases with several separate storages in one process)
	Decliner bool   `json:"first_issuer_declines,omitempty"` // Issuers = [an issuer that always declines, the shared issuer double]
	NilMeta  bool   `json:"issuer_without_metadata,omitempty"` // the issuer double returns IssuedCertificate.Metadata == nil (custom / fallback issuer)
}

type c01issSeed struct {
	Name string `json:"name"`
	Kind string `json:"kind"` // fresh | due | keyonly | nokey | nometa | mismatch
}

type c01issCase struct {
	Threads          []c01issThread    `json:"threads"`
	Seeds            []c01issSeed      `json:"seeds,omitempty"`
	LastClean        string            `json:"last_clean,omitempty"` // "" | recent | old
	Policy           string            `json:"policy"`               // seq | rr | random | sticky | script
	SchedSeed        int64             `json:"sched_seed,omitempty"`
	Script           []int             `json:"script,omitempty"`
	Pause            map[string]string `json:"pause,omitempty"`  // tid -> "Kind:keysuffix": hold the thread back at that gate while others can run
	Faults           map[string]int    `json:"faults,omitempty"` // "tid:opindex" or "tid:Kind:keysuffix" -> fault
	AllowOverlap     bool              `json:"allow_overlap,omitempty"`
	AllowSaveFault   bool              `json:"allow_save_fault,omitempty"`
	AllowUnlockFault bool              `json:"allow_unlock_fault,omitempty"`
	AcctSeed         map[string]string `json:"acct_seed,omitempty"`   // e-mail -> full | regonly: account already in storage
	CancelWait       map[string]int    `json:"cancel_wait,omitempty"` // tid -> cancel the request after it has been waiting for its lock for that many steps of others
	Backend          string            `json:"backend,omitempty"`     // "" in-memory Locker double | "file": the real FileStorage behind the gate
	// file back-end: the instance that held the turn of thread 0's lock died and left its lock file behind:
	// "empty" (killed between the O_EXCL create and the write of the timestamp), "stale" (timestamp an hour old),
	// "fresh" (timestamp of this moment: the waiters take over after the staleness bound of 2 x 5 s),
	// "empty-fresh" (empty and just modified: given up after the same bound). "empty" and "stale" files are an hour old.
	CrashLock string `json:"crash_lock,omitempty"`
	// tid -> milliseconds the driver lets pass (once) before it grants the gate the thread is paused at, while
	// nothing else can run: a slow holder. A waiter must still be waiting afterwards (FileStorage keeps the
	// lock file fresh beyond the staleness bound).
	HoldMs map[string]int `json:"hold_ms,omitempty"`
	// number of separate storages (default 1). Instances on different storages share nothing but the
	// process: in particular the package-level record of held locks, which is keyed by lock name only.
	Stores int `json:"stores,omitempty"`
	// the Locker grants an uncontended lock to a cancelled context (FileStorage does; the in-memory double
	// on request): a cancel fault at the Lock gate then ends the context while Lock is in progress and the
	// lock is granted anyway. In the model that is an acquisition followed by a cancellation that takes
	// effect at the request's next operation, so the label is recorded there.
	LockIgnoresCtx bool   `json:"lock_ignores_ctx,omitempty"`
	Class          string `json:"class"`
}

type c01issStep struct {
	Tid   int    `json:"t"`
	Fault int    `json:"f"`
	Op    [4]int `json:"-"`
	Out   int    `json:"out"`
	Desc  string `json:"op"`
}

type c01issObs struct {
	Cfgs         [][]int      `json:"-"`
	Init         [][]int      `json:"-"`
	Steps        []c01issStep `json:"steps"`
	Results      []int        `json:"results"`
	Seen         []int        `json:"seen"`
	Final        [][]int      `json:"final"`
	RwLeft       int          `json:"rw_left"`
	LastPresent  int          `json:"last_clean_present"`
	Held         int          `json:"held_locks"`
	Recorded     int          `json:"recorded_locks"`
	AfterCleanup int          `json:"after_cleanup"` // locks still held + still recorded after CleanUpOwnLocks
	Issues       int          `json:"issues"`
	Overlap      bool         `json:"overlap"`
	SaveFault    bool         `json:"save_fault"`
	Deadlock     bool         `json:"deadlock"`
	Sched        []int        `json:"-"`
	Names        []string     `json:"names"`
	LockNames    []string     `json:"lock_names"`
}

type c01Intern struct {
	m map[string]int
	l []string
}

func (t *c01Intern) id(s string) int {
	if t.m == nil {
		t.m = map[string]int{}
	}
	if i, ok := t.m[s]; ok {
		return i
	}
	i := len(t.l)
	t.m[s] = i
	t.l = append(t.l, s)
	return i
}

type c01issArrival struct {
	tid   int
	op    doubles.Op
	reply chan int
	done  bool
	res   int
}

const (
	c01stRunning = iota
	c01stGate
	c01stBlocked
	c01stDone
)

type c01issRT struct {
	id       int
	spec     c01issThread
	inst     string
	cfg      *certmagic.Config
	cache    *certmagic.Cache
	storage  certmagic.Storage
	ctx      context.Context
	cancel   context.CancelFunc
	eff      string // effective name the operation works with
	lockKey  string
	ascii    string
	state    int
	gate     *c01issArrival
	nops     int
	res      int
	canc     bool
	inSave   bool
	midLoad  bool
	waitLock string
	unpaused bool
	ariCert  certmagic.Certificate
	acme     *certmagic.ACMEIssuer
	waited   int
	heldBack bool
	pendCanc bool // a cancellation at the Lock gate whose label is recorded at the next operation
	usedF    map[string]bool
}

type c01issEnv struct {
	cs       c01issCase
	b        c01Backend   // storage 0 (and the shared log)
	bs       []c01Backend // all storages
	ca       *doubles.CA
	names    c01Intern
	lockT    c01Intern
	ids      c01Intern
	threads  []*c01issRT
	arrivals chan *c01issArrival
	mu       sync.Mutex
	alloc    int64
	obs      c01issObs
	rnd      *rand.Rand
	last     int
	scriptI  int
	acctKeys map[string][2]int    // storage key -> (name class, kind) of account registrations / keys
	acctName map[string][2]string // "acct:<email>" -> registration key, private-key key
}

// the mock ACME server of the account-registration program (one per process)
var c09CA *mockca09.CA
var c09CAOnce sync.Once

var c01ErrInjected = errors.New("injected fault")

type c01issPanic struct{}

var c01issCA *doubles.CA
var c01issCAOnce sync.Once

func c01ToASCII(name string) string {
	a, err := idna.ToASCII(name)
	if err != nil {
		return name
	}
	return a
}

// ---- doubles specific to this driver

type c01issIssuer struct {
	e  *c01issEnv
	rt *c01issRT
}

func (i *c01issIssuer) IssuerKey() string { return "dbl" }

func (i *c01issIssuer) Issue(ctx context.Context, csr *x509.CertificateRequest) (*certmagic.IssuedCertificate, error) {
	var names []string
	names = append(names, csr.DNSNames...)
	for _, ip := range csr.IPAddresses {
		names = append(names, ip.String())
	}
	key := "dbl:" + strings.ToLower(strings.Join(names, ","))
	if _, err := i.e.b.GetLog().Begin(doubles.Op{Inst: i.rt.inst, Kind: "IssueStart", Key: key}); err != nil {
		return nil, err
	}
	i.e.mu.Lock()
	serial := 5000 + i.e.alloc
	i.e.alloc++
	i.e.mu.Unlock()
	back := time.Hour
	if i.rt.spec.IssDue {
		back = 80 * 24 * time.Hour
	}
	nb := time.Now().Add(-back)
	chain, _, _, lerr := i.e.ca.Leaf(doubles.LeafOpts{Names: names, NotBefore: nb, NotAfter: nb.Add(90 * 24 * time.Hour), Pub: csr.PublicKey, Serial: serial})
	if _, err := i.e.b.GetLog().Begin(doubles.Op{Inst: i.rt.inst, Kind: "IssueEnd", Key: key}); err != nil {
		return nil, err
	}
	if lerr != nil {
		return nil, lerr
	}
	if err := ctx.Err(); err != nil {
		return nil, err
	}
	if i.rt.spec.NilMeta {
		return &certmagic.IssuedCertificate{Certificate: chain}, nil
	}
	return &certmagic.IssuedCertificate{Certificate: chain, Metadata: map[string]any{"issuer_double": "dbl"}}, nil
}

func (i *c01issIssuer) GetRenewalInfo(ctx context.Context, cert certmagic.Certificate) (acme.RenewalInfo, error) {
	if _, err := i.e.b.GetLog().Begin(doubles.Op{Inst: i.rt.inst, Kind: "AriGet", Key: "dbl"}); err != nil {
		return acme.RenewalInfo{}, err
	}
	ra := time.Now().Add(6 * time.Hour)
	ri := acme.RenewalInfo{RetryAfter: &ra}
	ri.SuggestedWindow.Start = time.Now().Add(30 * 24 * time.Hour)
	ri.SuggestedWindow.End = time.Now().Add(31 * 24 * time.Hour)
	ri.SelectedTime = time.Now().Add(30*24*time.Hour + time.Hour)
	return ri, nil
}

// c01Decliner: an issuer that refuses every order (no gate, no trace)
type c01Decliner struct{}

func (c01Decliner) IssuerKey() string { return "decl" }
func (c01Decliner) Issue(context.Context, *x509.CertificateRequest) (*certmagic.IssuedCertificate, error) {
	return nil, errors.New("this issuer declines the order")
}

var _ certmagic.Issuer = (*c01issIssuer)(nil)
var _ certmagic.RenewalInfoGetter = (*c01issIssuer)(nil)

// ---- set-up

func (e *c01issEnv) siteKeys(nm string) (k, c, m string) {
	return "certificates/dbl/" + nm + "/" + nm + ".key", "certificates/dbl/" + nm + "/" + nm + ".crt", "certificates/dbl/" + nm + "/" + nm + ".json"
}

func (e *c01issEnv) seed() error {
	for i, s := range e.cs.Seeds {
		ascii := c01ToASCII(s.Name)
		nm := certmagic.StorageKeys.Safe(ascii)
		put := func(key string, v []byte, init func(n int) []int) {
			for si, b := range e.bs {
				b.Put(key, v)
				pf := ""
				if si > 0 {
					pf = strconv.Itoa(si) + "|"
				}
				e.obs.Init = append(e.obs.Init, init(e.names.id(pf+nm)))
			}
		}
		nb, na := time.Now().Add(-time.Hour), time.Now().Add(89*24*time.Hour)
		due := 0
		if s.Kind == "due" {
			nb, na = time.Now().Add(-80*24*time.Hour), time.Now().Add(10*24*time.Hour)
			due = 1
		}
		chain, _, keyPEM, err := e.ca.Leaf(doubles.LeafOpts{Names: []string{ascii}, NotBefore: nb, NotAfter: na, Serial: int64(4000 + i)})
		if err != nil {
			return err
		}
		cid, kid := 1000+i, 500+i
		meta, _ := json.MarshalIndent(certmagic.CertificateResource{SANs: []string{ascii}, IssuerData: json.RawMessage(`{"issuer_double":"dbl"}`)}, "", "\t")
		if s.Kind == "aridue" {
			// the leaf is fresh, but the stored ACME metadata carries renewal information whose selected time has
			// passed: due because of ARI alone (ARI is enabled by default)
			ra := time.Now().Add(6 * time.Hour)
			ri := acme.RenewalInfo{RetryAfter: &ra}
			ri.SuggestedWindow.Start = time.Now().Add(-48 * time.Hour)
			ri.SuggestedWindow.End = time.Now().Add(-24 * time.Hour)
			ri.SelectedTime = time.Now().Add(-36 * time.Hour)
			idata, _ := json.Marshal(acme.Certificate{RenewalInfo: &ri})
			meta, _ = json.MarshalIndent(certmagic.CertificateResource{SANs: []string{ascii}, IssuerData: idata}, "", "\t")
			due = 1
		}
		kk, kc, km := e.siteKeys(nm)
		putK, putC, putM := true, true, true
		switch s.Kind {
		case "keyonly":
			putC, putM = false, false
		case "nokey":
			putK = false
		case "nometa":
			putM = false
		case "mismatch":
			_, _, other, err := e.ca.Leaf(doubles.LeafOpts{Names: []string{ascii}, Serial: int64(4500 + i)})
			if err != nil {
				return err
			}
			keyPEM = other
			kid += 100
		}
		if putK {
			put(kk, keyPEM, func(n int) []int { return []int{0, n, 0, 0, kid, 0, 0} })
		}
		if putC {
			ckid := kid
			if s.Kind == "mismatch" {
				ckid = kid - 100
			}
			put(kc, chain, func(n int) []int { return []int{0, n, 1, 1, cid, ckid, due} })
		}
		if putM {
			put(km, meta, func(n int) []int { return []int{0, n, 2, 2, cid, 0, 0} })
		}
	}
	switch e.cs.LastClean {
	case "recent", "old":
		ts := time.Now()
		rec := 1
		if e.cs.LastClean == "old" {
			ts = ts.Add(-48 * time.Hour)
			rec = 0
		}
		b, _ := json.Marshal(map[string]any{"tls": map[string]any{"timestamp": ts, "instance_id": "seed"}})
		for _, bk := range e.bs {
			bk.Put("last_clean.json", b)
		}
		e.obs.Init = append(e.obs.Init, []int{2, 0, 0, 4, rec, 0, 0})
	}
	return nil
}

func c01B2i(b bool) int {
	if b {
		return 1
	}
	return 0
}

func (e *c01issEnv) setupThread(i int, sp c01issThread) (*c01issRT, error) {
	rt := &c01issRT{id: i, spec: sp, inst: "t" + strconv.Itoa(i), usedF: map[string]bool{}}
	if sp.Store < 0 || sp.Store >= len(e.bs) {
		return nil, fmt.Errorf("thread %d: no storage %d", i, sp.Store)
	}
	rt.storage = e.bOf(rt).Handle(rt.inst)
	iss := &c01issIssuer{e: e, rt: rt}
	tmpl := certmagic.Config{ReusePrivateKeys: sp.Reuse, DisableStorageCheck: sp.NoChk}
	tmpl.OnEvent = func(ctx context.Context, event string, data map[string]any) error {
		_, err := e.b.GetLog().Begin(doubles.Op{Inst: rt.inst, Kind: "Event", Key: event})
		return err
	}
	if sp.Prog == "handshake" {
		// an on-demand TLS handshake for a name that is not in the cache: decision, load from storage,
		// obtain (ObtainCertAsync under the handshake's 180 s timeout), load again. ARI refreshes run in
		// a background goroutine of their own and are switched off here.
		tmpl.OnDemand = &certmagic.OnDemandConfig{DecisionFunc: func(context.Context, string) error { return nil }}
		tmpl.DisableARI = true
	}
	if sp.Decliner {
		// a config whose preferred issuer declines and which falls through to the shared one (issuer lists being
		// re-ordered / extended during a roll-out). Its look-ups under the declining issuer's key find nothing and are
		// let through ungated (hook); in the model the declining issuer is a no-op prefix of the single-issuer program.
		rt.cfg, rt.cache = doubles.NewConfig(rt.storage, tmpl, certmagic.CacheOptions{}, c01Decliner{}, iss)
	} else {
		rt.cfg, rt.cache = doubles.NewConfig(rt.storage, tmpl, certmagic.CacheOptions{}, iss)
	}
	rt.ctx, rt.cancel = context.WithCancel(context.Background())
	rt.eff = sp.Name
	progCode, flag := 0, c01B2i(sp.Async)
	switch sp.Prog {
	case "obtain":
	case "renew":
		progCode = 1
	case "manage":
		progCode, flag = 2, 0
		rt.eff = certmagic.VerifLocksNormalizedName(sp.Name)
	case "handshake":
		// In the model this request is the ManageSync program: without faults of its own the operations are
		// the same (load; obtain: pre-check, lock, re-check, issue, save, unlock; load; cache) -- the retry loop
		// of ObtainCertAsync and the wildcard look-up (filtered out in the hook) differ only off this path.
		progCode, flag = 2, 0
		if a, err := idna.Lookup.ToASCII(strings.TrimSpace(sp.Name)); err == nil {
			rt.eff = a // getNameFromClientHello
		}
	case "clean":
		progCode, flag = 3, c01B2i(sp.Interval)
	case "ari":
		progCode, flag = 4, c01B2i(sp.Newer)
	case "acct":
		progCode, flag = 5, c01B2i(sp.Cb)
	default:
		return nil, fmt.Errorf("unknown program %q", sp.Prog)
	}
	rt.ascii = c01ToASCII(rt.eff)
	lk, pk, vk, idn := 0, 0, 0, 0
	switch sp.Prog {
	case "acct":
		c09CAOnce.Do(func() {
			c09CA = mockca09.New(mockca09.Options{AutoValidate: true, SkipSignatureCheck: true, NoKeepAlive: true})
			// acmez caches the directory of a CA process-wide: fetch it once so that every run sees
			// the same request sequence (newNonce, newAccount)
			wcfg, wcache := doubles.NewConfig(doubles.NewMemBackend().Handle("warm"), certmagic.Config{}, certmagic.CacheOptions{})
			wiss := certmagic.NewACMEIssuer(wcfg, certmagic.ACMEIssuer{CA: c09CA.URL, Agreed: true, Logger: zap.NewNop(),
				HTTPProxy: func(*http.Request) (*url.URL, error) { return nil, nil }})
			certmagic.VerifLocksSetEmail(wiss, "warm-up@example.com")
			certmagic.VerifLocksNewACMEClientWithAccount(context.Background(), wiss, false, false)
			wcache.Stop()
		})
		email := sp.Email
		if email == "" {
			email = "acct@example.com"
		}
		tmplIss := certmagic.ACMEIssuer{CA: c09CA.URL, Email: email, Agreed: true, Logger: zap.NewNop(),
			// every request to the CA passes the issuer's proxy callback, on the caller's goroutine: the gate
			HTTPProxy: func(req *http.Request) (*url.URL, error) {
				_, err := e.b.GetLog().Begin(doubles.Op{Inst: rt.inst, Kind: "CAReq", Key: req.URL.Path})
				return nil, err
			}}
		if sp.Cb {
			tmplIss.NewAccountFunc = func(ctx context.Context, _ *certmagic.ACMEIssuer, acct acme.Account) (acme.Account, error) {
				_, err := e.b.GetLog().Begin(doubles.Op{Inst: rt.inst, Kind: "Event", Key: "new_account_func"})
				return acct, err
			}
		}
		rt.acme = certmagic.NewACMEIssuer(rt.cfg, tmplIss)
		certmagic.VerifLocksSetEmail(rt.acme, email)
		rt.lockKey = certmagic.VerifLocksAccountRegLockKey(email)
		reg, key := certmagic.VerifLocksAccountStorageKeys(rt.acme, c09CA.URL, email)
		nm := "acct:" + email
		vk = e.names.id(e.pfx(rt) + nm)
		pk = vk
		if _, done := e.acctName[nm]; !done {
			e.acctName[nm] = [2]string{reg, key}
			e.acctKeys[reg] = [2]int{vk, 2}
			e.acctKeys[key] = [2]int{vk, 0}
			if kind := e.cs.AcctSeed[email]; kind != "" {
				regJSON, _ := json.Marshal(acme.Account{Status: "valid", Contact: []string{"mailto:" + email}, Location: c09CA.Base + "/acct/seeded"})
				e.bOf(rt).Put(reg, regJSON)
				e.obs.Init = append(e.obs.Init, []int{0, vk, 2, 2, 0, 0, 0})
				if kind == "full" {
					_, _, keyPEM, err := e.ca.Leaf(doubles.LeafOpts{Names: []string{"acct.example"}, Serial: 4900})
					if err != nil {
						return nil, err
					}
					e.bOf(rt).Put(key, keyPEM)
					e.obs.Init = append(e.obs.Init, []int{0, vk, 0, 0, 0, 0, 0})
				}
			}
		}
	case "clean":
		rt.lockKey = "storage_clean"
	case "ari":
		// the certificate is cached before the run starts (not part of the trace)
		cert, err := rt.cfg.CacheManagedCertificate(context.Background(), rt.eff)
		if err != nil {
			return nil, fmt.Errorf("ari set-up: %v", err)
		}
		rt.ariCert = cert
		rt.lockKey = "ari_" // no ARI identifier in the double's metadata
		if sp.Newer {
			ra := time.Now().Add(3 * time.Hour)
			ri := acme.RenewalInfo{RetryAfter: &ra}
			ri.SuggestedWindow.Start = time.Now().Add(30 * 24 * time.Hour)
			ri.SuggestedWindow.End = time.Now().Add(31 * 24 * time.Hour)
			idata, _ := json.Marshal(acme.Certificate{RenewalInfo: &ri})
			meta, _ := json.MarshalIndent(certmagic.CertificateResource{SANs: []string{rt.ascii}, IssuerData: idata}, "", "\t")
			_, _, km := e.siteKeys(certmagic.StorageKeys.Safe(rt.ascii))
			e.bOf(rt).Put(km, meta)
		}
		vk = e.names.id(e.pfx(rt) + certmagic.StorageKeys.Safe(cert.Names[0]))
		if sp.Newer {
			for _, in := range e.obs.Init {
				if in[0] == 0 && in[1] == vk && in[2] == 2 {
					in[3] = 5 // metadata with renewal information
				}
			}
		}
		pk = vk
	default:
		rt.lockKey = certmagic.VerifLocksIssueLockKey(rt.cfg, rt.eff)
		pk = e.names.id(e.pfx(rt) + certmagic.StorageKeys.Safe(rt.eff))
		vk = e.names.id(e.pfx(rt) + certmagic.StorageKeys.Safe(rt.ascii))
		idn = e.ids.id(e.pfx(rt) + "dbl:" + strings.ToLower(rt.ascii))
	}
	lk = e.lockID(rt, rt.lockKey)
	e.obs.Cfgs = append(e.obs.Cfgs, []int{progCode, flag, lk, pk, vk, idn, c01B2i(sp.Reuse), c01B2i(!sp.NoChk), c01B2i(sp.Force), c01B2i(sp.IssDue)})
	return rt, nil
}

func (e *c01issEnv) body(rt *c01issRT) (res int) {
	defer func() {
		if r := recover(); r != nil {
			res = 2
		}
	}()
	var err error
	sp := rt.spec
	switch sp.Prog {
	case "obtain":
		if sp.Async {
			err = rt.cfg.ObtainCertAsync(rt.ctx, sp.Name)
		} else {
			err = rt.cfg.ObtainCertSync(rt.ctx, sp.Name)
		}
	case "renew":
		if sp.Async {
			err = rt.cfg.RenewCertAsync(rt.ctx, sp.Name, sp.Force)
		} else {
			err = rt.cfg.RenewCertSync(rt.ctx, sp.Name, sp.Force)
		}
	case "manage":
		err = rt.cfg.ManageSync(rt.ctx, []string{sp.Name})
	case "handshake":
		hello, closeConn := doubles.Hello(sp.Name)
		defer closeConn()
		_, err = rt.cfg.GetCertificateWithContext(rt.ctx, hello)
	case "clean":
		opts := certmagic.CleanStorageOptions{Logger: zap.NewNop(), InstanceID: rt.inst, OCSPStaples: true, ExpiredCerts: true, ExpiredCertGracePeriod: time.Hour}
		if sp.Interval {
			opts.Interval = 12 * time.Hour
		}
		err = certmagic.CleanStorage(rt.ctx, rt.storage, opts)
	case "ari":
		_, _, err = certmagic.VerifLocksUpdateARI(rt.ctx, rt.cfg, rt.ariCert)
	case "acct":
		_, err = certmagic.VerifLocksNewACMEClientWithAccount(rt.ctx, rt.acme, false, false)
	}
	if err != nil {
		return 1
	}
	return 0
}

func (e *c01issEnv) hook(op *doubles.Op) error {
	if !strings.HasPrefix(op.Inst, "t") {
		return nil
	}
	tid, err := strconv.Atoi(op.Inst[1:])
	if err != nil || tid >= len(e.threads) {
		return nil
	}
	if e.threads[tid].spec.Prog == "handshake" && (op.Kind == "Load" && strings.Contains(op.Key, "/wildcard_") || op.Kind == "Event" && op.Key == "tls_get_certificate") {
		// loadCertFromStorage's second look-up (*.example, never there) and the tls_get_certificate event at
		// the start of GetCertificate: not part of the model, let through ungated
		return nil
	}
	if e.threads[tid].spec.Decliner && strings.Contains(op.Key, "/decl/") {
		return nil // look-ups under the declining first issuer's key: nothing there, not part of the model
	}
	a := &c01issArrival{tid: tid, op: *op, reply: make(chan int, 1)}
	e.arrivals <- a
	f := <-a.reply
	if op.Kind == "Unlock" && op.CtxErr != "" && f == c01fNone {
		// a storage that honours contexts would refuse this call: the release must not be made
		// with the caller's cancelled context (storage.go releaseLock uses WithoutCancel)
		return errors.New("Unlock called with a cancelled context: " + op.CtxErr)
	}
	switch f {
	case c01fErr:
		return c01ErrInjected
	case c01fCancel:
		e.threads[tid].cancel()
	case c01fPanic:
		panic(c01issPanic{})
	}
	return nil
}

var c01ErrHang = errors.New("no arrival within the bound")
var c01HangSeen bool

func (e *c01issEnv) wait(n int) error { return e.waitT(n, 90*time.Second) }

func (e *c01issEnv) waitT(n int, bound time.Duration) error {
	for i := 0; i < n; i++ {
		select {
		case a := <-e.arrivals:
			rt := e.threads[a.tid]
			if a.done {
				rt.state, rt.res, rt.gate = c01stDone, a.res, nil
				rt.inSave, rt.midLoad = false, false
			} else {
				rt.state, rt.gate = c01stGate, a
			}
		case <-time.After(bound):
			if bound < 90*time.Second {
				return c01ErrHang
			}
			return fmt.Errorf("lock-step driver: no arrival within 90 s (states %v)", e.states())
		}
	}
	return nil
}

func (e *c01issEnv) states() []string {
	var s []string
	for _, rt := range e.threads {
		g := ""
		if rt.gate != nil {
			g = rt.gate.op.Kind + " " + rt.gate.op.Key
		}
		s = append(s, fmt.Sprintf("t%d:%d:%s", rt.id, rt.state, g))
	}
	return s
}

// ---- op encoding

func c01KindOfSuffix(key string) int {
	switch {
	case strings.HasSuffix(key, ".key"):
		return 0
	case strings.HasSuffix(key, ".crt"):
		return 1
	case strings.HasSuffix(key, ".json"):
		return 2
	}
	return -1
}

// siteKey parses certificates/dbl/<nm>/<nm>.<ext>
func (e *c01issEnv) siteKey(rt *c01issRT, key string) (n, kind int, ok bool) {
	p := strings.Split(key, "/")
	if len(p) != 4 || p[0] != "certificates" || p[1] != "dbl" {
		return 0, 0, false
	}
	kind = c01KindOfSuffix(p[3])
	if kind < 0 {
		return 0, 0, false
	}
	base := p[3][:strings.LastIndex(p[3], ".")]
	if base != p[2] {
		return 0, 0, false
	}
	return e.names.id(e.pfx(rt) + p[2]), kind, true
}

func (e *c01issEnv) encodeOp(rt *c01issRT, op doubles.Op) ([4]int, string) {
	stor := map[string]int{"Exists": 1, "Load": 2, "Store": 3, "Delete": 4}
	desc := op.Kind + " " + op.Key
	switch op.Kind {
	case "Lock":
		return [4]int{6, e.lockID(rt, op.Key), 0, 0}, desc
	case "LockAcquired":
		return [4]int{7, e.lockID(rt, op.Key), 0, 0}, desc
	case "Unlock":
		return [4]int{8, e.lockID(rt, op.Key), 0, 0}, desc
	case "Event":
		ev := map[string]int{"cert_obtaining": 0, "cert_obtained": 1, "cert_failed": 2, "cached_managed_cert": 3, "new_account_func": 4}
		c, ok := ev[op.Key]
		if !ok {
			c = 99
		}
		return [4]int{9, c, 0, 0}, desc
	case "IssueStart":
		return [4]int{10, e.ids.id(e.pfx(rt) + op.Key), 0, 0}, desc
	case "IssueEnd":
		return [4]int{11, e.ids.id(e.pfx(rt) + op.Key), 0, 0}, desc
	case "AriGet":
		return [4]int{12, 0, 0, 0}, desc
	case "CAReq":
		r := 9
		switch {
		case strings.HasSuffix(op.Key, "/dir"):
			r = 0
		case strings.HasSuffix(op.Key, "/new-nonce"):
			r = 1
		case strings.HasSuffix(op.Key, "/new-acct"):
			r = 2
		}
		return [4]int{14, r, 0, 0}, desc
	}
	code, isStor := stor[op.Kind]
	if isStor {
		if v, ok := e.acctKeys[op.Key]; ok {
			return [4]int{code, 0, v[0], v[1]}, desc
		}
		if op.Key == "last_clean.json" {
			return [4]int{code, 2, 0, 0}, desc
		}
		if strings.HasPrefix(op.Key, "rw_test_") {
			return [4]int{code, 1, rt.id, 0}, op.Kind + " rw_test_*"
		}
		if n, k, ok := e.siteKey(rt, op.Key); ok && rt.spec.Prog != "clean" {
			return [4]int{code, 0, n, k}, desc
		}
		if op.Kind == "Load" && strings.HasPrefix(op.Key, "ocsp/") && rt.spec.Prog != "clean" {
			return [4]int{5, 0, 0, 0}, desc
		}
	}
	if rt.spec.Prog == "clean" {
		return [4]int{13, 0, 0, 0}, desc // body of CleanStorage: not modelled op by op
	}
	return [4]int{99, 0, 0, 0}, desc
}

func (e *c01issEnv) existsNow(rt *c01issRT, key string) bool {
	for _, k := range e.bOf(rt).Keys() {
		if k == key || strings.HasPrefix(k, key+"/") {
			return true
		}
	}
	return false
}

// ---- scheduling

func (e *c01issEnv) faultFor(rt *c01issRT, a *c01issArrival) int {
	if a.op.Kind == "LockAcquired" {
		return c01fNone
	}
	f := c01fNone
	if v, ok := e.cs.Faults[fmt.Sprintf("%d:%d", rt.id, rt.nops)]; ok {
		f = v
	}
	for k, v := range e.cs.Faults {
		p := strings.SplitN(k, ":", 3)
		if len(p) == 3 && p[0] == strconv.Itoa(rt.id) && p[1] == a.op.Kind && strings.HasSuffix(a.op.Key, p[2]) && !rt.usedF[k] {
			rt.usedF[k] = true
			f = v
		}
	}
	if rt.spec.Prog == "handshake" || rt.spec.Decliner {
		return c01fNone // see setupThread: modelled without faults of its own
	}
	// budget: a retry loop that would never end is cancelled
	if f == c01fNone && rt.nops >= 70 && a.op.Kind != "Unlock" && !rt.canc {
		f = c01fCancel
	}
	if _, _, ok := e.siteKey(rt, a.op.Key); ok && (a.op.Kind == "Store" || a.op.Kind == "Delete") && !e.cs.AllowSaveFault && rt.spec.Prog != "ari" && rt.spec.Prog != "clean" {
		f = c01fNone
	}
	if a.op.Kind == "Unlock" && (f == c01fErr || f == c01fPanic) && !e.cs.AllowUnlockFault {
		f = c01fNone // an Unlock that fails leaves the lock held by definition (C09's excluded class)
	}
	return f
}

func (e *c01issEnv) holdsLock(rt *c01issRT) bool { return e.bOf(rt).LockOwner(rt.lockKey) == rt.inst }

func (e *c01issEnv) bOf(rt *c01issRT) c01Backend { return e.bs[rt.spec.Store] }

// pfx distinguishes the name / lock / identifier classes of separate storages (nothing for storage 0)
func (e *c01issEnv) pfx(rt *c01issRT) string {
	if rt.spec.Store == 0 {
		return ""
	}
	return strconv.Itoa(rt.spec.Store) + "|"
}

func (e *c01issEnv) lockID(rt *c01issRT, name string) int {
	return e.lockT.id(e.pfx(rt) + e.bOf(rt).LockID(name))
}

// wouldOverlap: granting rt's pending gate would let an unlocked manage load overlap a save window
func (e *c01issEnv) wouldOverlap(rt *c01issRT) bool {
	if e.cs.AllowOverlap {
		return false
	}
	op := rt.gate.op
	_, k, ok := e.siteKey(rt, op.Key)
	if !ok || k != 0 {
		return false
	}
	if op.Kind == "Store" {
		for _, o := range e.threads {
			if o != rt && o.spec.Store == rt.spec.Store && o.midLoad {
				return true
			}
		}
	}
	if op.Kind == "Load" && (rt.spec.Prog == "manage" || rt.spec.Prog == "handshake") && !e.holdsLock(rt) {
		for _, o := range e.threads {
			if o != rt && o.spec.Store == rt.spec.Store && o.inSave {
				return true
			}
		}
	}
	return false
}

func (e *c01issEnv) paused(rt *c01issRT) bool {
	if rt.unpaused {
		return false
	}
	pat, ok := e.cs.Pause[strconv.Itoa(rt.id)]
	if !ok {
		return false
	}
	p := strings.SplitN(pat, ":", 2)
	return rt.gate.op.Kind == p[0] && strings.HasSuffix(rt.gate.op.Key, p[1])
}

func (e *c01issEnv) pick() *c01issRT {
	var cands, pausedC []*c01issRT
	for _, rt := range e.threads {
		if rt.state != c01stGate || e.wouldOverlap(rt) {
			continue
		}
		if e.paused(rt) {
			pausedC = append(pausedC, rt)
			continue
		}
		cands = append(cands, rt)
	}
	if len(cands) == 0 {
		if len(pausedC) == 0 {
			return nil
		}
		if ms := e.cs.HoldMs[strconv.Itoa(pausedC[0].id)]; ms > 0 && !pausedC[0].heldBack {
			// a slow holder: let real time pass while it stays at its gate; if a waiter got through
			// meanwhile it runs first (the holder is still inside its turn)
			pausedC[0].heldBack = true
			time.Sleep(time.Duration(ms) * time.Millisecond)
			e.drainUnexpected()
			return e.pick()
		}
		pausedC[0].unpaused = true
		return pausedC[0]
	}
	byID := func(id int) *c01issRT {
		for _, c := range cands {
			if c.id == id {
				return c
			}
		}
		return nil
	}
	switch e.cs.Policy {
	case "script":
		for e.scriptI < len(e.cs.Script) {
			c := byID(e.cs.Script[e.scriptI])
			e.scriptI++
			if c != nil {
				return c
			}
		}
		return cands[0]
	case "rr":
		for d := 1; d <= len(e.threads); d++ {
			if c := byID((e.last + d) % len(e.threads)); c != nil {
				return c
			}
		}
	case "random":
		return cands[e.rnd.Intn(len(cands))]
	case "sticky":
		if c := byID(e.last); c != nil && e.rnd.Intn(4) != 0 {
			return c
		}
		return cands[e.rnd.Intn(len(cands))]
	}
	return cands[0] // seq
}

func (e *c01issEnv) stepThread(rt *c01issRT) error {
	a := rt.gate
	f := e.faultFor(rt, a)
	rt.nops++
	enc, desc := e.encodeOp(rt, a.op)
	kind := a.op.Kind
	exists := false
	if kind == "Exists" {
		exists = e.existsNow(rt, a.op.Key)
	}
	lockHeld := kind == "Lock" && e.bOf(rt).LockOwner(a.op.Key) != ""
	var waiters []*c01issRT
	if kind == "Unlock" {
		for _, o := range e.threads {
			if o.state == c01stBlocked && o.spec.Store == rt.spec.Store && e.bOf(rt).LockID(o.waitLock) == e.bOf(rt).LockID(a.op.Key) {
				waiters = append(waiters, o)
			}
		}
	}
	cancBefore := rt.canc
	grantAnyway := e.cs.LockIgnoresCtx && kind == "Lock" && f == c01fCancel && !lockHeld && !cancBefore
	if f == c01fCancel {
		rt.canc = true
	}
	wasHolding := e.holdsLock(rt)
	rt.gate = nil
	a.reply <- f
	expected := 1
	rt.state = c01stRunning
	if grantAnyway {
		expected = 1 // the LockAcquired announcement
	}
	if kind == "Lock" && lockHeld && f == c01fNone && !cancBefore {
		rt.state, rt.waitLock, expected = c01stBlocked, a.op.Key, 0
	}
	refused := kind == "Unlock" && a.op.CtxErr != "" && f == c01fNone // see hook: cancelled context at the release
	if kind == "Unlock" && (f == c01fNone || f == c01fCancel) && !refused && len(waiters) > 0 {
		expected++
	}
	hung := false
	// expected take-over times: at once (stale), 2 s (empty), about 11 s (fresh, empty-fresh). The bounds are
	// generous (a loaded machine, a wall clock that is stepped); once one request of this process has hung the
	// remaining cases use short ones.
	bounds := map[string]time.Duration{"empty": 30 * time.Second, "stale": 30 * time.Second, "fresh": 60 * time.Second, "empty-fresh": 60 * time.Second}
	if c01HangSeen {
		bounds = map[string]time.Duration{"empty": 8 * time.Second, "stale": 8 * time.Second, "fresh": 25 * time.Second, "empty-fresh": 25 * time.Second}
	}
	if bound, ok := bounds[e.cs.CrashLock]; ok && kind == "Lock" && expected == 1 && f == c01fNone {
		// the lock file of a dead holder is in the way: the Locker has to take it over within its
		// staleness rule; if it does not, the request hangs -- cancel it and record that
		err := e.waitT(1, bound)
		if err == c01ErrHang {
			hung, c01HangSeen = true, true
			rt.cancel()
			err = e.wait(1)
		}
		if err != nil {
			return err
		}
	} else if err := e.wait(expected); err != nil {
		return err
	}
	// outcome
	lo := e.b.GetLog().At(a.op.Seq)
	bad := f == c01fErr || rt.canc
	out := 0
	switch {
	case f == c01fPanic:
		out = 3
	case kind == "Exists":
		if lo.Err != "" {
			out = 2
		} else if !exists {
			out = 1
		}
	case kind == "Lock":
		if bad {
			out = 2
		}
	case enc[0] == 13:
		if bad {
			out = 2
		}
	case kind == "Unlock":
		if lo.Err != "" {
			out = 2
		}
	case kind == "Event" || kind == "IssueStart" || kind == "IssueEnd" || kind == "AriGet" || kind == "LockAcquired" || kind == "CAReq":
		if lo.Err != "" {
			out = 2
		}
	default:
		if lo.Err == fs.ErrNotExist.Error() {
			out = 1
		} else if lo.Err != "" {
			out = 2
		}
	}
	if hung {
		out = 0 // the Lock call itself was accepted; what failed is the acquisition
	}
	fRec := f
	if grantAnyway {
		// the context ended while Lock was in progress and the lock was granted all the same
		fRec, rt.pendCanc = c01fNone, true
		if lo.Err == "" {
			out = 0
		}
		desc += " [context cancelled at this gate; granted anyway]"
	} else if rt.pendCanc && kind != "LockAcquired" && fRec == c01fNone {
		fRec, rt.pendCanc = c01fCancel, false
	}
	e.obs.Steps = append(e.obs.Steps, c01issStep{Tid: rt.id, Fault: fRec, Op: enc, Out: out, Desc: desc})
	e.obs.Sched = append(e.obs.Sched, rt.id)
	if hung {
		e.obs.Deadlock = true
		e.obs.Steps = append(e.obs.Steps, c01issStep{Tid: rt.id, Fault: c01fNone, Op: [4]int{7, e.lockID(rt, a.op.Key), 0, 0}, Out: 2,
			Desc: "HUNG: the lock file of a dead holder was not taken over within the bound; request cancelled by the driver"})
		e.obs.Sched = append(e.obs.Sched, rt.id)
	}
	e.last = rt.id
	for _, o := range e.threads {
		if o != rt && o.state == c01stBlocked {
			o.waited++
		}
	}
	if kind == "IssueStart" {
		e.obs.Issues++
	}
	// save / load windows
	if _, k, ok := e.siteKey(rt, a.op.Key); ok && rt.spec.Prog != "clean" {
		switch kind {
		case "Store":
			if out != 0 {
				e.obs.SaveFault = true
			}
			if rt.spec.Prog != "ari" {
				if k == 0 && out == 0 {
					rt.inSave = true
				}
				if k == 2 && out == 0 || out == 3 {
					rt.inSave = false
				}
			}
		case "Delete":
			if out != 0 {
				e.obs.SaveFault = true
			}
			if k == 0 || out == 3 {
				rt.inSave = false
			}
		case "Load":
			if (rt.spec.Prog == "manage" || rt.spec.Prog == "handshake") && !wasHolding {
				if k == 0 && out == 0 {
					rt.midLoad = true
				}
				if k == 2 || out != 0 {
					rt.midLoad = false
				}
			}
		}
	}
	if rt.state == c01stDone {
		rt.inSave, rt.midLoad = false, false
	}
	for _, m := range e.threads {
		for _, s := range e.threads {
			if m != s && m.spec.Store == s.spec.Store && m.midLoad && s.inSave {
				e.obs.Overlap = true
			}
		}
	}
	return nil
}

// drainUnexpected: a thread the driver knows to be waiting for a held lock has announced an operation
// (it got the lock although the holder is alive): record it, the model will refuse the step.
func (e *c01issEnv) drainUnexpected() {
	for {
		select {
		case a := <-e.arrivals:
			rt := e.threads[a.tid]
			if a.done {
				rt.state, rt.res, rt.gate = c01stDone, a.res, nil
			} else {
				rt.state, rt.gate = c01stGate, a
			}
		default:
			return
		}
	}
}

// dueCancelWait: a request whose planned cancellation while waiting for its lock is due
func (e *c01issEnv) dueCancelWait() *c01issRT {
	for _, rt := range e.threads {
		if rt.state != c01stBlocked {
			continue
		}
		if n, ok := e.cs.CancelWait[strconv.Itoa(rt.id)]; ok && rt.waited >= n {
			return rt
		}
	}
	return nil
}

func (e *c01issEnv) cancelBlocked(rt *c01issRT) error {
	rt.canc = true
	rt.state = c01stRunning
	rt.cancel()
	if err := e.wait(1); err != nil {
		return err
	}
	e.obs.Steps = append(e.obs.Steps, c01issStep{Tid: rt.id, Fault: c01fCancel, Op: [4]int{7, e.lockID(rt, rt.waitLock), 0, 0}, Out: 2, Desc: "cancelled while waiting for " + rt.waitLock})
	e.obs.Sched = append(e.obs.Sched, rt.id)
	return nil
}

var c01issRetryOnce sync.Once

// c01RunIssCase executes one case on the real code.
func c01RunIssCase(cs c01issCase) (*c01issObs, error) {
	c01issCAOnce.Do(func() { c01issCA = doubles.NewCA("issuance harness CA") })
	c01issRetryOnce.Do(func() { certmagic.VerifLocksSetRetryIntervals([]time.Duration{3 * time.Millisecond}) })
	var bs []c01Backend
	var sharedLog *doubles.Log
	for si := 0; si < cs.Stores || si == 0; si++ {
		var be c01Backend
		if cs.Backend == "file" {
			fb, err := c01NewFileBackend()
			if err != nil {
				return nil, err
			}
			if sharedLog != nil {
				fb.log = sharedLog // one log, one gate for all storages
			}
			fb.lockIgnoresCtx = cs.LockIgnoresCtx
			be = fb
		} else {
			mb := doubles.NewMemBackend()
			mb.HonourCtx = true
			if sharedLog != nil {
				mb.Log = sharedLog
			}
			lic := cs.LockIgnoresCtx
			be = c01MemBackend{mb, &lic}
		}
		sharedLog = be.GetLog()
		defer be.Close()
		bs = append(bs, be)
	}
	e := &c01issEnv{cs: cs, b: bs[0], bs: bs, ca: c01issCA, arrivals: make(chan *c01issArrival, 64), rnd: rand.New(rand.NewSource(cs.SchedSeed)),
		acctKeys: map[string][2]int{}, acctName: map[string][2]string{}}
	if err := e.seed(); err != nil {
		return nil, err
	}
	defer func() {
		e.b.GetLog().SetHook(nil)
		for _, rt := range e.threads {
			rt.cancel()
			rt.cache.Stop()
		}
		if certmagic.VerifLocksHeldCount() > 0 {
			certmagic.CleanUpOwnLocks(context.Background(), zap.NewNop())
		}
	}()
	for i, sp := range cs.Threads {
		rt, err := e.setupThread(i, sp)
		if rt != nil {
			e.threads = append(e.threads, rt)
		}
		if err != nil {
			return nil, err
		}
	}
	if cs.CrashLock != "" {
		fb, ok := e.b.(*c01FileBackend)
		if !ok || len(e.threads) == 0 {
			return nil, fmt.Errorf("crash_lock needs the file back-end")
		}
		if err := fb.leaveLockFile(e.threads[0].lockKey, cs.CrashLock); err != nil {
			return nil, err
		}
	}
	e.b.GetLog().SetHook(e.hook)
	for _, rt := range e.threads {
		rt := rt
		rt.state = c01stRunning
		go func() {
			res := e.body(rt)
			e.arrivals <- &c01issArrival{tid: rt.id, done: true, res: res}
		}()
	}
	if err := e.wait(len(e.threads)); err != nil {
		return nil, err
	}
	for steps := 0; ; steps++ {
		if steps > 5000 {
			return nil, fmt.Errorf("lock-step driver: more than 5000 steps")
		}
		if w := e.dueCancelWait(); w != nil {
			if err := e.cancelBlocked(w); err != nil {
				return nil, err
			}
			continue
		}
		rt := e.pick()
		if rt == nil {
			var blocked *c01issRT
			for _, o := range e.threads {
				if o.state == c01stBlocked {
					blocked = o
					break
				}
			}
			if blocked == nil {
				break
			}
			// nothing can run: the lock's holder is gone (leaked lock). Cancel the waiter.
			e.obs.Deadlock = true
			if err := e.cancelBlocked(blocked); err != nil {
				return nil, err
			}
			continue
		}
		if err := e.stepThread(rt); err != nil {
			return nil, err
		}
	}
	// final observation
	o := &e.obs
	for _, rt := range e.threads {
		o.Results = append(o.Results, rt.res)
		seen := -1
		if rt.spec.Prog == "manage" || rt.spec.Prog == "handshake" {
			certs := rt.cache.AllMatchingCertificates(strings.ToLower(rt.ascii))
			if len(certs) > 0 && certs[0].Leaf != nil {
				seen = c01SerialToCid(certs[0].Leaf.SerialNumber.Int64())
			}
		}
		o.Seen = append(o.Seen, seen)
	}
	for n, nm := range e.names.l {
		bk := e.b
		if i := strings.Index(nm, "|"); i > 0 { // "<storage>|<name>"
			if si, err := strconv.Atoi(nm[:i]); err == nil && si < len(e.bs) {
				bk, nm = e.bs[si], nm[i+1:]
			}
		}
		kk, kc, km := e.siteKeys(nm)
		if ak, ok := e.acctName[nm]; ok {
			km, kk = ak[0], ak[1]
		}
		kb, hk := bk.Get(kk)
		cb, hc := bk.Get(kc)
		_, hm := bk.Get(km)
		match, cid := 0, 0
		if hc {
			if blk, _ := pem.Decode(cb); blk != nil {
				if c, err := x509.ParseCertificate(blk.Bytes); err == nil {
					cid = c01SerialToCid(c.SerialNumber.Int64())
				}
			}
			if hk {
				if _, err := tls.X509KeyPair(cb, kb); err == nil {
					match = 1
				}
			}
		}
		o.Final = append(o.Final, []int{n, c01B2i(hk), c01B2i(hc), c01B2i(hm), match, cid})
	}
	heldAll := func() int {
		n := 0
		for _, bk := range e.bs {
			n += len(bk.HeldLocks())
		}
		return n
	}
	for _, bk := range e.bs {
		for _, k := range bk.Keys() {
			if strings.HasPrefix(k, "rw_test_") {
				o.RwLeft++
			}
			if k == "last_clean.json" {
				o.LastPresent = 1
			}
		}
	}
	o.Held = heldAll()
	o.Recorded = certmagic.VerifLocksHeldCount()
	if o.Held > 0 || o.Recorded > 0 {
		// what a process does at exit: everything that is still held must be in the record and get released
		e.b.GetLog().SetHook(nil)
		certmagic.CleanUpOwnLocks(context.Background(), zap.NewNop())
		o.AfterCleanup = heldAll() + certmagic.VerifLocksHeldCount()
	}
	o.Names = e.names.l
	o.LockNames = e.lockT.l
	return o, nil
}

func c01SerialToCid(s int64) int {
	switch {
	case s >= 5000:
		return int(s - 5000)
	case s >= 4000:
		return int(s-4000) + 1000
	}
	return 9999
}

// c01issWire encodes a case for Issuance/Check.v:
// mode threads init steps results seen final rwleft last held recorded
func c01issWire(mode int, o *c01issObs) string {
	enc := &emit.Enc{}
	enc.Int(mode)
	enc.Len(len(o.Cfgs))
	for _, c := range o.Cfgs {
		for _, v := range c {
			enc.Int(v)
		}
	}
	enc.Len(len(o.Init))
	for _, c := range o.Init {
		for _, v := range c {
			enc.Int(v)
		}
	}
	enc.Len(len(o.Steps))
	for _, s := range o.Steps {
		enc.Int(s.Tid).Int(s.Fault).Int(s.Op[0]).Int(s.Op[1]).Int(s.Op[2]).Int(s.Op[3]).Int(s.Out)
	}
	enc.Len(len(o.Results))
	for _, r := range o.Results {
		enc.Int(r)
	}
	enc.Len(len(o.Seen))
	for _, r := range o.Seen {
		enc.Int(r)
	}
	enc.Len(len(o.Final))
	for _, c := range o.Final {
		for _, v := range c {
			enc.Int(v)
		}
	}
	enc.Int(o.RwLeft).Int(o.LastPresent).Int(o.Held).Int(o.Recorded).Int(c01B2i(o.Deadlock)).Int(o.AfterCleanup)
	return enc.String()
}

func c01issProgKey(cs c01issCase) string {
	var p []string
	for _, t := range cs.Threads {
		s := t.Prog
		if t.Async {
			s += "-async"
		}
		if t.Force {
			s += "-force"
		}
		if t.Reuse {
			s += "-reuse"
		}
		p = append(p, s)
	}
	sort.Strings(p)
	return strings.Join(p, "+")
}
