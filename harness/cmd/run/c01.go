//go:build !skip_c01

package main

import (
	"encoding/json"
	"fmt"
	"math/rand"
	"os"
	"strings"

	"verifharness/pkg/emit"
)

func init() { register("C01", runC01) }

const (
	c01nmCanon = "a.example"
	c01nmUpper = "A.Example"
	c01nmUni   = "bücher.example"
	c01nmPuny  = "xn--bcher-kva.example"
)

var c01Clauses = []string{"all", "S1-spans-disjoint", "S2-no-reissue-after-save", "S3-callers-agree", "S4-error-only-own-fault"}

// c01Corpus: witnesses of the findings and hand-written schedules, run first on every run.
func c01Corpus() []c01issCase {
	th := func(prog, name string) c01issThread { return c01issThread{Prog: prog, Name: name} }
	return []c01issCase{
		// (a) spelling-dependent keys: the second ObtainCertSync of a Unicode name issues again
		{Threads: []c01issThread{th("obtain", c01nmUni), th("obtain", c01nmUni)}, Policy: "seq", Class: "spelling-unicode-reissue"},
		// (a) Unicode vs punycode callers hold different locks: overlapping issue spans
		{Threads: []c01issThread{th("obtain", c01nmUni), th("obtain", c01nmPuny)}, Policy: "seq", Pause: map[string]string{"0": "IssueEnd:"}, Class: "spelling-different-locks"},
		// (a) raw lock key: upper vs lower case callers of ObtainCertSync
		{Threads: []c01issThread{th("obtain", c01nmUpper), th("obtain", c01nmCanon)}, Policy: "seq", Pause: map[string]string{"0": "IssueEnd:"}, Class: "spelling-different-locks"},
		// (b) manageOne loads outside the issue lock, between the .key and .crt Stores of a fresh-key renewal
		{Threads: []c01issThread{th("renew", c01nmCanon), th("manage", c01nmCanon)}, Seeds: []c01issSeed{{c01nmCanon, "due"}}, Policy: "seq",
			Pause: map[string]string{"0": "Store:.crt"}, AllowOverlap: true, Class: "manage-load-overlaps-save"},
		// (c) storage fault inside the save of a fresh-key renewal: rollback deletes the new key, the old one is gone
		{Threads: []c01issThread{th("renew", c01nmCanon), th("renew", c01nmCanon)}, Seeds: []c01issSeed{{c01nmCanon, "due"}}, Policy: "seq",
			Faults: map[string]int{"0:Store:.crt": c01fErr}, AllowSaveFault: true, Class: "fault-inside-save"},
		// healthy scenarios
		{Threads: []c01issThread{th("manage", c01nmCanon), th("manage", c01nmCanon)}, Policy: "rr", Class: "generic"},
		// ManageSync only lower-cases: Unicode and punycode spellings still use different locks and pre-check keys
		{Threads: []c01issThread{th("manage", c01nmUni), th("manage", c01nmPuny), th("manage", "BÜCHER.example")}, Policy: "rr", Class: "spelling-different-locks"},
		{Threads: []c01issThread{th("manage", c01nmPuny), th("manage", c01nmPuny), th("obtain", c01nmPuny)}, Policy: "rr", Class: "generic"},
		{Threads: []c01issThread{th("manage", c01nmUpper), th("manage", c01nmCanon)}, Policy: "seq", Pause: map[string]string{"0": "IssueEnd:"}, Class: "generic"},
		{Threads: []c01issThread{th("obtain", c01nmCanon), th("obtain", c01nmCanon), th("manage", c01nmCanon)}, Policy: "seq", Pause: map[string]string{"0": "IssueEnd:"}, Class: "generic"},
		// leader fails inside its turn, the waiter takes over
		{Threads: []c01issThread{th("obtain", c01nmCanon), th("manage", c01nmCanon)}, Policy: "seq", Pause: map[string]string{"0": "IssueEnd:"},
			Faults: map[string]int{"0:IssueEnd:": c01fErr}, Class: "generic"},
		{Threads: []c01issThread{th("manage", c01nmCanon), th("manage", c01nmCanon)}, Seeds: []c01issSeed{{c01nmCanon, "due"}}, Policy: "seq", Pause: map[string]string{"0": "IssueEnd:"},
			Faults: map[string]int{"0:IssueEnd:": c01fPanic}, Class: "generic"},
		{Threads: []c01issThread{{Prog: "renew", Name: c01nmCanon, Async: true}, th("manage", c01nmCanon)}, Seeds: []c01issSeed{{c01nmCanon, "due"}}, Policy: "seq", Pause: map[string]string{"0": "IssueEnd:"},
			Faults: map[string]int{"0:IssueEnd:": c01fErr}, Class: "generic"},
		// a waiter is cancelled while the leader is inside the issuer; the other waiter takes its turn and finds the certificate
		{Threads: []c01issThread{th("obtain", c01nmCanon), th("obtain", c01nmCanon), th("manage", c01nmCanon)}, Policy: "seq", Pause: map[string]string{"0": "IssueEnd:"},
			CancelWait: map[string]int{"1": 0}, Class: "generic"},
		// the leader fails in the issuer, one waiter is cancelled, the last one issues
		{Threads: []c01issThread{th("renew", c01nmCanon), {Prog: "renew", Name: c01nmCanon, Async: true}, th("renew", c01nmCanon)}, Seeds: []c01issSeed{{c01nmCanon, "due"}}, Policy: "seq",
			Pause: map[string]string{"0": "IssueEnd:"}, Faults: map[string]int{"0:IssueEnd:": c01fErr}, CancelWait: map[string]int{"1": 2}, Class: "generic"},
		// on-demand TLS handshakes (getCertDuringHandshake -> obtainOnDemandCertificate) in the mix: the SNI is
		// converted with idna.Lookup, so Unicode and upper-case clients use the canonical keys
		{Threads: []c01issThread{th("handshake", c01nmCanon), th("manage", c01nmCanon)}, Policy: "rr", Class: "generic"},
		{Threads: []c01issThread{th("obtain", c01nmCanon), th("handshake", "A.Example"), th("manage", c01nmCanon)}, Policy: "seq", Pause: map[string]string{"0": "IssueEnd:"},
			Faults: map[string]int{"0:IssueEnd:": c01fPanic}, Class: "generic"},
		{Threads: []c01issThread{th("handshake", c01nmUni), th("manage", c01nmPuny), th("obtain", c01nmPuny)}, Policy: "seq", Pause: map[string]string{"0": "IssueEnd:"}, Class: "generic"},
		{Threads: []c01issThread{th("handshake", c01nmCanon), th("obtain", c01nmCanon)}, Seeds: []c01issSeed{{c01nmCanon, "fresh"}}, Policy: "rr", Class: "generic"},
		{Threads: []c01issThread{th("manage", c01nmCanon), th("handshake", c01nmCanon)}, Policy: "seq", Pause: map[string]string{"0": "Store:.crt"}, Backend: "file", Class: "generic"},
		// configs sharing the storage whose issuer lists differ (B's preferred issuer declines, it falls through to the
		// issuer A uses): still one lock per name, one order, one certificate
		{Threads: []c01issThread{th("obtain", c01nmCanon), {Prog: "obtain", Name: c01nmCanon, Decliner: true}}, Policy: "seq", Pause: map[string]string{"0": "IssueEnd:"}, Class: "generic"},
		{Threads: []c01issThread{{Prog: "manage", Name: c01nmCanon, Decliner: true}, th("manage", c01nmCanon), th("obtain", c01nmCanon)}, Policy: "seq", Pause: map[string]string{"0": "IssueEnd:"}, Class: "generic"},
		{Threads: []c01issThread{th("renew", c01nmCanon), {Prog: "renew", Name: c01nmCanon, Decliner: true}, {Prog: "manage", Name: c01nmCanon, Decliner: true}}, Seeds: []c01issSeed{{c01nmCanon, "due"}}, Policy: "seq", Pause: map[string]string{"0": "IssueEnd:"}, Class: "generic"},
		{Threads: []c01issThread{{Prog: "obtain", Name: c01nmCanon, Decliner: true}, th("manage", c01nmCanon)}, Policy: "rr", Backend: "file", Class: "generic"},
		// due by ARI alone (fresh leaf, stored renewal_info with a selected time in the past), renewed by an issuer that
		// supplies no metadata: the saved bundle must not keep the old renewal information -- one issuance, the waiting
		// and the late requests find the renewal done
		{Threads: []c01issThread{{Prog: "renew", Name: c01nmCanon, NilMeta: true}, {Prog: "renew", Name: c01nmCanon, NilMeta: true}, {Prog: "renew", Name: c01nmCanon, NilMeta: true}},
			Seeds: []c01issSeed{{c01nmCanon, "aridue"}}, Policy: "seq", Pause: map[string]string{"0": "IssueEnd:"}, Class: "generic"},
		{Threads: []c01issThread{{Prog: "renew", Name: c01nmCanon, Async: true, NilMeta: true}, {Prog: "manage", Name: c01nmCanon, NilMeta: true}, {Prog: "renew", Name: c01nmCanon, NilMeta: true}},
			Seeds: []c01issSeed{{c01nmCanon, "aridue"}}, Policy: "seq", Pause: map[string]string{"0": "IssueEnd:"}, Class: "generic"},
		{Threads: []c01issThread{{Prog: "manage", Name: c01nmCanon, NilMeta: true}, {Prog: "manage", Name: c01nmCanon}}, Seeds: []c01issSeed{{c01nmCanon, "aridue"}}, Policy: "rr", Class: "generic"},
		{Threads: []c01issThread{{Prog: "renew", Name: c01nmCanon, NilMeta: true}, {Prog: "renew", Name: c01nmCanon, NilMeta: true}}, Seeds: []c01issSeed{{c01nmCanon, "aridue"}}, Policy: "seq", Backend: "file", Class: "generic"},
		// a request reaches the lock with a context that ends at that very moment; the Locker grants the free lock
		// all the same (FileStorage looks at the context only while it waits): the request fails, releases, and the
		// next request for the name takes its turn -- it must not find the lock held for ever
		{Threads: []c01issThread{th("obtain", c01nmCanon), th("manage", c01nmCanon)}, Policy: "seq", LockIgnoresCtx: true, Faults: map[string]int{"0:Lock:": c01fCancel}, Class: "generic"},
		{Threads: []c01issThread{th("renew", c01nmCanon), th("renew", c01nmCanon), th("manage", c01nmCanon)}, Seeds: []c01issSeed{{c01nmCanon, "due"}}, Policy: "seq", LockIgnoresCtx: true, Faults: map[string]int{"0:Lock:": c01fCancel}, Class: "generic"},
		{Threads: []c01issThread{th("manage", c01nmCanon), th("obtain", c01nmCanon)}, Policy: "seq", LockIgnoresCtx: true, Faults: map[string]int{"0:Lock:": c01fCancel}, Class: "generic"},
		{Threads: []c01issThread{th("obtain", c01nmCanon), th("manage", c01nmCanon)}, Policy: "seq", LockIgnoresCtx: true, Faults: map[string]int{"0:Lock:": c01fCancel}, Backend: "file", Class: "generic"},
		{Threads: []c01issThread{th("manage", c01nmCanon), th("handshake", c01nmCanon)}, Seeds: []c01issSeed{{c01nmCanon, "keyonly"}}, Policy: "seq", LockIgnoresCtx: true, Faults: map[string]int{"0:Lock:": c01fCancel}, Backend: "file", Class: "generic"},
		// the real FileStorage Locker behind the gate: its lock file name is Safe(lock key), so upper- and
		// lower-case callers of ObtainCertSync share one lock there (they do not on a raw-key Locker)
		{Threads: []c01issThread{th("obtain", c01nmUpper), th("obtain", c01nmCanon)}, Policy: "seq", Pause: map[string]string{"0": "IssueEnd:"}, Backend: "file", Class: "generic"},
		{Threads: []c01issThread{th("manage", c01nmCanon), th("manage", c01nmCanon)}, Seeds: []c01issSeed{{c01nmCanon, "due"}}, Policy: "rr", Backend: "file", Class: "generic"},
		{Threads: []c01issThread{th("obtain", c01nmCanon), th("manage", c01nmCanon)}, Policy: "seq", Pause: map[string]string{"0": "IssueEnd:"},
			Faults: map[string]int{"0:IssueEnd:": c01fPanic}, Backend: "file", Class: "generic"},
		{Threads: []c01issThread{th("obtain", c01nmUni), th("obtain", c01nmPuny)}, Policy: "seq", Pause: map[string]string{"0": "IssueEnd:"}, Backend: "file", Class: "spelling-different-locks"},
		// the instance that held the turn died and left its lock file: the waiting requests take over
		// (empty file: treated as stale after 8 reads 250 ms apart; old timestamp: removed at once)
		{Threads: []c01issThread{th("obtain", c01nmCanon), th("manage", c01nmCanon)}, Policy: "rr", Backend: "file", CrashLock: "empty", Class: "generic"},
		{Threads: []c01issThread{th("renew", c01nmCanon), {Prog: "renew", Name: c01nmCanon, Async: true}}, Seeds: []c01issSeed{{c01nmCanon, "due"}}, Policy: "rr", Backend: "file", CrashLock: "stale", Class: "generic"},
		{Threads: []c01issThread{th("manage", c01nmCanon), th("manage", c01nmUpper)}, Seeds: []c01issSeed{{c01nmCanon, "due"}}, Policy: "seq", Backend: "file", CrashLock: "stale", Class: "generic"},
	}
}

func c01Features(cs c01issCase, o *c01issObs) map[string]any {
	return map[string]any{"class": cs.Class, "backend": cs.Backend, "crash_lock": cs.CrashLock, "threads": len(cs.Threads), "programs": c01issProgKey(cs), "policy": cs.Policy,
		"faults": len(cs.Faults), "steps": len(o.Steps), "issues": o.Issues, "overlap": o.Overlap, "save_fault": o.SaveFault}
}

func c01Emit(w *emit.Writer, cs c01issCase, o *c01issObs) {
	// the schedule actually taken is what a replay follows
	rec := cs
	rec.Policy, rec.Script = "script", o.Sched
	nt := len(cs.Threads) >= 2 && o.Issues >= 1
	key := fmt.Sprint(c01issProgKey(cs), cs.Backend, cs.CrashLock, cs.Seeds, o.Sched, cs.Faults, cs.CancelWait)
	if cs.Class == "generic" {
		d := c01Features(cs, o)
		d["clause"] = "all"
		w.Add(emit.Case{Desc: d, In: rec, Obs: o, Wire: c01issWire(0, o), Nontrivial: nt, Key: key})
	} else {
		// a case that carries a known hazard is judged clause by clause so that a known finding can
		// be matched narrowly (class + clause) and any other clause still raises an alarm
		for m := 1; m <= 4; m++ {
			d := c01Features(cs, o)
			d["clause"] = c01Clauses[m]
			w.Add(emit.Case{Desc: d, In: rec, Obs: o, Wire: c01issWire(m, o), Nontrivial: nt && m == 1, Key: key})
		}
	}
	w.Hist("class=" + cs.Class)
	w.Hist("backend=" + map[string]string{"": "memory", "file": "file"}[cs.Backend])
	if cs.CrashLock != "" {
		w.Hist("dead_holder_lock_file=" + cs.CrashLock)
	}
	if cs.LockIgnoresCtx {
		w.Hist("cancel_at_lock_gate_granted_anyway=1")
	}
	w.Hist("programs=" + c01issProgKey(cs))
	w.Hist(fmt.Sprintf("threads=%d", len(cs.Threads)))
	for _, t := range cs.Threads {
		if t.Decliner {
			w.Hist("instance_with_declining_first_issuer=1")
		}
	}
	w.Hist("policy=" + cs.Policy)
	w.Hist(fmt.Sprintf("faults=%d", len(cs.Faults)))
	for _, s := range o.Steps {
		if s.Fault == c01fCancel && s.Op[0] == 7 {
			w.Hist(fmt.Sprintf("cancelled_while_waiting=%v", map[bool]string{false: "planned", true: "rescue"}[o.Deadlock]))
		}
	}
	w.Hist(fmt.Sprintf("issues=%d", o.Issues))
	w.Hist(fmt.Sprintf("steps=%d0s", len(o.Steps)/10))
	for _, s := range o.Steps {
		if s.Fault != 0 {
			w.Hist("fault=" + c01FaultNames[s.Fault] + "@" + strings.SplitN(s.Desc, " ", 2)[0])
		}
	}
}

func c01Random(r *rand.Rand, tier string) c01issCase {
	cs := c01issCase{Class: "generic", SchedSeed: r.Int63()}
	hazard := r.Intn(12)
	names := []string{c01nmCanon}
	spelling := false
	switch hazard {
	case 0:
		cs.Class, cs.AllowOverlap = "manage-load-overlaps-save", true
	case 1:
		cs.Class, cs.AllowSaveFault = "fault-inside-save", true
	case 2:
		// non-canonical spellings of one name (no faults: the hazard is kept alone)
		cs.Class, spelling = "spelling-different-locks", true
		names = []string{c01nmUni, c01nmPuny, "BÜCHER.example", c01nmPuny}
	}
	// ("aridue" bundles and issuers without metadata are in the corpus only: with faults inside a save or under
	// load their random histories were not reproducible from the script, see DESIGN 11.5)
	seedKinds := []string{"", "", "", "fresh", "fresh", "due", "due", "due", "keyonly", "nokey", "nometa", "mismatch"}
	sk := seedKinds[r.Intn(len(seedKinds))]
	if spelling {
		sk = []string{"", "", "due"}[r.Intn(3)]
	}
	if sk != "" {
		cs.Seeds = []c01issSeed{{names[len(names)-1], sk}}
	}
	nth := 2 + r.Intn(2)
	if tier == "thorough" {
		nth = 2 + r.Intn(4)
	}
	for i := 0; i < nth; i++ {
		t := c01issThread{Name: names[r.Intn(len(names))]}
		switch p := r.Intn(10); {
		case p < 4 && sk == "aridue":
			// (the dueness of this bundle lives in its metadata, not in the leaf: an unlocked ManageSync load that
			// straddles a save is not the model's "due certificate" any more -- renewals only here; ManageSync
			// on such a bundle is in the corpus)
			t.Prog, t.Async = "renew", r.Intn(3) == 0
		case p < 4:
			t.Prog = "manage"
			if r.Intn(3) == 0 && !spelling {
				t.Name = []string{c01nmUpper, " a.example", "A.EXAMPLE"}[r.Intn(3)]
			}
		case p < 7:
			t.Prog, t.Async = "obtain", r.Intn(3) == 0
		default:
			if sk != "fresh" && sk != "due" && sk != "aridue" {
				t.Prog = "obtain"
			} else {
				t.Prog, t.Async, t.Force = "renew", r.Intn(3) == 0, r.Intn(4) == 0
			}
		}
		t.Reuse = r.Intn(4) == 0
		t.NoChk = r.Intn(3) == 0
		t.Decliner = !t.Async && r.Intn(8) == 0 // no faults of its own are injected into such an instance (hook)
		t.IssDue = r.Intn(8) == 0
		cs.Threads = append(cs.Threads, t)
	}
	// an on-demand handshake among the requests (one per case: handshakes of one process for one name wait
	// for each other in memory before they reach the storage lock). Not with due certificates around: the
	// handshake would renew them in a background goroutine.
	if !spelling && cs.Class != "manage-load-overlaps-save" && sk != "due" && sk != "aridue" && sk != "mismatch" && r.Intn(5) == 0 {
		for i := range cs.Threads {
			cs.Threads[i].IssDue, cs.Threads[i].Force = false, false
		}
		h := r.Intn(nth)
		cs.Threads[h] = c01issThread{Prog: "handshake", Name: []string{c01nmCanon, c01nmCanon, c01nmUpper, " a.example"}[r.Intn(4)], Reuse: r.Intn(4) == 0, NoChk: r.Intn(3) == 0}
	}
	cs.Policy = []string{"random", "random", "sticky", "sticky", "rr", "seq"}[r.Intn(6)]
	if r.Intn(3) == 0 {
		cs.Pause = map[string]string{fmt.Sprint(r.Intn(nth)): []string{"IssueEnd:", "Store:.crt", "Store:.json", "Unlock:", "Event:cert_obtained"}[r.Intn(5)]}
	}
	nf := []int{0, 0, 1, 1, 2, 3}[r.Intn(6)]
	if spelling {
		nf = 0
	}
	if nf > 0 {
		cs.Faults = map[string]int{}
	}
	for i := 0; i < nf; i++ {
		t := r.Intn(nth)
		f := 1 + r.Intn(3)
		if r.Intn(2) == 0 {
			cs.Faults[fmt.Sprintf("%d:%d", t, r.Intn(24))] = f
		} else {
			pat := []string{"IssueStart:", "IssueEnd:", "Event:cert_obtaining", "Event:cert_obtained", "Load:.key", "Load:.crt", "Load:.json", "Exists:.crt", "Lock:", "Store:.key", "Store:.crt", "Store:.json", "Delete:.key"}
			cs.Faults[fmt.Sprintf("%d:%s", t, pat[r.Intn(len(pat))])] = f
		}
	}
	// the only fault: one synchronous request's context ends at its Lock gate, the lock is granted anyway
	if !spelling && cs.Class == "generic" && r.Intn(12) == 0 {
		var cand []int
		for i, t := range cs.Threads {
			if !t.Async && t.Prog != "handshake" && !t.Decliner {
				cand = append(cand, i)
			}
		}
		if len(cand) > 0 {
			cs.LockIgnoresCtx = true
			cs.Faults = map[string]int{fmt.Sprintf("%d:Lock:", cand[r.Intn(len(cand))]): c01fCancel}
			return cs
		}
	}
	// a request is cancelled while it waits for the lock (the holder is alive)
	if !spelling && r.Intn(5) == 0 {
		cs.CancelWait = map[string]int{fmt.Sprint(r.Intn(nth)): r.Intn(8)}
	}
	// the real FileStorage behind the gate (each hand-over of its lock costs up to 1 s of polling)
	if r.Intn(map[string]int{"thorough": 30}[tier]+70) == 0 { // quick 1/70, thorough 1/100 of many more
		cs.Backend = "file"
		if !spelling {
			cs.CrashLock = []string{"", "stale"}[r.Intn(2)]
			if tier == "thorough" { // an empty lock file costs 2 s, a fresh one 10 s
				cs.CrashLock = []string{"", "stale", "stale", "empty", "empty", "", "stale", "empty"}[r.Intn(8)]
				if x := r.Intn(32); x < 2 { // about 11 s each
					cs.CrashLock = []string{"fresh", "empty-fresh"}[x]
				}
			}
		}
	}
	// Unlock failures leave the lock held by definition (C09's excluded class); not injected here
	return cs
}

func runC01(tier string, seed int64, outdir string, replay string) error {
	w := emit.NewWriter(outdir, "C01", tier, seed)
	defer w.Close()
	w.Meta.Oracles = []emit.OracleCheck{}
	w.Meta.Rule = "distinct (programs, seeds, schedule, fault plan) runs with at least two threads in which at least one issuance was attempted"
	if replay != "" {
		rc, err := loadReplay(replay)
		if err != nil {
			return err
		}
		if cl, _ := rc.Desc["class"].(string); cl == "free-running" {
			var fc c01FreeCase
			if err := json.Unmarshal(rc.In, &fc); err != nil {
				return err
			}
			return c01FreeEmit(w, fc, 0)
		}
		var cs c01issCase
		if err := json.Unmarshal(rc.In, &cs); err != nil {
			return err
		}
		o, err := c01RunIssCase(cs)
		if err != nil {
			return err
		}
		c01Emit(w, cs, o)
		return nil
	}
	if tier == "debug" {
		for i, cs := range c01Corpus() {
			o, err := c01RunIssCase(cs)
			if err != nil {
				return err
			}
			fmt.Fprintf(os.Stderr, "--- corpus %d class=%s results=%v seen=%v issues=%d overlap=%v final=%v held=%d rec=%d\n", i, cs.Class, o.Results, o.Seen, o.Issues, o.Overlap, o.Final, o.Held, o.Recorded)
			for _, s := range o.Steps {
				fmt.Fprintf(os.Stderr, "   t%d %-6s %-70s out=%d enc=%v\n", s.Tid, c01FaultNames[s.Fault], s.Desc, s.Out, s.Op)
			}
			c01Emit(w, cs, o)
		}
		return nil
	}
	for _, cs := range c01Corpus() {
		o, err := c01RunIssCase(cs)
		if err != nil {
			return fmt.Errorf("corpus case %s: %v", cs.Class, err)
		}
		c01Emit(w, cs, o)
	}
	if tier == "thorough" {
		// the dead holder's lock file carries a timestamp of this moment: take-over after the staleness bound (10 s)
		cs := c01issCase{Threads: []c01issThread{{Prog: "obtain", Name: c01nmCanon}, {Prog: "manage", Name: c01nmCanon}}, Policy: "rr", Backend: "file", CrashLock: "fresh", Class: "generic"}
		o, err := c01RunIssCase(cs)
		if err != nil {
			return fmt.Errorf("corpus case fresh lock of a dead holder: %v", err)
		}
		c01Emit(w, cs, o)
		// a slow holder: 14 s inside the issuer (beyond the staleness bound of 10 s); the waiter must still be
		// waiting afterwards because the holder's lock file is kept fresh
		cs = c01issCase{Threads: []c01issThread{{Prog: "obtain", Name: c01nmCanon}, {Prog: "obtain", Name: c01nmCanon}}, Policy: "seq",
			Pause: map[string]string{"0": "IssueEnd:"}, HoldMs: map[string]int{"0": 14000}, Backend: "file", Class: "generic"}
		o, err = c01RunIssCase(cs)
		if err != nil {
			return fmt.Errorf("corpus case slow holder: %v", err)
		}
		c01Emit(w, cs, o)
	}
	// free-running instances on one FileStorage directory (no gate; spec monitor only)
	if err := c01FreeBatch(w, rand.New(rand.NewSource(seed+991)), map[string]int{"thorough": 25}[tier]+3); err != nil {
		return err
	}
	r := rand.New(rand.NewSource(seed))
	n := 1100
	if tier == "thorough" {
		n = 12000
	}
	for i := 0; i < n; i++ {
		cs := c01Random(r, tier)
		o, err := c01RunIssCase(cs)
		if err != nil {
			b, _ := json.Marshal(cs)
			return fmt.Errorf("random case %d: %v (%s)", i, err, b)
		}
		c01Emit(w, cs, o)
	}
	return nil
}
