//go:build !skip_c12

package main

// C12 — the certificate cache and its name index always agree, within capacity.
//
// Operation histories are run on the REAL certmagic.Cache (in-package access through the
// verif hooks): cacheCertificate, removeCertificate, replaceCertificate, Remove, RemoveManaged,
// handshakeMaintenance (handshake.go write-back), updateARI and updateOCSPStaples (maintain.go
// write-backs).  After every abstract operation both maps are snapshotted.  The write-back
// operations go through the storage double; an "inner" operation can be run while the outer one
// is inside its first storage call, i.e. between its read of the certificate and its
// write-back (a genuine interleaving: the outer operation then holds a stale copy).

import (
	"bytes"
	"context"
	"crypto/ecdsa"
	"crypto/elliptic"
	crand "crypto/rand"
	"crypto/tls"
	"crypto/x509"
	"encoding/json"
	"encoding/pem"
	"fmt"
	"hash/fnv"
	"math/big"
	"net/url"
	"math/rand"
	"os"
	"os/exec"
	"path/filepath"
	"regexp"
	"sort"
	"strings"
	"sync"
	"time"

	"github.com/caddyserver/certmagic"
	"github.com/mholt/acmez/v3/acme"
	"github.com/zeebo/blake3"
	"golang.org/x/crypto/ocsp"

	"verifharness/pkg/doubles"
	"verifharness/pkg/emit"
)

func init() { register("C12", runC12) }

type c12Info = certmagic.VerifCertInfo

// c12Op is a concrete operation on the implementation (JSON: replay files).
type c12Op struct {
	Kind     string      `json:"kind"` // add rmcert replace remove rmmanaged hsmaint ari ocspmaint renewmaint setcap query stop (stress only: lookup handshake)
	Capz     *int64      `json:"capz,omitempty"` // setcap: CacheOptions.Capacity
	Name     string      `json:"name,omitempty"` // query
	Cert     *c12Info    `json:"cert,omitempty"`
	New      *c12Info    `json:"new,omitempty"`
	Hashes   []string    `json:"hashes,omitempty"`
	Subjects [][2]string `json:"subjects,omitempty"`
	Inner    *c12Op      `json:"inner,omitempty"` // run inside the first storage call of a gated op
}

type c12Snap struct {
	Keys  []string            `json:"keys"`
	Certs []c12Info           `json:"certs"`
	Index map[string][]string `json:"index"`
}

// c12Step is one abstract operation (wire-encoded for the model) and the state after it.
type c12Step struct {
	Abs  string  `json:"abs"`
	wire *emit.Enc
	Snap c12Snap `json:"state"`
}

type ariIssuer struct {
	key string
	ctr *int
	mu  *sync.Mutex
}

func (i ariIssuer) IssuerKey() string { return i.key }
func (i ariIssuer) Issue(ctx context.Context, csr *x509.CertificateRequest) (*certmagic.IssuedCertificate, error) {
	return nil, fmt.Errorf("ariIssuer does not issue")
}
func (i ariIssuer) GetRenewalInfo(ctx context.Context, cert certmagic.Certificate) (acme.RenewalInfo, error) {
	i.mu.Lock()
	defer i.mu.Unlock()
	*i.ctr++
	return acme.RenewalInfo{ExplanationURL: fmt.Sprintf("i%d", *i.ctr)}, nil
}

type c12Env struct {
	backend    *doubles.MemBackend
	cfg        *certmagic.Config
	cache      *certmagic.Cache
	getter     certmagic.ConfigGetter
	cap        int
	ariCounter *int
	mu         sync.Mutex
	panics     []string // implementation panics seen (the environment is rebuilt after each)
	chains     map[string]tls.Certificate // pool hash -> real chain (Leaf set)
	pems       map[string][]byte
	hello      *tls.ClientHelloInfo
	closeHello func()
	feat       map[string]int // features of the current history
	interval   time.Duration  // RenewCheckInterval / OCSPCheckInterval of the cache (0: defaults)
	stopped    bool           // Cache.Stop was called on this environment's cache
	rec        *c12Recorder // what the ConfigGetter was shown while recording
}

// c12Recorder is shared by the ConfigGetter closure and the environment (which is replaced
// field-wise after a panic / a Stop).
type c12Recorder struct {
	mu  sync.Mutex
	on  bool
	log []c12Seen
	cfg *certmagic.Config
}

// c12Seen is one call of the ConfigGetter (CacheOptions.GetConfigForCert).
type c12Seen struct {
	Hash string   `json:"hash"`
	Tags []string `json:"tags"`
}

// ---- storage keys computed independently of certmagic.StorageKeys (standard library only) ----
var c12SafeStrip = regexp.MustCompile(`[^a-zA-Z0-9_@.-]`)

func c12Safe(s string) string {
	s = strings.TrimSpace(strings.ToLower(s))
	s = strings.NewReplacer(" ", "_", "+", "_plus_", "*", "wildcard_", ":", "-", "..", "").Replace(s)
	s = c12SafeStrip.ReplaceAllLiteralString(s, "")
	return strings.ReplaceAll(s, "..", "")
}

func c12OCSPKey(names []string, pemBundle []byte) string {
	h := fnv.New32a()
	h.Write(pemBundle)
	k := fmt.Sprintf("%x", h.Sum32())
	if len(names) > 0 {
		k = c12Safe(names[0]) + "-" + k
	}
	return "ocsp/" + k
}

func c12MetaKey(issuer, name string) string {
	return "certificates/" + c12Safe(issuer) + "/" + c12Safe(name) + "/" + c12Safe(name) + ".json"
}

// oracle bookkeeping across all environments of a run
var c12Oracle struct {
	mu        sync.Mutex
	keys      int
	keyBad    []string
	stops     int
	stopBad   []string
	raceNote  string
	raceBad   string
	raceRan   bool
}

var c12PoolDef = []c12Info{
	{Hash: "h1", Names: []string{"a.x"}},
	{Hash: "h2", Names: []string{"a.x", "b.x"}, Managed: true, IssuerKey: "i1"},
	{Hash: "h3", Names: []string{"*.x"}, Managed: true, IssuerKey: "i1"},
	{Hash: "h4", Names: []string{"b.x", "b.x", "c.x"}, Managed: true, IssuerKey: "i2"},
	{Hash: "h5", Names: []string{"a.x"}, Managed: true, IssuerKey: "i2"},
	{Hash: "h6", Names: []string{"c.x", "*.x"}},
	{Hash: "h7", Names: []string{"d.y", "a.x", "*.b.x"}, Managed: true, IssuerKey: "i1"},
	{Hash: "h8", Names: []string{"*.*.x", "a.x", "a.x", "*.*"}},
	// names that are not in lower case / carry surrounding space (the cache keys its index by the
	// certificate's names VERBATIM; the library's own loader lower-cases all but URI SANs)
	{Hash: "h9", Names: []string{"Up.X", " pad.x ", "SPIFFE://Example.org/ns/Prod"}},
}

// which pool certificates have a fresh OCSP staple / newer ARI in storage
var c12Staple = map[string]int64{"h2": 102, "h3": 103, "h6": 106, "h8": 108}
var c12Meta = map[string]bool{"h3": true, "h4": true}

var c12Queries = []string{"a.x", "b.x", "c.x", "q.x", "d.y", "x", "a.b.x", "*.x", "q.r.x", "", "Up.X", "up.x", " pad.x ", "pad.x", "real.example",
	"spiffe://example.org/ns/Prod/sa/Billing", "spiffe://example.org/ns/prod/sa/billing"}

func c12PoolByHash(h string) *c12Info {
	for i := range c12PoolDef {
		if c12PoolDef[i].Hash == h {
			return &c12PoolDef[i]
		}
	}
	return nil
}

func newC12Env() (*c12Env, error) { return newC12EnvI(0) }

// newC12EnvI: interval > 0 makes the cache's own maintenance goroutine run its passes
// (RenewManagedCertificates, updateOCSPStaples) at that interval.
func newC12EnvI(interval time.Duration) (*c12Env, error) {
	env := &c12Env{backend: doubles.NewMemBackend(), chains: map[string]tls.Certificate{}, pems: map[string][]byte{}, ariCounter: new(int), interval: interval}
	st := env.backend.Handle("c12")
	rec := &c12Recorder{}
	env.rec = rec
	env.getter = func(c certmagic.Certificate) (*certmagic.Config, error) {
		rec.mu.Lock()
		defer rec.mu.Unlock()
		if rec.on {
			rec.log = append(rec.log, c12Seen{c.Hash(), append([]string{}, c.Tags...)})
		}
		return rec.cfg, nil
	}
	cfg, cache := doubles.NewConfig(st, certmagic.Config{DisableARI: false},
		certmagic.CacheOptions{GetConfigForCert: env.getter, RenewCheckInterval: interval, OCSPCheckInterval: interval},
		ariIssuer{"i1", env.ariCounter, &env.mu}, ariIssuer{"i2", env.ariCounter, &env.mu})
	env.cfg, env.cache = cfg, cache
	rec.mu.Lock()
	rec.cfg = cfg
	rec.mu.Unlock()
	env.hello, env.closeHello = doubles.Hello("a.x")
	c12Proto.mu.Lock()
	defer c12Proto.mu.Unlock()
	if c12Proto.chains == nil {
		// the certificates, staples and metadata are made once per run and shared by all environments
		ca := doubles.NewCA("c12 CA")
		chains, pems, store := map[string]tls.Certificate{}, map[string][]byte{}, map[string][]byte{}
		now := time.Now()
		for _, p := range c12PoolDef {
			chainPEM, leaf, keyPEM, err := ca.Leaf(doubles.LeafOpts{Names: []string{"pool-" + p.Hash + ".example"}})
			if err != nil {
				return nil, err
			}
			tc, err := tls.X509KeyPair(chainPEM, keyPEM)
			if err != nil {
				return nil, err
			}
			tc.Leaf = leaf
			chains[p.Hash] = tc
			// the PEM bundle exactly as stapleOCSP re-encodes it
			var b bytes.Buffer
			for _, der := range tc.Certificate {
				pem.Encode(&b, &pem.Block{Type: "CERTIFICATE", Bytes: der})
			}
			pems[p.Hash] = b.Bytes()
			c := certmagic.VerifMakeCert(p, tc)
			if serial, ok := c12Staple[p.Hash]; ok {
				resp, err := ocsp.CreateResponse(ca.Cert, ca.Cert, ocsp.Response{Status: ocsp.Good, SerialNumber: big.NewInt(serial),
					ThisUpdate: now.Add(-time.Hour), NextUpdate: now.Add(48 * time.Hour)}, ca.Key)
				if err != nil {
					return nil, err
				}
				key := c12OCSPKey(p.Names, pems[p.Hash])
				c12CheckKey(key, certmagic.StorageKeys.OCSPStaple(&c, pems[p.Hash]))
				store[key] = resp
			}
			if c12Meta[p.Hash] {
				ra := now.Add(time.Hour)
				data, _ := json.Marshal(acme.Certificate{RenewalInfo: &acme.RenewalInfo{ExplanationURL: "s" + p.Hash, RetryAfter: &ra}})
				res, _ := json.Marshal(certmagic.CertificateResource{SANs: p.Names, IssuerData: data})
				key := c12MetaKey(p.IssuerKey, p.Names[0])
				c12CheckKey(key, certmagic.StorageKeys.SiteMeta(p.IssuerKey, p.Names[0]))
				store[key] = res
			}
		}
		// a REAL leaf with an upper-case URI SAN, cached through the library's own loader
		// (Config.CacheUnmanagedTLSCertificate -> fillCertFromLeaf), operation "addreal"
		{
			k, err := ecdsa.GenerateKey(elliptic.P256(), crand.Reader)
			if err != nil {
				return nil, err
			}
			u, _ := url.Parse("spiffe://example.org/ns/Prod/sa/Billing")
			tpl := &x509.Certificate{SerialNumber: big.NewInt(987654), NotBefore: now.Add(-time.Hour), NotAfter: now.Add(90 * 24 * time.Hour),
				KeyUsage: x509.KeyUsageDigitalSignature, ExtKeyUsage: []x509.ExtKeyUsage{x509.ExtKeyUsageServerAuth}, BasicConstraintsValid: true,
				DNSNames: []string{"real.example"}, URIs: []*url.URL{u}}
			der, err := x509.CreateCertificate(crand.Reader, tpl, ca.Cert, &k.PublicKey, ca.Key)
			if err != nil {
				return nil, err
			}
			leaf, err := x509.ParseCertificate(der)
			if err != nil {
				return nil, err
			}
			tc := tls.Certificate{Certificate: [][]byte{der, ca.Cert.Raw}, PrivateKey: k, Leaf: leaf}
			hh := blake3.New()
			for _, c := range tc.Certificate {
				hh.Write(c)
			}
			info := c12Info{Hash: fmt.Sprintf("%x", hh.Sum(nil)), Names: []string{"real.example", u.String()}}
			chains[info.Hash] = tc
			var b bytes.Buffer
			for _, d := range tc.Certificate {
				pem.Encode(&b, &pem.Block{Type: "CERTIFICATE", Bytes: d})
			}
			pems[info.Hash] = b.Bytes()
			c12Proto.real, c12Proto.realInfo = tc, info
		}
		c12Proto.chains, c12Proto.pems, c12Proto.store = chains, pems, store
	}
	env.chains, env.pems = c12Proto.chains, c12Proto.pems
	for k, v := range c12Proto.store {
		env.backend.Put(k, v)
	}
	return env, nil
}

var c12Proto struct {
	real     tls.Certificate // a real leaf (DNS name + upper-case URI SAN)
	realInfo c12Info         // its hash (blake3 of the DER chain, computed here) and the names the leaf carries
	mu     sync.Mutex
	chains map[string]tls.Certificate
	pems   map[string][]byte
	store  map[string][]byte
}

// c12CheckKey records whether certmagic's own key builder agrees with the independently computed key
// (the harness places staples / metadata under ITS key; the code looks them up under the code's).
func c12CheckKey(mine, theirs string) {
	c12Oracle.mu.Lock()
	defer c12Oracle.mu.Unlock()
	c12Oracle.keys++
	if mine != theirs && len(c12Oracle.keyBad) < 5 {
		c12Oracle.keyBad = append(c12Oracle.keyBad, fmt.Sprintf("independent %q, StorageKeys %q", mine, theirs))
	}
}

func (env *c12Env) close() {
	env.closeHello()
	if !env.stopped {
		env.stopped = true
		env.cache.Stop()
	}
}

func (env *c12Env) options(capacity int) certmagic.CacheOptions {
	return certmagic.CacheOptions{GetConfigForCert: env.getter, Capacity: capacity, Logger: env.cfg.Logger,
		RenewCheckInterval: env.interval, OCSPCheckInterval: env.interval}
}

func (env *c12Env) record(on bool) []c12Seen {
	env.rec.mu.Lock()
	defer env.rec.mu.Unlock()
	log := env.rec.log
	env.rec.log, env.rec.on = nil, on
	sort.Slice(log, func(i, j int) bool { return log[i].Hash < log[j].Hash })
	return log
}

func (env *c12Env) reset(capacity int) {
	env.cap = capacity
	env.cache.VerifReset()
	env.cache.SetOptions(env.options(capacity))
	env.backend.Log.Hook = nil
	env.backend.Log.Ops = nil
	*env.ariCounter = 0
	env.feat = map[string]int{}
}

func (env *c12Env) mk(i c12Info) certmagic.Certificate {
	return certmagic.VerifMakeCert(i, env.chains[i.Hash])
}

func (env *c12Env) snap() c12Snap {
	k, c, ix := env.cache.VerifSnapshot()
	if k == nil {
		k = []string{}
	}
	if c == nil {
		c = []c12Info{}
	}
	return c12Snap{k, c, ix}
}

func (env *c12Env) stapleSerial(i c12Info) (int64, bool) {
	if _, ok := env.chains[i.Hash]; !ok {
		return 0, false
	}
	if _, ok := env.backend.Get(c12OCSPKey(i.Names, env.pems[i.Hash])); !ok {
		return 0, false
	}
	// the serial stored under that key (two pool certificates never share a key)
	s, ok := c12Staple[i.Hash]
	return s, ok
}

func (env *c12Env) hasMeta(i c12Info) bool {
	if len(i.Names) == 0 {
		return false
	}
	_, ok := env.backend.Get(c12MetaKey(i.IssuerKey, i.Names[0]))
	return ok
}

func encStrs(e *emit.Enc, ss []string) { e.StrList(ss) }

func encCert(e *emit.Enc, c c12Info) {
	e.Str(c.Hash).StrList(c.Names).Bool(c.Managed).Str(c.IssuerKey).StrList(c.Tags).Z(c.OCSPSerial).Str(c.ARIURL)
}

func encSnap(e *emit.Enc, s c12Snap) {
	e.Len(len(s.Keys))
	for i, k := range s.Keys {
		e.Str(k)
		encCert(e, s.Certs[i])
	}
	names := make([]string, 0, len(s.Index))
	for n := range s.Index {
		names = append(names, n)
	}
	sort.Strings(names)
	e.Len(len(names))
	for _, n := range names {
		e.Str(n).StrList(s.Index[n])
	}
}

func encVictim(e *emit.Enc, v string) {
	if v == "" {
		e.Bool(false)
	} else {
		e.Bool(true).Str(v)
	}
}

func keySet(s c12Snap) map[string]bool {
	m := map[string]bool{}
	for _, k := range s.Keys {
		m[k] = true
	}
	return m
}

// victim: a key present before, absent after, other than `except`.
func c12Victim(before, after c12Snap, except string) string {
	a := keySet(after)
	var vs []string
	for _, k := range before.Keys {
		if !a[k] && k != except {
			vs = append(vs, k)
		}
	}
	if len(vs) == 0 {
		return ""
	}
	return vs[0]
}

// exec runs one concrete operation on the implementation and returns the abstract steps.
// errC12Panic marks an implementation panic: the steps observed before it are still returned.
type errC12Panic struct{ msg string }

func (e errC12Panic) Error() string { return e.msg }

func (env *c12Env) exec(op *c12Op) (steps []c12Step, err error) {
	defer func() {
		if r := recover(); r != nil {
			err = errC12Panic{fmt.Sprintf("implementation panicked in %s: %v", op.Kind, r)}
		}
	}()
	emitStep := func(abs string, e *emit.Enc) {
		steps = append(steps, c12Step{Abs: abs, wire: e, Snap: env.snap()})
	}
	before := env.snap()
	cached := keySet(before)
	env.feat["op="+op.Kind]++
	// gated operations: run the inner operation inside the first storage call
	var innerErr error
	gate := func() {
		if op.Inner == nil {
			return
		}
		fired := false
		env.backend.Log.Hook = func(o *doubles.Op) error {
			if fired {
				return nil
			}
			fired = true
			env.backend.Log.Hook = nil
			in, ierr := env.exec(op.Inner)
			if ierr != nil {
				innerErr = ierr
			}
			steps = append(steps, in...)
			env.feat["interleaved"]++
			env.countStaleVsUpdate(op.Inner, cached)
			return nil
		}
	}
	ungate := func() error {
		env.backend.Log.Hook = nil
		if innerErr != nil {
			return innerErr
		}
		return nil
	}
	switch op.Kind {
	case "add":
		c := *op.Cert
		env.cache.VerifCacheCertificate(env.mk(c))
		after := env.snap()
		v := ""
		if !cached[c.Hash] {
			v = c12Victim(before, after, "")
			if v != "" {
				env.feat["evict"]++
			}
		} else {
			env.feat["readd"]++
			if len(c.Tags) > 0 {
				env.feat["tagmerge"]++
			}
		}
		e := (&emit.Enc{}).Int(0)
		encCert(e, c)
		encVictim(e, v)
		emitStep(fmt.Sprintf("Add(%s tags=%v) victim=%q", c.Hash, c.Tags, v), e)
	case "addreal":
		// the library's own loader on a real leaf: the abstract operation is the insertion of the
		// certificate the LEAF describes (hash = blake3 of the chain, names as the leaf carries them)
		c := c12Proto.realInfo
		if op.Cert != nil {
			c.Tags = op.Cert.Tags
		}
		if _, err := env.cfg.CacheUnmanagedTLSCertificate(context.Background(), c12Proto.real, c.Tags); err != nil {
			return nil, fmt.Errorf("CacheUnmanagedTLSCertificate(real leaf): %v", err)
		}
		after := env.snap()
		v := ""
		if !cached[c.Hash] {
			v = c12Victim(before, after, "")
			if v != "" {
				env.feat["evict"]++
			}
		} else {
			env.feat["readd"]++
			if len(c.Tags) > 0 {
				env.feat["tagmerge"]++
			}
		}
		env.feat["real_leaf_loaded"]++
		e := (&emit.Enc{}).Int(0)
		encCert(e, c)
		encVictim(e, v)
		emitStep(fmt.Sprintf("Add(real leaf %s names=%v tags=%v) victim=%q", c.Hash[:8], c.Names, c.Tags, v), e)
	case "rmcert":
		c := *op.Cert
		env.cache.VerifRemoveCertificate(env.mk(c))
		if cached[c.Hash] {
			env.feat["remove_hit"]++
		} else {
			env.feat["remove_miss"]++
		}
		e := (&emit.Enc{}).Int(1)
		encCert(e, c)
		emitStep(fmt.Sprintf("RemoveCert(%s)", c.Hash), e)
	case "replace":
		o, n := *op.Cert, *op.New
		env.cache.VerifReplaceCertificate(env.mk(o), env.mk(n))
		after := env.snap()
		v := ""
		if !cached[n.Hash] || n.Hash == o.Hash {
			v = c12Victim(before, after, o.Hash)
			if v != "" {
				env.feat["evict"]++
			}
		}
		if !cached[o.Hash] {
			env.feat["replace_stale_old"]++
		}
		e := (&emit.Enc{}).Int(2)
		encCert(e, o)
		encCert(e, n)
		encVictim(e, v)
		emitStep(fmt.Sprintf("Replace(%s,%s) victim=%q", o.Hash, n.Hash, v), e)
	case "remove":
		env.cache.Remove(op.Hashes)
		for _, h := range op.Hashes {
			if cached[h] {
				env.feat["remove_hit"]++
			} else {
				env.feat["remove_unknown_hash"]++
			}
		}
		e := (&emit.Enc{}).Int(3).StrList(op.Hashes)
		emitStep(fmt.Sprintf("Remove(%v)", op.Hashes), e)
	case "rmmanaged":
		var sj []certmagic.SubjectIssuer
		e := (&emit.Enc{}).Int(4).Len(len(op.Subjects))
		for _, s := range op.Subjects {
			sj = append(sj, certmagic.SubjectIssuer{Subject: s[0], IssuerKey: s[1]})
			e.Str(s[0]).Str(s[1])
		}
		env.cache.RemoveManaged(sj)
		if len(env.snap().Keys) < len(before.Keys) {
			env.feat["remove_hit"]++
		}
		emitStep(fmt.Sprintf("RemoveManaged(%v)", op.Subjects), e)
	case "hsmaint":
		// handshake.go: OCSP refresh of the handshake's copy, then the guarded write-back
		c := *op.Cert
		if c.OCSPSerial == 0 {
			c.OCSPSerial = 1 // the refresh branch is entered only with a (non-fresh) response attached
		}
		gate()
		res, err := env.cfg.VerifHandshakeMaintenance(context.Background(), env.hello, env.mk(c))
		if gerr := ungate(); gerr != nil {
			return nil, gerr
		}
		if err != nil {
			return nil, fmt.Errorf("handshakeMaintenance(%s): %v", c.Hash, err)
		}
		written := certmagic.VerifInfo(res)
		if keySet(env.snapNoCount())[c.Hash] {
			env.feat["writeback_applied"]++
		} else {
			env.feat["writeback_refused_stale"]++
		}
		e := (&emit.Enc{}).Int(5)
		encCert(e, written)
		emitStep(fmt.Sprintf("HandshakeWriteBack(%s ocsp=%d tags=%v)", written.Hash, written.OCSPSerial, written.Tags), e)
	case "ari":
		// maintain.go updateARI: newer ARI from storage or from the issuer, guarded write-back
		c := *op.Cert
		attempted := env.hasMeta(c) || c.IssuerKey == "i1" || c.IssuerKey == "i2"
		gate()
		res, _, _ := env.cfg.VerifUpdateARI(context.Background(), env.mk(c))
		if gerr := ungate(); gerr != nil {
			return nil, gerr
		}
		if attempted {
			if keySet(env.snapNoCount())[c.Hash] {
				env.feat["writeback_applied"]++
			} else {
				env.feat["writeback_refused_stale"]++
			}
			v := certmagic.VerifInfo(res).ARIURL
			e := (&emit.Enc{}).Int(7).Str(c.Hash).Str(v)
			emitStep(fmt.Sprintf("SetARI(%s,%s)", c.Hash, v), e)
		} else {
			e := (&emit.Enc{}).Int(6).Len(0)
			emitStep("SetOCSP([]) (updateARI without ARI source)", e)
		}
	case "ocspmaint":
		// maintain.go updateOCSPStaples: scan, staple outside the lock, guarded write-backs
		type upd struct {
			h string
			v int64
		}
		var expect []upd
		for _, ci := range before.Certs {
			if ci.OCSPSerial >= 100 {
				continue // fresh
			}
			if s, ok := env.stapleSerial(ci); ok {
				expect = append(expect, upd{ci.Hash, s})
			}
		}
		gate()
		env.record(true)
		env.cache.VerifUpdateOCSPStaples(context.Background())
		seen := env.record(false)
		if gerr := ungate(); gerr != nil {
			return nil, gerr
		}
		// the scan came first (under the read lock, before any storage call): it is its own step
		steps = append([]c12Step{c12ScanStep(false, seen, before)}, steps...)
		env.feat["getter_calls"] += len(seen)
		now := keySet(env.snapNoCount())
		e := (&emit.Enc{}).Int(6).Len(len(expect))
		var d []string
		for _, u := range expect {
			e.Str(u.h).Z(u.v)
			d = append(d, fmt.Sprintf("%s:%d", u.h, u.v))
			if now[u.h] {
				env.feat["writeback_applied"]++
			} else {
				env.feat["writeback_refused_stale"]++
			}
		}
		emitStep(fmt.Sprintf("SetOCSP(%v)", d), e)
	case "renewmaint":
		// maintain.go RenewManagedCertificates: the scan shows every managed certificate to the
		// ConfigGetter; then updateARI per certificate (no certificate of the pool is near expiry, so
		// nothing is renewed or reloaded).  Every updateARI starts by taking the storage lock "ari_...":
		// both maps are snapshotted there, i.e. between consecutive write-backs; the inner operation
		// runs at the first one (after the scan, before the first write-back).
		var snaps []c12Snap
		fired := false
		env.backend.Log.Hook = func(o *doubles.Op) error {
			if o.Kind != "Lock" || !strings.HasPrefix(o.Key, "ari_") {
				return nil
			}
			if !fired {
				fired = true
				if op.Inner != nil {
					hook := env.backend.Log.Hook
					env.backend.Log.Hook = nil
					r := env.rec
					r.mu.Lock()
					was, kept := r.on, r.log
					r.on = false
					r.mu.Unlock()
					in, ierr := env.exec(op.Inner)
					r.mu.Lock()
					r.on, r.log = was, kept
					r.mu.Unlock()
					if ierr != nil {
						innerErr = ierr
					}
					steps = append(steps, in...)
					env.feat["interleaved"]++
					env.countStaleVsUpdate(op.Inner, cached)
					env.backend.Log.Hook = hook
				}
			}
			snaps = append(snaps, env.snap())
			return nil
		}
		env.record(true)
		rerr := env.cache.RenewManagedCertificates(context.Background())
		seen := env.record(false)
		if gerr := ungate(); gerr != nil {
			return nil, gerr
		}
		if rerr != nil {
			return nil, fmt.Errorf("RenewManagedCertificates: %v", rerr)
		}
		steps = append([]c12Step{c12ScanStep(true, seen, before)}, steps...)
		env.feat["getter_calls"] += len(seen)
		snaps = append(snaps, env.snap())
		for k := 1; k < len(snaps); k++ {
			prev, cur := snaps[k-1], snaps[k]
			// the write-back between the two snapshots: the certificate whose ARI differs (if any)
			h, v := "", ""
			pm := map[string]c12Info{}
			for _, ci := range prev.Certs {
				pm[ci.Hash] = ci
			}
			for _, ci := range cur.Certs {
				if pi, ok := pm[ci.Hash]; ok && pi.ARIURL != ci.ARIURL {
					h, v = ci.Hash, ci.ARIURL
				}
			}
			if h == "" {
				env.feat["ari_pass_without_change"]++
				continue
			}
			env.feat["writeback_applied"]++
			e := (&emit.Enc{}).Int(7).Str(h).Str(v)
			steps = append(steps, c12Step{Abs: fmt.Sprintf("SetARI(%s,%s) (renewal pass)", h, v), wire: e, Snap: cur})
		}
	case "setcap":
		z := *op.Capz
		env.cache.SetOptions(env.options(int(z)))
		after := env.snap()
		a := keySet(after)
		victims := []string{}
		for _, k := range before.Keys {
			if !a[k] {
				victims = append(victims, k)
			}
		}
		capObs := env.cache.VerifCapacity()
		if len(victims) > 0 {
			env.feat["trim"]++
			env.feat["trim_evicted"] += len(victims)
		}
		if z > 0 && int(z) < len(before.Keys) {
			env.feat["capacity_lowered_below_size"]++
		}
		env.feat["setcap"]++
		e := (&emit.Enc{}).Int(9).Z(z).StrList(victims).Int(capObs)
		emitStep(fmt.Sprintf("SetOptions(Capacity=%d) evicted=%v capacity now %d", z, victims, capObs), e)
	case "query":
		hs := []string{}
		for _, c := range env.cache.AllMatchingCertificates(op.Name) {
			hs = append(hs, c.Hash())
		}
		if len(hs) > 0 {
			env.feat["query_hit"]++
		} else {
			env.feat["query_miss"]++
		}
		e := (&emit.Enc{}).Int(10).Str(op.Name).StrList(hs)
		emitStep(fmt.Sprintf("AllMatchingCertificates(%q) = %v", op.Name, hs), e)
	case "stop":
		// Cache.Stop: the maintenance goroutine ends; both maps stay as they are; a stopped cache is
		// never stopped again (the environment is replaced after the history)
		if !env.stopped {
			env.stopped = true
			done := make(chan struct{})
			go func() { env.cache.Stop(); close(done) }()
			c12Oracle.mu.Lock()
			c12Oracle.stops++
			c12Oracle.mu.Unlock()
			select {
			case <-done:
			case <-time.After(20 * time.Second):
				c12Oracle.mu.Lock()
				c12Oracle.stopBad = append(c12Oracle.stopBad, "Cache.Stop did not return within 20 s")
				c12Oracle.mu.Unlock()
			}
		}
		env.feat["stop"]++
		emitStep("Stop()", (&emit.Enc{}).Int(11))
	default:
		return nil, fmt.Errorf("unknown op kind %q", op.Kind)
	}
	if env.stopped && op.Kind != "stop" {
		env.feat["op_after_stop"]++
	}
	return steps, nil
}

// c12ScanStep: the scan of a maintenance pass as a step of its own: what the ConfigGetter was shown,
// and the state the scan ran on.
func c12ScanStep(renew bool, seen []c12Seen, at c12Snap) c12Step {
	e := (&emit.Enc{}).Int(12).Bool(renew).Len(len(seen))
	var d []string
	for _, x := range seen {
		e.Str(x.Hash).StrList(x.Tags)
		d = append(d, fmt.Sprintf("%s%v", x.Hash, x.Tags))
	}
	name := "updateOCSPStaples"
	if renew {
		name = "RenewManagedCertificates"
	}
	return c12Step{Abs: fmt.Sprintf("scan of %s: getConfig saw %v", name, d), wire: e, Snap: at}
}

func (env *c12Env) snapNoCount() c12Snap { return env.snap() }

// countStaleVsUpdate: the interleaving in which the outer operation's copy goes stale because the SAME
// cached certificate is updated (tags merged by a re-add, or another write-back) before the outer write-back.
func (env *c12Env) countStaleVsUpdate(in *c12Op, cachedBefore map[string]bool) {
	switch in.Kind {
	case "add":
		if in.Cert != nil && cachedBefore[in.Cert.Hash] && len(in.Cert.Tags) > 0 {
			env.feat["stale_copy_vs_tag_merge"]++
		}
	case "ari", "ocspmaint", "hsmaint", "renewmaint":
		env.feat["stale_copy_vs_other_writeback"]++
	}
}

// rebuild replaces the environment after an implementation panic (a mutex may be left locked).
func (env *c12Env) rebuild(msg string) error {
	n, err := newC12EnvI(env.interval)
	if err != nil {
		return err
	}
	n.panics = env.panics
	if msg != "" {
		n.panics = append(env.panics, msg)
	} else {
		// orderly replacement (the cache of this environment was stopped by the history)
		env.closeHello()
	}
	env.stopped = false
	// (field-wise: the struct holds a mutex)
	env.backend, env.cfg, env.cache, env.getter = n.backend, n.cfg, n.cache, n.getter
	env.ariCounter, env.chains, env.pems = n.ariCounter, n.chains, n.pems
	env.hello, env.closeHello, env.panics, env.rec = n.hello, n.closeHello, n.panics, n.rec
	return nil
}

type c12Hist struct {
	Cap int     `json:"cap"`
	Ops []c12Op `json:"ops"`
	// Concurrent, if set, is a stress case: phases of operation lists run by free goroutines
	// (Concurrent[phase][goroutine] = ops); Ops then run sequentially afterwards.
	Concurrent [][][]c12Op `json:"concurrent,omitempty"`
}

// execRaw runs an operation on the implementation without any bookkeeping (stress runs).
func (env *c12Env) execRaw(op *c12Op) {
	switch op.Kind {
	case "add":
		env.cache.VerifCacheCertificate(env.mk(*op.Cert))
	case "addreal":
		var tags []string
		if op.Cert != nil {
			tags = op.Cert.Tags
		}
		env.cfg.CacheUnmanagedTLSCertificate(context.Background(), c12Proto.real, tags)
	case "rmcert":
		env.cache.VerifRemoveCertificate(env.mk(*op.Cert))
	case "replace":
		env.cache.VerifReplaceCertificate(env.mk(*op.Cert), env.mk(*op.New))
	case "remove":
		env.cache.Remove(op.Hashes)
	case "rmmanaged":
		var sj []certmagic.SubjectIssuer
		for _, s := range op.Subjects {
			sj = append(sj, certmagic.SubjectIssuer{Subject: s[0], IssuerKey: s[1]})
		}
		env.cache.RemoveManaged(sj)
	case "hsmaint":
		c := *op.Cert
		if c.OCSPSerial == 0 {
			c.OCSPSerial = 1
		}
		env.cfg.VerifHandshakeMaintenance(context.Background(), env.hello, env.mk(c))
	case "ari":
		env.cfg.VerifUpdateARI(context.Background(), env.mk(*op.Cert))
	case "ocspmaint":
		env.cache.VerifUpdateOCSPStaples(context.Background())
	case "lookup":
		for _, c := range env.cache.AllMatchingCertificates(op.Hashes[0]) {
			_ = c.Hash()
		}
	case "query":
		for _, c := range env.cache.AllMatchingCertificates(op.Name) {
			_ = c.Hash()
		}
	case "setcap":
		env.cache.SetOptions(env.options(int(*op.Capz)))
	case "renewmaint":
		env.cache.RenewManagedCertificates(context.Background())
	case "handshake":
		// a TLS handshake's lookup through the public entry point (cache hit, wildcard, or miss)
		hello, closeHello := doubles.Hello(op.Name)
		env.cfg.GetCertificate(hello)
		closeHello()
	}
}

// runPhase runs the goroutines of one concurrent phase to completion.
func (env *c12Env) runPhase(lists [][]c12Op) {
	var wg sync.WaitGroup
	for g := range lists {
		wg.Add(1)
		go func(ops []c12Op) {
			defer wg.Done()
			defer func() {
				if r := recover(); r != nil {
					env.mu.Lock()
					env.panics = append(env.panics, fmt.Sprintf("concurrent phase: %v", r))
					env.mu.Unlock()
				}
			}()
			for i := range ops {
				env.execRaw(&ops[i])
			}
		}(lists[g])
	}
	wg.Wait()
}

// runHist executes a history from the empty cache and emits it as one case.
func (env *c12Env) runHist(w *emit.Writer, h c12Hist, class string) error {
	env.reset(h.Cap)
	var steps []c12Step
	panicked := false
	for pi, phase := range h.Concurrent {
		if pi == len(h.Concurrent)-1 && env.interval > 0 {
			// the last phase contains no explicit maintenance operation: every ConfigGetter call during
			// it comes from the passes of the cache's own maintenance goroutine
			env.record(true)
		}
		env.runPhase(phase)
		abs := fmt.Sprintf("concurrent phase (%d goroutines)", len(phase))
		if pi == len(h.Concurrent)-1 && env.interval > 0 && !env.stopped {
			// the cache's own maintenance goroutine has been running its passes all along: stop it
			// (really: Cache.Stop) so that the state observed next is final
			env.feat["getter_calls_by_own_maintenance"] += len(env.record(false))
			env.stopped = true
			done := make(chan struct{})
			go func() { env.cache.Stop(); close(done) }()
			c12Oracle.mu.Lock()
			c12Oracle.stops++
			c12Oracle.mu.Unlock()
			select {
			case <-done:
			case <-time.After(60 * time.Second):
				c12Oracle.mu.Lock()
				c12Oracle.stopBad = append(c12Oracle.stopBad, "Cache.Stop did not return within 60 s after a concurrent phase")
				c12Oracle.mu.Unlock()
			}
			abs += ", then Stop()"
			env.feat["stop"]++
		}
		capObs := env.cache.VerifCapacity()
		steps = append(steps, c12Step{Abs: fmt.Sprintf("%s; capacity now %d", abs, capObs), wire: (&emit.Enc{}).Int(8).Int(capObs), Snap: env.snap()})
		env.feat["concurrent_phase"]++
		for _, l := range phase {
			env.feat["concurrent_ops"] += len(l)
		}
	}
	for i := range h.Ops {
		st, err := env.exec(&h.Ops[i])
		steps = append(steps, st...)
		if pe, ok := err.(errC12Panic); ok {
			// keep what was observed up to the panic (a corrupted state shows there), start afresh
			feat := env.feat
			if rerr := env.rebuild(pe.msg); rerr != nil {
				return rerr
			}
			env.reset(h.Cap)
			env.feat = feat
			env.feat["impl_panic"]++
			panicked = true
			break
		}
		if err != nil {
			return fmt.Errorf("history %v: %w", h, err)
		}
	}
	e := &emit.Enc{}
	e.Int(h.Cap)
	e.Len(len(c12PoolDef))
	for _, p := range c12PoolDef {
		encCert(e, p)
	}
	e.Len(len(steps))
	type obsStep struct {
		Abs   string  `json:"op"`
		State c12Snap `json:"state"`
	}
	var obs []obsStep
	for _, s := range steps {
		e.Big(s.wire.String())
		encSnap(e, s.Snap)
		obs = append(obs, obsStep{s.Abs, s.Snap})
	}
	qres := map[string][]string{}
	if panicked {
		e.Len(0) // the environment was rebuilt: no final queries
	} else {
		e.Len(len(c12Queries))
		for _, q := range c12Queries {
			var hs []string
			for _, c := range env.cache.AllMatchingCertificates(q) {
				hs = append(hs, c.Hash())
			}
			e.Str(q).StrList(hs)
			qres[q] = hs
		}
	}
	nt := env.feat["evict"]+env.feat["remove_hit"]+env.feat["tagmerge"]+env.feat["writeback_applied"]+
		env.feat["writeback_refused_stale"]+env.feat["replace_stale_old"]+env.feat["concurrent_phase"]+
		env.feat["trim"]+env.feat["query_hit"]+env.feat["getter_calls"]+env.feat["op_after_stop"] > 0
	desc := map[string]any{"class": class, "cap": h.Cap, "len": len(steps)}
	for _, k := range []string{"evict", "tagmerge", "writeback_refused_stale", "interleaved", "trim", "capacity_lowered_below_size", "stop", "getter_calls"} {
		if env.feat[k] > 0 {
			desc[k] = env.feat[k]
		}
	}
	key, _ := json.Marshal(h)
	w.Add(emit.Case{Desc: desc, In: h, Obs: map[string]any{"steps": obs, "all_matching": qres}, Wire: e.String(), Nontrivial: nt, Key: string(key)})
	w.Hist(fmt.Sprintf("cap=%d", h.Cap))
	w.Hist(fmt.Sprintf("len=%d", len(steps)))
	w.Hist("class=" + class)
	for k, v := range env.feat {
		w.Meta.Histogram[k] += v
	}
	if len(steps) > 0 {
		w.Hist(fmt.Sprintf("final_size=%d", len(steps[len(steps)-1].Snap.Keys)))
	}
	if env.stopped && !panicked {
		// a stopped cache cannot be stopped (or used for another history) again
		feat := env.feat
		if err := env.rebuild(""); err != nil {
			return err
		}
		env.feat = feat
	}
	return nil
}

func c12P(h string, tags ...string) *c12Info {
	p := *c12PoolByHash(h)
	p.Tags = tags
	return &p
}

// c12PM: a pool certificate added with a chosen managed flag / issuer key (the same hash can reach
// the cache both ways: CacheUnmanaged* and CacheManagedCertificate / an on-demand load).
func c12PM(h string, managed bool, issuer string, tags ...string) *c12Info {
	p := *c12PoolByHash(h)
	p.Managed, p.IssuerKey, p.Tags = managed, issuer, tags
	return &p
}

// the small alphabet for the exhaustive part
func c12Alphabet() []c12Op {
	rm := func(h string) *c12Op { return &c12Op{Kind: "remove", Hashes: []string{h}} }
	stale := c12P("h2", "t9")
	stale.OCSPSerial = 3
	return []c12Op{
		{Kind: "add", Cert: c12P("h1")},
		{Kind: "add", Cert: c12P("h1", "t1")},
		{Kind: "add", Cert: c12P("h1", "t2", "t1", "t2")},
		{Kind: "add", Cert: c12P("h2")},
		{Kind: "add", Cert: c12P("h3")},
		{Kind: "add", Cert: c12P("h4", "t1")},
		// the same hash re-added with the other managed flag (pool: h1 unmanaged, h2 managed by i1)
		{Kind: "add", Cert: c12PM("h1", true, "i1", "t4")},
		{Kind: "add", Cert: c12PM("h1", true, "i2")},
		{Kind: "add", Cert: c12PM("h2", false, "", "t6")},
		// names not in lower case / space-padded; a real leaf with an upper-case URI SAN
		{Kind: "add", Cert: c12P("h9")},
		{Kind: "add", Cert: c12P("h9", "t1")},
		{Kind: "remove", Hashes: []string{"h9"}},
		{Kind: "addreal"},
		{Kind: "addreal", Cert: &c12Info{Tags: []string{"t2"}}},
		{Kind: "remove", Hashes: []string{c12Proto.realInfo.Hash}},
		{Kind: "rmcert", Cert: c12P("h1")},
		{Kind: "rmcert", Cert: c12P("h2")},
		{Kind: "rmcert", Cert: c12P("h4")},
		{Kind: "replace", Cert: c12P("h1"), New: c12P("h2")},
		{Kind: "replace", Cert: c12P("h2"), New: c12P("h3")},
		{Kind: "replace", Cert: c12P("h2"), New: c12P("h2", "t3")},
		{Kind: "replace", Cert: c12P("h4"), New: c12P("h1")},
		{Kind: "remove", Hashes: []string{"h1"}},
		{Kind: "remove", Hashes: []string{"h2", "h2"}},
		{Kind: "remove", Hashes: []string{"zz", "h4"}},
		{Kind: "remove", Hashes: []string{""}},
		{Kind: "rmmanaged", Subjects: [][2]string{{"a.x", ""}}},
		{Kind: "rmmanaged", Subjects: [][2]string{{"b.x", "i2"}, {"*.x", ""}}},
		{Kind: "hsmaint", Cert: stale},
		{Kind: "hsmaint", Cert: stale, Inner: rm("h2")},
		{Kind: "hsmaint", Cert: c12P("h1", "t1"), Inner: &c12Op{Kind: "add", Cert: c12P("h3")}},
		{Kind: "ari", Cert: c12P("h2")},
		{Kind: "ari", Cert: c12P("h3"), Inner: &c12Op{Kind: "replace", Cert: c12P("h3"), New: c12P("h1")}},
		{Kind: "ocspmaint"},
		{Kind: "ocspmaint", Inner: rm("h2")},
		// Cache.SetOptions changing the capacity at run time (unlimited, lowered, negative)
		{Kind: "setcap", Capz: c12Z(0)},
		{Kind: "setcap", Capz: c12Z(1)},
		{Kind: "setcap", Capz: c12Z(2)},
		{Kind: "setcap", Capz: c12Z(-3)},
		// AllMatchingCertificates inside the history (exact + wildcard candidates; candidates only)
		{Kind: "query", Name: "a.x"},
		{Kind: "query", Name: "q.b.x"},
		{Kind: "stop"},
		// the renewal pass: scan with getConfig, then updateARI per managed certificate
		{Kind: "renewmaint"},
		{Kind: "renewmaint", Inner: &c12Op{Kind: "add", Cert: c12P("h2", "t5")}},
		// stale copies against merged tags / other write-backs
		{Kind: "hsmaint", Cert: stale, Inner: &c12Op{Kind: "add", Cert: c12P("h2", "t5")}},
		{Kind: "hsmaint", Cert: stale, Inner: &c12Op{Kind: "ari", Cert: c12P("h2")}},
		{Kind: "ocspmaint", Inner: &c12Op{Kind: "add", Cert: c12P("h2", "t5")}},
		// updateARI through the issuer (second write-back site) with the certificate removed meanwhile
		{Kind: "ari", Cert: c12P("h2"), Inner: rm("h2")},
	}
}

func c12Z(v int64) *int64 { return &v }

func c12RandHist(r *rand.Rand, env *c12Env) c12Hist {
	caps := []int{0, 1, 2, 2, 3, 3, 4, 5}
	h := c12Hist{Cap: caps[r.Intn(len(caps))]}
	n := 6 + r.Intn(13)
	tagsets := [][]string{nil, nil, {"t1"}, {"t2"}, {"t1", "t3"}, {"t2", "t2"}, {"t3", "t1", "t2"}}
	var seen []c12Info // values that were current at some point (stale copies come from here)
	poolCert := func() *c12Info {
		p := c12PoolDef[r.Intn(len(c12PoolDef))]
		p.Tags = tagsets[r.Intn(len(tagsets))]
		p.OCSPSerial = int64(r.Intn(4))
		if r.Intn(5) == 0 { // the same hash with the other managed flag
			p.Managed = !p.Managed
			p.IssuerKey = map[bool]string{true: []string{"i1", "i2"}[r.Intn(2)], false: ""}[p.Managed]
		}
		return &p
	}
	copyOf := func(sim *c12Snap) *c12Info {
		x := r.Intn(100)
		if x < 55 && len(sim.Certs) > 0 {
			c := sim.Certs[r.Intn(len(sim.Certs))]
			return &c
		}
		if x < 80 && len(seen) > 0 {
			c := seen[r.Intn(len(seen))]
			return &c
		}
		return poolCert()
	}
	var simple func(sim *c12Snap) c12Op
	simple = func(sim *c12Snap) c12Op {
		switch x := r.Intn(100); {
		case x < 45:
			if r.Intn(12) == 0 {
				return c12Op{Kind: "addreal", Cert: &c12Info{Tags: tagsets[r.Intn(len(tagsets))]}}
			}
			return c12Op{Kind: "add", Cert: poolCert()}
		case x < 56:
			return c12Op{Kind: "rmcert", Cert: copyOf(sim)}
		case x < 70:
			return c12Op{Kind: "replace", Cert: copyOf(sim), New: poolCert()}
		case x < 82:
			var hs []string
			for k := 1 + r.Intn(2); k > 0; k-- {
				if r.Intn(5) == 0 {
					hs = append(hs, []string{"zz", "", "h9"}[r.Intn(3)])
				} else {
					hs = append(hs, c12PoolDef[r.Intn(len(c12PoolDef))].Hash)
				}
			}
			return c12Op{Kind: "remove", Hashes: hs}
		case x < 94:
			return c12Op{Kind: "setcap", Capz: c12Z([]int64{0, 1, 2, 3, 4, 6, -1}[r.Intn(7)])}
		case x < 97:
			return c12Op{Kind: "query", Name: c12Queries[r.Intn(len(c12Queries))]}
		default:
			names := []string{"a.x", "b.x", "c.x", "*.x", "d.y", "nope"}
			iss := []string{"", "", "i1", "i2"}
			var sj [][2]string
			for k := 1 + r.Intn(2); k > 0; k-- {
				sj = append(sj, [2]string{names[r.Intn(len(names))], iss[r.Intn(len(iss))]})
			}
			return c12Op{Kind: "rmmanaged", Subjects: sj}
		}
	}
	// the history is generated while it runs (copies are taken from the real current state)
	env.reset(h.Cap)
	stopAt := -1
	if r.Intn(25) == 0 {
		stopAt = r.Intn(n)
	}
	defer func() {
		if env.stopped {
			env.rebuild("")
		}
	}()
	for i := 0; i < n; i++ {
		sim := env.snap()
		seen = append(seen, sim.Certs...)
		var op c12Op
		if i == stopAt {
			op = c12Op{Kind: "stop"}
		} else if x := r.Intn(100); x < 70 {
			op = simple(&sim)
		} else {
			switch {
			case x < 80:
				op = c12Op{Kind: "hsmaint", Cert: copyOf(&sim)}
			case x < 87:
				op = c12Op{Kind: "ari", Cert: copyOf(&sim)}
			case x < 93:
				op = c12Op{Kind: "ocspmaint"}
			default:
				op = c12Op{Kind: "renewmaint"}
			}
			switch y := r.Intn(10); {
			case y < 4:
				in := simple(&sim)
				op.Inner = &in
			case y < 6 && len(sim.Certs) > 0:
				// the interleaving that matters for stale copies: the same certificate is re-added with
				// new tags, or gets another write-back, between the outer read and the outer write-back
				c := sim.Certs[r.Intn(len(sim.Certs))]
				if op.Cert != nil {
					c = *op.Cert
				}
				c.Tags = []string{[]string{"t4", "t5", "t6"}[r.Intn(3)]}
				op.Inner = &c12Op{Kind: "add", Cert: &c}
			case y < 7 && op.Cert != nil:
				c := *op.Cert
				op.Inner = &c12Op{Kind: []string{"ari", "ocspmaint"}[r.Intn(2)], Cert: &c}
			}
		}
		if _, err := env.exec(&op); err != nil {
			if pe, ok := err.(errC12Panic); ok {
				// keep the op (runHist re-runs it and records what is observed) and stop here
				env.rebuild(pe.msg)
				h.Ops = append(h.Ops, op)
				break
			}
			// generation-time failure: drop the op
			continue
		}
		h.Ops = append(h.Ops, op)
	}
	return h
}

// c12StressHist: phases of random operations run by free goroutines, then Remove of every pool
// hash (which must leave both maps empty).
func c12StressHist(r *rand.Rand) c12Hist {
	h := c12Hist{Cap: []int{0, 2, 3, 5}[r.Intn(4)]}
	hsNames := []string{"a.x", "b.x", "q.x", "q.b.x", "d.y", "nope.z"}
	tagsets := [][]string{nil, {"t1"}, {"t2", "t3"}}
	pc := func() *c12Info {
		p := c12PoolDef[r.Intn(len(c12PoolDef))]
		p.Tags = tagsets[r.Intn(len(tagsets))]
		return &p
	}
	for ph := 0; ph < 3; ph++ {
		var phase [][]c12Op
		for g := 0; g < 6; g++ {
			var ops []c12Op
			for i := 0; i < 40; i++ {
				switch x := r.Intn(100); {
				case x < 35:
					ops = append(ops, c12Op{Kind: "add", Cert: pc()})
				case x < 45:
					ops = append(ops, c12Op{Kind: "rmcert", Cert: pc()})
				case x < 58:
					ops = append(ops, c12Op{Kind: "replace", Cert: pc(), New: pc()})
				case x < 68:
					ops = append(ops, c12Op{Kind: "remove", Hashes: []string{c12PoolDef[r.Intn(len(c12PoolDef))].Hash, "zz"}})
				case x < 74:
					ops = append(ops, c12Op{Kind: "rmmanaged", Subjects: [][2]string{{[]string{"a.x", "b.x", "*.x"}[r.Intn(3)], ""}}})
				case x < 80:
					ops = append(ops, c12Op{Kind: "hsmaint", Cert: pc()})
				case x < 84:
					ops = append(ops, c12Op{Kind: "ari", Cert: pc()})
				case x < 87 && ph < 2:
					ops = append(ops, c12Op{Kind: "ocspmaint"})
				case x < 89 && ph < 2:
					ops = append(ops, c12Op{Kind: "renewmaint"})
				case x < 93:
					ops = append(ops, c12Op{Kind: "setcap", Capz: c12Z([]int64{0, 1, 2, 3, 5, -1}[r.Intn(6)])})
				case x < 96:
					ops = append(ops, c12Op{Kind: "handshake", Name: hsNames[r.Intn(len(hsNames))]})
				default:
					ops = append(ops, c12Op{Kind: "query", Name: c12Queries[r.Intn(len(c12Queries))]})
				}
			}
			phase = append(phase, ops)
		}
		h.Concurrent = append(h.Concurrent, phase)
	}
	var all []string
	for _, p := range c12PoolDef {
		all = append(all, p.Hash)
	}
	h.Ops = []c12Op{{Kind: "add", Cert: c12P("h1", "t7")}, {Kind: "remove", Hashes: all}}
	return h
}

func runC12(tier string, seed int64, outdir string, replay string) error {
	w := emit.NewWriter(outdir, "C12", tier, seed)
	w.Meta.Oracles = []emit.OracleCheck{}
	defer w.Close()
	env, err := newC12Env()
	if err != nil {
		return err
	}
	defer func() { env.close() }()
	w.Meta.Rule = "distinct histories (capacity + operation list) in which at least one eviction, removal of a cached certificate, tag merge, applied or refused (stale copy) write-back, replacement of an already-removed certificate, trim by SetOptions, non-empty AllMatchingCertificates answer, ConfigGetter call of a maintenance scan, or operation on a stopped cache occurred"
	var panics []string
	stress := func(r *rand.Rand, n int) error {
		// free-running goroutines on a cache whose OWN maintenance goroutine runs its passes every
		// millisecond (supporting: the lock discipline assumed by the model); each history gets its
		// own Cache + Config because it ends with Cache.Stop
		for i := 0; i < n; i++ {
			senv, err := newC12EnvI(time.Millisecond)
			if err != nil {
				return err
			}
			err = senv.runHist(w, c12StressHist(r), "concurrent")
			panics = append(panics, senv.panics...)
			senv.close()
			if err != nil {
				return err
			}
		}
		return nil
	}
	finish := func() {
		panics = append(panics, env.panics...)
		det := strings.Join(panics, "; ")
		if len(det) > 400 {
			det = det[:400]
		}
		w.Meta.Oracles = append(w.Meta.Oracles, emit.OracleCheck{Name: "no cache operation panicked", OK: len(panics) == 0, Detail: det})
		c12Oracle.mu.Lock()
		defer c12Oracle.mu.Unlock()
		w.Meta.Oracles = append(w.Meta.Oracles,
			emit.OracleCheck{Name: "storage keys computed independently (fnv32a / Safe re-implemented with the standard library) are the keys StorageKeys.OCSPStaple / SiteMeta build",
				OK: len(c12Oracle.keyBad) == 0 && c12Oracle.keys > 0, Detail: fmt.Sprintf("%d keys compared; %s", c12Oracle.keys, strings.Join(c12Oracle.keyBad, "; "))},
			emit.OracleCheck{Name: "Cache.Stop returned every time it was called",
				OK: len(c12Oracle.stopBad) == 0, Detail: fmt.Sprintf("%d calls; %s", c12Oracle.stops, strings.Join(c12Oracle.stopBad, "; "))})
	}
	if replay != "" {
		rc, err := loadReplay(replay)
		if err != nil {
			return err
		}
		var h c12Hist
		if err := json.Unmarshal(rc.In, &h); err != nil {
			return err
		}
		cl, _ := rc.Desc["class"].(string)
		if len(h.Concurrent) > 0 {
			senv, err := newC12EnvI(time.Millisecond)
			if err != nil {
				return err
			}
			defer senv.close()
			return senv.runHist(w, h, cl)
		}
		return env.runHist(w, h, cl)
	}
	r := rand.New(rand.NewSource(seed))
	if tier == "race" {
		// special mode (see c12RacePhase): only the concurrent histories, in a -race build
		if err := stress(r, 60); err != nil {
			return err
		}
		finish()
		return nil
	}
	if err := c12HashOracle(w); err != nil {
		return err
	}
	// ---- corpus: witnesses of past findings and hand-picked orders ----
	h2 := c12P("h2")
	stale := c12P("h2")
	stale.OCSPSerial = 1
	staleT := c12P("h2", "t1")
	staleT.OCSPSerial = 1
	add := func(h string, tags ...string) c12Op { return c12Op{Kind: "add", Cert: c12P(h, tags...)} }
	setcap := func(z int64) c12Op { return c12Op{Kind: "setcap", Capz: c12Z(z)} }
	corpus := []struct {
		class string
		h     c12Hist
	}{
		// the fixed finding: handshake OCSP refresh interleaved with a removal
		{"stale-writeback-after-remove", c12Hist{Cap: 0, Ops: []c12Op{{Kind: "add", Cert: h2}, {Kind: "hsmaint", Cert: stale, Inner: &c12Op{Kind: "remove", Hashes: []string{"h2"}}}}}},
		{"stale-writeback-after-remove", c12Hist{Cap: 1, Ops: []c12Op{{Kind: "add", Cert: h2}, {Kind: "hsmaint", Cert: stale, Inner: &c12Op{Kind: "replace", Cert: h2, New: c12P("h3")}}}}},
		{"stale-writeback-after-remove", c12Hist{Cap: 1, Ops: []c12Op{{Kind: "add", Cert: h2}, {Kind: "hsmaint", Cert: stale, Inner: &c12Op{Kind: "add", Cert: c12P("h1")}}}}},
		{"stale-writeback-after-remove", c12Hist{Cap: 0, Ops: []c12Op{{Kind: "add", Cert: h2}, {Kind: "remove", Hashes: []string{"h2"}}, {Kind: "hsmaint", Cert: stale}}}},
		// cached unmanaged with tags, re-added managed, re-added unmanaged with another tag: tags = union, entry stays as first cached
		{"readd-managed-flip", c12Hist{Cap: 0, Ops: []c12Op{{Kind: "add", Cert: c12P("h1", "t1")}, {Kind: "add", Cert: c12PM("h1", true, "i1", "t4")}, {Kind: "add", Cert: c12P("h1", "t2")}}}},
		{"readd-managed-flip", c12Hist{Cap: 0, Ops: []c12Op{{Kind: "add", Cert: c12P("h1", "t1", "t3")}, {Kind: "add", Cert: c12PM("h1", true, "i1")}, {Kind: "add", Cert: c12P("h1", "t2")}}}},
		{"readd-managed-flip", c12Hist{Cap: 2, Ops: []c12Op{{Kind: "add", Cert: c12P("h2", "t1")}, {Kind: "add", Cert: c12PM("h2", false, "", "t6")}, {Kind: "add", Cert: c12P("h2")}, {Kind: "renewmaint"}}}},
		{"corpus", c12Hist{Cap: 0, Ops: []c12Op{{Kind: "add", Cert: c12P("h3")}, {Kind: "ari", Cert: c12P("h3"), Inner: &c12Op{Kind: "rmcert", Cert: c12P("h3")}}}}},
		{"corpus", c12Hist{Cap: 0, Ops: []c12Op{{Kind: "add", Cert: h2}, {Kind: "ocspmaint", Inner: &c12Op{Kind: "rmmanaged", Subjects: [][2]string{{"b.x", ""}}}}}}},
		{"corpus", c12Hist{Cap: 2, Ops: []c12Op{{Kind: "add", Cert: c12P("h4", "t1")}, {Kind: "add", Cert: c12P("h8")}, {Kind: "add", Cert: c12P("h4", "t2")}, {Kind: "add", Cert: c12P("h1")}, {Kind: "remove", Hashes: []string{"h4", "h8", "h1"}}}}},
		// fixed finding C12-capacity-lowered (4af396d): the witness of C12_within_capacity_refuted_when_lowered
		{"capacity-lowered", c12Hist{Cap: 0, Ops: []c12Op{add("h1"), add("h2"), add("h3"), setcap(1), add("h4")}}},
		{"capacity-lowered", c12Hist{Cap: 3, Ops: []c12Op{add("h1"), add("h2"), add("h3"), setcap(2), {Kind: "query", Name: "a.x"}, setcap(0), add("h4"), add("h5"), setcap(1), add("h6"), setcap(-2), add("h7")}}},
		{"capacity-lowered", c12Hist{Cap: 0, Ops: []c12Op{add("h4"), add("h6"), add("h8"), add("h2"), setcap(2), {Kind: "remove", Hashes: []string{"h4", "h6", "h8", "h2"}}}}},
		// fixed finding C12-stale-writeback-drops-tags (12d489e): tags merged while a handshake refreshes the staple stay
		{"stale-writeback-tags", c12Hist{Cap: 0, Ops: []c12Op{add("h2", "t1"), {Kind: "hsmaint", Cert: staleT, Inner: &c12Op{Kind: "add", Cert: c12P("h2", "t5")}}, {Kind: "renewmaint"}}}},
		{"stale-writeback-tags", c12Hist{Cap: 0, Ops: []c12Op{add("h2", "t1"), {Kind: "hsmaint", Cert: staleT, Inner: &c12Op{Kind: "ari", Cert: c12P("h2")}}, {Kind: "ocspmaint", Inner: &c12Op{Kind: "add", Cert: c12P("h2", "t6")}}}}},
		// Stop; the maps stay and can still be operated on
		{"corpus", c12Hist{Cap: 2, Ops: []c12Op{add("h2"), {Kind: "stop"}, add("h3", "t1"), {Kind: "remove", Hashes: []string{"h2"}}, {Kind: "query", Name: "q.x"}, add("h1"), add("h4")}}},
		// the renewal pass sees the tags merged so far, also those merged right after its scan
		{"corpus", c12Hist{Cap: 0, Ops: []c12Op{add("h2", "t1"), add("h3", "t2"), add("h1"), add("h2", "t3"), {Kind: "renewmaint", Inner: &c12Op{Kind: "add", Cert: c12P("h3", "t5")}}, {Kind: "renewmaint"}, {Kind: "ocspmaint"}}}},
	}
	for _, c := range corpus {
		if err := env.runHist(w, c.h, c.class); err != nil {
			return err
		}
	}
	// ---- exhaustive: every history up to a length over the small alphabet ----
	alpha := c12Alphabet()
	maxLen, caps, nRand, nSampled := 2, []int{0, 1, 2, 3}, 2500, 2000
	if tier == "thorough" {
		maxLen, nRand, nSampled = 3, 12000, 0
		caps = []int{0, 1, 2}
	}
	count := 0
	var rec func(prefix []c12Op, n int, capacity int) error
	rec = func(prefix []c12Op, n int, capacity int) error {
		if len(prefix) > 0 {
			if err := env.runHist(w, c12Hist{Cap: capacity, Ops: prefix}, "exhaustive"); err != nil {
				return err
			}
			count++
		}
		if n == 0 {
			return nil
		}
		for i := range alpha {
			if err := rec(append(append([]c12Op{}, prefix...), alpha[i]), n-1, capacity); err != nil {
				return err
			}
		}
		return nil
	}
	for _, c := range caps {
		if err := rec(nil, maxLen, c); err != nil {
			return err
		}
	}
	w.Meta.Exhaustive = true
	w.Meta.Universe = fmt.Sprintf("all %d histories of length 1..%d over a %d-operation alphabet (adds with/without tags, removals by copy / hash (known, unknown, empty, repeated) / subject, replacements, the three write-back paths and the renewal pass with and without an interleaved removal / re-add with new tags / other write-back, SetOptions with capacity 0, 1, 2, -3, AllMatchingCertificates, Stop) on 4 pool certificates with overlapping and repeated names, for each initial capacity in %v", count, maxLen, len(alpha), caps)
	// quick tier: length-3 histories, sampled (not claimed exhaustive)
	for i := 0; i < nSampled; i++ {
		h := c12Hist{Cap: r.Intn(3)}
		for k := 0; k < 3; k++ {
			h.Ops = append(h.Ops, alpha[r.Intn(len(alpha))])
		}
		if err := env.runHist(w, h, "sampled-len3"); err != nil {
			return err
		}
	}
	// ---- random longer histories over the full pool, with stale copies and interleavings ----
	for i := 0; i < nRand; i++ {
		h := c12RandHist(r, env)
		if err := env.runHist(w, h, "random"); err != nil {
			return err
		}
	}
	nStress := 40
	if tier == "thorough" {
		nStress = 300
	}
	if err := stress(r, nStress); err != nil {
		return err
	}
	if tier == "thorough" {
		c12RacePhase(w, seed)
	}
	w.Meta.Notes = append(w.Meta.Notes, "pool: "+strings.TrimSpace(fmt.Sprint(c12PoolDef)))
	finish()
	return nil
}

// c12HashOracle validates, on the REAL hash function, the assumption the model makes about hashes
// ("a hash determines the certificate, hence its names; no hash is empty"): real certificates are
// cached through Config.CacheUnmanagedTLSCertificate, which returns the hash it computed.  Distinct
// DER chains must get distinct hashes, the same chain the same hash, never "", each equal to
// blake3 over the concatenated DER computed here with github.com/zeebo/blake3 directly; and the
// cache must hold one entry per distinct chain whose Names are the leaf's names.
func c12HashOracle(w *emit.Writer) error {
	backend := doubles.NewMemBackend()
	cfg, cache := doubles.NewConfig(backend.Handle("c12-hash"), certmagic.Config{}, certmagic.CacheOptions{})
	defer cache.Stop()
	ca := doubles.NewCA("c12 hash CA")
	type item struct {
		tc    tls.Certificate
		names []string
	}
	var items []item
	for i, names := range [][]string{{"one.example"}, {"one.example"}, {"two.example", "*.two.example"}, {"three.example", "one.example"}} {
		chainPEM, leaf, keyPEM, err := ca.Leaf(doubles.LeafOpts{Names: names})
		if err != nil {
			return err
		}
		tc, err := tls.X509KeyPair(chainPEM, keyPEM)
		if err != nil {
			return err
		}
		tc.Leaf = leaf
		items = append(items, item{tc, names})
		if i == 0 {
			// the same leaf without the issuer certificate: a different chain
			short := tc
			short.Certificate = tc.Certificate[:1]
			items = append(items, item{short, names})
		}
	}
	var bad []string
	byHash := map[string]string{} // hash -> DER chain (as string)
	for round := 0; round < 2; round++ {
		for i, it := range items {
			h, err := cfg.CacheUnmanagedTLSCertificate(context.Background(), it.tc, []string{fmt.Sprintf("r%d", round)})
			if err != nil {
				return fmt.Errorf("CacheUnmanagedTLSCertificate: %v", err)
			}
			der := string(bytes.Join(it.tc.Certificate, nil))
			hh := blake3.New()
			for _, c := range it.tc.Certificate {
				hh.Write(c)
			}
			if want := fmt.Sprintf("%x", hh.Sum(nil)); h != want {
				bad = append(bad, fmt.Sprintf("item %d: hash %q, blake3 of the DER chain %q", i, h, want))
			}
			if h == "" {
				bad = append(bad, fmt.Sprintf("item %d: empty hash", i))
			}
			if prev, ok := byHash[h]; ok && prev != der {
				bad = append(bad, fmt.Sprintf("item %d: two different chains share hash %q", i, h))
			}
			byHash[h] = der
		}
	}
	if len(byHash) != len(items) {
		bad = append(bad, fmt.Sprintf("%d distinct chains got %d distinct hashes", len(items), len(byHash)))
	}
	keys, certs, _ := cache.VerifSnapshot()
	if len(keys) != len(items) {
		bad = append(bad, fmt.Sprintf("%d distinct chains cached (twice each) gave %d cache entries", len(items), len(keys)))
	}
	for _, ci := range certs {
		found := false
		for _, it := range items {
			hh := blake3.New()
			for _, c := range it.tc.Certificate {
				hh.Write(c)
			}
			if fmt.Sprintf("%x", hh.Sum(nil)) == ci.Hash {
				found = true
				if strings.Join(ci.Names, ",") != strings.Join(it.names, ",") {
					bad = append(bad, fmt.Sprintf("hash %s cached with names %v, leaf has %v", ci.Hash[:8], ci.Names, it.names))
				}
				if strings.Join(ci.Tags, ",") != "r0,r1" {
					bad = append(bad, fmt.Sprintf("hash %s: tags %v after caching twice with r0 then r1", ci.Hash[:8], ci.Tags))
				}
			}
		}
		if !found {
			bad = append(bad, "cached hash "+ci.Hash+" is not the hash of any chain cached")
		}
	}
	w.Meta.Oracles = append(w.Meta.Oracles, emit.OracleCheck{
		Name:   "the real certificate hash (Config.CacheUnmanagedTLSCertificate) is blake3 of the DER chain: equal chains equal hashes, distinct chains distinct hashes, never empty, one cache entry per chain with the leaf's names",
		OK:     len(bad) == 0,
		Detail: fmt.Sprintf("%d chains cached twice; %s", len(items), strings.Join(bad, "; "))})
	return nil
}

// c12RacePhase (thorough tier): build this harness with the race detector and run it in the mode
// that executes only the concurrent histories (free goroutines doing every cache operation,
// SetOptions, AllMatchingCertificates, handshake lookups through Config.GetCertificate, with the
// cache's own maintenance goroutine running its passes every millisecond).  A "DATA RACE" report
// or a crash fails an oracle check; if a race build is impossible here that is recorded as a note.
func c12RacePhase(w *emit.Writer, seed int64) {
	note := func(s string) {
		w.Meta.Notes = append(w.Meta.Notes, "race phase: "+s)
		w.Meta.Oracles = append(w.Meta.Oracles, emit.OracleCheck{Name: "race-detector build of the concurrent phase could be run (note only)", OK: true, Detail: s})
	}
	root := os.Getenv("VERIF_ROOT")
	if root == "" {
		note("VERIF_ROOT not set; skipped")
		return
	}
	tmp, err := os.MkdirTemp("", "c12race")
	if err != nil {
		note("no temp dir: " + err.Error())
		return
	}
	defer os.RemoveAll(tmp)
	exe := filepath.Join(tmp, "run-race")
	build := exec.Command("go", "build", "-race", "-tags", "verif", "-o", exe, "./cmd/run")
	build.Dir = filepath.Join(root, "harness")
	build.Env = append(os.Environ(), "CGO_ENABLED=1", "GOFLAGS=-mod=mod", "GOPROXY=off", "GOSUMDB=off", "GOTOOLCHAIN=local")
	if out, err := build.CombinedOutput(); err != nil {
		o := string(out)
		if len(o) > 300 {
			o = o[len(o)-300:]
		}
		note("go build -race failed (not counted as a failure): " + strings.TrimSpace(o))
		return
	}
	run := exec.Command(exe, "C12", "race", fmt.Sprint(seed+17), filepath.Join(tmp, "out"))
	run.Env = append(os.Environ(), "GORACE=halt_on_error=0 exitcode=66")
	done := make(chan struct{})
	var out []byte
	var rerr error
	go func() { out, rerr = run.CombinedOutput(); close(done) }()
	select {
	case <-done:
	case <-time.After(6 * time.Minute):
		run.Process.Kill()
		<-done
		w.Meta.Oracles = append(w.Meta.Oracles, emit.OracleCheck{Name: "race detector: concurrent cache histories run without a data race report", OK: false, Detail: "race run did not finish within 6 minutes"})
		return
	}
	o := string(out)
	ok := rerr == nil && !strings.Contains(o, "DATA RACE")
	det := "60 concurrent histories, no report"
	if !ok {
		if i := strings.Index(o, "WARNING: DATA RACE"); i >= 0 {
			o = o[i:]
		}
		if len(o) > 1500 {
			o = o[:1500]
		}
		det = fmt.Sprintf("%v: %s", rerr, o)
	}
	w.Meta.Oracles = append(w.Meta.Oracles, emit.OracleCheck{Name: "race detector: concurrent cache histories run without a data race report", OK: ok, Detail: det})
}
