//go:build !skip_c12

package main

// C12 — the certificate cache and its name index always agree, within capacity.
//
// Operation histories are run on the REAL certmagic.Cache (in-package access through the
// verif hooks): cacheCertificate, removeCertificate, replaceCertificate, Remove, RemoveManaged,
// handshakeMaintenance (handshake.go write-back), updateARI and updateOCSPStaples (maintain.go
// write-backs).  After every abstract operation both maps are snapshotted.  The write-back
// operations go through the storage double; an "inner" operation can be run while the outer one
// is inside its first storage call, i.e. between its read of the certificate and its
// write-back (a genuine interleaving: the outer operation then holds a stale copy).

import (
	"bytes"
	"context"
	"crypto/tls"
	"crypto/x509"
	"encoding/json"
	"encoding/pem"
	"fmt"
	"math/big"
	"math/rand"
	"sort"
	"strings"
	"sync"
	"time"

	"github.com/caddyserver/certmagic"
	"github.com/mholt/acmez/v3/acme"
	"golang.org/x/crypto/ocsp"

	"verifharness/pkg/doubles"
	"verifharness/pkg/emit"
)

func init() { register("C12", runC12) }

type c12Info = certmagic.VerifCertInfo

// c12Op is a concrete operation on the implementation (JSON: replay files).
type c12Op struct {
	Kind     string      `json:"kind"` // add rmcert replace remove rmmanaged hsmaint ari ocspmaint
	Cert     *c12Info    `json:"cert,omitempty"`
	New      *c12Info    `json:"new,omitempty"`
	Hashes   []string    `json:"hashes,omitempty"`
	Subjects [][2]string `json:"subjects,omitempty"`
	Inner    *c12Op      `json:"inner,omitempty"` // run inside the first storage call of a gated op
}

type c12Snap struct {
	Keys  []string            `json:"keys"`
	Certs []c12Info           `json:"certs"`
	Index map[string][]string `json:"index"`
}

// c12Step is one abstract operation (wire-encoded for the model) and the state after it.
type c12Step struct {
	Abs  string  `json:"abs"`
	wire *emit.Enc
	Snap c12Snap `json:"state"`
}

type ariIssuer struct {
	key string
	ctr *int
	mu  *sync.Mutex
}

func (i ariIssuer) IssuerKey() string { return i.key }
func (i ariIssuer) Issue(ctx context.Context, csr *x509.CertificateRequest) (*certmagic.IssuedCertificate, error) {
	return nil, fmt.Errorf("ariIssuer does not issue")
}
func (i ariIssuer) GetRenewalInfo(ctx context.Context, cert certmagic.Certificate) (acme.RenewalInfo, error) {
	i.mu.Lock()
	defer i.mu.Unlock()
	*i.ctr++
	return acme.RenewalInfo{ExplanationURL: fmt.Sprintf("i%d", *i.ctr)}, nil
}

type c12Env struct {
	backend    *doubles.MemBackend
	cfg        *certmagic.Config
	cache      *certmagic.Cache
	getter     certmagic.ConfigGetter
	cap        int
	ariCounter *int
	mu         sync.Mutex
	panics     []string // implementation panics seen (the environment is rebuilt after each)
	chains     map[string]tls.Certificate // pool hash -> real chain (Leaf set)
	pems       map[string][]byte
	hello      *tls.ClientHelloInfo
	closeHello func()
	feat       map[string]int // features of the current history
}

var c12PoolDef = []c12Info{
	{Hash: "h1", Names: []string{"a.x"}},
	{Hash: "h2", Names: []string{"a.x", "b.x"}, Managed: true, IssuerKey: "i1"},
	{Hash: "h3", Names: []string{"*.x"}, Managed: true, IssuerKey: "i1"},
	{Hash: "h4", Names: []string{"b.x", "b.x", "c.x"}, Managed: true, IssuerKey: "i2"},
	{Hash: "h5", Names: []string{"a.x"}, Managed: true, IssuerKey: "i2"},
	{Hash: "h6", Names: []string{"c.x", "*.x"}},
	{Hash: "h7", Names: []string{"d.y", "a.x", "*.b.x"}, Managed: true, IssuerKey: "i1"},
	{Hash: "h8", Names: []string{"*.*.x", "a.x", "a.x"}},
}

// which pool certificates have a fresh OCSP staple / newer ARI in storage
var c12Staple = map[string]int64{"h2": 102, "h3": 103, "h6": 106, "h8": 108}
var c12Meta = map[string]bool{"h3": true, "h4": true}

var c12Queries = []string{"a.x", "b.x", "c.x", "q.x", "d.y", "x", "a.b.x", "*.x", "q.r.x", ""}

func c12PoolByHash(h string) *c12Info {
	for i := range c12PoolDef {
		if c12PoolDef[i].Hash == h {
			return &c12PoolDef[i]
		}
	}
	return nil
}

func newC12Env() (*c12Env, error) {
	env := &c12Env{backend: doubles.NewMemBackend(), chains: map[string]tls.Certificate{}, pems: map[string][]byte{}, ariCounter: new(int)}
	ca := doubles.NewCA("c12 CA")
	st := env.backend.Handle("c12")
	cfg, cache := doubles.NewConfig(st, certmagic.Config{DisableARI: false}, certmagic.CacheOptions{},
		ariIssuer{"i1", env.ariCounter, &env.mu}, ariIssuer{"i2", env.ariCounter, &env.mu})
	env.cfg, env.cache = cfg, cache
	env.getter = func(certmagic.Certificate) (*certmagic.Config, error) { return cfg, nil }
	env.hello, env.closeHello = doubles.Hello("a.x")
	now := time.Now()
	for _, p := range c12PoolDef {
		chainPEM, leaf, keyPEM, err := ca.Leaf(doubles.LeafOpts{Names: []string{"pool-" + p.Hash + ".example"}})
		if err != nil {
			return nil, err
		}
		tc, err := tls.X509KeyPair(chainPEM, keyPEM)
		if err != nil {
			return nil, err
		}
		tc.Leaf = leaf
		env.chains[p.Hash] = tc
		// the PEM bundle exactly as stapleOCSP re-encodes it
		var b bytes.Buffer
		for _, der := range tc.Certificate {
			pem.Encode(&b, &pem.Block{Type: "CERTIFICATE", Bytes: der})
		}
		env.pems[p.Hash] = b.Bytes()
		c := env.mk(p)
		if serial, ok := c12Staple[p.Hash]; ok {
			resp, err := ocsp.CreateResponse(ca.Cert, ca.Cert, ocsp.Response{Status: ocsp.Good, SerialNumber: big.NewInt(serial),
				ThisUpdate: now.Add(-time.Hour), NextUpdate: now.Add(48 * time.Hour)}, ca.Key)
			if err != nil {
				return nil, err
			}
			env.backend.Put(certmagic.StorageKeys.OCSPStaple(&c, env.pems[p.Hash]), resp)
		}
		if c12Meta[p.Hash] {
			ra := now.Add(time.Hour)
			data, _ := json.Marshal(acme.Certificate{RenewalInfo: &acme.RenewalInfo{ExplanationURL: "s" + p.Hash, RetryAfter: &ra}})
			res, _ := json.Marshal(certmagic.CertificateResource{SANs: p.Names, IssuerData: data})
			env.backend.Put(certmagic.StorageKeys.SiteMeta(p.IssuerKey, p.Names[0]), res)
		}
	}
	return env, nil
}

func (env *c12Env) close() {
	env.closeHello()
	env.cache.Stop()
}

func (env *c12Env) reset(capacity int) {
	env.cap = capacity
	env.cache.SetOptions(certmagic.CacheOptions{GetConfigForCert: env.getter, Capacity: capacity, Logger: env.cfg.Logger})
	env.cache.VerifReset()
	env.backend.Log.Hook = nil
	env.backend.Log.Ops = nil
	*env.ariCounter = 0
	env.feat = map[string]int{}
}

func (env *c12Env) mk(i c12Info) certmagic.Certificate {
	return certmagic.VerifMakeCert(i, env.chains[i.Hash])
}

func (env *c12Env) snap() c12Snap {
	k, c, ix := env.cache.VerifSnapshot()
	if k == nil {
		k = []string{}
	}
	if c == nil {
		c = []c12Info{}
	}
	return c12Snap{k, c, ix}
}

func (env *c12Env) stapleSerial(i c12Info) (int64, bool) {
	if _, ok := env.chains[i.Hash]; !ok {
		return 0, false
	}
	c := env.mk(i)
	if _, ok := env.backend.Get(certmagic.StorageKeys.OCSPStaple(&c, env.pems[i.Hash])); !ok {
		return 0, false
	}
	// the serial stored under that key (two pool certificates never share a key)
	s, ok := c12Staple[i.Hash]
	return s, ok
}

func (env *c12Env) hasMeta(i c12Info) bool {
	if len(i.Names) == 0 {
		return false
	}
	_, ok := env.backend.Get(certmagic.StorageKeys.SiteMeta(i.IssuerKey, i.Names[0]))
	return ok
}

func encStrs(e *emit.Enc, ss []string) { e.StrList(ss) }

func encCert(e *emit.Enc, c c12Info) {
	e.Str(c.Hash).StrList(c.Names).Bool(c.Managed).Str(c.IssuerKey).StrList(c.Tags).Z(c.OCSPSerial).Str(c.ARIURL)
}

func encSnap(e *emit.Enc, s c12Snap) {
	e.Len(len(s.Keys))
	for i, k := range s.Keys {
		e.Str(k)
		encCert(e, s.Certs[i])
	}
	names := make([]string, 0, len(s.Index))
	for n := range s.Index {
		names = append(names, n)
	}
	sort.Strings(names)
	e.Len(len(names))
	for _, n := range names {
		e.Str(n).StrList(s.Index[n])
	}
}

func encVictim(e *emit.Enc, v string) {
	if v == "" {
		e.Bool(false)
	} else {
		e.Bool(true).Str(v)
	}
}

func keySet(s c12Snap) map[string]bool {
	m := map[string]bool{}
	for _, k := range s.Keys {
		m[k] = true
	}
	return m
}

// victim: a key present before, absent after, other than `except`.
func c12Victim(before, after c12Snap, except string) string {
	a := keySet(after)
	var vs []string
	for _, k := range before.Keys {
		if !a[k] && k != except {
			vs = append(vs, k)
		}
	}
	if len(vs) == 0 {
		return ""
	}
	return vs[0]
}

// exec runs one concrete operation on the implementation and returns the abstract steps.
// errC12Panic marks an implementation panic: the steps observed before it are still returned.
type errC12Panic struct{ msg string }

func (e errC12Panic) Error() string { return e.msg }

func (env *c12Env) exec(op *c12Op) (steps []c12Step, err error) {
	defer func() {
		if r := recover(); r != nil {
			err = errC12Panic{fmt.Sprintf("implementation panicked in %s: %v", op.Kind, r)}
		}
	}()
	emitStep := func(abs string, e *emit.Enc) {
		steps = append(steps, c12Step{Abs: abs, wire: e, Snap: env.snap()})
	}
	before := env.snap()
	cached := keySet(before)
	env.feat["op="+op.Kind]++
	// gated operations: run the inner operation inside the first storage call
	var innerErr error
	gate := func() {
		if op.Inner == nil {
			return
		}
		fired := false
		env.backend.Log.Hook = func(o *doubles.Op) error {
			if fired {
				return nil
			}
			fired = true
			env.backend.Log.Hook = nil
			in, ierr := env.exec(op.Inner)
			if ierr != nil {
				innerErr = ierr
			}
			steps = append(steps, in...)
			env.feat["interleaved"]++
			return nil
		}
	}
	ungate := func() error {
		env.backend.Log.Hook = nil
		if innerErr != nil {
			return innerErr
		}
		return nil
	}
	switch op.Kind {
	case "add":
		c := *op.Cert
		env.cache.VerifCacheCertificate(env.mk(c))
		after := env.snap()
		v := ""
		if !cached[c.Hash] {
			v = c12Victim(before, after, "")
			if v != "" {
				env.feat["evict"]++
			}
		} else {
			env.feat["readd"]++
			if len(c.Tags) > 0 {
				env.feat["tagmerge"]++
			}
		}
		e := (&emit.Enc{}).Int(0)
		encCert(e, c)
		encVictim(e, v)
		emitStep(fmt.Sprintf("Add(%s tags=%v) victim=%q", c.Hash, c.Tags, v), e)
	case "rmcert":
		c := *op.Cert
		env.cache.VerifRemoveCertificate(env.mk(c))
		if cached[c.Hash] {
			env.feat["remove_hit"]++
		} else {
			env.feat["remove_miss"]++
		}
		e := (&emit.Enc{}).Int(1)
		encCert(e, c)
		emitStep(fmt.Sprintf("RemoveCert(%s)", c.Hash), e)
	case "replace":
		o, n := *op.Cert, *op.New
		env.cache.VerifReplaceCertificate(env.mk(o), env.mk(n))
		after := env.snap()
		v := ""
		if !cached[n.Hash] || n.Hash == o.Hash {
			v = c12Victim(before, after, o.Hash)
			if v != "" {
				env.feat["evict"]++
			}
		}
		if !cached[o.Hash] {
			env.feat["replace_stale_old"]++
		}
		e := (&emit.Enc{}).Int(2)
		encCert(e, o)
		encCert(e, n)
		encVictim(e, v)
		emitStep(fmt.Sprintf("Replace(%s,%s) victim=%q", o.Hash, n.Hash, v), e)
	case "remove":
		env.cache.Remove(op.Hashes)
		for _, h := range op.Hashes {
			if cached[h] {
				env.feat["remove_hit"]++
			} else {
				env.feat["remove_unknown_hash"]++
			}
		}
		e := (&emit.Enc{}).Int(3).StrList(op.Hashes)
		emitStep(fmt.Sprintf("Remove(%v)", op.Hashes), e)
	case "rmmanaged":
		var sj []certmagic.SubjectIssuer
		e := (&emit.Enc{}).Int(4).Len(len(op.Subjects))
		for _, s := range op.Subjects {
			sj = append(sj, certmagic.SubjectIssuer{Subject: s[0], IssuerKey: s[1]})
			e.Str(s[0]).Str(s[1])
		}
		env.cache.RemoveManaged(sj)
		if len(env.snap().Keys) < len(before.Keys) {
			env.feat["remove_hit"]++
		}
		emitStep(fmt.Sprintf("RemoveManaged(%v)", op.Subjects), e)
	case "hsmaint":
		// handshake.go: OCSP refresh of the handshake's copy, then the guarded write-back
		c := *op.Cert
		if c.OCSPSerial == 0 {
			c.OCSPSerial = 1 // the refresh branch is entered only with a (non-fresh) response attached
		}
		gate()
		res, err := env.cfg.VerifHandshakeMaintenance(context.Background(), env.hello, env.mk(c))
		if gerr := ungate(); gerr != nil {
			return nil, gerr
		}
		if err != nil {
			return nil, fmt.Errorf("handshakeMaintenance(%s): %v", c.Hash, err)
		}
		written := certmagic.VerifInfo(res)
		if keySet(env.snapNoCount())[c.Hash] {
			env.feat["writeback_applied"]++
		} else {
			env.feat["writeback_refused_stale"]++
		}
		e := (&emit.Enc{}).Int(5)
		encCert(e, written)
		emitStep(fmt.Sprintf("HandshakeWriteBack(%s ocsp=%d tags=%v)", written.Hash, written.OCSPSerial, written.Tags), e)
	case "ari":
		// maintain.go updateARI: newer ARI from storage or from the issuer, guarded write-back
		c := *op.Cert
		attempted := env.hasMeta(c) || c.IssuerKey == "i1" || c.IssuerKey == "i2"
		gate()
		res, _, _ := env.cfg.VerifUpdateARI(context.Background(), env.mk(c))
		if gerr := ungate(); gerr != nil {
			return nil, gerr
		}
		if attempted {
			if keySet(env.snapNoCount())[c.Hash] {
				env.feat["writeback_applied"]++
			} else {
				env.feat["writeback_refused_stale"]++
			}
			v := certmagic.VerifInfo(res).ARIURL
			e := (&emit.Enc{}).Int(7).Str(c.Hash).Str(v)
			emitStep(fmt.Sprintf("SetARI(%s,%s)", c.Hash, v), e)
		} else {
			e := (&emit.Enc{}).Int(6).Len(0)
			emitStep("SetOCSP([]) (updateARI without ARI source)", e)
		}
	case "ocspmaint":
		// maintain.go updateOCSPStaples: scan, staple outside the lock, guarded write-backs
		type upd struct {
			h string
			v int64
		}
		var expect []upd
		for _, ci := range before.Certs {
			if ci.OCSPSerial >= 100 {
				continue // fresh
			}
			if s, ok := env.stapleSerial(ci); ok {
				expect = append(expect, upd{ci.Hash, s})
			}
		}
		gate()
		env.cache.VerifUpdateOCSPStaples(context.Background())
		if gerr := ungate(); gerr != nil {
			return nil, gerr
		}
		now := keySet(env.snapNoCount())
		e := (&emit.Enc{}).Int(6).Len(len(expect))
		var d []string
		for _, u := range expect {
			e.Str(u.h).Z(u.v)
			d = append(d, fmt.Sprintf("%s:%d", u.h, u.v))
			if now[u.h] {
				env.feat["writeback_applied"]++
			} else {
				env.feat["writeback_refused_stale"]++
			}
		}
		emitStep(fmt.Sprintf("SetOCSP(%v)", d), e)
	default:
		return nil, fmt.Errorf("unknown op kind %q", op.Kind)
	}
	return steps, nil
}

func (env *c12Env) snapNoCount() c12Snap { return env.snap() }

// rebuild replaces the environment after an implementation panic (a mutex may be left locked).
func (env *c12Env) rebuild(msg string) error {
	n, err := newC12Env()
	if err != nil {
		return err
	}
	n.panics = append(env.panics, msg)
	// (field-wise: the struct holds a mutex)
	env.backend, env.cfg, env.cache, env.getter = n.backend, n.cfg, n.cache, n.getter
	env.ariCounter, env.chains, env.pems = n.ariCounter, n.chains, n.pems
	env.hello, env.closeHello, env.panics = n.hello, n.closeHello, n.panics
	return nil
}

type c12Hist struct {
	Cap int     `json:"cap"`
	Ops []c12Op `json:"ops"`
	// Concurrent, if set, is a stress case: phases of operation lists run by free goroutines
	// (Concurrent[phase][goroutine] = ops); Ops then run sequentially afterwards.
	Concurrent [][][]c12Op `json:"concurrent,omitempty"`
}

// execRaw runs an operation on the implementation without any bookkeeping (stress runs).
func (env *c12Env) execRaw(op *c12Op) {
	switch op.Kind {
	case "add":
		env.cache.VerifCacheCertificate(env.mk(*op.Cert))
	case "rmcert":
		env.cache.VerifRemoveCertificate(env.mk(*op.Cert))
	case "replace":
		env.cache.VerifReplaceCertificate(env.mk(*op.Cert), env.mk(*op.New))
	case "remove":
		env.cache.Remove(op.Hashes)
	case "rmmanaged":
		var sj []certmagic.SubjectIssuer
		for _, s := range op.Subjects {
			sj = append(sj, certmagic.SubjectIssuer{Subject: s[0], IssuerKey: s[1]})
		}
		env.cache.RemoveManaged(sj)
	case "hsmaint":
		c := *op.Cert
		if c.OCSPSerial == 0 {
			c.OCSPSerial = 1
		}
		env.cfg.VerifHandshakeMaintenance(context.Background(), env.hello, env.mk(c))
	case "ari":
		env.cfg.VerifUpdateARI(context.Background(), env.mk(*op.Cert))
	case "ocspmaint":
		env.cache.VerifUpdateOCSPStaples(context.Background())
	case "lookup":
		for _, c := range env.cache.AllMatchingCertificates(op.Hashes[0]) {
			_ = c.Hash()
		}
	}
}

// runPhase runs the goroutines of one concurrent phase to completion.
func (env *c12Env) runPhase(lists [][]c12Op) {
	var wg sync.WaitGroup
	for g := range lists {
		wg.Add(1)
		go func(ops []c12Op) {
			defer wg.Done()
			defer func() {
				if r := recover(); r != nil {
					env.mu.Lock()
					env.panics = append(env.panics, fmt.Sprintf("concurrent phase: %v", r))
					env.mu.Unlock()
				}
			}()
			for i := range ops {
				env.execRaw(&ops[i])
			}
		}(lists[g])
	}
	wg.Wait()
}

// runHist executes a history from the empty cache and emits it as one case.
func (env *c12Env) runHist(w *emit.Writer, h c12Hist, class string) error {
	env.reset(h.Cap)
	var steps []c12Step
	panicked := false
	for _, phase := range h.Concurrent {
		env.runPhase(phase)
		steps = append(steps, c12Step{Abs: fmt.Sprintf("concurrent phase (%d goroutines)", len(phase)), wire: (&emit.Enc{}).Int(8), Snap: env.snap()})
		env.feat["concurrent_phase"]++
		for _, l := range phase {
			env.feat["concurrent_ops"] += len(l)
		}
	}
	for i := range h.Ops {
		st, err := env.exec(&h.Ops[i])
		steps = append(steps, st...)
		if pe, ok := err.(errC12Panic); ok {
			// keep what was observed up to the panic (a corrupted state shows there), start afresh
			feat := env.feat
			if rerr := env.rebuild(pe.msg); rerr != nil {
				return rerr
			}
			env.reset(h.Cap)
			env.feat = feat
			env.feat["impl_panic"]++
			panicked = true
			break
		}
		if err != nil {
			return fmt.Errorf("history %v: %w", h, err)
		}
	}
	e := &emit.Enc{}
	e.Int(h.Cap)
	e.Len(len(c12PoolDef))
	for _, p := range c12PoolDef {
		encCert(e, p)
	}
	e.Len(len(steps))
	type obsStep struct {
		Abs   string  `json:"op"`
		State c12Snap `json:"state"`
	}
	var obs []obsStep
	for _, s := range steps {
		e.Big(s.wire.String())
		encSnap(e, s.Snap)
		obs = append(obs, obsStep{s.Abs, s.Snap})
	}
	qres := map[string][]string{}
	if panicked {
		e.Len(0) // the environment was rebuilt: no final queries
	} else {
		e.Len(len(c12Queries))
		for _, q := range c12Queries {
			var hs []string
			for _, c := range env.cache.AllMatchingCertificates(q) {
				hs = append(hs, c.Hash())
			}
			e.Str(q).StrList(hs)
			qres[q] = hs
		}
	}
	nt := env.feat["evict"]+env.feat["remove_hit"]+env.feat["tagmerge"]+env.feat["writeback_applied"]+
		env.feat["writeback_refused_stale"]+env.feat["replace_stale_old"]+env.feat["concurrent_phase"] > 0
	desc := map[string]any{"class": class, "cap": h.Cap, "len": len(steps)}
	for _, k := range []string{"evict", "tagmerge", "writeback_refused_stale", "interleaved"} {
		if env.feat[k] > 0 {
			desc[k] = env.feat[k]
		}
	}
	key, _ := json.Marshal(h)
	w.Add(emit.Case{Desc: desc, In: h, Obs: map[string]any{"steps": obs, "all_matching": qres}, Wire: e.String(), Nontrivial: nt, Key: string(key)})
	w.Hist(fmt.Sprintf("cap=%d", h.Cap))
	w.Hist(fmt.Sprintf("len=%d", len(steps)))
	w.Hist("class=" + class)
	for k, v := range env.feat {
		w.Meta.Histogram[k] += v
	}
	if len(steps) > 0 {
		w.Hist(fmt.Sprintf("final_size=%d", len(steps[len(steps)-1].Snap.Keys)))
	}
	return nil
}

func c12P(h string, tags ...string) *c12Info {
	p := *c12PoolByHash(h)
	p.Tags = tags
	return &p
}

// the small alphabet for the exhaustive part
func c12Alphabet() []c12Op {
	rm := func(h string) *c12Op { return &c12Op{Kind: "remove", Hashes: []string{h}} }
	stale := c12P("h2", "t9")
	stale.OCSPSerial = 3
	return []c12Op{
		{Kind: "add", Cert: c12P("h1")},
		{Kind: "add", Cert: c12P("h1", "t1")},
		{Kind: "add", Cert: c12P("h1", "t2", "t1", "t2")},
		{Kind: "add", Cert: c12P("h2")},
		{Kind: "add", Cert: c12P("h3")},
		{Kind: "add", Cert: c12P("h4", "t1")},
		{Kind: "rmcert", Cert: c12P("h1")},
		{Kind: "rmcert", Cert: c12P("h2")},
		{Kind: "rmcert", Cert: c12P("h4")},
		{Kind: "replace", Cert: c12P("h1"), New: c12P("h2")},
		{Kind: "replace", Cert: c12P("h2"), New: c12P("h3")},
		{Kind: "replace", Cert: c12P("h2"), New: c12P("h2", "t3")},
		{Kind: "replace", Cert: c12P("h4"), New: c12P("h1")},
		{Kind: "remove", Hashes: []string{"h1"}},
		{Kind: "remove", Hashes: []string{"h2", "h2"}},
		{Kind: "remove", Hashes: []string{"zz", "h4"}},
		{Kind: "remove", Hashes: []string{""}},
		{Kind: "rmmanaged", Subjects: [][2]string{{"a.x", ""}}},
		{Kind: "rmmanaged", Subjects: [][2]string{{"b.x", "i2"}, {"*.x", ""}}},
		{Kind: "hsmaint", Cert: stale},
		{Kind: "hsmaint", Cert: stale, Inner: rm("h2")},
		{Kind: "hsmaint", Cert: c12P("h1", "t1"), Inner: &c12Op{Kind: "add", Cert: c12P("h3")}},
		{Kind: "ari", Cert: c12P("h2")},
		{Kind: "ari", Cert: c12P("h3"), Inner: &c12Op{Kind: "replace", Cert: c12P("h3"), New: c12P("h1")}},
		{Kind: "ocspmaint"},
		{Kind: "ocspmaint", Inner: rm("h2")},
	}
}

func c12RandHist(r *rand.Rand, env *c12Env) c12Hist {
	caps := []int{0, 1, 2, 2, 3, 3, 4, 5}
	h := c12Hist{Cap: caps[r.Intn(len(caps))]}
	n := 6 + r.Intn(13)
	tagsets := [][]string{nil, nil, {"t1"}, {"t2"}, {"t1", "t3"}, {"t2", "t2"}, {"t3", "t1", "t2"}}
	var seen []c12Info // values that were current at some point (stale copies come from here)
	poolCert := func() *c12Info {
		p := c12PoolDef[r.Intn(len(c12PoolDef))]
		p.Tags = tagsets[r.Intn(len(tagsets))]
		p.OCSPSerial = int64(r.Intn(4))
		return &p
	}
	copyOf := func(sim *c12Snap) *c12Info {
		x := r.Intn(100)
		if x < 55 && len(sim.Certs) > 0 {
			c := sim.Certs[r.Intn(len(sim.Certs))]
			return &c
		}
		if x < 80 && len(seen) > 0 {
			c := seen[r.Intn(len(seen))]
			return &c
		}
		return poolCert()
	}
	var simple func(sim *c12Snap) c12Op
	simple = func(sim *c12Snap) c12Op {
		switch x := r.Intn(100); {
		case x < 45:
			return c12Op{Kind: "add", Cert: poolCert()}
		case x < 58:
			return c12Op{Kind: "rmcert", Cert: copyOf(sim)}
		case x < 75:
			return c12Op{Kind: "replace", Cert: copyOf(sim), New: poolCert()}
		case x < 90:
			var hs []string
			for k := 1 + r.Intn(2); k > 0; k-- {
				if r.Intn(5) == 0 {
					hs = append(hs, []string{"zz", "", "h9"}[r.Intn(3)])
				} else {
					hs = append(hs, c12PoolDef[r.Intn(len(c12PoolDef))].Hash)
				}
			}
			return c12Op{Kind: "remove", Hashes: hs}
		default:
			names := []string{"a.x", "b.x", "c.x", "*.x", "d.y", "nope"}
			iss := []string{"", "", "i1", "i2"}
			var sj [][2]string
			for k := 1 + r.Intn(2); k > 0; k-- {
				sj = append(sj, [2]string{names[r.Intn(len(names))], iss[r.Intn(len(iss))]})
			}
			return c12Op{Kind: "rmmanaged", Subjects: sj}
		}
	}
	// the history is generated while it runs (copies are taken from the real current state)
	env.reset(h.Cap)
	for i := 0; i < n; i++ {
		sim := env.snap()
		seen = append(seen, sim.Certs...)
		var op c12Op
		if x := r.Intn(100); x < 70 {
			op = simple(&sim)
		} else {
			switch {
			case x < 82:
				op = c12Op{Kind: "hsmaint", Cert: copyOf(&sim)}
			case x < 92:
				op = c12Op{Kind: "ari", Cert: copyOf(&sim)}
			default:
				op = c12Op{Kind: "ocspmaint"}
			}
			if r.Intn(2) == 0 {
				in := simple(&sim)
				op.Inner = &in
			}
		}
		if _, err := env.exec(&op); err != nil {
			if pe, ok := err.(errC12Panic); ok {
				// keep the op (runHist re-runs it and records what is observed) and stop here
				env.rebuild(pe.msg)
				h.Ops = append(h.Ops, op)
				break
			}
			// generation-time failure: drop the op
			continue
		}
		h.Ops = append(h.Ops, op)
	}
	return h
}

// c12StressHist: phases of random operations run by free goroutines, then Remove of every pool
// hash (which must leave both maps empty).
func c12StressHist(r *rand.Rand) c12Hist {
	h := c12Hist{Cap: []int{0, 2, 3, 5}[r.Intn(4)]}
	tagsets := [][]string{nil, {"t1"}, {"t2", "t3"}}
	pc := func() *c12Info {
		p := c12PoolDef[r.Intn(len(c12PoolDef))]
		p.Tags = tagsets[r.Intn(len(tagsets))]
		return &p
	}
	for ph := 0; ph < 3; ph++ {
		var phase [][]c12Op
		for g := 0; g < 6; g++ {
			var ops []c12Op
			for i := 0; i < 40; i++ {
				switch x := r.Intn(100); {
				case x < 35:
					ops = append(ops, c12Op{Kind: "add", Cert: pc()})
				case x < 45:
					ops = append(ops, c12Op{Kind: "rmcert", Cert: pc()})
				case x < 58:
					ops = append(ops, c12Op{Kind: "replace", Cert: pc(), New: pc()})
				case x < 68:
					ops = append(ops, c12Op{Kind: "remove", Hashes: []string{c12PoolDef[r.Intn(len(c12PoolDef))].Hash, "zz"}})
				case x < 74:
					ops = append(ops, c12Op{Kind: "rmmanaged", Subjects: [][2]string{{[]string{"a.x", "b.x", "*.x"}[r.Intn(3)], ""}}})
				case x < 82:
					ops = append(ops, c12Op{Kind: "hsmaint", Cert: pc()})
				case x < 88:
					ops = append(ops, c12Op{Kind: "ari", Cert: pc()})
				case x < 92:
					ops = append(ops, c12Op{Kind: "ocspmaint"})
				default:
					ops = append(ops, c12Op{Kind: "lookup", Hashes: []string{c12Queries[r.Intn(len(c12Queries))]}})
				}
			}
			phase = append(phase, ops)
		}
		h.Concurrent = append(h.Concurrent, phase)
	}
	var all []string
	for _, p := range c12PoolDef {
		all = append(all, p.Hash)
	}
	h.Ops = []c12Op{{Kind: "add", Cert: c12P("h1", "t7")}, {Kind: "remove", Hashes: all}}
	return h
}

func runC12(tier string, seed int64, outdir string, replay string) error {
	w := emit.NewWriter(outdir, "C12", tier, seed)
	w.Meta.Oracles = []emit.OracleCheck{}
	defer w.Close()
	env, err := newC12Env()
	if err != nil {
		return err
	}
	defer env.close()
	w.Meta.Rule = "distinct histories (capacity + operation list) in which at least one eviction, removal of a cached certificate, tag merge, applied or refused (stale copy) write-back, or replacement of an already-removed certificate occurred"
	if replay != "" {
		rc, err := loadReplay(replay)
		if err != nil {
			return err
		}
		var h c12Hist
		if err := json.Unmarshal(rc.In, &h); err != nil {
			return err
		}
		cl, _ := rc.Desc["class"].(string)
		return env.runHist(w, h, cl)
	}
	// ---- corpus: witnesses of past findings and hand-picked orders ----
	h2 := c12P("h2")
	stale := c12P("h2")
	stale.OCSPSerial = 1
	corpus := []struct {
		class string
		h     c12Hist
	}{
		// the fixed finding: handshake OCSP refresh interleaved with a removal
		{"stale-writeback-after-remove", c12Hist{Cap: 0, Ops: []c12Op{{Kind: "add", Cert: h2}, {Kind: "hsmaint", Cert: stale, Inner: &c12Op{Kind: "remove", Hashes: []string{"h2"}}}}}},
		{"stale-writeback-after-remove", c12Hist{Cap: 1, Ops: []c12Op{{Kind: "add", Cert: h2}, {Kind: "hsmaint", Cert: stale, Inner: &c12Op{Kind: "replace", Cert: h2, New: c12P("h3")}}}}},
		{"stale-writeback-after-remove", c12Hist{Cap: 1, Ops: []c12Op{{Kind: "add", Cert: h2}, {Kind: "hsmaint", Cert: stale, Inner: &c12Op{Kind: "add", Cert: c12P("h1")}}}}},
		{"stale-writeback-after-remove", c12Hist{Cap: 0, Ops: []c12Op{{Kind: "add", Cert: h2}, {Kind: "remove", Hashes: []string{"h2"}}, {Kind: "hsmaint", Cert: stale}}}},
		{"corpus", c12Hist{Cap: 0, Ops: []c12Op{{Kind: "add", Cert: c12P("h3")}, {Kind: "ari", Cert: c12P("h3"), Inner: &c12Op{Kind: "rmcert", Cert: c12P("h3")}}}}},
		{"corpus", c12Hist{Cap: 0, Ops: []c12Op{{Kind: "add", Cert: h2}, {Kind: "ocspmaint", Inner: &c12Op{Kind: "rmmanaged", Subjects: [][2]string{{"b.x", ""}}}}}}},
		{"corpus", c12Hist{Cap: 2, Ops: []c12Op{{Kind: "add", Cert: c12P("h4", "t1")}, {Kind: "add", Cert: c12P("h8")}, {Kind: "add", Cert: c12P("h4", "t2")}, {Kind: "add", Cert: c12P("h1")}, {Kind: "remove", Hashes: []string{"h4", "h8", "h1"}}}}},
	}
	for _, c := range corpus {
		if err := env.runHist(w, c.h, c.class); err != nil {
			return err
		}
	}
	// ---- exhaustive: every history up to a length over the small alphabet ----
	alpha := c12Alphabet()
	maxLen, caps, nRand := 2, []int{0, 1, 2, 3}, 3000
	if tier == "thorough" {
		maxLen, nRand = 3, 12000
	}
	count := 0
	var rec func(prefix []c12Op, n int, capacity int) error
	rec = func(prefix []c12Op, n int, capacity int) error {
		if len(prefix) > 0 {
			if err := env.runHist(w, c12Hist{Cap: capacity, Ops: prefix}, "exhaustive"); err != nil {
				return err
			}
			count++
		}
		if n == 0 {
			return nil
		}
		for i := range alpha {
			if err := rec(append(append([]c12Op{}, prefix...), alpha[i]), n-1, capacity); err != nil {
				return err
			}
		}
		return nil
	}
	for _, c := range caps {
		if err := rec(nil, maxLen, c); err != nil {
			return err
		}
	}
	w.Meta.Exhaustive = true
	w.Meta.Universe = fmt.Sprintf("all %d histories of length 1..%d over a %d-operation alphabet (adds with/without tags, removals by copy / hash (known, unknown, empty, repeated) / subject, replacements, the three write-back paths with and without an interleaved removal) on 4 pool certificates with overlapping and repeated names, for each capacity in %v", count, maxLen, len(alpha), caps)
	// quick tier: length-3 histories, sampled (not claimed exhaustive)
	r := rand.New(rand.NewSource(seed))
	if tier != "thorough" {
		for i := 0; i < 3000; i++ {
			h := c12Hist{Cap: 1 + r.Intn(2)}
			for k := 0; k < 3; k++ {
				h.Ops = append(h.Ops, alpha[r.Intn(len(alpha))])
			}
			if err := env.runHist(w, h, "sampled-len3"); err != nil {
				return err
			}
		}
	}
	// ---- random longer histories over the full pool, with stale copies and interleavings ----
	for i := 0; i < nRand; i++ {
		h := c12RandHist(r, env)
		if err := env.runHist(w, h, "random"); err != nil {
			return err
		}
	}
	// ---- free-running goroutines (supporting: the lock discipline assumed by the model) ----
	nStress := 40
	if tier == "thorough" {
		nStress = 400
	}
	for i := 0; i < nStress; i++ {
		if err := env.runHist(w, c12StressHist(r), "concurrent"); err != nil {
			return err
		}
	}
	w.Meta.Notes = append(w.Meta.Notes, "pool: "+strings.TrimSpace(fmt.Sprint(c12PoolDef)))
	det := strings.Join(env.panics, "; ")
	if len(det) > 400 {
		det = det[:400]
	}
	w.Meta.Oracles = append(w.Meta.Oracles, emit.OracleCheck{Name: "no cache operation panicked", OK: len(env.panics) == 0, Detail: det})
	return nil
}
