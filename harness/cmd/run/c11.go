//go:build !skip_c11

package main

import (
	"encoding/json"
	"fmt"
	"math/rand"
	"strings"
	"unicode"
	"unicode/utf8"

	"github.com/caddyserver/certmagic"

	"verifharness/pkg/emit"
)

func init() { register("C11", runC11) }

var c11Alphabet = []string{".", "/", "\\", "*", " ", "+", ":", "@", "#", "\x00", "a", "A", "é"}

func enumStrings(alpha []string, maxLen int, f func(string)) {
	var rec func(prefix string, n int)
	rec = func(prefix string, n int) {
		f(prefix)
		if n == 0 {
			return
		}
		for _, a := range alpha {
			rec(prefix+a, n-1)
		}
	}
	rec("", maxLen)
}

func randString(r *rand.Rand, maxLen int) string {
	n := r.Intn(maxLen + 1)
	var b strings.Builder
	for i := 0; i < n; i++ {
		switch r.Intn(10) {
		case 0, 1, 2:
			b.WriteString(c11Alphabet[r.Intn(len(c11Alphabet))])
		case 3:
			b.WriteByte(byte(r.Intn(256))) // possibly invalid UTF-8
		case 4:
			b.WriteRune(rune(r.Intn(0x110000)))
		case 5:
			sp := []rune{0x85, 0xA0, 0x1680, 0x2000, 0x2028, 0x3000, '\t', '\n', 0x212A, 0x130, 0x1E9E}
			b.WriteRune(sp[r.Intn(len(sp))])
		default:
			b.WriteByte(byte(0x20 + r.Intn(0x5f)))
		}
	}
	return b.String()
}

func runC11(tier string, seed int64, outdir string, replay string) error {
	w := emit.NewWriter(outdir, "C11", tier, seed)
	// ---- oracle hypotheses of the theorems, over every code point ----
	h1, h2, hs := true, true, true
	var bad []string
	for c := rune(0); c < 0x110000; c++ {
		l := unicode.ToLower(c)
		if c < 128 {
			want := c
			if c >= 'A' && c <= 'Z' {
				want = c + 32
			}
			if l != want {
				h1 = false
				bad = append(bad, fmt.Sprintf("H1 U+%04X", c))
			}
			wantSp := (c >= 9 && c <= 13) || c == 32
			if unicode.IsSpace(c) != wantSp {
				hs = false
				bad = append(bad, fmt.Sprintf("Hs U+%04X", c))
			}
		}
		if l >= 'A' && l <= 'Z' {
			h2 = false
			bad = append(bad, fmt.Sprintf("H2 U+%04X", c))
		}
	}
	// strings.ToLower / TrimSpace agree with the per-rune oracles (sampled incl. invalid UTF-8)
	rr := rand.New(rand.NewSource(seed))
	agree := true
	for i := 0; i < 20000; i++ {
		s := randString(rr, 12)
		var b strings.Builder
		for _, r := range s {
			b.WriteRune(unicode.ToLower(r))
		}
		if []rune(strings.ToLower(s)) == nil && b.Len() != 0 || string([]rune(strings.ToLower(s))) != string([]rune(b.String())) {
			agree = false
			bad = append(bad, fmt.Sprintf("ToLower %q", s))
		}
		t := strings.TrimFunc(s, unicode.IsSpace)
		if strings.TrimSpace(s) != t {
			agree = false
			bad = append(bad, fmt.Sprintf("TrimSpace %q", s))
		}
	}
	det := strings.Join(bad, ", ")
	if len(det) > 300 {
		det = det[:300]
	}
	w.Meta.Oracles = append(w.Meta.Oracles,
		emit.OracleCheck{Name: "H1: unicode.ToLower = ascii_lower below 128 (all 128)", OK: h1, Detail: det},
		emit.OracleCheck{Name: "H2: no code point lower-cases into A-Z (all 0x110000)", OK: h2, Detail: det},
		emit.OracleCheck{Name: "Hs: unicode.IsSpace = ascii_space below 128 (all 128)", OK: hs, Detail: det},
		emit.OracleCheck{Name: "strings.ToLower/TrimSpace act rune-wise as unicode.ToLower/IsSpace (20000 random strings incl. invalid UTF-8)", OK: agree, Detail: det})

	keys := certmagic.StorageKeys
	kindNames := []string{"Safe", "SiteCert", "SitePrivateKey", "SiteMeta", "CertsPrefix", "CertsSitePrefix", "OCSPStaple", "Filename", "lockFilename", "userReg", "userKey", "challengeTokensKey", "userPrefix"}
	add := func(kind int, args []string, obs, aux string, nontrivial bool) {
		e := &emit.Enc{}
		// tables of the non-ASCII code points that occur: ToLower image, IsSpace
		seen := map[rune]bool{}
		var lt [][2]rune
		var st []rune
		for _, a := range args {
			for _, r := range a {
				if r >= 128 && !seen[r] {
					seen[r] = true
					lt = append(lt, [2]rune{r, unicode.ToLower(r)})
					if unicode.IsSpace(r) {
						st = append(st, r)
					}
				}
			}
		}
		e.Len(len(lt))
		for _, p := range lt {
			e.Z(int64(p[0])).Z(int64(p[1]))
		}
		e.Len(len(st))
		for _, r := range st {
			e.Z(int64(r))
		}
		e.Int(kind).StrList(args).Str(obs).Str(aux)
		w.Add(emit.Case{Desc: map[string]any{"kind": kindNames[kind]}, In: args, Obs: obs, Wire: e.String(),
			Nontrivial: nontrivial, Key: fmt.Sprint(kind, args)})
		w.Hist("kind=" + kindNames[kind])
	}
	interesting := func(s string) bool { // input on which some step of Safe does something
		return s != keys.Safe(s) || strings.Contains(s, ".")
	}
	safeCase := func(s string) {
		o := keys.Safe(s)
		add(0, []string{s}, o, keys.Safe(o), interesting(s))
		w.Hist(fmt.Sprintf("safe_len=%d", utf8.RuneCountInString(s)))
		if !utf8.ValidString(s) {
			w.Hist("safe_invalid_utf8")
		}
	}
	emptyHashKey := keys.OCSPStaple(&certmagic.Certificate{}, []byte("pem"))
	hash := strings.TrimPrefix(emptyHashKey, "ocsp/")
	fs := &certmagic.FileStorage{Path: "/r/x"}
	builderCases := func(a, b string) {
		nt := interesting(a) || interesting(b)
		cp := keys.CertsPrefix(a)
		add(1, []string{a, b}, keys.SiteCert(a, b), cp, nt)
		add(2, []string{a, b}, keys.SitePrivateKey(a, b), cp, nt)
		add(3, []string{a, b}, keys.SiteMeta(a, b), cp, nt)
		add(4, []string{a}, cp, cp, interesting(a))
		add(5, []string{a, b}, keys.CertsSitePrefix(a, b), cp, nt)
		add(6, []string{"\x01" + a, hash}, keys.OCSPStaple(&certmagic.Certificate{Names: []string{a}}, []byte("pem")), "", interesting(a))
		add(7, []string{fs.Path, keys.SiteCert(a, b)}, fs.Filename(keys.SiteCert(a, b)), "", nt)
		add(7, []string{fs.Path, a + "/" + b}, fs.Filename(a+"/"+b), "", true)
		add(8, []string{fs.Path, a}, certmagic.VerifLockFilename(fs, a), "", interesting(a))
		// account keys: a is the CA URL, b the e-mail
		ik := certmagic.VerifIssuerKey(a)
		up, ur, uk := certmagic.VerifUserKeys(a, b)
		add(9, []string{ik, b}, ur, keys.Safe(ik), nt)
		add(10, []string{ik, b}, uk, keys.Safe(ik), nt)
		add(12, []string{ik, b}, up, keys.Safe(ik), nt)
		add(11, []string{a, b}, certmagic.VerifChallengeTokensKey(a, b), keys.Safe(a), nt)
	}

	if replay != "" {
		rc, err := loadReplay(replay)
		if err != nil {
			return err
		}
		var args []string
		if err := json.Unmarshal(rc.In, &args); err != nil {
			return err
		}
		switch rc.Desc["kind"] {
		case "Safe":
			safeCase(args[0])
		default:
			a, b := args[0], ""
			if len(args) > 1 {
				b = args[1]
			}
			if rc.Desc["kind"] == "OCSPStaple" {
				a = strings.TrimPrefix(a, "\x01")
			}
			builderCases(a, b)
		}
		w.Close()
		return nil
	}
	// corpus first: minimised past failures and the witnesses of fixed findings
	corpus := []string{"./.", ".#.", "a./.b", "..", "...", "....", ". .", ".+.", "*.example.com", " Example.COM ", "a:b", "K", "K", "İ", " a ", "a\xffb", ".\x00.", "a/../b", "./", "/."}
	for _, s := range corpus {
		safeCase(s)
	}
	for _, a := range corpus {
		builderCases(a, "example.com")
		builderCases("acme-v02.api.letsencrypt.org-directory", a)
		builderCases(a, a)
	}
	maxLen, builderLen, nRand := 4, 2, 3000
	if tier == "thorough" {
		maxLen, builderLen, nRand = 5, 3, 20000
	}
	n := 0
	enumStrings(c11Alphabet, maxLen, func(s string) { safeCase(s); n++ })
	w.Meta.Exhaustive = true
	w.Meta.Universe = fmt.Sprintf("Safe: all %d strings of length <= %d over the 13-symbol alphabet %q; builders: every string of length <= %d in each argument position against 3 fixed partners", n, maxLen, c11Alphabet, builderLen)
	fixed := []string{"example.com", "./.", "https://acme.example/dir"}
	enumStrings(c11Alphabet, builderLen, func(s string) {
		for _, f := range fixed {
			builderCases(s, f)
			builderCases(f, s)
		}
	})
	for i := 0; i < nRand; i++ {
		s := randString(rr, 40)
		safeCase(s)
		if i%10 == 0 {
			builderCases(s, randString(rr, 12))
		}
	}
	// inputs that other parsers accept as something special (IP literals with zones, bracketed hosts,
	// host:port, URLs, e-mail forms, percent escapes): a fast path keyed on "this parses as X" would show here
	for _, sp := range []string{"fe80::1%eth0", "fe80::1%/../../x", "::1%\\..\\x", "fe80::1%25eth0", "::ffff:1.2.3.4", "1.2.3.4", "[::1]", "[::1]:443",
		"[fe80::1%/../x]", "2001:db8::1", "0:0:0:0:0:0:0:1", "1.2.3.4:80", "example.com:443", "example.com.", "http://a/../b", "mailto:a@b/../c",
		"a%2f..%2fb", "a%00b", "xn--bcher-kva.example", "*.example.com", "*", "..%", "%..%", "::%..", "::%../..", "fe80::%..%.."} {
		safeCase(sp)
		builderCases(sp, "example.com")
		builderCases("https://acme.example/dir", sp)
		builderCases(sp, sp)
	}
	// long inputs (host names up to 253 characters, long e-mail addresses, longer still): a length-dependent
	// step would show here (every clause is length-independent in the model)
	for i := 0; i < nRand/20+40; i++ {
		n := []int{200, 239, 240, 241, 249, 250, 253, 255, 256, 300, 600}[i%11]
		var b strings.Builder
		for b.Len() < n {
			switch rr.Intn(12) {
			case 0:
				b.WriteString(".")
			case 1:
				b.WriteString([]string{"/", "*", "+", " ", ":", "@", "..", "é", "#"}[rr.Intn(9)])
			default:
				b.WriteByte("abcdefghijklmnopqrstuvwxyzABC0123456789-_"[rr.Intn(41)])
			}
		}
		s := b.String()
		safeCase(s)
		if i%4 == 0 {
			builderCases(s, "example.com")
			builderCases("https://acme.example/dir", s)
		}
	}
	emails := []string{"", "foo@example.com", "@x", "a@", "A.B@Example.com", "..@..", "./.@a", "me", "Ünï@x.y"}
	cas := []string{"https://acme-v02.api.letsencrypt.org/directory", "https://ca.example/a/b/../c", "not a url", "https://[::1]:14000/dir", "//../..", "https://ca.example/..\\..", "http://x/%2e%2e/"}
	// CA strings that url.Parse rejects (issuerKey then keeps the raw string), with traversal bodies
	for _, brk := range []string{"\x00", ":", "%zz", "http://[::1", "http://a b", "\x7f"} {
		for _, body := range []string{"../..", "/..", "../../x", "a/b", "..", "/../../outside/"} {
			cas = append(cas, brk+body, body+brk, body+brk+body)
		}
	}
	for _, ca := range cas {
		for _, e := range emails {
			builderCases(ca, e)
		}
	}
	w.Meta.Rule = "distinct (function, arguments) tuples whose argument is changed by Safe or contains a dot (a case where at least one sanitizing step or the dot-dot logic is exercised)"
	w.Close()
	return nil
}
