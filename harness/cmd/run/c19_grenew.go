//go:build !skip_c19_grenew

package main

import (
	"context"
	"errors"
	"fmt"
	"time"

	"github.com/caddyserver/certmagic"

	"verifharness/pkg/doubles"
	"verifharness/pkg/emit"
)

// Class "renewal-two-submitters": both places that submit a background renewal job for a managed
// name, on the package-level job manager. A certificate inside its renewal window is in storage;
// the issuer then fails retryably, so the job submitted by Config.ManageAsync stays in back-off
// (retry table 600 ms); then Cache.RenewManagedCertificates runs. Observed through the snapshot of
// the job manager (relative to its state before the case): job names and workers added after
// ManageAsync and after the maintenance pass. "At most one background renewal job per name queued
// or running at any time."
type c19GRenewObs struct {
	Names1, Workers1 int
	Names2, Workers2 int
	NewNames         []string `json:"job_names_added"`
	IssuerCalls      int      `json:"issuer_calls"`
	Note             string   `json:"note,omitempty"`
}

func c19GRenewRun(idx int) c19GRenewObs {
	var o c19GRenewObs
	name := fmt.Sprintf("c19-grenew-%d-%d.example", time.Now().UnixNano()%1000000, idx)
	b := doubles.NewMemBackend()
	ca := doubles.NewCA("c19 grenew CA")
	iss := &doubles.IssuerDouble{Key: "c19grenew", CA: ca, Log: b.Log, Inst: "i", Lifetime: 90 * 24 * time.Hour, Backdate: 80 * 24 * time.Hour}
	iss.Fail = func(n int, names []string) error {
		if n == 0 {
			return nil
		}
		return errors.New("scripted failure of the renewal")
	}
	cfg, cache := doubles.NewConfig(b.Handle("i"), certmagic.Config{DisableARI: true}, certmagic.CacheOptions{}, iss)
	defer cache.Stop()
	ctx, cancel := context.WithCancel(context.Background())
	defer cancel()
	if err := cfg.ObtainCertSync(ctx, name); err != nil {
		o.Note = "initial obtain: " + err.Error()
		return o
	}
	restore := certmagic.VerifSetRetryIntervals([]time.Duration{600 * time.Millisecond})
	defer restore()
	before := certmagic.VerifMaintainJobsSnapshot()
	had := map[string]bool{}
	for _, n := range before.Names {
		had[n] = true
	}
	added := func(s certmagic.VerifMaintainJobs) (names []string, workers int) {
		for _, n := range s.Names {
			if !had[n] {
				names = append(names, n)
			}
		}
		return names, s.ActiveWorkers - before.ActiveWorkers
	}
	if err := cfg.ManageAsync(ctx, []string{name}); err != nil {
		o.Note = "ManageAsync: " + err.Error()
	}
	// wait until the renewal job has made its first (failing) attempt: it is in back-off now
	for dl := time.Now().Add(3 * time.Second); time.Now().Before(dl); time.Sleep(time.Millisecond) {
		if cs := iss.CallsSnapshot(); len(cs) >= 2 && !cs[1].End.IsZero() {
			break
		}
	}
	n1, w1 := added(certmagic.VerifMaintainJobsSnapshot())
	o.Names1, o.Workers1 = len(n1), w1
	if err := cache.RenewManagedCertificates(ctx); err != nil {
		o.Note = "RenewManagedCertificates: " + err.Error()
	}
	time.Sleep(30 * time.Millisecond) // a worker for a second job would have been started by now
	n2, w2 := added(certmagic.VerifMaintainJobsSnapshot())
	o.Names2, o.Workers2, o.NewNames = len(n2), w2, n2
	o.IssuerCalls = len(iss.CallsSnapshot())
	// stop the retries and wait until the job manager is back where it was
	cancel()
	for dl := time.Now().Add(3 * time.Second); time.Now().Before(dl); time.Sleep(time.Millisecond) {
		if n, w := added(certmagic.VerifMaintainJobsSnapshot()); len(n) == 0 && w <= 0 {
			break
		}
	}
	return o
}

func c19GRenew(w *emit.Writer, rounds int) {
	for i := 0; i < rounds; i++ {
		o := c19GRenewRun(i)
		if o.Note != "" && o.Names1 == 0 {
			w.Hist("renewal_two_submitters: not_run")
			w.Meta.Notes = append(w.Meta.Notes, "renewal-two-submitters not run: "+o.Note)
			continue
		}
		e := &emit.Enc{}
		e.Int(6).Int(o.Names1).Int(max(o.Workers1, 0)).Int(o.Names2).Int(max(o.Workers2, 0))
		w.Hist("kind=renewal-two-submitters")
		w.Add(emit.Case{Desc: map[string]any{"kind": "renewal-two-submitters", "class": "renewal-two-submitters"},
			In: map[string]any{"round": i}, Obs: o, Wire: e.String(), Nontrivial: true, Key: fmt.Sprintf("grenew:%d", i)})
	}
}
