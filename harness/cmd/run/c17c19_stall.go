//go:build !skip_c17c19_stall

package main

import (
	"sync"
	"time"
)

// c17StallMonitor is a heartbeat: a goroutine that sleeps 500 µs at a time and records every
// wake-up that came more than 3 ms late. The timing-sensitive drivers (C17, C19) use it to
// tell "the process was not scheduled for a while" from "the code under test was late": a case
// during which the heartbeat stalled is run again, and dropped (counted as skipped_stalled,
// never a verdict) if that keeps happening.
type c17StallMonitor struct {
	mu     sync.Mutex
	events []c17StallEvent
	stop   chan struct{}
}

type c17StallEvent struct {
	at  time.Time
	gap time.Duration
}

func c17StartStallMonitor() *c17StallMonitor {
	m := &c17StallMonitor{stop: make(chan struct{})}
	go func() {
		const tick = 500 * time.Microsecond
		for {
			select {
			case <-m.stop:
				return
			default:
			}
			t := time.Now()
			time.Sleep(tick)
			if gap := time.Since(t) - tick; gap > 3*time.Millisecond {
				m.mu.Lock()
				m.events = append(m.events, c17StallEvent{time.Now(), gap})
				m.mu.Unlock()
			}
		}
	}()
	return m
}

func (m *c17StallMonitor) Stop() { close(m.stop) }

// MaxGap returns the longest recorded heartbeat delay that ended within [from, to].
func (m *c17StallMonitor) MaxGap(from, to time.Time) time.Duration {
	m.mu.Lock()
	defer m.mu.Unlock()
	var g time.Duration
	for _, e := range m.events {
		if !e.at.Before(from) && !e.at.Add(-e.gap).After(to) && e.gap > g {
			g = e.gap
		}
	}
	return g
}
