//go:build !skip_c16

package main

// C16 (solver level) — orders leave nothing behind.
//
// Histories of Present / CleanUp calls, under acmez's discipline (CleanUp exactly once after each
// Present, failed or not), on the real solver stacks that ACMEIssuer.newACMEClient builds:
// solverWrapper{distributedSolver{httpSolver|tlsALPNSolver}} with real TCP listeners on a private
// loopback address, and solverWrapper{DNS01Solver} on a libdns provider double. 2-4 orders share
// a listener address or a DNS record name; every interleaving of small histories, faults at every
// call (context cancelled, storage failure, provider failure, address in use, bind error). After
// each call: the solvers map (hook), connect probes, activeChallenges, token keys, provider
// records, DNSManager memory. Some challenges are additionally validated over the network
// through the solver's own listener.

import (
	"context"
	"crypto/tls"
	"encoding/json"
	"errors"
	"fmt"
	"io"
	"log"
	"math/rand"
	"net"
	"net/http"
	"os"
	"sort"
	"strings"
	"sync"
	"time"

	"github.com/caddyserver/certmagic"
	"github.com/libdns/libdns"
	"github.com/mholt/acmez/v3"
	"github.com/mholt/acmez/v3/acme"
	"go.uber.org/zap"

	"verifharness/pkg/doubles"
	"verifharness/pkg/emit"
)

func init() { register("C16", runC16) }

type c16Order struct {
	Kind  string `json:"kind"`  // http | tlsalpn | dns
	Addr  int    `json:"addr"`  // index into the history's addresses (listener kinds)
	Ident string `json:"ident"` // identifier (made unique per history at run time)
	IP    bool   `json:"ip,omitempty"` // the identifier is an IP address (TLS-ALPN-01: the memory / token key is its reverse-mapping name)
}

type c16Step struct {
	Clean    bool `json:"clean,omitempty"`
	Order    int  `json:"order"`
	Cancel   bool `json:"cancel,omitempty"`   // context already cancelled
	Storage  bool `json:"storage,omitempty"`  // the storage operation of this call fails
	Provider bool `json:"provider,omitempty"` // the DNS provider operation of this call fails
}

type c16In struct {
	Honour     bool       `json:"honour_ctx"`
	Addrs      []string   `json:"addrs"` // free | occupied | invalid
	Orders     []c16Order `json:"orders"`
	Steps      []c16Step  `json:"steps"`
	Concurrent bool       `json:"concurrent,omitempty"` // orders run as free goroutines; Steps is one serialization
	DNSTTL     int        `json:"dns_ttl,omitempty"`    // DNSManager.TTL in seconds: 0 (none), 10 (below the provider's minimum of 60 s: stored as 60 s), 120
	OtherInst  bool       `json:"other_instance_order,omitempty"` // before the history: a TLS-ALPN-01 order of another instance is validated through this one
	Override   bool       `json:"override,omitempty"`   // DNS01Solver.OverrideDomain is set: every DNS challenge uses that one record name
	Cfg        *c16Cfg    `json:"cfg,omitempty"`        // an issuer configuration whose solver set is looked at (c16_cfg.go)
	E2E        *c16E2E    `json:"e2e,omitempty"`        // whole orders through the real ACMEIssuer and the mock CA (c16_e2e.go)
}

type c16Obs struct {
	Err     string      `json:"err,omitempty"`
	Solvers []string    `json:"solvers"`
	Probes  []string    `json:"probes"`
	Mem     []string    `json:"mem"`
	Store   []string    `json:"store"`
	Recs    [][2]string `json:"recs"`
	DMem    [][2]string `json:"dmem"`
}

type c16Env struct {
	host    string
	backend *doubles.MemBackend
	cfg     *certmagic.Config
	stop    func()
	failOp  string // storage op kind to fail once ("Store" / "Delete"), for the current call
	e2eOK   int
	e2eBad  []string
	hung    bool
	seq     int
	own     c15OwnAnswers
	x       *c16E2EEnv
}

func c16NewEnv() *c16Env {
	log.SetOutput(io.Discard)
	e := &c16Env{host: c15LoopbackHost(), backend: doubles.NewMemBackend()}
	e.backend.Log.Hook = func(op *doubles.Op) error {
		if e.failOp != "" && op.Kind == e.failOp && strings.Contains(op.Key, "challenge_tokens") {
			return errors.New("injected storage failure")
		}
		return nil
	}
	cfg, cache := doubles.NewConfig(doubles.NilCtxStorage{S: e.backend.Handle("A")}, certmagic.Config{}, certmagic.CacheOptions{})
	e.cfg, e.stop = cfg, cache.Stop
	// the issuer under whose key this instance looks for challenges of other instances
	cfg.Issuers = []certmagic.Issuer{certmagic.NewACMEIssuer(cfg, certmagic.ACMEIssuer{CA: c16CA, Email: "x@example.com", Agreed: true, Logger: zap.NewNop()})}
	return e
}

// otherInstanceOrder plays a whole TLS-ALPN-01 order of ANOTHER instance of the cluster past this
// one: the other instance presents (its token appears in the shared storage), the CA's validation
// hello lands HERE (this instance loads the token and has to generate the challenge certificate),
// the other instance cleans up. This instance never gets a CleanUp for that order: nothing of it may
// stay in this process's memory (every new activeChallenges key shows in the snapshots that follow).
func (e *c16Env) otherInstanceOrder(r *rand.Rand) error {
	iss := e.cfg.Issuers[0].(*certmagic.ACMEIssuer)
	st, err := certmagic.VerifChallengeSolvers(iss, false)
	if err != nil {
		return err
	}
	d := certmagic.VerifDescribeSolver(st[acme.ChallengeTypeTLSALPN01])
	remote := certmagic.VerifDistributedSolver(e.backend.Handle("B"), d.Prefix, &doubles.NoopSolver{})
	tok := c15Token(r)
	ch := acme.Challenge{Type: acme.ChallengeTypeTLSALPN01, Token: tok, KeyAuthorization: tok + "." + c15Token(r),
		Identifier: acme.Identifier{Type: "dns", Value: fmt.Sprintf("elsewhere-%d.example", e.seq)}}
	if err := remote.Present(context.Background(), ch); err != nil {
		return err
	}
	hello, done := doubles.Hello(ch.Identifier.Value, acmez.ACMETLS1Protocol)
	cert, herr := e.cfg.GetCertificate(hello)
	done()
	if herr != nil || cert == nil {
		e.e2eBad = append(e.e2eBad, fmt.Sprintf("validation hello for another instance's pending TLS-ALPN-01 challenge was not answered here: %v", herr))
	}
	return remote.CleanUp(context.Background(), ch)
}

const c16CA = "https://ca-one.test/dir"

// c16MinTTL: the provider double normalises: records are stored with at least this TTL, and
// DeleteRecords matches exactly (libdns contract). DNSManager.TTL varies over 0 / below / above it.
const c16MinTTL = 60 * time.Second

var c16TTLs = []int{10, 120, 0}

type c16Hist struct {
	in       c16In
	addrs    []string // actual addresses
	occ      []net.Listener
	chals    []acme.Challenge
	solvers  []acmez.Solver
	provider *doubles.DNSProviderDouble
	dnsSolv  *certmagic.DNS01Solver
	ik       string
	override string          // DNS01Solver.OverrideDomain ("" none)
	preMem   map[string]bool // e2e: activeChallenges keys that existed before the scenario (everything else is reported)
}

// setup instantiates the symbolic history: fresh ports, unique identifiers, real solver stacks.
func (e *c16Env) setup(in c16In, r *rand.Rand) (*c16Hist, error) {
	e.seq++
	h := &c16Hist{in: in, provider: &doubles.DNSProviderDouble{MinTTL: c16MinTTL}, preMem: map[string]bool{}}
	// every activeChallenges entry that appears during the history is reported, under whatever key
	for _, m := range certmagic.VerifActiveChallenges() {
		h.preMem[m.Key] = true
	}
	e.backend.HonourCtx = in.Honour
	for _, k := range e.backend.Keys() {
		if strings.Contains(k, "challenge_tokens") {
			e.backend.Remove(k)
		}
	}
	for _, kind := range in.Addrs {
		switch kind {
		case "free":
			h.addrs = append(h.addrs, fmt.Sprintf("%s:%d", e.host, c15FreePort(e.host)))
		case "occupied":
			ln, err := net.Listen("tcp", fmt.Sprintf("%s:%d", e.host, c15FreePort(e.host)))
			if err != nil {
				return nil, err
			}
			go func() {
				for {
					c, err := ln.Accept()
					if err != nil {
						return
					}
					c.Close()
				}
			}()
			h.occ = append(h.occ, ln)
			h.addrs = append(h.addrs, ln.Addr().String())
		case "invalid":
			h.addrs = append(h.addrs, fmt.Sprintf("%s:%d", e.host, 70000+e.seq%1000)) // port out of range: bind error
		default:
			return nil, fmt.Errorf("bad address kind %q", kind)
		}
	}
	h.dnsSolv = &certmagic.DNS01Solver{DNSManager: certmagic.DNSManager{DNSProvider: h.provider, TTL: time.Duration(in.DNSTTL) * time.Second, PropagationTimeout: -1, Resolvers: []string{"127.0.0.1:1"}}}
	if in.Override {
		h.override = fmt.Sprintf("_acme-challenge.delegated-%d.example", e.seq)
		h.dnsSolv.OverrideDomain = h.override
		certmagic.VerifSeedZone(h.override, "example.")
	}
	issD := certmagic.NewACMEIssuer(e.cfg, certmagic.ACMEIssuer{CA: c16CA, Email: "x@example.com", Agreed: true, Logger: zap.NewNop(), DNS01Solver: h.dnsSolv})
	h.ik = c15IssuerKeyOf(c16CA) // independent of the code under test (c15_indep.go)
	e.own.issuerKey(issD, c16CA)
	dnsStack, err := certmagic.VerifChallengeSolvers(issD, false)
	if err != nil {
		return nil, err
	}
	stackFor := map[string]map[string]acmez.Solver{}
	for i, o := range in.Orders {
		ident := fmt.Sprintf("%s-%d.example", o.Ident, e.seq)
		typ := map[string]string{"http": acme.ChallengeTypeHTTP01, "tlsalpn": acme.ChallengeTypeTLSALPN01, "dns": acme.ChallengeTypeDNS01}[o.Kind]
		tok := c15Token(r)
		ch := acme.Challenge{Type: typ, URL: fmt.Sprintf("https://ca.test/chal/%d", i), Status: "pending", Token: tok, KeyAuthorization: tok + "." + c15Token(r),
			Identifier: acme.Identifier{Type: "dns", Value: ident}}
		if o.IP {
			ch.Identifier = acme.Identifier{Type: "ip", Value: fmt.Sprintf("10.%d.%d.%d", (e.seq>>8)&255, e.seq&255, i+1)}
			if o.Ident == "v6" {
				ch.Identifier.Value = fmt.Sprintf("2001:db8::%x:%x", e.seq, i+1)
			}
		}
		h.chals = append(h.chals, ch)
		if o.Kind == "dns" {
			certmagic.VerifSeedZone(ch.DNS01TXTRecordName(), "example.")
			h.solvers = append(h.solvers, dnsStack[typ])
			continue
		}
		addr := h.addrs[o.Addr]
		// every issuance builds its own solver objects (newACMEClient makes fresh httpSolver /
		// tlsALPNSolver values that meet only in the package-level table keyed by address); the
		// challenges of ONE order with several names go through the same objects. Both occur:
		// order i gets fresh objects unless i%3 == 2 (then it shares those of the address's last order).
		if stackFor[addr] == nil || i%3 != 2 {
			hostp, portp, _ := net.SplitHostPort(addr)
			var port int
			fmt.Sscanf(portp, "%d", &port)
			iss := certmagic.NewACMEIssuer(e.cfg, certmagic.ACMEIssuer{CA: c16CA, Email: "x@example.com", Agreed: true, Logger: zap.NewNop(),
				ListenHost: hostp, AltHTTPPort: port, AltTLSALPNPort: port})
			st, err := certmagic.VerifChallengeSolvers(iss, false)
			if err != nil {
				return nil, err
			}
			stackFor[addr] = st
		}
		s := stackFor[addr][typ]
		if d := certmagic.VerifDescribeSolver(s); !d.Wrapped || !d.Distributed || d.Address != addr {
			return nil, fmt.Errorf("unexpected solver %+v for address %s", d, addr)
		}
		h.solvers = append(h.solvers, s)
	}
	return h, nil
}

func (h *c16Hist) close() {
	for _, ln := range h.occ {
		ln.Close()
	}
}

func c16Dialable(addr string) bool {
	for try := 0; try < 2; try++ {
		c, err := net.DialTimeout("tcp", addr, 300*time.Millisecond)
		if err == nil {
			c.Close()
			return true
		}
		if strings.Contains(err.Error(), "refused") || strings.Contains(err.Error(), "invalid port") {
			return false
		}
	}
	return false
}

type c16Snap struct {
	err     bool
	solvers []certmagic.VerifSolverInfo
	probes  map[string]bool
	mem     []certmagic.VerifActiveChallenge
	store   []string
	recs    [][2]string
	dmem    [][2]string
	errStr  string
}

func (e *c16Env) observe(h *c16Hist, err error) c16Snap {
	var s c16Snap
	if err != nil {
		s.err, s.errStr = true, err.Error()
	}
	mine := map[string]bool{}
	for _, a := range h.addrs {
		mine[a] = true
	}
	for _, si := range certmagic.VerifSolversSnapshot() {
		if mine[si.Address] {
			s.solvers = append(s.solvers, si)
		}
	}
	s.probes = map[string]bool{}
	for i, a := range h.addrs {
		if h.in.Addrs[i] != "invalid" {
			s.probes[a] = c16Dialable(a)
		}
	}
	keys := map[string]bool{}
	for _, c := range h.chals {
		keys[c15KeyOf(c)] = true
	}
	for _, m := range certmagic.VerifActiveChallenges() {
		if (h.preMem == nil && keys[m.Key]) || (h.preMem != nil && !h.preMem[m.Key]) {
			s.mem = append(s.mem, m)
		}
	}
	for _, k := range e.backend.Keys() {
		if strings.Contains(k, "challenge_tokens") {
			s.store = append(s.store, k)
		}
	}
	for _, rr := range h.provider.Snapshot() {
		s.recs = append(s.recs, [2]string{strings.TrimSuffix(libdns.AbsoluteName(rr.Name, rr.Zone), "."), rr.Data})
	}
	mems, _ := certmagic.VerifDNSMemories(&h.dnsSolv.DNSManager)
	for _, m := range mems {
		s.dmem = append(s.dmem, [2]string{m.DNSName, m.Data})
	}
	return s
}

// call executes one step on the real solver.
func (e *c16Env) call(h *c16Hist, st c16Step) error {
	ctx, cancel := context.WithCancel(context.Background())
	defer cancel()
	if st.Cancel {
		cancel()
	}
	if st.Storage {
		if st.Clean {
			e.failOp = "Delete"
		} else {
			e.failOp = "Store"
		}
	}
	if st.Provider {
		if st.Clean {
			h.provider.FailDelete = 1
		} else {
			h.provider.FailAppend = 1
		}
	}
	defer func() { e.failOp = ""; h.provider.FailAppend, h.provider.FailDelete = 0, 0 }()
	done := make(chan error, 1)
	go func() {
		if st.Clean {
			done <- h.solvers[st.Order].CleanUp(ctx, h.chals[st.Order])
		} else {
			done <- h.solvers[st.Order].Present(ctx, h.chals[st.Order])
		}
	}()
	select {
	case err := <-done:
		return err
	case <-time.After(20 * time.Second):
		// a solver call that never returns (it holds the solvers mutex): this history gets an
		// observation that satisfies nothing, and no further history is run in this process
		fmt.Fprintf(os.Stderr, "solver call hung: %+v in history %+v\n", st, h.in)
		e.hung = true
		return errors.New("solver call did not return within 20 s")
	}
}

// e2e validates a pending challenge over the network through the solver's own listener.
func (e *c16Env) e2e(h *c16Hist, i int) {
	var msg string
	for try := 0; try < 2; try++ { // a loaded machine may time a local connection out: once more
		if msg = e.e2eOnce(h, i); msg == "" {
			e.e2eOK++
			return
		}
	}
	e.e2eBad = append(e.e2eBad, msg)
}

func (e *c16Env) e2eOnce(h *c16Hist, i int) (failure string) {
	o, ch := h.in.Orders[i], h.chals[i]
	addr := h.addrs[o.Addr]
	fail := func(f string, a ...any) { failure = fmt.Sprintf(f, a...) }
	switch o.Kind {
	case "http":
		req, _ := http.NewRequest("GET", "http://"+addr+ch.HTTP01ResourcePath(), nil)
		req.Host = ch.Identifier.Value
		tr := &http.Transport{DisableKeepAlives: true}
		resp, err := (&http.Client{Transport: tr, Timeout: 15 * time.Second}).Do(req)
		if err != nil {
			fail("http-01 GET %s: %v", addr, err)
			return
		}
		b, _ := io.ReadAll(resp.Body)
		resp.Body.Close()
		if string(b) != ch.KeyAuthorization {
			fail("http-01 GET %s: body %q", addr, b)
			return
		}
	case "tlsalpn":
		d := &net.Dialer{Timeout: 15 * time.Second}
		conn, err := tls.DialWithDialer(d, "tcp", addr, &tls.Config{ServerName: ch.Identifier.Value, NextProtos: []string{acmez.ACMETLS1Protocol}, InsecureSkipVerify: true})
		if err != nil {
			fail("tls-alpn-01 dial %s: %v", addr, err)
			return
		}
		cs := conn.ConnectionState()
		conn.Close()
		ok := false
		if len(cs.PeerCertificates) > 0 {
			for _, ext := range cs.PeerCertificates[0].Extensions {
				if ext.Id.Equal(c15OIDACMEIdentifier) {
					ok = true
				}
			}
		}
		if !ok || cs.NegotiatedProtocol != acmez.ACMETLS1Protocol {
			fail("tls-alpn-01 %s: no challenge certificate (proto %q)", addr, cs.NegotiatedProtocol)
			return
		}
	}
	return
}

func c16EncSnap(enc *emit.Enc, s c16Snap, h *c16Hist) c16Obs {
	var o c16Obs
	o.Err = s.errStr
	enc.Bool(s.err)
	enc.Len(len(s.solvers))
	for _, si := range s.solvers {
		enc.Str(si.Address).Int(si.Count).Bool(si.Listening)
		o.Solvers = append(o.Solvers, fmt.Sprintf("%s count=%d listening=%v", si.Address, si.Count, si.Listening))
	}
	pk := make([]string, 0, len(s.probes))
	for a := range s.probes {
		pk = append(pk, a)
	}
	sort.Strings(pk)
	enc.Len(len(pk))
	for _, a := range pk {
		enc.Str(a).Bool(s.probes[a])
		o.Probes = append(o.Probes, fmt.Sprintf("%s connectable=%v", a, s.probes[a]))
	}
	enc.Len(len(s.mem))
	for _, m := range s.mem {
		enc.Str(m.Key).Bool(m.HasData)
		o.Mem = append(o.Mem, m.Key)
	}
	enc.StrList(s.store)
	o.Store = s.store
	enc.Len(len(s.recs))
	for _, r := range s.recs {
		enc.Str(r[0]).Str(r[1])
	}
	enc.Len(len(s.dmem))
	for _, r := range s.dmem {
		enc.Str(r[0]).Str(r[1])
	}
	o.Recs, o.DMem = s.recs, s.dmem
	return o
}

// runHistory executes one history and emits its case.
func (e *c16Env) runHistory(w *emit.Writer, in c16In, desc map[string]any, r *rand.Rand, e2eEvery int) error {
	if in.E2E != nil {
		return e.runE2E(w, in, desc, r)
	}
	if in.Cfg != nil {
		return e.runCfg(w, *in.Cfg, desc)
	}
	h, err := e.setup(in, r)
	if err != nil {
		return err
	}
	defer h.close()
	enc := &emit.Enc{}
	// tables for Safe: identifiers and issuer key are ASCII
	enc.Len(0).Len(0)
	enc.Bool(in.Honour)
	enc.Len(len(in.Orders))
	for i, o := range in.Orders {
		ch := h.chals[i]
		enc.Int(map[string]int{"http": 0, "tlsalpn": 1, "dns": 2}[o.Kind])
		if o.Kind == "dns" {
			enc.Str("")
		} else {
			enc.Str(h.addrs[o.Addr])
		}
		enc.Str(h.ik)
		c15EncChal(enc, c15Chal{Type: ch.Type, Token: ch.Token, KeyAuth: ch.KeyAuthorization, IDType: ch.Identifier.Type, Ident: ch.Identifier.Value})
		// record name and value, computed independently of the code under test
		rn, rv := c16DNSRec(ch.Identifier.Value, ch.KeyAuthorization)
		if h.override != "" {
			rn = h.override
		}
		enc.Str(rn).Str(rv)
		if ch.DNS01TXTRecordName() != "_acme-challenge."+ch.Identifier.Value || ch.DNS01KeyAuthorization() != rv {
			e.e2eBad = append(e.e2eBad, "acme.Challenge.DNS01TXTRecordName / DNS01KeyAuthorization differ from RFC 8555 8.4")
		}
	}
	var occ []string
	for i, k := range in.Addrs {
		if k == "occupied" {
			occ = append(occ, h.addrs[i])
		}
	}
	enc.StrList(occ)
	enc.Bool(in.Concurrent)
	enc.Len(len(in.Steps))
	var obsList []c16Obs
	bindOf := func(st c16Step, after c16Snap) int {
		o := in.Orders[st.Order]
		if st.Clean || o.Kind == "dns" {
			return 0
		}
		for _, si := range after.solvers {
			if si.Address == h.addrs[o.Addr] && si.Listening {
				return 0
			}
		}
		if in.Addrs[o.Addr] == "invalid" {
			return 2
		}
		return 1
	}
	if in.Concurrent {
		// every order is a goroutine doing Present ... CleanUp with random pauses; only the end is observed
		var wg sync.WaitGroup
		errs := make([]error, len(in.Orders))
		pauses := make([]time.Duration, len(in.Orders))
		for i := range pauses {
			pauses[i] = time.Duration(r.Intn(3000)) * time.Microsecond
		}
		for i := range in.Orders {
			wg.Add(1)
			go func(i int) {
				defer wg.Done()
				time.Sleep(pauses[i] / 2)
				if err := h.solvers[i].Present(context.Background(), h.chals[i]); err != nil {
					errs[i] = err
				}
				time.Sleep(pauses[i])
				if err := h.solvers[i].CleanUp(context.Background(), h.chals[i]); err != nil {
					errs[i] = err
				}
			}(i)
		}
		waited := make(chan struct{})
		go func() { wg.Wait(); close(waited) }()
		var final c16Snap
		select {
		case <-waited:
			var anyErr error
			for _, x := range errs {
				if x != nil {
					anyErr = x
				}
			}
			final = e.observe(h, anyErr)
		case <-time.After(30 * time.Second):
			fmt.Fprintf(os.Stderr, "concurrent orders hung in history %+v\n", h.in)
			e.hung = true
			final = c16Snap{err: true, errStr: "solver call hung", solvers: []certmagic.VerifSolverInfo{{Address: "hung", Count: -999}}}
		}
		for k, st := range in.Steps {
			enc.Bool(st.Clean).Int(st.Order).Bool(false).Bool(false).Bool(false).Int(0)
			if k == len(in.Steps)-1 {
				obsList = append(obsList, c16EncSnap(enc, final, h))
			} else {
				c16EncSnap(enc, c16Snap{}, h)
			}
		}
	} else {
		if in.OtherInst && !e.hung {
			if err := e.otherInstanceOrder(r); err != nil {
				return err
			}
		}
		pending := map[int]bool{}
		for k, st := range in.Steps {
			var err error
			if !e.hung {
				err = e.call(h, st)
			}
			var snap c16Snap
			if e.hung {
				snap = c16Snap{err: true, errStr: "solver call hung", solvers: []certmagic.VerifSolverInfo{{Address: "hung", Count: -999}}}
			} else {
				snap = e.observe(h, err)
			}
			enc.Bool(st.Clean).Int(st.Order).Bool(st.Cancel).Bool(st.Storage).Bool(st.Provider).Int(bindOf(st, snap))
			obsList = append(obsList, c16EncSnap(enc, snap, h))
			pending[st.Order] = !st.Clean
			// now and then validate a pending challenge through the real listener
			if e2eEvery > 0 && (e.seq+k)%e2eEvery == 0 {
				for i, p := range pending {
					o := in.Orders[i]
					if !p || o.Kind == "dns" || in.Addrs[o.Addr] != "free" {
						continue
					}
					mixed := false // one address used for both kinds: the listener speaks only the first one's protocol
					for _, o2 := range in.Orders {
						mixed = mixed || (o2.Kind != "dns" && o2.Addr == o.Addr && o2.Kind != o.Kind)
					}
					if mixed {
						continue
					}
					listening := false
					for _, si := range snap.solvers {
						listening = listening || (si.Address == h.addrs[o.Addr] && si.Listening)
					}
					stored := false
					for _, m := range snap.mem {
						stored = stored || m.Key == h.chals[i].Identifier.Value
					}
					if listening && stored {
						e.e2e(h, i)
					}
				}
			}
		}
	}
	enc.Len(0) // no end-to-end items
	enc.Len(0) // no configuration
	for k, v := range desc {
		if s, ok := v.(string); ok {
			w.Hist(k + "=" + s)
		}
	}
	w.Hist(fmt.Sprintf("orders=%d", len(in.Orders)))
	w.Hist(fmt.Sprintf("calls=%d", len(in.Steps)))
	nf := 0
	for _, st := range in.Steps {
		if st.Cancel {
			w.Hist("fault=cancel")
			nf++
		}
		if st.Storage {
			w.Hist("fault=storage")
			nf++
		}
		if st.Provider {
			w.Hist("fault=provider")
			nf++
		}
	}
	for _, o := range in.Orders {
		w.Hist("order_kind=" + o.Kind)
	}
	for _, a := range in.Addrs {
		w.Hist("addr=" + a)
	}
	desc["faults"] = nf
	w.Add(emit.Case{Desc: desc, In: in, Obs: obsList, Wire: enc.String(), Nontrivial: len(in.Orders) >= 2 || nf > 0,
		Key: func() string { b, _ := json.Marshal(in); return string(b) }()})
	return nil
}

// c16Interleavings enumerates all orders of P_i / C_i (i < n) with P_i before C_i.
func c16Interleavings(n int) [][]c16Step {
	var out [][]c16Step
	state := make([]int, n) // 0 not presented, 1 pending, 2 done
	var cur []c16Step
	var rec func()
	rec = func() {
		if len(cur) == 2*n {
			out = append(out, append([]c16Step(nil), cur...))
			return
		}
		for i := 0; i < n; i++ {
			if state[i] < 2 {
				cur = append(cur, c16Step{Clean: state[i] == 1, Order: i})
				state[i]++
				rec()
				state[i]--
				cur = cur[:len(cur)-1]
			}
		}
	}
	rec()
	return out
}

func c16RandomInterleaving(r *rand.Rand, n int) []c16Step {
	state := make([]int, n)
	var cur []c16Step
	for len(cur) < 2*n {
		i := r.Intn(n)
		if state[i] < 2 {
			cur = append(cur, c16Step{Clean: state[i] == 1, Order: i})
			state[i]++
		}
	}
	return cur
}

func runC16(tier string, seed int64, outdir string, replay string) (retErr error) {
	defer func() {
		if retErr != nil && retErr.Error() == "hung" {
			retErr = nil
		}
	}()
	w := emit.NewWriter(outdir, "C16", tier, seed)
	defer w.Close()
	env := c16NewEnv()
	defer env.stop()
	defer env.closeE2E()
	r := rand.New(rand.NewSource(seed))
	thorough := tier == "thorough"
	w.Meta.Rule = "distinct histories with at least two orders (sharing a listener address or a DNS record name, or side by side) or at least one injected fault; sync points of end-to-end orders; issuer configurations of the enumerated grid (solver set)"
	defer func() {
		w.Meta.Oracles = append(w.Meta.Oracles, emit.OracleCheck{
			Name:   fmt.Sprintf("a pending HTTP-01 / TLS-ALPN-01 challenge is answered over the network through the solver's own listener (%d validations)", env.e2eOK+len(env.e2eBad)),
			OK:     len(env.e2eBad) == 0,
			Detail: strings.Join(env.e2eBad, "; ")})
		w.Meta.Oracles = append(w.Meta.Oracles, env.own.check())
		if env.x != nil {
			w.Meta.Oracles = append(w.Meta.Oracles, emit.OracleCheck{
				Name:   fmt.Sprintf("acmez's calling discipline, observed on the recorded DNS-01 solver during real orders against the mock CA: per challenge Present once, [Wait], then CleanUp exactly once, also after a failed Present (%d challenges)", env.x.discN),
				OK:     len(env.x.discBad) == 0,
				Detail: strings.Join(env.x.discBad, "; ")})
			w.Meta.Notes = append(w.Meta.Notes, fmt.Sprintf("end-to-end: %d Issue calls through the real ACMEIssuer against the mock CA, %d certificates issued", env.x.nOrders, env.x.issued))
		}
		w.Meta.Notes = append(w.Meta.Notes, "acmez discipline (oracle, from client.go solveChallenges of acmez v3.1.2): Present once per chosen authorization, CleanUp exactly once afterwards, also when Present failed")
	}()
	if replay != "" {
		rc, err := loadReplay(replay)
		if err != nil {
			return err
		}
		var in c16In
		if err := json.Unmarshal(rc.In, &in); err != nil {
			return err
		}
		d := map[string]any{}
		for k, v := range rc.Desc {
			d[k] = v
		}
		return env.runHistory(w, in, d, r, 0)
	}
	errHung := errors.New("hung")
	nDNS := 0
	run := func(in c16In, desc map[string]any) error {
		if env.hung {
			return errHung
		}
		for _, o := range in.Orders {
			if o.Kind == "dns" { // DNSManager.TTL cycles through below the provider's minimum / above it / none
				in.DNSTTL = c16TTLs[nDNS%len(c16TTLs)]
				nDNS++
				desc["dns_ttl"] = fmt.Sprint(in.DNSTTL)
				break
			}
		}
		if err := env.runHistory(w, in, desc, r, 5); err != nil {
			return err
		}
		if env.hung {
			return errHung
		}
		return nil
	}
	defer func() {
		if env.hung {
			w.Close()
			os.Exit(0) // a goroutine is stuck inside the solver: do not wait for deferred stops
		}
	}()
	O := func(kind string, addr int, id string) c16Order { return c16Order{Kind: kind, Addr: addr, Ident: id} }

	// ---- corpus: witnesses of the fixed findings
	// (1) CleanUp after cancellation on a storage that honours the context: listener leaked
	if err := run(c16In{Honour: true, Addrs: []string{"free"}, Orders: []c16Order{O("http", 0, "a")},
		Steps: []c16Step{{Order: 0}, {Clean: true, Order: 0, Cancel: true}}}, map[string]any{"class": "cleanup-cancelled-honouring-storage", "shape": "corpus"}); err != nil {
		return err
	}
	if err := run(c16In{Addrs: []string{"free"}, Orders: []c16Order{O("tlsalpn", 0, "a")},
		Steps: []c16Step{{Order: 0}, {Clean: true, Order: 0, Storage: true}}}, map[string]any{"class": "cleanup-delete-fails", "shape": "corpus"}); err != nil {
		return err
	}
	// (2) Present whose Store fails: count went to -1, the other order's listener closed early
	if err := run(c16In{Addrs: []string{"free"}, Orders: []c16Order{O("http", 0, "a")},
		Steps: []c16Step{{Order: 0, Storage: true}, {Clean: true, Order: 0}}}, map[string]any{"class": "present-store-fails", "shape": "corpus"}); err != nil {
		return err
	}
	if err := run(c16In{Addrs: []string{"free"}, Orders: []c16Order{O("http", 0, "a"), O("http", 0, "b")},
		Steps: []c16Step{{Order: 0}, {Order: 1, Storage: true}, {Clean: true, Order: 1}, {Clean: true, Order: 0}}}, map[string]any{"class": "present-store-fails", "shape": "corpus"}); err != nil {
		return err
	}
	if err := run(c16In{Honour: true, Addrs: []string{"free"}, Orders: []c16Order{O("tlsalpn", 0, "a"), O("tlsalpn", 0, "b")},
		Steps: []c16Step{{Order: 0}, {Order: 1, Cancel: true}, {Clean: true, Order: 1, Cancel: true}, {Clean: true, Order: 0}}}, map[string]any{"class": "present-store-fails", "shape": "corpus"}); err != nil {
		return err
	}

	// ---- CFG. the solver set of every issuer configuration of the grid
	for _, c := range c16CfgGrid() {
		c := c
		if err := run(c16In{Cfg: &c}, map[string]any{"shape": "config", "cfg_dns": fmt.Sprint(c.DNS), "cfg_host": c.ListenHost}); err != nil {
			return err
		}
	}
	// ---- E2E. whole orders through the real ACMEIssuer against the mock ACME CA
	{
		type sc struct {
			shape, kind, variant string
			honour               bool
			quick                bool
		}
		var scs []sc
		for _, kind := range []string{"http", "tlsalpn", "dns"} {
			scs = append(scs, sc{"single", kind, "success", false, true}, sc{"single", kind, "ca-rejects", false, true},
				sc{"single", kind, "cancel", true, true}, sc{"single", kind, "cancel", false, false},
				sc{"two", kind, "both-succeed", false, true}, sc{"two", kind, "first-rejected", false, kind != "dns"}, sc{"two", kind, "first-cancelled", true, kind == "dns"},
				sc{"multi", kind, "success", false, kind != "tlsalpn"})
			if kind != "dns" {
				scs = append(scs, sc{"single", kind, "bind-error", false, kind == "http"}, sc{"single", kind, "occupied-dumb", false, kind == "tlsalpn"},
					sc{"single", kind, "occupied-answering", false, true}, sc{"single", kind, "store-fails", false, kind == "tlsalpn"},
					sc{"single", kind, "token-delete-fails", false, false})
			} else {
				scs = append(scs, sc{"single", kind, "append-fails", false, true}, sc{"single", kind, "record-delete-fails", false, true},
					sc{"single", kind, "cancel-in-wait", true, true})
			}
		}
		scs = append(scs, sc{"retry", "both", "first-type-rejected", false, true})
		rounds := 1
		if thorough {
			rounds = 3
		}
		for round := 0; round < rounds; round++ {
			for _, x := range scs {
				if !thorough && !x.quick {
					continue
				}
				in := c16E2EIn(x.shape, x.kind, x.variant, x.honour != (round == 1))
				if err := run(in, map[string]any{"shape": "e2e-" + x.shape, "e2e_kind": x.kind, "e2e_variant": x.variant}); err != nil {
					return err
				}
			}
		}
	}

	// ---- an order of another instance validated through this one, before local orders
	for _, kind := range []string{"tlsalpn", "http", "dns"} {
		if err := run(c16In{OtherInst: true, Addrs: []string{"free"}, Orders: []c16Order{O(kind, 0, "a")}, Steps: []c16Step{{Order: 0}, {Clean: true, Order: 0}}},
			map[string]any{"shape": "other-instance-order"}); err != nil {
			return err
		}
	}
	// ---- A. two orders on one address, every interleaving, every kind pairing
	// (one address is never used for both kinds: the listener speaks the protocol of whoever opened
	// it, and the two solvers signal "closed" through different flags; not a configuration that exists)
	for _, kinds := range [][2]string{{"http", "http"}, {"tlsalpn", "tlsalpn"}} {
		for _, il := range c16Interleavings(2) {
			if err := run(c16In{Addrs: []string{"free"}, Orders: []c16Order{O(kinds[0], 0, "a"), O(kinds[1], 0, "b")}, Steps: il},
				map[string]any{"shape": "two-shared-address"}); err != nil {
				return err
			}
		}
	}
	for _, il := range c16Interleavings(2) {
		if err := run(c16In{Addrs: []string{"free", "free"}, Orders: []c16Order{O("http", 0, "a"), O("tlsalpn", 1, "b")}, Steps: il},
			map[string]any{"shape": "two-side-by-side"}); err != nil {
			return err
		}
	}
	// ---- A'. IP identifiers: under TLS-ALPN-01 the memory / token key is the reverse-mapping name, not the identifier
	for k, il := range c16Interleavings(2) {
		kind := []string{"tlsalpn", "http"}[k%2]
		id2 := []string{"v4", "v6"}[(k/2)%2]
		if err := run(c16In{Addrs: []string{"free"}, Orders: []c16Order{{Kind: kind, Ident: "v4", IP: true}, {Kind: kind, Ident: id2, IP: true}}, Steps: il},
			map[string]any{"shape": "ip-identifiers"}); err != nil {
			return err
		}
	}
	if err := run(c16In{Addrs: []string{"free"}, Orders: []c16Order{{Kind: "tlsalpn", Ident: "v6", IP: true}}, Steps: []c16Step{{Order: 0}, {Clean: true, Order: 0, Cancel: true}}},
		map[string]any{"shape": "ip-identifiers"}); err != nil {
		return err
	}
	// ---- B. three orders, two share an address
	il3 := c16Interleavings(3)
	nB := 30
	if thorough {
		nB = len(il3)
	}
	for k := 0; k < nB; k++ {
		il := il3[(k*7)%len(il3)]
		if thorough {
			il = il3[k]
		}
		kinds := []string{"http", "tlsalpn"}
		if err := run(c16In{Addrs: []string{"free", "free"}, Orders: []c16Order{O(kinds[k%2], 0, "a"), O(kinds[k%2], 0, "b"), O(kinds[(k/2)%2], 1, "c")}, Steps: il},
			map[string]any{"shape": "three-two-shared"}); err != nil {
			return err
		}
	}
	// ---- C. one fault at every call position of every interleaving of two orders on one address
	for _, il := range c16Interleavings(2) {
		for pos := range il {
			for _, f := range []string{"cancel-honour", "cancel-ignore", "storage"} {
				steps := append([]c16Step(nil), il...)
				kind := []string{"http", "tlsalpn"}[pos%2]
				in := c16In{Addrs: []string{"free"}, Orders: []c16Order{O(kind, 0, "a"), O(kind, 0, "b")}, Steps: steps}
				switch f {
				case "cancel-honour":
					steps[pos].Cancel, in.Honour = true, true
				case "cancel-ignore":
					steps[pos].Cancel = true
				case "storage":
					steps[pos].Storage = true
				}
				if err := run(in, map[string]any{"shape": "two-shared-one-fault", "fault_kind": f}); err != nil {
					return err
				}
			}
		}
	}
	// ---- D. address held by someone else / cannot be bound
	for k, il := range c16Interleavings(2) {
		kindD := []string{"http", "tlsalpn"}[k%2]
		if err := run(c16In{Addrs: []string{"occupied"}, Orders: []c16Order{O(kindD, 0, "a"), O(kindD, 0, "b")}, Steps: il},
			map[string]any{"shape": "address-in-use"}); err != nil {
			return err
		}
		if k < 2 || thorough {
			if err := run(c16In{Addrs: []string{"invalid", "free"}, Orders: []c16Order{O("http", 0, "a"), O("http", 1, "b")}, Steps: il},
				map[string]any{"shape": "bind-error"}); err != nil {
				return err
			}
		}
	}
	// ---- E. DNS: two challenges share a record name (example.com and *.example.com), one elsewhere
	for _, il := range c16Interleavings(2) {
		for _, f := range []string{"none", "append-fails-0", "delete-fails-0", "cancel-present-1", "cancel-cleanup-0", "cancel-all"} {
			steps := append([]c16Step(nil), il...)
			for i := range steps {
				switch {
				case f == "append-fails-0" && !steps[i].Clean && steps[i].Order == 0:
					steps[i].Provider = true
				case f == "delete-fails-0" && steps[i].Clean && steps[i].Order == 0:
					steps[i].Provider = true
				case f == "cancel-present-1" && !steps[i].Clean && steps[i].Order == 1:
					steps[i].Cancel = true
				case f == "cancel-cleanup-0" && steps[i].Clean && steps[i].Order == 0:
					steps[i].Cancel = true
				case f == "cancel-all" && steps[i].Clean:
					steps[i].Cancel = true
				}
			}
			if err := run(c16In{Orders: []c16Order{O("dns", 0, "shared"), O("dns", 0, "shared")}, Steps: steps},
				map[string]any{"shape": "dns-shared-name", "fault_kind": f}); err != nil {
				return err
			}
		}
	}
	// ---- E'. OverrideDomain (challenge delegated to another zone): all DNS challenges share ONE record name
	for k, il := range c16Interleavings(2) {
		steps := append([]c16Step(nil), il...)
		switch k % 3 {
		case 1:
			steps[len(steps)-1].Cancel = true
		case 2:
			steps[1].Provider = true
		}
		if err := run(c16In{Override: true, Orders: []c16Order{O("dns", 0, "a"), O("dns", 0, "b")}, Steps: steps},
			map[string]any{"shape": "dns-override"}); err != nil {
			return err
		}
	}
	for k := 0; k < 6; k++ {
		il := il3[(k*13+5)%len(il3)]
		if err := run(c16In{Override: true, Orders: []c16Order{O("dns", 0, "a"), O("dns", 0, "b"), O("dns", 0, "shared")}, Steps: il},
			map[string]any{"shape": "dns-override"}); err != nil {
			return err
		}
	}
	nE := 20
	if thorough {
		nE = len(il3)
	}
	for k := 0; k < nE; k++ {
		il := il3[(k*11)%len(il3)]
		if err := run(c16In{Orders: []c16Order{O("dns", 0, "shared"), O("dns", 0, "shared"), O("dns", 0, "other")}, Steps: il},
			map[string]any{"shape": "dns-three"}); err != nil {
			return err
		}
	}
	// ---- F. random histories: 2-4 orders of mixed kinds, random faults
	nF := 150
	if thorough {
		nF = 2500
	}
	for k := 0; k < nF; k++ {
		n := 2 + r.Intn(3)
		in := c16In{Honour: r.Intn(2) == 0, Addrs: []string{"free", "free"}, Override: r.Intn(5) == 0, OtherInst: r.Intn(4) == 0}
		if r.Intn(6) == 0 {
			in.Addrs[1] = "occupied"
		}
		addrKind := []string{[]string{"http", "tlsalpn"}[r.Intn(2)], []string{"http", "tlsalpn"}[r.Intn(2)]}
		for i := 0; i < n; i++ {
			a := 0
			if r.Intn(3) == 0 {
				a = 1
			}
			kind := addrKind[a] // an address serves one kind
			if r.Intn(3) == 0 {
				kind = "dns"
			}
			id := []string{"a", "b", "c", "d"}[i]
			if kind == "dns" && r.Intn(2) == 0 {
				id = "shared"
			}
			in.Orders = append(in.Orders, O(kind, a, id))
		}
		in.Steps = c16RandomInterleaving(r, n)
		for i := range in.Steps {
			switch r.Intn(9) {
			case 0:
				in.Steps[i].Cancel = true
			case 1:
				in.Steps[i].Storage = in.Orders[in.Steps[i].Order].Kind != "dns"
			case 2:
				in.Steps[i].Provider = in.Orders[in.Steps[i].Order].Kind == "dns"
			}
		}
		if err := run(in, map[string]any{"shape": "random"}); err != nil {
			return err
		}
	}
	// ---- G. free-running goroutines (no lock-step): only the end is observed
	nG := 15
	if thorough {
		nG = 200
	}
	for k := 0; k < nG; k++ {
		n := 2 + r.Intn(3)
		in := c16In{Addrs: []string{"free"}, Concurrent: true}
		kindG := []string{"http", "tlsalpn"}[k%2]
		for i := 0; i < n; i++ {
			in.Orders = append(in.Orders, O([]string{kindG, kindG, "dns"}[r.Intn(3)], 0, []string{"a", "b", "c", "d"}[i]))
		}
		for i := 0; i < n; i++ {
			in.Steps = append(in.Steps, c16Step{Order: i})
		}
		for i := 0; i < n; i++ {
			in.Steps = append(in.Steps, c16Step{Clean: true, Order: i})
		}
		if env.hung {
			return errHung
		}
		in.DNSTTL = c16TTLs[k%len(c16TTLs)]
		if err := env.runHistory(w, in, map[string]any{"shape": "concurrent"}, r, 0); err != nil {
			return err
		}
	}
	return nil
}
