//go:build !skip_c19_burst

package main

import (
	"encoding/json"
	"fmt"
	"math/rand"
	"sort"
	"sync"
	"sync/atomic"
	"time"

	"github.com/caddyserver/certmagic"
	"go.uber.org/zap"

	"verifharness/pkg/emit"
)

// Class "jobs-concurrent-submit": Pre jobs are submitted one after the other to a private
// jobManager, then the Burst submissions are made by as many goroutines released together (no job
// returns meanwhile: all jobs block on a gate). Observed at quiescence: queue, name set, worker
// count, which jobs have started; then everything is let go and the jobs that ever started are
// recorded. The order in which the manager's mutex admitted the burst is read off that state.
type c19BurstPlan struct {
	Max   int      `json:"max_workers"`
	Pre   []string `json:"pre"`
	Burst []string `json:"burst"`
}

type c19BurstSub struct {
	ID       int    `json:"id"`
	Name     string `json:"name"`
	Accepted bool   `json:"accepted"`
}

type c19BurstObs struct {
	Order        []c19BurstSub `json:"acceptance_order"`
	Queue        []string      `json:"queue"`
	Names        []string      `json:"names"`
	Active       int           `json:"active_workers"`
	Running      []int         `json:"running"`
	FinalStarted []int         `json:"started_in_the_end"`
	Settled      bool          `json:"settled"`
}

func c19RunBurst(p c19BurstPlan) c19BurstObs {
	vjm := certmagic.VerifNewJobManager(p.Max)
	var mu sync.Mutex
	startCount := map[int]int{}
	release := make(chan struct{})
	job := func(id int) func() error {
		return func() error {
			mu.Lock()
			startCount[id]++
			mu.Unlock()
			<-release
			return nil
		}
	}
	started := func() []int {
		mu.Lock()
		defer mu.Unlock()
		var r []int
		for id, n := range startCount {
			for i := 0; i < n; i++ {
				r = append(r, id)
			}
		}
		sort.Ints(r)
		return r
	}
	names := map[int]string{}
	id := 0
	quiesce := func(submitted int) bool {
		// every worker is inside a gated job, and either the queue is empty or all workers are busy
		deadline := time.Now().Add(1500 * time.Millisecond)
		for {
			q, _, active := vjm.Snapshot()
			if active == len(started()) && (len(q) == 0 || active >= p.Max) {
				return true
			}
			if time.Now().After(deadline) {
				return false
			}
			time.Sleep(100 * time.Microsecond)
		}
	}
	var o c19BurstObs
	o.Settled = true
	for _, n := range p.Pre {
		id++
		names[id] = n
		vjm.Submit(zap.NewNop(), n, job(id))
		o.Settled = quiesce(id) && o.Settled
	}
	nPre := id
	var ready, done sync.WaitGroup
	var start atomic.Int32
	for _, n := range p.Burst {
		id++
		names[id] = n
		ready.Add(1)
		done.Add(1)
		go func(id int, n string) {
			defer done.Done()
			ready.Done()
			for start.Load() == 0 {
			}
			vjm.Submit(zap.NewNop(), n, job(id))
		}(id, n)
	}
	ready.Wait()
	start.Store(1)
	done.Wait()
	o.Settled = quiesce(id) && o.Settled
	o.Queue, o.Names, o.Active = vjm.Snapshot()
	o.Running = started()
	if o.Queue == nil {
		o.Queue = []string{}
	}
	if o.Names == nil {
		o.Names = []string{}
	}
	if o.Running == nil {
		o.Running = []int{}
	}
	// let everything go and wait until nothing is left
	close(release)
	for dl := time.Now().Add(3 * time.Second); time.Now().Before(dl); time.Sleep(200 * time.Microsecond) {
		q, nm, active := vjm.Snapshot()
		if len(q) == 0 && len(nm) == 0 && active == 0 {
			break
		}
	}
	o.FinalStarted = started()
	if o.FinalStarted == nil {
		o.FinalStarted = []int{}
	}
	// ---- reconstruct the acceptance order
	accepted := map[int]bool{}
	for _, i := range o.FinalStarted {
		accepted[i] = true
	}
	running := map[int]bool{}
	for _, i := range o.Running {
		running[i] = true
	}
	used := map[int]bool{}
	add := func(i int) {
		if !used[i] {
			used[i] = true
			o.Order = append(o.Order, c19BurstSub{ID: i, Name: names[i], Accepted: accepted[i]})
		}
	}
	// the sequential prefix (accepted or duplicate, in the order it was submitted)
	for i := 1; i <= nPre; i++ {
		add(i)
	}
	// burst jobs that have started: a prefix of the acceptance order of the burst
	for i := nPre + 1; i <= id; i++ {
		if running[i] {
			add(i)
		}
	}
	// then the queue, in its order: a named entry is the accepted job of that name, an unnamed one
	// the next accepted unnamed job that has not started
	matched := map[int]bool{}
	for _, qn := range o.Queue {
		for i := 1; i <= id; i++ {
			if !matched[i] && accepted[i] && !running[i] && names[i] == qn {
				matched[i] = true // (a queued job of the sequential prefix is already in the order)
				add(i)
				break
			}
		}
	}
	// accepted jobs the snapshot did not show (would be a disagreement), then the duplicates
	for i := 1; i <= id; i++ {
		if accepted[i] {
			add(i)
		}
	}
	for i := 1; i <= id; i++ {
		add(i)
	}
	return o
}

func c19BurstEmit(w *emit.Writer, p c19BurstPlan, o c19BurstObs) {
	e := &emit.Enc{}
	e.Int(5).Int(p.Max).Len(len(o.Order))
	dups := 0
	for _, s := range o.Order {
		e.Int(s.ID).Str(s.Name).Bool(s.Accepted)
		if !s.Accepted {
			dups++
		}
	}
	ints := func(v []int) {
		e.Len(len(v))
		for _, x := range v {
			e.Int(x)
		}
	}
	e.StrList(o.Queue).StrList(o.Names).Int(o.Active)
	ints(o.Running)
	ints(o.Running) // "started" at the snapshot = the running ones (nothing has returned)
	ints(o.FinalStarted)
	pj, _ := json.Marshal(p)
	w.Hist("kind=jobs-concurrent-submit")
	w.Hist(fmt.Sprintf("jobs_burst: max_workers=%d burst=%d..", p.Max, len(p.Burst)/8*8))
	w.Hist(fmt.Sprintf("jobs_burst: duplicates_rejected=%d..", dups/4*4))
	w.Hist(fmt.Sprintf("jobs_burst: queued=%d..", len(o.Queue)/4*4))
	if !o.Settled {
		w.Hist("jobs_burst: not_quiescent_within_1.5s")
	}
	w.Add(emit.Case{Desc: map[string]any{"kind": "jobs-concurrent-submit", "class": "jobs-concurrent-submit", "max_workers": p.Max,
		"burst": len(p.Burst), "duplicates_rejected": dups, "queued": len(o.Queue)},
		In: p, Obs: o, Wire: e.String(), Nontrivial: len(p.Burst) > p.Max && dups > 0, Key: string(pj)})
}

func c19BurstPlans(tier string, r *rand.Rand) []c19BurstPlan {
	n := 40
	if tier == "thorough" {
		n = 400
	}
	pool := []string{"", "", "renew_a", "renew_b", "renew_c", "renew_d", "renew_e", "renew_f", "renew_g"}
	var ps []c19BurstPlan
	for i := 0; i < n; i++ {
		p := c19BurstPlan{Max: 1 + r.Intn(4)}
		for j := r.Intn(4); j > 0; j-- {
			p.Pre = append(p.Pre, pool[r.Intn(len(pool))])
		}
		k := 4 + r.Intn(28)
		for j := 0; j < k; j++ {
			p.Burst = append(p.Burst, pool[r.Intn(len(pool))])
		}
		ps = append(ps, p)
	}
	return ps
}

func c19Burst(w *emit.Writer, plans []c19BurstPlan) {
	// one at a time: the submitting goroutines spin on the start flag
	for _, p := range plans {
		c19BurstEmit(w, p, c19RunBurst(p))
	}
}
