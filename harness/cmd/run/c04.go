//go:build !skip_c04

package main

// C04 — renewal decision. Drives the real certNeedsRenewal / Certificate.NeedsRenewal /
// managedCertNeedsRenewal (through the verif hooks) on synthesized validity periods, ratios,
// intervals and ARI states expressed relative to the real clock, and writes for each call the
// inputs, the three float64 windows (computed here with the code's own expression), the clock
// readings bracketing the call and the answer. The Coq side (Renewal/Check.v) evaluates the model
// at both clock readings and the property on the implementation's answer.

import (
	"context"
	"crypto/ecdsa"
	"crypto/elliptic"
	crand "crypto/rand"
	"crypto/x509"
	"encoding/json"
	"errors"
	"fmt"
	"math"
	"math/big"
	"math/rand"
	"sync"
	"time"

	"github.com/caddyserver/certmagic"
	"github.com/mholt/acmez/v3/acme"

	"verifharness/pkg/doubles"
	"verifharness/pkg/emit"
)

func init() { register("C04", runC04) }

type c04CfgKey struct {
	ratio   float64
	disable bool
	refresh bool // Config with the renewal-info issuer double (ari-refresh cases)
}

const c04Sec = int64(time.Second)

// the ratios and the factor the property names (the code's own literals reach the model
// through the translator; a drift between the two is a disagreement)
const (
	c04RatioAri = 1.0 / 20.0
	c04RatioImm = 1.0 / 50.0
	c04Factor   = 5
)

// c04Case is the replayable input: all instants are offsets from Base (the clock when the case
// was built); a replay re-bases them on the current clock.
type c04Case struct {
	Kind     int    `json:"kind"`    // 0 certNeedsRenewal, 1 Certificate.NeedsRenewal, 2 managedCertNeedsRenewal
	Present  bool   `json:"present"` // leaf non-nil / bundle parses
	NBOff    int64  `json:"not_before_off_ns"`
	NAOff    int64  `json:"not_after_off_ns"`
	Interval int64  `json:"renew_check_interval_ns"` // as configured; <= 0 = unset (default)
	RN       int64  `json:"ratio_num"`               // RenewalWindowRatio = float64(RN)/float64(RD); 0 = unset
	RD       int64  `json:"ratio_den"`
	Disable  bool   `json:"disable_ari"`
	Sel      *int64 `json:"ari_selected_off_ns"`
	WS       *int64 `json:"ari_window_start_off_ns"`
	WE       *int64 `json:"ari_window_end_off_ns"`
	// further fields of the renewal info that the decision must not depend on (the property speaks of
	// the selected time and the window only): RetryAfter as an offset (0 = derive: absent / long past /
	// future, from the case's own numbers, so that a replay uses the same), ExplanationURL set or not
	RA    *int64 `json:"ari_retry_after_off_ns,omitempty"`
	RAFix bool   `json:"ari_retry_after_fixed,omitempty"`
	// ari-refresh cases: Sel/WS/WE above are the OLD info of a managed certificate (stored + cached);
	// the issuer double answers Refresh's info, the real updateARI runs, and the decision is taken on
	// the copy named by Refresh.Target
	Refresh  *c04Refresh `json:"ari_refresh,omitempty"`
	Base     int64  `json:"base_unix_ns"`
}

type c04Refresh struct {
	Target int    `json:"target"` // 0 returned certificate, 1 cache entry, 2 stored resource
	Sel    *int64 `json:"fresh_selected_off_ns"`
	WS     *int64 `json:"fresh_window_start_off_ns"`
	WE     *int64 `json:"fresh_window_end_off_ns"`
	Name   string `json:"name"`
}

// c04AriIssuer is an issuer that only answers renewal-information requests (certmagic.RenewalInfoGetter).
type c04AriIssuer struct {
	mu     sync.Mutex
	answer acme.RenewalInfo
	calls  int
}

func (*c04AriIssuer) Issue(context.Context, *x509.CertificateRequest) (*certmagic.IssuedCertificate, error) {
	return nil, errors.New("c04: issuance is not part of this check")
}
func (*c04AriIssuer) IssuerKey() string { return "c04-ari-ca" }
func (i *c04AriIssuer) GetRenewalInfo(context.Context, certmagic.Certificate) (acme.RenewalInfo, error) {
	i.mu.Lock()
	defer i.mu.Unlock()
	i.calls++
	return i.answer, nil
}
func (i *c04AriIssuer) set(a acme.RenewalInfo) int {
	i.mu.Lock()
	defer i.mu.Unlock()
	i.answer = a
	return i.calls
}
func (i *c04AriIssuer) count() int {
	i.mu.Lock()
	defer i.mu.Unlock()
	return i.calls
}

func floorDiv(a, b int64) int64 {
	q := a / b
	if (a%b != 0) && ((a < 0) != (b < 0)) {
		q--
	}
	return q
}

// the code's expression, verbatim
func c04Scale(lifetime time.Duration, renewalWindowRatio float64) int64 {
	if renewalWindowRatio == 0 {
		renewalWindowRatio = certmagic.DefaultRenewalWindowRatio
	}
	return int64(time.Duration(float64(lifetime) * renewalWindowRatio))
}

// c04Mirror is the harness' own copy of the decision, used only to aim the generator at the
// thresholds and to label cases; its classification is cross-checked by the Coq model.
type c04Mirror struct {
	nb, exp, interval int64
	disable           bool
	sel, ws, we       *int64
	wc, w20, w50      int64
}

func (m *c04Mirror) expiryDue(now int64) bool {
	return now > m.exp-m.wc || now > m.exp-m.w50 || m.exp-now < m.interval*c04Factor
}

// selection range: lo/hi selected time, has = a time is (or will be) selected, improv = drawn at random
func (m *c04Mirror) selRange() (lo, hi int64, has, improv bool) {
	if m.disable {
		return 0, 0, false, false
	}
	if m.sel != nil {
		return *m.sel, *m.sel, true, false
	}
	if m.ws != nil && m.we != nil {
		start, end := floorDiv(*m.ws, c04Sec)+1, floorDiv(*m.we, c04Sec)
		if end <= start {
			end = start + 1
		}
		return start * c04Sec, (end - 1) * c04Sec, true, true
	}
	return 0, 0, false, false
}

// verdict for the smallest (hiRnd=false) or largest admissible random draw
func (m *c04Mirror) decide(now int64, hiRnd bool) bool {
	lo, hi, has, _ := m.selRange()
	if has {
		s := lo
		if hiRnd {
			s = hi
		}
		if now > s-m.interval || now > m.exp-m.w20 {
			return true
		}
	}
	return m.expiryDue(now)
}

// all-rnd verdict: 0 wait, 1 renew, -1 depends on the draw
func (m *c04Mirror) all(now int64) int {
	a, b := m.decide(now, false), m.decide(now, true)
	if a != b {
		return -1
	}
	if a {
		return 1
	}
	return 0
}

func (m *c04Mirror) reason(now int64) string {
	lo, hi, has, improv := m.selRange()
	if has {
		if now > hi-m.interval {
			return "ari-cutoff"
		}
		if improv && now > lo-m.interval {
			return "ari-cutoff-maybe"
		}
		if now > m.exp-m.w20 {
			return "ari-emergency-1/20"
		}
	}
	switch {
	case now > m.exp-m.wc:
		return "configured-window"
	case now > m.exp-m.w50:
		return "imminent-1/50"
	case m.exp-now < m.interval*c04Factor:
		return "imminent-5-intervals"
	}
	return "none"
}

type c04h struct {
	w      *emit.Writer
	cfg    *certmagic.Config
	cfgs   map[c04CfgKey]*certmagic.Config // one Config per (ratio, DisableARI), built by certmagic.New
	cache  *certmagic.Cache
	opts   certmagic.CacheOptions
	ca     *doubles.CA
	pub    *ecdsa.PublicKey
	r      *rand.Rand
	skipB  int
	skipR  int
	cmp    int
	orcBad []string
	nOrc   int
	ariIss *c04AriIssuer
	nRefr  int
}

func p64(v int64) *int64 { return &v }

// oracle hypotheses of the theorems, checked here too (exact integer arithmetic)
func (h *c04h) checkOracle(w, L int64, n, d int64) {
	if L < 0 || n <= 0 || n > d {
		return
	}
	h.nOrc++
	bw, bL, bn, bd := big.NewInt(w), big.NewInt(L), big.NewInt(n), big.NewInt(d)
	eps := new(big.Int).Add(big.NewInt(2), new(big.Int).Rsh(bL, 50))
	diff := new(big.Int).Sub(new(big.Int).Mul(bd, bw), new(big.Int).Mul(bn, bL))
	diff.Abs(diff)
	if w < 0 || diff.Cmp(new(big.Int).Mul(bd, eps)) > 0 {
		if len(h.orcBad) < 5 {
			h.orcBad = append(h.orcBad, fmt.Sprintf("L=%d ratio=%d/%d w=%d", L, n, d, w))
		}
	}
}

func (h *c04h) run(c c04Case, desc map[string]any) {
	base := c.Base
	nb, na := base+c.NBOff, base+c.NAOff
	abs := func(p *int64) *int64 {
		if p == nil {
			return nil
		}
		return p64(base + *p)
	}
	sel, ws, we := abs(c.Sel), abs(c.WS), abs(c.WE)
	var ari acme.RenewalInfo
	if sel != nil {
		ari.SelectedTime = time.Unix(0, *sel)
	}
	if ws != nil {
		ari.SuggestedWindow.Start = time.Unix(0, *ws)
	}
	if we != nil {
		ari.SuggestedWindow.End = time.Unix(0, *we)
	}
	if !c.RAFix {
		c.RAFix = true
		switch uint64(c.NBOff^c.NAOff^(c.Interval*7)) % 3 {
		case 1:
			c.RA = p64(-int64(26 * time.Hour))
		case 2:
			c.RA = p64(int64(6 * time.Hour))
		}
	}
	if c.RA != nil {
		ra := time.Unix(0, base+*c.RA)
		ari.RetryAfter = &ra
		ari.ExplanationURL = "https://ca.example/why"
	}
	desc["retry_after"] = map[bool]string{true: "absent", false: "set"}[c.RA == nil]
	if c.RA != nil && *c.RA < 0 {
		desc["retry_after"] = "past"
	}
	ratio := 0.0
	if c.RN != 0 {
		ratio = float64(c.RN) / float64(c.RD)
	}
	h.opts.RenewCheckInterval = time.Duration(c.Interval)
	h.cache.SetOptions(h.opts)
	interval := c.Interval
	if interval <= 0 {
		interval = int64(certmagic.DefaultRenewCheckInterval)
	}
	// the configuration goes through the library's own constructor (certmagic.New), as an application's
	// does: whatever New does to the configured ratio is part of the behaviour under test (the model takes
	// the ratio AS CONFIGURED: 0 = default, (0,1] as given)
	ck := c04CfgKey{ratio, c.Disable, c.Refresh != nil}
	cfg, ok := h.cfgs[ck]
	if !ok {
		tmpl := certmagic.Config{Storage: h.cfg.Storage, Logger: h.cfg.Logger, RenewalWindowRatio: ratio, DisableARI: c.Disable}
		if c.Refresh != nil {
			tmpl.Issuers = []certmagic.Issuer{h.ariIss}
		}
		cfg = certmagic.New(h.cache, tmpl)
		if h.cfgs == nil {
			h.cfgs = map[c04CfgKey]*certmagic.Config{}
		}
		h.cfgs[ck] = cfg
	}

	var leaf *x509.Certificate
	var res certmagic.CertificateResource
	// what goes on the wire as the renewal info the decision was taken on (osel..), and what the
	// harness' mirror classifies (esel..): the same unless updateARI produced the info
	osel, ows, owe := sel, ws, we
	esel, ews, ewe := sel, ws, we
	var refreshCall func() bool
	var fsel, fws, fwe *int64
	if c.Refresh != nil {
		nb, na = floorDiv(nb, c04Sec)*c04Sec, floorDiv(na, c04Sec)*c04Sec
		fsel, fws, fwe = abs(c.Refresh.Sel), abs(c.Refresh.WS), abs(c.Refresh.WE)
		var fresh acme.RenewalInfo
		if fsel != nil {
			fresh.SelectedTime = time.Unix(0, *fsel)
		}
		if fws != nil {
			fresh.SuggestedWindow.Start = time.Unix(0, *fws)
		}
		if fwe != nil {
			fresh.SuggestedWindow.End = time.Unix(0, *fwe)
		}
		fra := time.Unix(0, base+int64(6*time.Hour))
		fresh.RetryAfter = &fra
		got, call, err := h.doRefresh(cfg, c, nb, na, ari, fresh)
		if err != nil {
			panic(fmt.Errorf("C04 ari-refresh set-up (%s): %w", c.Refresh.Name, err))
		}
		refreshCall = call
		ot := func(t time.Time) *int64 {
			if t.IsZero() {
				return nil
			}
			return p64(t.UnixNano())
		}
		osel, ows, owe = ot(got.SelectedTime), ot(got.SuggestedWindow.Start), ot(got.SuggestedWindow.End)
		// the harness' expectation: the CA's answer, with the old selected time iff the window is the same
		eqp := func(a, b *int64) bool { return (a == nil) == (b == nil) && (a == nil || *a == *b) }
		esel, ews, ewe = fsel, fws, fwe
		if eqp(fws, ws) && eqp(fwe, we) && sel != nil {
			esel = sel
		}
		desc["refreshed_as_expected"] = eqp(osel, esel) && eqp(ows, ews) && eqp(owe, ewe)
		h.nRefr++
	} else if c.Kind == 2 {
		// a real certificate: whole seconds
		nb, na = floorDiv(nb, c04Sec)*c04Sec, floorDiv(na, c04Sec)*c04Sec
		if c.Present {
			chain, _, _, err := h.ca.Leaf(doubles.LeafOpts{Names: []string{"c04.example"}, NotBefore: time.Unix(0, nb).UTC(), NotAfter: time.Unix(0, na).UTC(), Pub: h.pub})
			if err != nil {
				panic(err)
			}
			res.CertificatePEM = chain
		} else {
			res.CertificatePEM = []byte("-----BEGIN CERTIFICATE-----\nAAAA\n-----END CERTIFICATE-----\n")
		}
		if sel != nil || ws != nil || we != nil {
			data, err := json.Marshal(acme.Certificate{RenewalInfo: &ari})
			if err != nil {
				panic(err)
			}
			res.IssuerData = data
		}
	} else if c.Present {
		leaf = &x509.Certificate{NotBefore: time.Unix(0, nb), NotAfter: time.Unix(0, na), DNSNames: []string{"c04.example"}}
	}
	exp := floorDiv(na, c04Sec)*c04Sec + c04Sec
	L := exp - nb
	m := &c04Mirror{nb: nb, exp: exp, interval: interval, disable: c.Disable, sel: esel, ws: ews, we: ewe,
		wc: c04Scale(time.Duration(L), ratio), w20: c04Scale(time.Duration(L), c04RatioAri), w50: c04Scale(time.Duration(L), c04RatioImm)}

	obs := int64(0)
	var remainingObs time.Duration
	t0 := time.Now().UnixNano()
	func() {
		defer func() {
			if r := recover(); r != nil {
				obs = 2
				desc["panic"] = fmt.Sprint(r)
			}
		}()
		var b bool
		switch {
		case refreshCall != nil:
			b = refreshCall()
		case c.Kind == 0:
			b = certmagic.VerifCertNeedsRenewal(cfg, leaf, ari, false)
		case c.Kind == 1:
			b = certmagic.VerifCertificateNeedsRenewal(cfg, leaf, ari)
		default:
			remainingObs, _, b = certmagic.VerifManagedCertNeedsRenewal(cfg, res)
		}
		if b {
			obs = 1
		}
	}()
	t1 := time.Now().UnixNano()

	// harness-side classification (cross-checked by the model)
	class := 0
	if c.Present {
		a0, a1 := m.all(t0), m.all(t1)
		switch {
		case a0 < 0 || a1 < 0:
			class = 2
			h.skipR++
		case a0 != a1:
			class = 1
			h.skipB++
		default:
			h.cmp++
		}
	} else {
		h.cmp++
	}
	rn, rd := c.RN, c.RD
	if rn == 0 {
		h.checkOracle(m.wc, L, 1, 3) // informational: the default as the harness knows it; Coq uses the translated value
	} else {
		h.checkOracle(m.wc, L, rn, rd)
	}
	h.checkOracle(m.w20, L, 1, 20)
	h.checkOracle(m.w50, L, 1, 50)

	e := &emit.Enc{}
	e.Int(c.Kind).Bool(c.Present).Z(nb).Z(na).Z(interval).Z(rn).Z(rd).Bool(c.Disable)
	opt := func(p *int64) {
		if p == nil {
			e.Bool(false)
		} else {
			e.Bool(true).Z(*p)
		}
	}
	opt(osel)
	opt(ows)
	opt(owe)
	e.Z(m.wc).Z(m.w20).Z(m.w50).Z(t0).Z(t1).Z(obs).Int(class)
	// ari-refresh: the info that was replaced and the CA's answer
	if c.Refresh != nil {
		e.Bool(true)
		opt(sel)
		opt(ws)
		opt(we)
		opt(fsel)
		opt(fws)
		opt(fwe)
	} else {
		e.Bool(false)
	}

	classNames := []string{"compared", "skipped_boundary", "rnd_dependent"}
	desc["compare"] = classNames[class]
	desc["reason"] = m.reason(t0)
	kindNames := []string{"certNeedsRenewal", "Certificate.NeedsRenewal", "managedCertNeedsRenewal"}
	desc["kind"] = kindNames[c.Kind]
	nt, _ := desc["decisive"].(bool)
	ob := map[string]any{"verdict": []string{"wait", "renew", "PANIC"}[obs], "t0": t0, "t1": t1,
		"windows_ns": []int64{m.wc, m.w20, m.w50}, "expires_unix_ns": exp}
	if c.Kind == 2 && c.Present && c.Refresh == nil {
		ob["remaining_ns"] = int64(remainingObs)
	}
	if c.Refresh != nil {
		offs := func(p *int64) any {
			if p == nil {
				return nil
			}
			return *p - base
		}
		ob["refreshed_info_off_ns"] = map[string]any{"selected": offs(osel), "window_start": offs(ows), "window_end": offs(owe)}
		ob["expected_info_off_ns"] = map[string]any{"selected": offs(esel), "window_start": offs(ews), "window_end": offs(ewe)}
		for _, k := range []string{"relation", "position", "variant", "target"} {
			h.w.Hist(fmt.Sprintf("refresh_%s=%v", k, desc[k]))
		}
	}
	h.w.Add(emit.Case{Desc: desc, In: c, Obs: ob, Wire: e.String(), Nontrivial: nt && class == 0,
		Key: fmt.Sprint(desc["aim"], desc["side"], desc["delta"], desc["ari"], desc["ratio"], desc["life"], desc["ival"], c.Kind, obs)})
	for _, k := range []string{"aim", "side", "delta", "ari", "ratio", "life", "ival", "kind", "compare", "reason", "class"} {
		if v, ok := desc[k]; ok {
			h.w.Hist(fmt.Sprintf("%s=%v", k, v))
		}
	}
	h.w.Hist("verdict=" + []string{"wait", "renew", "PANIC"}[obs])
	if nt && class == 0 {
		h.w.Hist("decisive_compared")
	}
}

// doRefresh builds a managed certificate (real leaf of the harness CA, resource in storage whose
// IssuerData carries the old renewal info, loaded into the cache the way an application does), lets
// the issuer double answer `fresh`, runs the real Config.updateARI and returns the renewal info on
// the copy named by the target together with the real decision function on that copy.
func (h *c04h) doRefresh(cfg *certmagic.Config, c c04Case, nb, na int64, old, fresh acme.RenewalInfo) (got acme.RenewalInfo, call func() bool, err error) {
	ctx := context.Background()
	name, ik, st := c.Refresh.Name, h.ariIss.IssuerKey(), cfg.Storage
	chain, _, keyPEM, err := h.ca.Leaf(doubles.LeafOpts{Names: []string{name}, NotBefore: time.Unix(0, nb).UTC(), NotAfter: time.Unix(0, na).UTC()})
	if err != nil {
		return got, nil, err
	}
	old.UniqueIdentifier = "c04." + name
	fresh.UniqueIdentifier = old.UniqueIdentifier
	data, err := json.Marshal(acme.Certificate{RenewalInfo: &old})
	if err != nil {
		return got, nil, err
	}
	meta, err := json.MarshalIndent(certmagic.CertificateResource{SANs: []string{name}, IssuerData: data}, "", "\t")
	if err != nil {
		return got, nil, err
	}
	for k, v := range map[string][]byte{certmagic.StorageKeys.SiteCert(ik, name): chain, certmagic.StorageKeys.SitePrivateKey(ik, name): keyPEM, certmagic.StorageKeys.SiteMeta(ik, name): meta} {
		if err := st.Store(ctx, k, v); err != nil {
			return got, nil, err
		}
	}
	cert, err := cfg.CacheManagedCertificate(ctx, name)
	if err != nil {
		return got, nil, err
	}
	defer h.cache.Remove([]string{cert.Hash()})
	before := h.ariIss.set(fresh)
	updated, _, err := certmagic.VerifARIUpdate(ctx, cfg, cert)
	if err != nil {
		return got, nil, err
	}
	if n := h.ariIss.count(); n != before+1 {
		return got, nil, fmt.Errorf("the issuer was asked %d times for renewal info, expected once", n-before)
	}
	switch c.Refresh.Target {
	case 0:
		return certmagic.VerifARIOf(updated), func() bool { return updated.NeedsRenewal(cfg) }, nil
	case 1:
		entry, ok := certmagic.VerifARICacheEntry(h.cache, cert.Hash())
		if !ok {
			return got, nil, errors.New("certificate no longer in the cache")
		}
		return certmagic.VerifARIOf(entry), func() bool { return entry.NeedsRenewal(cfg) }, nil
	}
	var res certmagic.CertificateResource
	mb, err := st.Load(ctx, certmagic.StorageKeys.SiteMeta(ik, name))
	if err != nil {
		return got, nil, err
	}
	if err := json.Unmarshal(mb, &res); err != nil {
		return got, nil, err
	}
	if res.CertificatePEM, err = st.Load(ctx, certmagic.StorageKeys.SiteCert(ik, name)); err != nil {
		return got, nil, err
	}
	var ad acme.Certificate
	if err := json.Unmarshal(res.IssuerData, &ad); err != nil {
		return got, nil, err
	}
	if ad.RenewalInfo != nil {
		got = *ad.RenewalInfo
	}
	return got, func() bool { _, _, b := certmagic.VerifManagedCertNeedsRenewal(cfg, res); return b }, nil
}

var c04RefreshRelations = []string{"same", "later", "earlier", "widened", "narrowed", "zero"}
var c04RefreshPositions = []string{"before", "inside", "after"}
var c04RefreshVariants = []string{"old-selected-early", "old-selected-late", "fresh-selected", "old-unselected"}

// refreshCase: a certificate 10 days into 90 (or 5 into 47) whose old renewal info {selected time S_old in
// window W_old, RetryAfter long past} is refreshed with a window W_new that stands in `relation` to W_old,
// the clock being before / inside / after W_new. jitter (ns, < 1 h) moves every instant of the windows.
func (h *c04h) refreshCase(idx int, relation, position, variant string, target int, jitter int64) (c04Case, map[string]any, bool) {
	day, hour := int64(24*time.Hour), int64(time.Hour)
	c := c04Case{Present: true, Kind: 1, RAFix: true, RA: p64(-26 * hour)}
	if target == 2 {
		c.Kind = 2
	}
	c.NBOff, c.NAOff, c.Interval, c.RN, c.RD = -10*day, 80*day, int64(10*time.Minute), 0, 1
	if idx%2 == 1 {
		c.NBOff, c.NAOff, c.Interval, c.RN, c.RD = -5*day, 42*day, hour, 1, 3
	}
	var a, b int64 // W_new
	switch position {
	case "before":
		a, b = 20*day, 22*day
	case "inside":
		a, b = -1*day, 3*day
	default:
		a, b = -4*day-12*hour, -2*day
	}
	a, b = a+jitter+123456789, b+jitter+987654321
	w := b - a
	g := hour
	if variant == "old-selected-late" {
		g = 23 * day
	}
	var oa, ob int64 // W_old
	switch relation {
	case "same", "zero":
		oa, ob = a, b
	case "later": // the CA moved the window later: W_new starts after everything in W_old
		oa, ob = a-w-g, b-w-g
	case "earlier":
		oa, ob = a+w+g, b+w+g
	case "widened":
		oa, ob = a+w/4, b-w/4
	case "narrowed":
		oa, ob = a-w/2, b+w/2
	}
	c.WS, c.WE = p64(oa), p64(ob)
	ow := ob - oa
	const off = int64(7*time.Minute + 13*time.Second + 500)
	switch variant {
	case "old-selected-early", "fresh-selected":
		c.Sel = p64(oa + ow/8 + off)
	case "old-selected-late":
		c.Sel = p64(ob - ow/8 + off)
	}
	fr := &c04Refresh{Target: target, Name: fmt.Sprintf("r%d-t%d.c04.example", idx, target)}
	if relation != "zero" {
		fr.WS, fr.WE = p64(a), p64(b)
		if variant == "fresh-selected" {
			fr.Sel = p64(a + w/2 + off)
		}
	} else if variant == "fresh-selected" {
		return c, nil, false // a selected time without a window is not something a CA's answer leads to
	}
	c.Refresh = fr
	c.Base = time.Now().UnixNano()
	desc := map[string]any{"class": "ari-refresh", "relation": relation, "position": position, "variant": variant,
		"target": []string{"returned-certificate", "cache-entry", "stored-resource"}[target],
		"aim": "ari-refresh/" + relation, "side": position, "delta": variant, "ari": "refreshed",
		"ratio": fmt.Sprintf("%d/%d", c.RN, c.RD), "life": lifeBucket(c.NAOff - c.NBOff), "ival": ivalBucket(c.Interval), "decisive": true}
	return c, desc, true
}

// ---- generator ----

type c04Ratio struct{ n, d int64 }

var c04Lifetimes = []time.Duration{6 * time.Minute, time.Hour, 24 * time.Hour, 7 * 24 * time.Hour, 47 * 24 * time.Hour, 90 * 24 * time.Hour, 398 * 24 * time.Hour, 3652 * 24 * time.Hour}
var c04Ratios = []c04Ratio{{0, 1}, {1, 100}, {1, 3}, {1, 2}, {9, 10}, {1, 1}, {1, 25}, {1, 20}, {1, 50}, {2, 3}, {1, 10}}
var c04SmallRatios = []c04Ratio{{1, 100}, {1, 200}, {1, 64}, {3, 200}, {1, 1000}}
var c04Intervals = []time.Duration{time.Second, 10 * time.Second, time.Minute, 10 * time.Minute, time.Hour, 24 * time.Hour}

func lifeBucket(L int64) string {
	switch d := time.Duration(L); {
	case d < 0:
		return "negative"
	case d < time.Hour:
		return "<1h"
	case d < 24*time.Hour:
		return "<1d"
	case d < 30*24*time.Hour:
		return "<30d"
	case d < 100*24*time.Hour:
		return "<100d"
	case d < 400*24*time.Hour:
		return "<400d"
	}
	return ">=400d"
}
func ivalBucket(i int64) string {
	switch d := time.Duration(i); {
	case d <= 0:
		return "unset"
	case d < time.Minute:
		return "<1m"
	case d < time.Hour:
		return "<1h"
	case d < 24*time.Hour:
		return "<1d"
	}
	return ">=1d"
}
func deltaBucket(d int64) string {
	if d < 0 {
		d = -d
	}
	switch dd := time.Duration(d); {
	case dd <= 100*time.Microsecond:
		return "<=100us"
	case dd <= 5*time.Millisecond:
		return "<=5ms"
	case dd <= time.Second:
		return "<=1s"
	case dd <= time.Minute:
		return "<=1m"
	}
	return ">1m"
}

func (h *c04h) logDur(lo, hi time.Duration) int64 {
	a, b := math.Log(float64(lo)), math.Log(float64(hi))
	return int64(math.Exp(a + h.r.Float64()*(b-a)))
}

func (h *c04h) pickRatio(list []c04Ratio) c04Ratio {
	if h.r.Intn(5) == 0 { // an arbitrary double in the list's range, as an exact rational m/2^k
		lo, hi := 1.0, 0.0
		for _, q := range list {
			if q.n == 0 {
				continue
			}
			v := float64(q.n) / float64(q.d)
			lo, hi = math.Min(lo, v), math.Max(hi, v)
		}
		v := lo + h.r.Float64()*(hi-lo)
		if v <= 0 || v > 1 {
			v = 0.5
		}
		fr, ex := math.Frexp(v) // v = fr * 2^ex, fr in [0.5,1)
		mant := int64(fr * (1 << 53))
		k := 53 - ex
		for mant%2 == 0 && k > 0 {
			mant /= 2
			k--
		}
		if k >= 0 && k <= 62 {
			return c04Ratio{mant, int64(1) << uint(k)}
		}
	}
	return list[h.r.Intn(len(list))]
}

func ratioF(q c04Ratio) float64 {
	if q.n == 0 {
		return certmagic.DefaultRenewalWindowRatio
	}
	return float64(q.n) / float64(q.d)
}

var c04Aims = []string{"configured-window", "imminent-1/50", "imminent-5-intervals", "ari-emergency-1/20", "ari-cutoff", "improvised-earliest", "improvised-latest"}

// build an aimed case: the real clock is placed at signed distance delta (now - threshold) from
// the threshold of one clause, with the other clauses arranged (where possible) so that this
// clause decides the verdict.
func (h *c04h) aimed(aim string, deltaSel int, kind int) (c04Case, map[string]any) {
	r := h.r
	c := c04Case{Present: true, Kind: kind}
	desc := map[string]any{"class": "aimed", "aim": aim}
	L := int64(c04Lifetimes[r.Intn(len(c04Lifetimes))])
	if r.Intn(3) == 0 {
		L = h.logDur(6*time.Minute, 3652*24*time.Hour)
	}
	var q c04Ratio
	switch aim {
	case "imminent-1/50", "ari-emergency-1/20":
		q = h.pickRatio(c04SmallRatios)
	case "configured-window":
		q = h.pickRatio(c04Ratios)
	default:
		q = h.pickRatio(c04Ratios)
	}
	rf := ratioF(q)
	wc, w20, w50 := int64(float64(L)*rf), L/20, L/50
	wmax := wc
	// interval
	var iv int64
	switch aim {
	case "imminent-5-intervals":
		if w50 > wmax {
			wmax = w50
		}
		iv = int64(float64(wmax) * (1.05 + 2*r.Float64()) / c04Factor)
		if iv < int64(time.Second) {
			iv = int64(time.Second) + r.Int63n(int64(time.Minute))
		}
	default:
		iv = int64(c04Intervals[r.Intn(len(c04Intervals))])
		if r.Intn(3) == 0 {
			iv = h.logDur(time.Second, 24*time.Hour)
		}
		// keep 5 intervals below the aimed window where we can
		lim := map[string]int64{"configured-window": wc, "imminent-1/50": w50, "ari-emergency-1/20": w20}[aim]
		if lim > 0 && iv*c04Factor >= lim {
			iv = lim / (c04Factor + 1 + r.Int63n(20))
			if iv <= 0 {
				iv = 1
			}
		}
	}
	// delta
	deltas := []int64{50e3, 1e6, 5e6, 100e6, 1e9, 60e9, L / 100, L / 10}
	d := deltas[deltaSel%len(deltas)]
	if d < 20e3 {
		d = 20e3
	}
	side := "after"
	if (deltaSel/len(deltas))%2 == 0 {
		d = -d
		side = "before"
	}
	desc["side"], desc["delta"] = side, deltaBucket(d)

	base := time.Now().UnixNano()
	c.Base = base
	// remaining time R (exp - now) for the aim, then the whole-second expiry
	var R int64
	far := func() int64 { // a position where no expiry clause fires
		lo := wmax
		for _, v := range []int64{w20, w50, iv * c04Factor} {
			if v > lo {
				lo = v
			}
		}
		if lo >= L {
			return lo + lo/10 + c04Sec
		}
		return lo + int64(r.Float64()*0.9*float64(L-lo)) + (L-lo)/20
	}
	switch aim {
	case "configured-window":
		R = wc
	case "imminent-1/50":
		R = w50
	case "ari-emergency-1/20":
		R = w20
	case "imminent-5-intervals":
		R = iv * c04Factor
	default:
		R = far()
	}
	exp := floorDiv(base+R, c04Sec) * c04Sec
	Rp := exp - base
	frac := int64(0)
	if r.Intn(3) == 0 {
		frac = r.Int63n(c04Sec)
	}
	nb := exp - L
	realistic := r.Intn(4) == 0 || kind == 2 // whole-second NotBefore as in a real certificate
	// ARI shape
	shape := "none"
	fitWindow := func(ratio float64) {
		want := Rp + d // window length that puts the threshold at base - d ... now - T = d
		if want <= 0 || ratio <= 0 {
			return
		}
		Lx := int64(float64(want) / ratio)
		for k := 0; k < 4; k++ {
			w := c04Scale(time.Duration(Lx), ratio)
			Lx += int64(float64(want-w) / ratio)
		}
		nb = exp - Lx
	}
	switch aim {
	case "configured-window", "imminent-1/50", "imminent-5-intervals":
		switch r.Intn(6) {
		case 0:
			shape = "disabled-with-past-selected"
			c.Disable = true
			c.Sel = p64(-int64(time.Hour) - r.Int63n(int64(24*time.Hour)))
			c.WS, c.WE = p64(*c.Sel-int64(time.Hour)), p64(*c.Sel+int64(time.Hour))
		case 1:
			shape = "only-window-start"
			c.WS = p64(-int64(time.Hour))
		case 2:
			shape = "only-window-end"
			c.WE = p64(-int64(time.Hour))
		case 3:
			if aim == "configured-window" && rf > c04RatioAri*1.01 {
				shape = "selected-far-future"
				c.Sel = p64(Rp + iv + int64(time.Hour) + r.Int63n(L+1))
			}
		case 4:
			if aim == "configured-window" && rf > c04RatioAri*1.01 {
				shape = "window-far-future"
				c.WS = p64(Rp + iv + int64(time.Hour) + r.Int63n(L+1))
				c.WE = p64(*c.WS + int64(time.Hour) + r.Int63n(int64(48*time.Hour)))
			}
		}
		switch aim {
		case "configured-window":
			fitWindow(rf)
		case "imminent-1/50":
			fitWindow(c04RatioImm)
		default:
			iv = (Rp + d) / c04Factor
			if iv <= 0 {
				iv = 1
			}
		}
	case "ari-emergency-1/20":
		if r.Intn(2) == 0 {
			shape = "selected-far-future"
			c.Sel = p64(Rp + iv + int64(time.Hour) + r.Int63n(L+1))
			if r.Intn(2) == 0 {
				c.WS, c.WE = p64(*c.Sel-int64(time.Hour)), p64(*c.Sel+int64(time.Hour))
			}
		} else {
			shape = "window-far-future"
			c.WS = p64(Rp + iv + int64(time.Hour) + r.Int63n(L+1))
			c.WE = p64(*c.WS + int64(time.Hour) + r.Int63n(int64(48*time.Hour)))
		}
		fitWindow(c04RatioAri)
	case "ari-cutoff":
		shape = "selected"
		c.Sel = p64(iv - d) // now - (sel - iv) = d
		switch r.Intn(3) {
		case 0:
			c.WS, c.WE = p64(*c.Sel-int64(time.Hour)), p64(*c.Sel+int64(time.Hour))
			shape = "selected-in-window"
		case 1:
			c.WS, c.WE = p64(*c.Sel+int64(time.Hour)), p64(*c.Sel+int64(2*time.Hour))
			shape = "selected-before-window"
		}
	case "improvised-earliest", "improvised-latest":
		// window [ws, we] with the interval chosen so that start-interval (or end-1s-interval) = now - d
		width := []int64{0, 1, int64(500 * time.Millisecond), c04Sec, 2 * c04Sec, 3 * c04Sec, int64(time.Minute), int64(time.Hour), int64(7 * 24 * time.Hour)}[r.Intn(9)]
		shape = "window-only"
		if width <= 2*c04Sec {
			shape = "window-degenerate"
		}
		ahead := h.logDur(2*time.Second, 24*time.Hour) // roughly the interval
		if d > 0 && ahead <= d {
			ahead = d + h.logDur(2*time.Second, time.Hour)
		}
		wsAbs := base + ahead + r.Int63n(c04Sec)
		weAbs := wsAbs + width
		if r.Intn(12) == 0 && width > 0 {
			weAbs = wsAbs - width // inverted window
			shape = "window-inverted"
		}
		start, end := floorDiv(wsAbs, c04Sec)+1, floorDiv(weAbs, c04Sec)
		if end <= start {
			end = start + 1
		}
		edge := start * c04Sec
		if aim == "improvised-latest" {
			edge = (end - 1) * c04Sec
		}
		iv = edge - base + d
		if iv <= 0 {
			iv = 1
		}
		c.WS, c.WE = p64(wsAbs-base), p64(weAbs-base)
		// make sure no expiry clause fires: recompute position with the final interval
		lo := wmax
		for _, v := range []int64{w20, w50, iv * c04Factor} {
			if v > lo {
				lo = v
			}
		}
		if Rp <= lo+lo/50 {
			// lengthen the certificate instead of moving now
			Rp = lo + lo/10 + c04Sec + r.Int63n(int64(time.Hour))
			exp = floorDiv(base+Rp, c04Sec) * c04Sec
			Rp = exp - base
			if L < Rp {
				L = Rp + Rp/3
			}
			// windows grow with L: iterate a few times
			for k := 0; k < 6; k++ {
				wcx := int64(float64(L) * rf)
				lo2 := iv * c04Factor
				for _, v := range []int64{wcx, L / 20, L / 50} {
					if v > lo2 {
						lo2 = v
					}
				}
				if Rp > lo2+lo2/50 {
					break
				}
				if iv*c04Factor >= lo2 {
					Rp = lo2 + lo2/10 + c04Sec
					exp = floorDiv(base+Rp, c04Sec) * c04Sec
					Rp = exp - base
					if L < Rp {
						L = Rp + Rp/3
					}
				} else {
					L = L / 2
					if L < Rp {
						// the configured window is too large for this position: shrink the ratio
						q = c04Ratio{1, 100}
						rf = ratioF(q)
						L = Rp + Rp/3
					}
				}
			}
			nb = exp - L
		}
	}
	if realistic {
		nb = floorDiv(nb, c04Sec) * c04Sec
		frac = 0
	}
	c.NBOff, c.NAOff = nb-base, exp-c04Sec+frac-base
	c.Interval = iv
	c.RN, c.RD = q.n, q.d
	desc["ari"] = shape
	desc["ratio"] = fmt.Sprintf("%d/%d", q.n, q.d)
	if q.d > 1000 {
		desc["ratio"] = "random-double"
	}
	desc["life"] = lifeBucket(exp - nb)
	desc["ival"] = ivalBucket(iv)
	desc["realistic_whole_seconds"] = realistic
	// is the aimed clause decisive? compare the all-rnd verdicts just before / after its threshold
	m := h.mirrorOf(c)
	var thr int64
	switch aim {
	case "configured-window":
		thr = m.exp - m.wc
	case "imminent-1/50":
		thr = m.exp - m.w50
	case "imminent-5-intervals":
		thr = m.exp - m.interval*c04Factor
	case "ari-emergency-1/20":
		thr = m.exp - m.w20
	case "ari-cutoff":
		thr = *m.sel - m.interval
	case "improvised-earliest":
		lo, _, _, _ := m.selRange()
		thr = lo - m.interval
	case "improvised-latest":
		_, hi, _, _ := m.selRange()
		thr = hi - m.interval
	}
	desc["decisive"] = m.all(thr) != m.all(thr+1)
	desc["aim_error_ns"] = (base - thr) - d
	return c, desc
}

func (h *c04h) mirrorOf(c c04Case) *c04Mirror {
	base := c.Base
	nb, na := base+c.NBOff, base+c.NAOff
	if c.Kind == 2 {
		nb, na = floorDiv(nb, c04Sec)*c04Sec, floorDiv(na, c04Sec)*c04Sec
	}
	abs := func(p *int64) *int64 {
		if p == nil {
			return nil
		}
		return p64(base + *p)
	}
	exp := floorDiv(na, c04Sec)*c04Sec + c04Sec
	L := exp - nb
	ratio := 0.0
	if c.RN != 0 {
		ratio = float64(c.RN) / float64(c.RD)
	}
	iv := c.Interval
	if iv <= 0 {
		iv = int64(certmagic.DefaultRenewCheckInterval)
	}
	return &c04Mirror{nb: nb, exp: exp, interval: iv, disable: c.Disable, sel: abs(c.Sel), ws: abs(c.WS), we: abs(c.WE),
		wc: c04Scale(time.Duration(L), ratio), w20: c04Scale(time.Duration(L), c04RatioAri), w50: c04Scale(time.Duration(L), c04RatioImm)}
}

// a fully random case (no aiming)
func (h *c04h) random(kind int) (c04Case, map[string]any) {
	r := h.r
	c := c04Case{Present: true, Kind: kind}
	desc := map[string]any{"class": "random"}
	L := h.logDur(6*time.Minute, 3652*24*time.Hour)
	if r.Intn(2) == 0 {
		L = int64(c04Lifetimes[r.Intn(len(c04Lifetimes))])
	}
	q := h.pickRatio(c04Ratios)
	if r.Intn(6) == 0 {
		q = h.pickRatio(c04SmallRatios)
	}
	iv := int64(c04Intervals[r.Intn(len(c04Intervals))])
	switch r.Intn(8) {
	case 0:
		iv = h.logDur(time.Second, 24*time.Hour)
	case 1:
		iv = 0 // unset => DefaultRenewCheckInterval
	}
	base := time.Now().UnixNano()
	c.Base = base
	pos := -0.2 + 1.4*r.Float64() // fraction of the lifetime elapsed
	if r.Intn(3) == 0 {
		pos = 0.6 + 0.45*r.Float64()
	}
	nb := base - int64(pos*float64(L))
	if r.Intn(2) == 0 {
		nb = floorDiv(nb, c04Sec) * c04Sec
	}
	na := nb + L
	if r.Intn(2) == 0 {
		na = floorDiv(na, c04Sec) * c04Sec
	}
	at := func(f float64) *int64 { return p64(nb + int64(f*float64(L)) - base) }
	shape := ""
	switch r.Intn(10) {
	case 0:
		shape = "none"
	case 1:
		shape = "disabled"
		c.Disable = true
		c.Sel = at(r.Float64())
		c.WS, c.WE = at(0.3), at(0.4)
	case 2, 3:
		shape = "selected"
		c.Sel = at(1.2 * r.Float64())
	case 4:
		shape = "selected-in-window"
		f := r.Float64()
		c.WS, c.Sel, c.WE = at(f), at(f+0.05*r.Float64()), at(f+0.05)
	case 5, 6:
		shape = "window-only"
		f := 1.1 * r.Float64()
		c.WS, c.WE = at(f), at(f+0.1*r.Float64())
	case 7:
		shape = "window-degenerate"
		f := 1.1 * r.Float64()
		c.WS = at(f)
		c.WE = p64(*c.WS + r.Int63n(2*c04Sec) - c04Sec/2)
	case 8:
		shape = "only-window-start"
		c.WS = at(r.Float64())
	case 9:
		shape = "selected-past-window-future"
		c.Sel = at(-0.1)
		c.WS, c.WE = at(1.5), at(1.6)
	}
	c.NBOff, c.NAOff, c.Interval, c.RN, c.RD = nb-base, na-base, iv, q.n, q.d
	desc["ari"] = shape
	desc["ratio"] = fmt.Sprintf("%d/%d", q.n, q.d)
	if q.d > 1000 {
		desc["ratio"] = "random-double"
	}
	desc["life"] = lifeBucket(L)
	desc["ival"] = ivalBucket(iv)
	return c, desc
}

func runC04(tier string, seed int64, outdir string, replay string) error {
	w := emit.NewWriter(outdir, "C04", tier, seed)
	h := &c04h{w: w, r: rand.New(rand.NewSource(seed))}
	be := doubles.NewMemBackend()
	h.opts = certmagic.CacheOptions{RenewCheckInterval: 24 * time.Hour, OCSPCheckInterval: 24 * time.Hour}
	h.cfg, h.cache = doubles.NewConfig(be.Handle("c04"), certmagic.Config{}, h.opts)
	defer h.cache.Stop()
	// NewConfig filled in the callback and logger: keep the completed options for SetOptions
	h.opts.GetConfigForCert = func(certmagic.Certificate) (*certmagic.Config, error) { return h.cfg, nil }
	h.ca = doubles.NewCA("C04 harness CA")
	k, err := ecdsa.GenerateKey(elliptic.P256(), crand.Reader)
	if err != nil {
		return err
	}
	h.pub = &k.PublicKey
	h.ariIss = &c04AriIssuer{}

	finish := func() {
		w.Meta.Oracles = append(w.Meta.Oracles, emit.OracleCheck{
			Name:   fmt.Sprintf("scale: 0 <= w and |d*w - n*L| <= d*(2 + L/2^50) for w = Duration(float64(L)*float64(n/d)) (%d windows of this run, exact integer arithmetic; also re-checked per case in Coq together with the exact float64 model)", h.nOrc),
			OK:     len(h.orcBad) == 0,
			Detail: fmt.Sprint(h.orcBad)})
		w.Meta.Rule = "aimed cases whose aimed clause decides the verdict (the model's verdict just before and just after that clause's threshold differs), with the verdict independent of the clock position within [t0,t1] and of the random draw, so that model and implementation are compared"
		w.Meta.Extra = map[string]any{"compared": h.cmp, "skipped_boundary": h.skipB, "rnd_dependent": h.skipR, "ari_refresh_cases": h.nRefr}
		w.Meta.Notes = append(w.Meta.Notes, "the clock is real: every instant is an offset from time.Now() at case construction; the call is bracketed by t0/t1 and the model is evaluated at both")
		w.Close()
	}

	if replay != "" {
		rc, err := loadReplay(replay)
		if err != nil {
			return err
		}
		var c c04Case
		if err := json.Unmarshal(rc.In, &c); err != nil {
			return err
		}
		// re-base on the current clock, at the same sub-second phase (the expiry is a whole second)
		phase := ((c.Base % c04Sec) + c04Sec) % c04Sec
		deadline := time.Now().Add(3 * time.Second)
		for time.Now().Before(deadline) {
			now := time.Now().UnixNano()
			if d := ((now%c04Sec)-phase+c04Sec)%c04Sec; d < 20000 {
				break
			}
		}
		c.Base = time.Now().UnixNano()
		desc := map[string]any{}
		for k, v := range rc.Desc {
			desc[k] = v
		}
		h.run(c, desc)
		finish()
		return nil
	}

	// ---- corpus: witnesses of the two fixed findings and hand-picked regressions ----
	day := int64(24 * time.Hour)
	corpus := func(class string, f func(c *c04Case)) {
		c := c04Case{Present: true, RN: 0, RD: 1, Interval: int64(10 * time.Minute)}
		c.Base = time.Now().UnixNano()
		c.NBOff, c.NAOff = -10*day, 80*day
		f(&c)
		for kind := 0; kind < 3; kind++ {
			cc := c
			cc.Kind = kind
			cc.Base = time.Now().UnixNano()
			h.run(cc, map[string]any{"class": class, "decisive": true, "aim": "corpus"})
		}
	}
	// (1) fixed 5970851: no selected time, window a month ahead => must wait
	corpus("ari-window-future-no-selected", func(c *c04Case) { c.WS, c.WE = p64(30*day), p64(32*day) })
	corpus("ari-window-future-no-selected", func(c *c04Case) { c.WS, c.WE = p64(30*day), p64(30*day+int64(time.Hour)); c.RN, c.RD = 1, 3 })
	// (2) fixed 1ec0cb3: window of a second or less, no selected time => no panic
	for _, width := range []int64{0, 1, 999999999, c04Sec, -c04Sec, -5 * day} {
		width := width
		corpus("ari-window-degenerate", func(c *c04Case) { c.WS, c.WE = p64(30*day), p64(30*day+width) })
		corpus("ari-window-degenerate", func(c *c04Case) { c.WS, c.WE = p64(-2*day), p64(-2*day+width) })
	}
	// regressions
	corpus("plain-fresh", func(c *c04Case) {})
	corpus("plain-in-final-third", func(c *c04Case) { c.NBOff, c.NAOff = -70*day, 20*day })
	corpus("plain-expired", func(c *c04Case) { c.NBOff, c.NAOff = -100*day, -10*day })
	corpus("selected-past", func(c *c04Case) { c.Sel = p64(-day) })
	corpus("selected-future", func(c *c04Case) { c.Sel = p64(20 * day) })
	corpus("selected-future-final-twentieth", func(c *c04Case) {
		c.NBOff, c.NAOff = -88*day, 2*day
		c.RN, c.RD = 1, 100
		c.Sel = p64(day)
	})
	corpus("disabled-selected-past", func(c *c04Case) { c.Sel = p64(-day); c.Disable = true })
	corpus("short-lived-five-intervals", func(c *c04Case) { c.NBOff, c.NAOff = -int64(10*time.Minute), int64(40*time.Minute) })
	corpus("interval-unset", func(c *c04Case) { c.Interval = 0; c.NBOff, c.NAOff = -int64(10*time.Minute), int64(40*time.Minute) })
	corpus("ratio-one", func(c *c04Case) { c.RN, c.RD = 1, 1; c.NBOff = -int64(time.Minute) })
	corpus("ratio-one-not-yet-valid", func(c *c04Case) { c.RN, c.RD = 1, 1; c.NBOff = int64(time.Hour) })
	// nil leaf / unparsable bundle
	for kind := 0; kind < 3; kind++ {
		c := c04Case{Kind: kind, Present: false, RN: 0, RD: 1, Interval: int64(10 * time.Minute), Base: time.Now().UnixNano()}
		c.NBOff, c.NAOff = -10*day, 80*day
		h.run(c, map[string]any{"class": "no-leaf", "aim": "corpus"})
	}
	// out of the property's domain (compared with the model only): ratio above one, inverted validity
	for _, q := range []c04Ratio{{3, 2}, {2, 1}} {
		c := c04Case{Present: true, RN: q.n, RD: q.d, Interval: int64(10 * time.Minute), Base: time.Now().UnixNano()}
		c.NBOff, c.NAOff = -10*day, 80*day
		h.run(c, map[string]any{"class": "out-of-domain-ratio", "aim": "corpus"})
		c.NBOff, c.NAOff = -10*day, 5*day
		c.Base = time.Now().UnixNano()
		h.run(c, map[string]any{"class": "out-of-domain-ratio", "aim": "corpus"})
	}
	for _, off := range []int64{-day, 3 * day} {
		c := c04Case{Present: true, RN: 1, RD: 3, Interval: int64(10 * time.Minute), Base: time.Now().UnixNano()}
		c.NBOff, c.NAOff = 10*day, off
		h.run(c, map[string]any{"class": "out-of-domain-inverted-validity", "aim": "corpus"})
	}

	// ---- ari-refresh: how the renewal info a certificate carries is produced (Config.updateARI) ----
	{
		idx := 0
		for _, rel := range c04RefreshRelations {
			for _, pos := range c04RefreshPositions {
				for _, v := range c04RefreshVariants {
					if v == "old-unselected" && pos == "after" {
						continue
					}
					idx++
					for target := 0; target < 3; target++ {
						if c, desc, ok := h.refreshCase(idx, rel, pos, v, target, 0); ok {
							h.run(c, desc)
						}
					}
				}
			}
		}
		if tier == "thorough" {
			for i := 0; i < 3000; i++ {
				idx++
				rel, pos := c04RefreshRelations[h.r.Intn(len(c04RefreshRelations))], c04RefreshPositions[h.r.Intn(len(c04RefreshPositions))]
				v := c04RefreshVariants[h.r.Intn(len(c04RefreshVariants))]
				if c, desc, ok := h.refreshCase(idx, rel, pos, v, h.r.Intn(3), h.r.Int63n(int64(50*time.Minute))); ok {
					h.run(c, desc)
				}
			}
		}
	}

	nAimed, nRandom := 6000, 2000
	if tier == "thorough" {
		nAimed, nRandom = 160000, 40000
	}
	for i := 0; i < nAimed; i++ {
		aim := c04Aims[i%len(c04Aims)]
		pickKind := func() int {
			switch h.r.Intn(10) {
			case 0:
				return 1
			case 1:
				return 2
			}
			return 0
		}
		c, desc := h.aimed(aim, i/len(c04Aims), pickKind())
		h.run(c, desc)
		if i < nRandom {
			c, desc := h.random(pickKind())
			h.run(c, desc)
		}
	}
	finish()
	return nil
}
