//go:build !skip_c19

package main

import (
	"context"
	"encoding/json"
	"errors"
	"fmt"
	"io"
	"log"
	"math/rand"
	"os"
	"sort"
	"strings"
	"sync"
	"time"

	"github.com/caddyserver/certmagic"
	"go.uber.org/zap"

	"verifharness/pkg/doubles"
	"verifharness/pkg/emit"
)

func init() { register("C19", runC19) }

// ---------------------------------------------------------------- (a) doWithRetry

// c19Step is one scripted call of the retried function.
type c19Step struct {
	Out   string `json:"out"`              // ok plain noretry noretry-wrapped canceled ctx
	DurMs int    `json:"dur_ms,omitempty"` // how long the call takes
	// CancelAtMs >= 0: the context is cancelled this long after the call began (cancel during the attempt)
	CancelAtMs int `json:"cancel_at_ms,omitempty"`
	// CancelAfterPct > 0: the context is cancelled this percentage into the pause that follows the call
	CancelAfterPct int `json:"cancel_after_pct,omitempty"`
}

type c19RetryPlan struct {
	Kind      string    `json:"kind"` // "direct" | "async-obtain"
	TableMs   []int     `json:"table_ms"`
	Steps     []c19Step `json:"steps"`
	PreCancel bool      `json:"pre_cancel,omitempty"` // context cancelled before doWithRetry is called
	HorizonMs int       `json:"horizon_ms,omitempty"` // > 0: maxRetryDuration shrunk to this (scratch copy of the repository, see c19_horizon.go)
}

type c19Att struct {
	No    int   `json:"attempt"`
	Start int64 `json:"start_ns"`
	End   int64 `json:"end_ns"`
	Out   int   `json:"out"` // 0 ok 1 plain 2 noretry 3 canceled
}

type c19RetryObs struct {
	Atts     []c19Att `json:"attempts"`
	Result   int      `json:"result"` // 0 nil, 1 context.Canceled from f, 2 ErrNoRetry, 3 context.Canceled from the select, 7 other error
	Te       int64    `json:"return_ns"`
	CancelNs int64    `json:"cancel_ns"` // -1: never cancelled
	Note     string   `json:"note,omitempty"`
}

var c19OutCode = map[string]int{"ok": 0, "plain": 1, "deadline": 1, "os-deadline": 1, "eof": 1, "noretry": 2, "noretry-wrapped": 2, "canceled": 3, "ctx": 3}

// c19PlainKinds are the failures that are to be retried ("plain" for the model): any error that is
// neither ErrNoRetry nor context.Canceled - in particular a time-out local to the attempt
// (context.DeadlineExceeded of an inner context, os.ErrDeadlineExceeded of a connection) while the
// caller's context is still live.
var c19PlainKinds = []string{"plain", "plain", "deadline", "os-deadline", "eof"}

func c19Err(out string, ctx context.Context) error {
	switch out {
	case "ok":
		return nil
	case "plain":
		return errors.New("plain failure")
	case "deadline":
		return fmt.Errorf("order: talking to the CA: %w", context.DeadlineExceeded)
	case "os-deadline":
		return fmt.Errorf("order: read: %w", os.ErrDeadlineExceeded)
	case "eof":
		return fmt.Errorf("order: %w", io.ErrUnexpectedEOF)
	case "noretry":
		return certmagic.ErrNoRetry{Err: errors.New("do not retry")}
	case "noretry-wrapped":
		return fmt.Errorf("obtain: %w", certmagic.ErrNoRetry{Err: errors.New("do not retry")})
	case "canceled":
		return fmt.Errorf("order: %w", context.Canceled)
	case "ctx":
		<-ctx.Done()
		return fmt.Errorf("order: %w", ctx.Err())
	}
	return errors.New("?")
}

// c19RunDirect drives the real doWithRetry with a scripted function.
func c19RunDirect(p c19RetryPlan) c19RetryObs {
	ctx, cancel := context.WithCancel(context.Background())
	defer cancel()
	var mu sync.Mutex
	obs := c19RetryObs{CancelNs: -1}
	var t0 time.Time
	rel := func() int64 { return int64(time.Since(t0)) }
	doCancel := func() {
		mu.Lock()
		if obs.CancelNs < 0 {
			obs.CancelNs = rel()
		}
		mu.Unlock()
		cancel()
	}
	table := p.TableMs
	pauseAfter := func(k int) time.Duration { // pause that follows attempt k
		i := k
		if i > len(table)-1 {
			i = len(table) - 1
		}
		return time.Duration(table[i]) * time.Millisecond
	}
	calls := 0
	f := func(ctx context.Context) error {
		start := rel()
		no := -1
		if a, ok := ctx.Value(certmagic.AttemptsCtxKey).(*int); ok && a != nil {
			no = *a
		}
		k := calls
		calls++
		st := c19Step{Out: "ok"}
		if k < len(p.Steps) {
			st = p.Steps[k]
		} else {
			mu.Lock()
			obs.Note = "more calls than scripted"
			mu.Unlock()
		}
		if st.CancelAtMs > 0 {
			time.AfterFunc(time.Duration(st.CancelAtMs)*time.Millisecond, doCancel)
		}
		time.Sleep(time.Duration(st.DurMs) * time.Millisecond)
		err := c19Err(st.Out, ctx)
		if st.CancelAfterPct > 0 {
			time.AfterFunc(pauseAfter(k)*time.Duration(st.CancelAfterPct)/100, doCancel)
		}
		end := rel()
		mu.Lock()
		obs.Atts = append(obs.Atts, c19Att{No: no, Start: start, End: end, Out: c19OutCode[st.Out]})
		mu.Unlock()
		return err
	}
	if p.PreCancel {
		cancel()
		obs.CancelNs = 0
	}
	t0 = time.Now()
	var err error
	panicked := false
	func() {
		defer func() {
			if r := recover(); r != nil {
				panicked = true
				err = fmt.Errorf("panic: %v", r)
			}
		}()
		err = certmagic.VerifDoWithRetry(ctx, zap.NewNop(), f)
	}()
	te := rel()
	mu.Lock()
	defer mu.Unlock()
	obs.Te = te
	var nr certmagic.ErrNoRetry
	switch {
	case panicked:
		obs.Result = 8
		obs.Note = err.Error()
	case err == nil:
		obs.Result = 0
	case errors.Is(err, context.Canceled):
		if n := len(obs.Atts); n > 0 && obs.Atts[n-1].Out == 3 {
			obs.Result = 1
		} else {
			obs.Result = 3
		}
	case errors.As(err, &nr):
		obs.Result = 2
	default:
		obs.Result = 7
	}
	return obs
}

// c19RunAsync reaches the same loop through Config.ManageAsync with an issuer double that
// fails as scripted; observed are the attempt numbers and instants of Issuer.Issue.
func c19RunAsync(p c19RetryPlan, id int) c19RetryObs {
	obs := c19RetryObs{CancelNs: -1}
	b := doubles.NewMemBackend()
	ca := doubles.NewCA("c19 CA")
	iss := &doubles.IssuerDouble{Key: "c19dbl", CA: ca, Log: b.Log, Inst: "i"}
	iss.Fail = func(n int, names []string) error {
		time.Sleep(time.Duration(p.Steps[min(n, len(p.Steps)-1)].DurMs) * time.Millisecond)
		if n < len(p.Steps) {
			return c19Err(p.Steps[n].Out, context.Background())
		}
		return nil
	}
	cfg, cache := doubles.NewConfig(b.Handle("i"), certmagic.Config{}, certmagic.CacheOptions{}, iss)
	defer cache.Stop()
	ctx, cancel := context.WithCancel(context.Background())
	defer cancel()
	t0 := time.Now()
	if err := cfg.ManageAsync(ctx, []string{fmt.Sprintf("c19-%d.example", id)}); err != nil {
		obs.Note = "ManageAsync: " + err.Error()
	}
	// wait until the scripted final call has returned, then long enough to see that no further call follows
	deadline := time.Now().Add(8 * time.Second)
	for time.Now().Before(deadline) {
		cs := iss.CallsSnapshot()
		if len(cs) >= len(p.Steps) && !cs[len(p.Steps)-1].End.IsZero() {
			break
		}
		time.Sleep(time.Millisecond)
	}
	last := p.TableMs[min(len(p.Steps)-1, len(p.TableMs)-1)]
	time.Sleep(time.Duration(last)*time.Millisecond*3/2 + 40*time.Millisecond)
	for _, c := range iss.CallsSnapshot() {
		out := 0
		var step string
		if len(obs.Atts) < len(p.Steps) {
			step = p.Steps[len(obs.Atts)].Out
			out = c19OutCode[step]
		}
		if (c.Err == "") != (out == 0) {
			obs.Note = "issuer outcome differs from the script: " + c.Err
		}
		obs.Atts = append(obs.Atts, c19Att{No: c.Attempt, Start: int64(c.Start.Sub(t0)), End: int64(c.End.Sub(t0)), Out: out})
	}
	if n := len(obs.Atts); n > 0 {
		obs.Te = obs.Atts[n-1].End
		switch obs.Atts[n-1].Out {
		case 0:
			obs.Result = 0
		case 2:
			obs.Result = 2
		default:
			obs.Result = 7
		}
	} else {
		obs.Result = 7
	}
	return obs
}

func c19RetryWire(kind int, p c19RetryPlan, o c19RetryObs) string {
	e := &emit.Enc{}
	e.Int(kind)
	e.Len(len(p.TableMs))
	for _, ms := range p.TableMs {
		e.Z(int64(time.Duration(ms) * time.Millisecond))
	}
	if p.HorizonMs > 0 {
		e.Z(int64(time.Duration(p.HorizonMs) * time.Millisecond))
	} else {
		e.Z(int64(certmagic.VerifMaxRetryDuration))
	}
	e.Bool(p.HorizonMs > 0)
	if o.CancelNs >= 0 {
		e.Bool(true).Z(o.CancelNs)
	} else {
		e.Bool(false)
	}
	// what the select picked when both the zero timer and ctx.Done() were ready
	e.Bool(len(o.Atts) == 0)
	e.Len(len(o.Atts))
	for _, a := range o.Atts {
		e.Int(a.No).Z(a.Start).Z(a.End).Int(a.Out)
	}
	e.Int(o.Result).Z(o.Te)
	return e.String()
}

func c19RetryPlans(tier string, r *rand.Rand) [][]c19RetryPlan {
	tables := [][]int{{30}, {30, 60, 120}, {40, 40, 80, 150, 150}}
	if tier == "thorough" {
		tables = append(tables, []int{200, 30}, []int{35, 70, 70, 140, 140, 200, 200})
	}
	var batches [][]c19RetryPlan
	for _, tb := range tables {
		var batch []c19RetryPlan
		maxK := 5
		for k := 0; k <= maxK; k++ {
			plain := func(n int) []c19Step {
				var s []c19Step
				for i := 0; i < n; i++ {
					s = append(s, c19Step{Out: c19PlainKinds[r.Intn(len(c19PlainKinds))], DurMs: r.Intn(12)})
				}
				return s
			}
			for _, term := range []string{"ok", "noretry", "noretry-wrapped", "canceled"} {
				batch = append(batch, c19RetryPlan{Kind: "direct", TableMs: tb, Steps: append(plain(k), c19Step{Out: term, DurMs: r.Intn(12)})})
			}
			// cancellation while the k-th attempt runs: the function ignores it and fails plainly,
			// or waits for it and returns the context's error
			batch = append(batch, c19RetryPlan{Kind: "direct", TableMs: tb, Steps: append(plain(k), c19Step{Out: "plain", DurMs: 30, CancelAtMs: 12}, c19Step{Out: "ok"})})
			batch = append(batch, c19RetryPlan{Kind: "direct", TableMs: tb, Steps: append(plain(k), c19Step{Out: "ctx", CancelAtMs: 10})})
			// cancellation during the pause after attempt k
			s := plain(k + 1)
			s[k].CancelAfterPct = 20 + r.Intn(30)
			batch = append(batch, c19RetryPlan{Kind: "direct", TableMs: tb, Steps: append(s, c19Step{Out: "ok"})})
		}
		// context cancelled before the call (Go's select may pick either case)
		for i := 0; i < 4; i++ {
			batch = append(batch, c19RetryPlan{Kind: "direct", TableMs: tb, PreCancel: true, Steps: []c19Step{{Out: "plain", DurMs: 3}, {Out: "ok"}}})
		}
		// random longer scripts
		for i := 0; i < 6; i++ {
			n := r.Intn(6)
			var s []c19Step
			for j := 0; j < n; j++ {
				s = append(s, c19Step{Out: c19PlainKinds[r.Intn(len(c19PlainKinds))], DurMs: r.Intn(25)})
			}
			s = append(s, c19Step{Out: []string{"ok", "noretry", "canceled", "noretry-wrapped"}[r.Intn(4)], DurMs: r.Intn(25)})
			batch = append(batch, c19RetryPlan{Kind: "direct", TableMs: tb, Steps: s})
		}
		// through ManageAsync and the issuer double
		for k := 0; k <= 3; k++ {
			var s []c19Step
			for j := 0; j < k; j++ {
				s = append(s, c19Step{Out: c19PlainKinds[r.Intn(len(c19PlainKinds))], DurMs: r.Intn(8)})
			}
			batch = append(batch, c19RetryPlan{Kind: "async-obtain", TableMs: tb, Steps: append(append([]c19Step{}, s...), c19Step{Out: "ok"})})
			if k%2 == 1 {
				batch = append(batch, c19RetryPlan{Kind: "async-obtain", TableMs: tb, Steps: append(append([]c19Step{}, s...), c19Step{Out: "noretry"})})
			}
		}
		batches = append(batches, batch)
	}
	return batches
}

// ---------------------------------------------------------------- (b) jobManager

type c19JobOp struct {
	Op   string `json:"op"` // submit | finish
	Name string `json:"name,omitempty"`
	Sel  int    `json:"sel,omitempty"`  // finish: index into the running jobs (sorted by id), modulo their number
	Kind string `json:"kind,omitempty"` // finish: ok | err | panic
}
type c19JobPlan struct {
	Max int        `json:"max_workers"`
	Ops []c19JobOp `json:"ops"`
}
type c19JobSnap struct {
	Tag     int      `json:"tag"` // 0 submit 1 finish
	ID      int      `json:"id"`
	Name    string   `json:"name"`
	Kind    int      `json:"kind"`
	Queue   []string `json:"queue"`
	Names   []string `json:"names"`
	Active  int      `json:"active_workers"`
	Running []int    `json:"running"`
	Started []int    `json:"started"`
	Settled bool     `json:"settled"`
}

func c19RunJobs(p c19JobPlan) []c19JobSnap {
	vjm := certmagic.VerifNewJobManager(p.Max)
	var mu sync.Mutex
	started := map[int]bool{}
	finished := map[int]bool{}
	startCount := map[int]int{}
	gates := map[int]chan string{}
	nextID := 1
	running := func() []int {
		mu.Lock()
		defer mu.Unlock()
		var r []int
		for id := range started {
			if !finished[id] {
				r = append(r, id)
			}
		}
		sort.Ints(r)
		return r
	}
	var out []c19JobSnap
	unsettled := false
	observe := func(s c19JobSnap) {
		// quiescent when every live worker is inside a job that has not been told to finish
		deadline := time.Now().Add(1500 * time.Millisecond)
		if unsettled {
			deadline = time.Now().Add(50 * time.Millisecond) // already off the rails: do not wait long again
		}
		for {
			_, _, active := vjm.Snapshot()
			if active == len(running()) {
				s.Settled = true
				break
			}
			if time.Now().After(deadline) {
				unsettled = true
				break
			}
			time.Sleep(100 * time.Microsecond)
		}
		q, names, active := vjm.Snapshot()
		s.Queue, s.Names, s.Active, s.Running = q, names, active, running()
		mu.Lock()
		for id, n := range startCount {
			for i := 0; i < n; i++ { // a job started twice shows up twice
				s.Started = append(s.Started, id)
			}
		}
		mu.Unlock()
		sort.Ints(s.Started)
		if s.Queue == nil {
			s.Queue = []string{}
		}
		if s.Names == nil {
			s.Names = []string{}
		}
		if s.Running == nil {
			s.Running = []int{}
		}
		if s.Started == nil {
			s.Started = []int{}
		}
		out = append(out, s)
	}
	kinds := map[string]int{"ok": 0, "err": 1, "panic": 2}
	finish := func(id int, kind string) {
		mu.Lock()
		finished[id] = true
		g := gates[id]
		mu.Unlock()
		g <- kind
		observe(c19JobSnap{Tag: 1, ID: id, Kind: kinds[kind]})
	}
	for _, op := range p.Ops {
		switch op.Op {
		case "submit":
			id := nextID
			nextID++
			g := make(chan string, 1)
			mu.Lock()
			gates[id] = g
			mu.Unlock()
			vjm.Submit(zap.NewNop(), op.Name, func() error {
				mu.Lock()
				started[id] = true
				startCount[id]++
				mu.Unlock()
				switch <-g {
				case "err":
					return errors.New("job failed")
				case "panic":
					panic("job panicked")
				}
				return nil
			})
			observe(c19JobSnap{Tag: 0, ID: id, Name: op.Name})
		case "finish":
			r := running()
			if len(r) == 0 {
				continue
			}
			finish(r[op.Sel%len(r)], op.Kind)
		}
	}
	// drain: finish whatever is still running until nothing is left
	for i := 0; i < 1000; i++ {
		r := running()
		if len(r) == 0 {
			break
		}
		finish(r[0], "ok")
	}
	return out
}

func c19JobsWire(p c19JobPlan, snaps []c19JobSnap) string {
	e := &emit.Enc{}
	e.Int(2).Int(p.Max).Len(len(snaps))
	ints := func(v []int) {
		e.Len(len(v))
		for _, x := range v {
			e.Int(x)
		}
	}
	for _, s := range snaps {
		e.Int(s.Tag).Int(s.ID).Str(s.Name).Int(s.Kind)
		e.StrList(s.Queue).StrList(s.Names).Int(s.Active)
		ints(s.Running)
		ints(s.Started)
	}
	return e.String()
}

func c19RandomJobPlan(r *rand.Rand) c19JobPlan {
	p := c19JobPlan{Max: 1 + r.Intn(3)}
	names := []string{"", "renew_a", "renew_b", "renew_c"}
	if r.Intn(3) == 0 {
		// more names than workers: the queue holds several named jobs
		names = append(names, "renew_d", "renew_e", "renew_f")
		p.Max = 1 + r.Intn(4)
	}
	n := 5 + r.Intn(14)
	for i := 0; i < n; i++ {
		if r.Intn(100) < 58 {
			p.Ops = append(p.Ops, c19JobOp{Op: "submit", Name: names[r.Intn(len(names))]})
		} else {
			p.Ops = append(p.Ops, c19JobOp{Op: "finish", Sel: r.Intn(4), Kind: []string{"ok", "err", "panic", "panic"}[r.Intn(4)]})
		}
	}
	return p
}

func nameOfJob(snaps []c19JobSnap, id int) string {
	for _, s := range snaps {
		if s.Tag == 0 && s.ID == id {
			return s.Name
		}
	}
	return ""
}

// ---------------------------------------------------------------- (c) CA selection

type c19CAObs struct {
	CA, TestCA       string
	Dir0, Dir1       string
	Using0, Using1   bool
	Err0, Err1, Note string
}

func c19CASelection(w *emit.Writer) {
	cfg, cache := doubles.NewConfig(doubles.NewMemBackend().Handle("c19ca"), certmagic.Config{}, certmagic.CacheOptions{})
	defer cache.Stop()
	cas := []string{"", "https://prod.c19.example/dir", "prod.c19.example/dir", "https://localhost:14000/dir", "http://localhost:14000/dir"}
	tests := []string{"", "https://test.c19.example/dir", "test.c19.example/dir", "https://prod.c19.example/dir", "prod.c19.example/dir", "http://localhost:14001/dir"}
	for _, ca := range cas {
		for _, tc := range tests {
			iss := certmagic.NewACMEIssuer(cfg, certmagic.ACMEIssuer{CA: ca, TestCA: tc, Logger: zap.NewNop()})
			o := c19CAObs{CA: iss.CA, TestCA: iss.TestCA}
			var err0, err1 error
			o.Dir0, o.Using0, err0 = certmagic.VerifACMEClientDirectory(iss, false)
			o.Dir1, o.Using1, err1 = certmagic.VerifACMEClientDirectory(iss, true)
			if err0 != nil || err1 != nil {
				w.Hist("ca_selection=client_error")
				continue
			}
			e := &emit.Enc{}
			e.Int(3).Str(ca).Str(tc).Str(o.CA).Str(o.TestCA).Bool(strings.Contains(o.CA, "://")).Str(o.Dir0).Str(o.Dir1).Bool(o.Using0).Bool(o.Using1)
			w.Hist("kind=ca-selection")
			w.Hist(fmt.Sprintf("ca_selection: test_ca_set=%v same_as_ca=%v", o.TestCA != "", o.CA == o.TestCA))
			w.Add(emit.Case{Desc: map[string]any{"kind": "ca-selection", "class": "ca-selection"},
				In: map[string]string{"ca": ca, "test_ca": tc}, Obs: o, Wire: e.String(),
				Nontrivial: o.TestCA != "" && o.CA != o.TestCA, Key: "ca:" + ca + "|" + tc})
		}
	}
}

// ---------------------------------------------------------------- driver

func runC19(tier string, seed int64, outdir string, replay string) error {
	log.SetOutput(io.Discard) // the recovered job panics are logged with a stack trace
	w := emit.NewWriter(outdir, "C19", tier, seed)
	defer w.Close()
	w.Meta.Rule = "retry scripts with at least one retry or a cancellation; job histories in which a name was submitted twice, a job failed or panicked, or the queue was used; CA selections with a distinct test CA"
	r := rand.New(rand.NewSource(seed))
	emitRetry := func(p c19RetryPlan, o c19RetryObs) {
		kind, class := 0, "retry-direct"
		if p.Kind == "async-obtain" {
			kind, class = 1, "retry-async-obtain"
		}
		cancelled := o.CancelNs >= 0
		term := p.Steps[len(p.Steps)-1].Out
		if p.PreCancel {
			class = "retry-precancelled"
		}
		if p.HorizonMs > 0 {
			class = "retry-horizon"
		}
		pj, _ := json.Marshal(p)
		w.Hist("kind=" + class)
		w.Hist(fmt.Sprintf("retry: attempts=%d", len(o.Atts)))
		w.Hist(fmt.Sprintf("retry: result=%s", map[int]string{0: "nil", 1: "canceled-by-f", 2: "noretry", 3: "ctx-canceled", 7: "other", 8: "panic"}[o.Result]))
		w.Hist(fmt.Sprintf("retry: table_len=%d", len(p.TableMs)))
		if cancelled {
			w.Hist("retry: cancelled")
		}
		w.Add(emit.Case{Desc: map[string]any{"kind": class, "class": class, "table_ms": fmt.Sprint(p.TableMs), "terminal": term,
			"attempts": len(o.Atts), "cancelled": cancelled},
			In: p, Obs: o, Wire: c19RetryWire(kind, p, o), Nontrivial: len(o.Atts) > 1 || cancelled, Key: string(pj)})
	}
	emitJobs := func(class string, p c19JobPlan, snaps []c19JobSnap) {
		pj, _ := json.Marshal(p)
		dups, fails, queued, unsettled := 0, 0, 0, 0
		for _, s := range snaps {
			if s.Tag == 1 && s.Kind != 0 {
				fails++
			}
			if len(s.Queue) > 0 {
				queued++
			}
			if !s.Settled {
				unsettled++
			}
			w.Hist(fmt.Sprintf("jobs: op=%s", []string{"submit", "finish-ok", "finish-err", "finish-panic"}[s.Tag*(1+s.Kind)]))
		}
		// a named submission that changed nothing: was the holder of the name queued or running?
		for i, sn := range snaps {
			if sn.Tag != 0 || sn.Name == "" || i == 0 {
				continue
			}
			prev := snaps[i-1]
			held := false
			for _, n := range prev.Names {
				held = held || n == sn.Name
			}
			if !held {
				continue
			}
			inQueue := false
			for _, n := range prev.Queue {
				inQueue = inQueue || n == sn.Name
			}
			if inQueue {
				w.Hist("jobs: duplicate_while_queued")
			} else {
				w.Hist("jobs: duplicate_while_running")
			}
		}
		for i, sn := range snaps {
			if sn.Tag == 1 && sn.Kind == 2 && i+1 < len(snaps) {
				for _, later := range snaps[i+1:] {
					if later.Tag == 0 && later.Name != "" && later.Name == nameOfJob(snaps, sn.ID) {
						w.Hist("jobs: name_resubmitted_after_panic")
						break
					}
				}
			}
		}
		seen := map[string]int{}
		for _, op := range p.Ops {
			if op.Op == "submit" && op.Name != "" {
				seen[op.Name]++
				if seen[op.Name] > 1 {
					dups++
				}
			}
		}
		w.Hist("kind=jobs")
		w.Hist(fmt.Sprintf("jobs: max_workers=%d", p.Max))
		w.Hist(fmt.Sprintf("jobs: steps=%d..", len(snaps)/5*5))
		if unsettled > 0 {
			w.Hist("jobs: not_quiescent_within_1.5s")
		}
		w.Add(emit.Case{Desc: map[string]any{"kind": "jobs", "class": class, "max_workers": p.Max, "steps": len(snaps),
			"resubmitted_names": dups, "failed_or_panicked": fails, "steps_with_queue": queued},
			In: p, Obs: snaps, Wire: c19JobsWire(p, snaps), Nontrivial: dups > 0 || fails > 0 || queued > 0, Key: string(pj)})
	}
	if replay != "" {
		rc, err := loadReplay(replay)
		if err != nil {
			return err
		}
		switch k, _ := rc.Desc["kind"].(string); {
		case strings.HasPrefix(k, "e2e-"):
			var p c19E2EPlan
			if err := json.Unmarshal(rc.In, &p); err != nil {
				return err
			}
			c19E2E(w, []c19E2EPlan{p})
		case k == "renewal-two-submitters":
			c19GRenew(w, 1)
		case k == "jobs-concurrent-submit":
			var p c19BurstPlan
			if err := json.Unmarshal(rc.In, &p); err != nil {
				return err
			}
			// a failure here needs a race: up to 40 runs, emit the first one that looks wrong
			// (a name accepted twice, or fewer/more starts than accepted jobs), else the last
			for i := 0; i < 40; i++ {
				o := c19RunBurst(p)
				seen, bad := map[string]bool{}, false
				acc := 0
				for _, sb := range o.Order {
					if sb.Accepted {
						acc++
						if sb.Name != "" && seen[sb.Name] {
							bad = true
						}
						seen[sb.Name] = true
					}
				}
				if bad || len(o.FinalStarted) != acc || len(o.Running)+len(o.Queue) != acc || i == 39 {
					c19BurstEmit(w, p, o)
					break
				}
			}
		case k == "jobs":
			var p c19JobPlan
			if err := json.Unmarshal(rc.In, &p); err != nil {
				return err
			}
			cl, _ := rc.Desc["class"].(string)
			emitJobs(cl, p, c19RunJobs(p))
		case strings.HasPrefix(k, "retry"):
			var p c19RetryPlan
			if err := json.Unmarshal(rc.In, &p); err != nil {
				return err
			}
			var iv []time.Duration
			for _, ms := range p.TableMs {
				iv = append(iv, time.Duration(ms)*time.Millisecond)
			}
			if p.HorizonMs > 0 {
				// the horizon is a constant of the library: scratch copy, separate process
				c19Horizon(w, [][]c19RetryPlan{{p}}, emitRetry)
				return nil
			}
			restore := certmagic.VerifSetRetryIntervals(iv)
			defer restore()
			if p.Kind == "async-obtain" {
				emitRetry(p, c19RunAsync(p, 0))
			} else {
				emitRetry(p, c19RunDirect(p))
			}
		default:
			c19CASelection(w)
		}
		return nil
	}
	// the schedule the theorems are proved about is the one in the source
	realTable := certmagic.VerifRetryIntervals()
	pos := len(realTable) > 0
	for _, d := range realTable {
		pos = pos && d > 0
	}
	w.Meta.Oracles = append(w.Meta.Oracles, emit.OracleCheck{
		Name: "retryIntervals at run time is non-empty and positive (the table the translator reads is the one the package uses)",
		OK:   pos, Detail: fmt.Sprint(realTable)})

	// ---- corpus: the fixed finding (a panicking job leaked its name and its worker slot)
	corpusJobs := []struct {
		class string
		p     c19JobPlan
	}{
		{"panic-then-resubmit", c19JobPlan{Max: 1, Ops: []c19JobOp{{Op: "submit", Name: "renew_a"}, {Op: "finish", Kind: "panic"},
			{Op: "submit", Name: "renew_a"}, {Op: "submit", Name: "renew_b"}, {Op: "finish", Kind: "ok"}}}},
		{"panic-then-resubmit", c19JobPlan{Max: 2, Ops: []c19JobOp{{Op: "submit", Name: "renew_a"}, {Op: "submit", Name: "renew_b"},
			{Op: "finish", Sel: 0, Kind: "panic"}, {Op: "finish", Sel: 0, Kind: "panic"}, {Op: "submit", Name: "renew_a"},
			{Op: "submit", Name: "renew_b"}, {Op: "submit", Name: "renew_c"}}}},
		{"duplicate-while-queued", c19JobPlan{Max: 1, Ops: []c19JobOp{{Op: "submit", Name: "renew_a"}, {Op: "submit", Name: "renew_b"},
			{Op: "submit", Name: "renew_b"}, {Op: "submit", Name: "renew_a"}, {Op: "submit", Name: ""}, {Op: "submit", Name: ""},
			{Op: "finish", Kind: "err"}, {Op: "submit", Name: "renew_a"}}}},
	}
	for _, c := range corpusJobs {
		emitJobs(c.class, c.p, c19RunJobs(c.p))
	}
	// ---- (a) retry loop, one batch per table (retryIntervals is a package variable)
	mon := c17StartStallMonitor()
	defer mon.Stop()
	batches := c19RetryPlans(tier, r)
	stalledRetry := make([][]bool, len(batches))
	skippedStalled := 0
	for bi, batch := range batches {
		stalledRetry[bi] = make([]bool, len(batch))
		var iv []time.Duration
		for _, ms := range batch[0].TableMs {
			iv = append(iv, time.Duration(ms)*time.Millisecond)
		}
		restore := certmagic.VerifSetRetryIntervals(iv)
		res := make([]c19RetryObs, len(batch))
		sem := make(chan struct{}, 12)
		var wg sync.WaitGroup
		for i := range batch {
			wg.Add(1)
			sem <- struct{}{}
			go func(i int) {
				defer wg.Done()
				defer func() { <-sem }()
				if batch[i].Kind == "async-obtain" {
					res[i] = c19RunAsync(batch[i], i)
					return
				}
				// a cancelled run that returns late may just have been descheduled: run it again
				// (a real delay repeats itself)
				for try := 0; try < 3; try++ {
					t0 := time.Now()
					res[i] = c19RunDirect(batch[i])
					o := res[i]
					stalledRetry[bi][i] = mon.MaxGap(t0, time.Now()) > 10*time.Millisecond
					lateReturn := o.Result == 3 && o.CancelNs >= 0 && o.Te-o.CancelNs > int64(20*time.Millisecond) &&
						(len(o.Atts) == 0 || o.Te-o.Atts[len(o.Atts)-1].End > int64(20*time.Millisecond))
					afterCancel := false
					for _, a := range o.Atts {
						if o.CancelNs >= 0 && a.No > 0 && a.Start > o.CancelNs {
							afterCancel = true // what a stall between the two timers also produces
						}
					}
					if !stalledRetry[bi][i] && !lateReturn && !afterCancel {
						break
					}
				}
			}(i)
		}
		wg.Wait()
		restore()
		for i := range batch {
			if stalledRetry[bi][i] {
				skippedStalled++ // the process was not scheduled for > 10 ms in each of three runs
				w.Hist("skipped_stalled")
				continue
			}
			emitRetry(batch[i], res[i])
		}
	}
	// ---- (a') the horizon: maxRetryDuration shrunk in a scratch copy of the repository (separate process)
	c19Horizon(w, c19HorizonPlans(tier, r), emitRetry)
	// ---- (b) job manager histories
	nJobs := 300
	if tier == "thorough" {
		nJobs = 3000
	}
	plans := make([]c19JobPlan, nJobs)
	for i := range plans {
		plans[i] = c19RandomJobPlan(r)
	}
	snaps := make([][]c19JobSnap, nJobs)
	sem := make(chan struct{}, 8)
	var wg sync.WaitGroup
	for i := range plans {
		wg.Add(1)
		sem <- struct{}{}
		go func(i int) {
			defer wg.Done()
			defer func() { <-sem }()
			snaps[i] = c19RunJobs(plans[i])
		}(i)
	}
	wg.Wait()
	for i := range plans {
		emitJobs("random", plans[i], snaps[i])
	}
	// ---- (b'') both submitters of renewal jobs on the package-level job manager (nothing else of
	// this property is running now)
	c19GRenew(w, 3)
	// ---- (b') submissions from many goroutines at once
	c19Burst(w, c19BurstPlans(tier, r))
	// ---- (c) CA selection, and the test-CA logic end to end against two mock ACME CAs
	c19CASelection(w)
	c19E2E(w, c19E2EPlans(tier, r))
	w.Meta.Notes = append(w.Meta.Notes,
		"retry instants are nanoseconds since just before doWithRetry / ManageAsync was called; the model is driven by the observed call durations and timer latencies (0 <= latency <= 3 s)",
		"class retry-horizon: runs in a scratch copy of the repository made by the harness, in which `const maxRetryDuration` is turned into a variable and set to 100-200 ms by an in-package test (go test, separate process), so that 'final attempt; giving up' is reached; the repository itself and all other classes have the 30-day constant of the source",
		"e2e cases: the real ACMEIssuer against two in-process mock ACME CAs; which CA received an order and which CA signed a certificate are observed at the CAs / by signature check")
	w.Meta.Extra = map[string]any{"retry_cases_skipped_stalled": skippedStalled, "retry_tables_ms": "[30] [30 60 120] [40 40 80 150 150] (+2 in thorough)", "max_retry_duration_ns": int64(certmagic.VerifMaxRetryDuration)}
	return nil
}
