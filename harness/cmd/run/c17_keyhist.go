//go:build !skip_c17_keyhist

package main

import (
	"context"
	"fmt"
	"sync"
	"sync/atomic"
	"time"

	"github.com/caddyserver/certmagic"
	"go.uber.org/zap"

	"verifharness/pkg/doubles"
	"verifharness/pkg/emit"
)

// Class "key-history": one CA + account (one key of acmeClient.throttle) over several phases; each
// phase first sets the exported package variables RateLimitEvents / RateLimitEventsWindow to other
// values (they are restored afterwards) and then releases Callers goroutines into the real throttle
// (hook VerifThrottle) for that same key, each giving up after the deadline. Windows are hours, the
// whole history takes a fraction of a second: every admission of the history lies in one window.
// Observed per phase: callers admitted; whether the limiter registered under the key
// (VerifRateLimiterFor) is still the object of phase 1; its ring length, window and stamps.
type c17KeyPhase struct {
	N       int `json:"rate_limit_events"`
	WindowS int `json:"window_s"`
	Callers int `json:"callers"`
}

type c17KeyPlan struct {
	Phases     []c17KeyPhase `json:"phases"`
	DeadlineMs int           `json:"deadline_ms"`
}

type c17KeyPhaseObs struct {
	Admitted int   `json:"admitted"`
	Same     bool  `json:"same_limiter_object_as_in_phase_1"`
	RingLen  int   `json:"ring_len"`
	Window   int64 `json:"window_ns"`
	Stamps   int   `json:"stamps"`
}

var c17KeySerial atomic.Int64

func c17KeyRun(p c17KeyPlan, cfg *certmagic.Config) []c17KeyPhaseObs {
	origN, origW := certmagic.RateLimitEvents, certmagic.RateLimitEventsWindow
	defer func() { certmagic.RateLimitEvents, certmagic.RateLimitEventsWindow = origN, origW }()
	dir := fmt.Sprintf("https://c17-key-%d-%d.internal/directory", time.Now().UnixNano(), c17KeySerial.Add(1))
	iss := certmagic.NewACMEIssuer(cfg, certmagic.ACMEIssuer{CA: dir, Email: "c17key@example.com", Logger: zap.NewNop()})
	_ = iss.PreCheck(context.Background(), []string{"c17.example"}, false)
	key := dir + ",c17key@example.com"
	var first *certmagic.RingBufferRateLimiter
	var out []c17KeyPhaseObs
	for pi, ph := range p.Phases {
		certmagic.RateLimitEvents, certmagic.RateLimitEventsWindow = ph.N, time.Duration(ph.WindowS)*time.Second
		var admitted atomic.Int32
		var wg sync.WaitGroup
		for i := 0; i < ph.Callers; i++ {
			wg.Add(1)
			go func(i int) {
				defer wg.Done()
				ctx, cancel := context.WithTimeout(context.Background(), time.Duration(p.DeadlineMs)*time.Millisecond)
				defer cancel()
				if certmagic.VerifThrottle(ctx, iss, dir, []string{fmt.Sprintf("p%d-h%d.c17.example", pi, i)}) == nil {
					admitted.Add(1)
				}
			}(i)
		}
		if !c17Within(time.Duration(p.DeadlineMs)*time.Millisecond+3*time.Second, wg.Wait) {
			// callers blocked inside throttle (it holds rateLimitersMu): nothing more can be observed
			c17ThrottleStuck.Store(true)
			return append(out, c17KeyPhaseObs{Admitted: int(admitted.Load())})
		}
		time.Sleep(3 * time.Millisecond) // the loop stores the last stamp after the hand-over
		// no limiter registered yet (no throttle call so far): nothing that could have been replaced
		o := c17KeyPhaseObs{Admitted: int(admitted.Load()), Same: first == nil}
		if rl, ok := certmagic.VerifRateLimiterFor(key); ok {
			if first == nil {
				first = rl
			}
			o.Same = rl == first
			rg, _, w := certmagic.VerifRateLimiterSnapshot(rl)
			o.RingLen, o.Window = len(rg), int64(w)
			for _, t := range rg {
				if !t.IsZero() {
					o.Stamps++
				}
			}
		}
		out = append(out, o)
	}
	if rl, ok := certmagic.VerifRateLimiterFor(key); ok {
		rl.Stop()
	}
	if first != nil {
		func() {
			defer func() { recover() }() // already stopped when it is the registered one
			first.Stop()
		}()
	}
	return out
}

func c17KeyEmit(w *emit.Writer, p c17KeyPlan, obs []c17KeyPhaseObs, idx int) {
	e := &emit.Enc{}
	e.Int(5).Z(int64(time.Duration(p.DeadlineMs) * time.Millisecond)).Len(len(p.Phases))
	changes := 0
	for i, ph := range p.Phases {
		o := obs[i]
		e.Int(ph.N).Z(int64(time.Duration(ph.WindowS) * time.Second)).Int(ph.Callers).Int(o.Admitted).Bool(o.Same).Int(o.RingLen).Z(o.Window).Int(o.Stamps)
		if i > 0 && (ph.N != p.Phases[i-1].N || ph.WindowS != p.Phases[i-1].WindowS) {
			changes++
			switch {
			case ph.N != p.Phases[i-1].N && ph.WindowS != p.Phases[i-1].WindowS:
				w.Hist("key_history: change=limit+window")
			case ph.N != p.Phases[i-1].N:
				w.Hist("key_history: change=limit")
			default:
				w.Hist("key_history: change=window")
			}
		}
	}
	w.Hist("class=key-history")
	w.Hist(fmt.Sprintf("key_history: phases=%d", len(p.Phases)))
	w.Add(emit.Case{Desc: map[string]any{"class": "key-history", "phases": len(p.Phases), "changes_of_the_package_limits": changes},
		In: p, Obs: obs, Wire: e.String(), Nontrivial: changes > 0, Key: fmt.Sprintf("key-history:%d:%v", idx, p.Phases)})
}

func c17KeyPlans(tier string) []c17KeyPlan {
	ps := []c17KeyPlan{
		// the limit never above 3, changed while the key holds stamps
		{DeadlineMs: 60, Phases: []c17KeyPhase{{3, 3600, 3}, {2, 3600, 2}}},
		// only the window changes
		{DeadlineMs: 60, Phases: []c17KeyPhase{{2, 3600, 2}, {2, 4000, 2}}},
		{DeadlineMs: 60, Phases: []c17KeyPhase{{2, 3600, 1}, {3, 7200, 4}, {1, 3600, 2}}},
		{DeadlineMs: 60, Phases: []c17KeyPhase{{1, 7200, 2}, {4, 3600, 3}}},
		// no change: the control
		{DeadlineMs: 60, Phases: []c17KeyPhase{{2, 3600, 1}, {2, 3600, 3}}},
		{DeadlineMs: 60, Phases: []c17KeyPhase{{3, 3600, 2}, {3, 5000, 0}, {2, 5000, 3}}},
		// a first phase without callers: the limiter is created in phase 2, with phase 2's limits
		{DeadlineMs: 60, Phases: []c17KeyPhase{{1, 3600, 0}, {3, 4200, 3}, {2, 3600, 2}}},
	}
	if tier == "thorough" {
		for i := 0; i < 40; i++ {
			var ph []c17KeyPhase
			for j := 0; j < 2+i%3; j++ {
				ph = append(ph, c17KeyPhase{N: 1 + (i+2*j)%4, WindowS: 3600 + 600*((i+j)%3), Callers: (i + 3*j) % 5})
			}
			ps = append(ps, c17KeyPlan{DeadlineMs: 60, Phases: ph})
		}
	}
	return ps
}

func c17KeyHistories(w *emit.Writer, plans []c17KeyPlan) {
	cfg, cache := doubles.NewConfig(doubles.NewMemBackend().Handle("c17key"), certmagic.Config{}, certmagic.CacheOptions{})
	defer cache.Stop()
	for i, p := range plans {
		if c17ThrottleStuck.Load() {
			w.Hist("key_history: skipped_throttle_is_stuck")
			return
		}
		var obs []c17KeyPhaseObs
		for try := 0; try < 3; try++ {
			obs = c17KeyRun(p, cfg)
			if c17ThrottleStuck.Load() {
				w.Hist("key_history: callers_blocked_in_throttle")
				return
			}
			// fewer admissions than the limiter of phase 1 allows although callers were there = the
			// process was not scheduled within the deadline: repeat
			total, want := 0, 0
			for j, o := range obs {
				total += o.Admitted
				want += p.Phases[j].Callers
			}
			n1 := 0 // the limits of the first phase that has callers
			for _, ph := range p.Phases {
				if ph.Callers > 0 {
					n1 = ph.N
					break
				}
			}
			if total >= min(want, n1) {
				break
			}
			w.Hist("key_history: repeated_too_few_admitted")
		}
		c17KeyEmit(w, p, obs, i)
	}
}
