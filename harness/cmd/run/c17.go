//go:build !skip_c17

package main

import (
	"context"
	"encoding/json"
	"fmt"
	"io"
	"log"
	"math/rand"
	"sort"
	"sync"
	"sync/atomic"
	"time"

	"github.com/caddyserver/certmagic"
	"go.uber.org/zap"

	"verifharness/pkg/doubles"
	"verifharness/pkg/emit"
)

func init() { register("C17", runC17) }

// c17Op is one planned operation of a rate-limiter history (the replayable input).
type c17Op struct {
	Op  string `json:"op"`            // wait allow sleep setmax setwin waitcancelled waittimeout burst
	N   int    `json:"n,omitempty"`   // setmax: limit; burst: number of waiters
	Ms  int    `json:"ms,omitempty"`  // sleep / setwin: milliseconds
	Aim string `json:"aim,omitempty"` // allow, waittimeout: early | late | now (relative to the next offer)
}

type c17Plan struct {
	N0   int     `json:"n0"`
	W0ms int     `json:"w0_ms"`
	Ops  []c17Op `json:"ops"`
}

// c17Obs is what one executed operation looked like.
type c17Obs struct {
	Tag    int     `json:"tag"`
	Arg    int64   `json:"arg"`
	C      int64   `json:"call_ns"`
	E      int64   `json:"ret_ns"`
	Res    int     `json:"res"`
	Extra  []int64 `json:"extra,omitempty"`
	Ends   []int64 `json:"ends,omitempty"`
	Ring   []int64 `json:"ring"`
	Cursor int     `json:"cursor"`
	Window int64   `json:"window_ns"`
	Note   string  `json:"note,omitempty"`
}

type c17Result struct {
	TCreate int64
	Obs     []c17Obs
	Waited  int // admissions that had to wait for a slot
	Late    int // Allow retried because the loop goroutine was late
	Near    int // operations within 5 ms of an offer instant
	Config  int // effective reconfigurations
	Anomaly int // timing anomalies that a descheduled process would also produce (case is re-run)
}

const (
	c17Margin = 5 * time.Millisecond
)

// c17Run executes a plan on a fresh real RingBufferRateLimiter.
func c17Run(p c17Plan, rnd *rand.Rand) c17Result {
	origin := time.Now().Add(-time.Hour)
	rel := func(t time.Time) int64 { return int64(t.Sub(origin)) }
	now := func() int64 { return rel(time.Now()) }
	stamp := func(t time.Time) int64 {
		if t.IsZero() {
			return 0
		}
		return rel(t)
	}
	var res c17Result
	r := certmagic.NewRateLimiter(p.N0, time.Duration(p.W0ms)*time.Millisecond)
	defer r.Stop()
	res.TCreate = now()
	type snap struct {
		ring   []int64
		cursor int
		window int64
	}
	take := func() snap {
		rg, c, w := certmagic.VerifRateLimiterSnapshot(r)
		s := snap{cursor: c, window: int64(w)}
		for _, t := range rg {
			s.ring = append(s.ring, stamp(t))
		}
		return s
	}
	maxStamp := func(s snap) int64 {
		var m int64
		for _, x := range s.ring {
			if x > m {
				m = x
			}
		}
		return m
	}
	prev := take()
	// mirror of the instant from which the loop offers a ticket (only used to aim operations
	// away from / at the threshold and to decide on retries; the verdict is the model's)
	dueAt := res.TCreate
	lastAdmit := int64(0)
	lastRet := res.TCreate // return instant of the latest admission
	afterAdmission := func(nAdm int) snap {
		// wait until the stamp(s) are visible, then give the loop time to compute its next offer
		deadline := time.Now().Add(2 * time.Second)
		var s snap
		for {
			s = take()
			if len(s.ring) == 0 || maxStamp(s) > maxStamp(prev) || time.Now().After(deadline) {
				break
			}
			time.Sleep(200 * time.Microsecond)
		}
		time.Sleep(2 * time.Millisecond)
		s = take()
		if len(s.ring) > 0 && s.cursor >= 0 && s.cursor < len(s.ring) {
			dueAt = s.ring[s.cursor] + s.window
		} else {
			dueAt = lastRet // unlimited: the loop offers again at once
		}
		lastAdmit = now()
		return s
	}
	add := func(o c17Obs, s snap) {
		o.Ring, o.Cursor, o.Window = s.ring, s.cursor, s.window
		if o.Ring == nil {
			o.Ring = []int64{}
		}
		res.Obs = append(res.Obs, o)
		prev = s
	}
	nearDue := func(t int64) {
		d := t - dueAt
		if d < 0 {
			d = -d
		}
		if d < int64(c17Margin) {
			res.Near++
		}
	}
	sleepUntil := func(t int64) {
		if d := t - now(); d > 0 {
			time.Sleep(time.Duration(d))
		}
	}
	for _, op := range p.Ops {
		switch op.Op {
		case "wait":
			c := now()
			if dueAt > c {
				res.Waited++
			}
			wctx, wcancel := context.WithTimeout(context.Background(), 15*time.Second)
			werr := r.Wait(wctx)
			wcancel()
			e := now()
			if werr != nil {
				// the limiter never admitted: record it as an operation the model does not know
				add(c17Obs{Tag: 9, C: c, E: e, Note: "Wait did not return within 15 s"}, take())
				return res
			}
			lastRet = e
			if e-max(c, dueAt) > int64(15*time.Millisecond) {
				res.Anomaly++
			}
			add(c17Obs{Tag: 0, C: c, E: e, Res: 1}, afterAdmission(1))
		case "allow":
			slack := dueAt - now()
			note := ""
			switch {
			case op.Aim == "late" && slack < int64(400*time.Millisecond):
				sleepUntil(dueAt + int64(8+rnd.Intn(30))*int64(time.Millisecond))
			case op.Aim == "early" && slack > int64(25*time.Millisecond):
				// call at once
			case op.Aim == "edge" && slack > 0 && slack < int64(400*time.Millisecond):
				sleepUntil(dueAt - int64(2*time.Millisecond) + int64(rnd.Intn(4))*int64(time.Millisecond))
			}
			c := now()
			ok := r.Allow()
			e := now()
			if !ok && c >= dueAt+int64(c17Margin) {
				// the loop goroutine should be offering by now; give it time (scheduling latency)
				for i := 0; i < 1500 && !ok; i++ {
					time.Sleep(time.Millisecond)
					c = now()
					ok = r.Allow()
					e = now()
				}
				res.Anomaly++
				if ok {
					res.Late++
					note = "late offer: Allow retried"
				}
			}
			nearDue(c)
			if ok {
				lastRet = e
				add(c17Obs{Tag: 1, C: c, E: e, Res: 1, Note: note}, afterAdmission(1))
			} else {
				add(c17Obs{Tag: 1, C: c, E: e, Res: 0}, take())
			}
		case "sleep":
			c := now()
			time.Sleep(time.Duration(op.Ms) * time.Millisecond)
			if now()-c-int64(time.Duration(op.Ms)*time.Millisecond) > int64(15*time.Millisecond) {
				res.Anomaly++
			}
			add(c17Obs{Tag: 2, Arg: int64(op.Ms), C: c, E: now()}, take())
		case "setmax", "setwin":
			// keep clear of the loop's "record, then compute the next offer" after an admission
			sleepUntil(lastAdmit + int64(30*time.Millisecond))
			c := now()
			panicked := 0
			func() {
				defer func() {
					if recover() != nil {
						panicked = 1
					}
				}()
				if op.Op == "setmax" {
					r.SetMaxEvents(op.N)
				} else {
					r.SetWindow(time.Duration(op.Ms) * time.Millisecond)
				}
			}()
			e := now()
			s := take()
			if panicked == 0 && (len(s.ring) != len(prev.ring) || s.window != prev.window) {
				res.Config++
			}
			if op.Op == "setmax" {
				add(c17Obs{Tag: 3, Arg: int64(op.N), C: c, E: e, Res: panicked}, s)
			} else {
				add(c17Obs{Tag: 4, Arg: int64(time.Duration(op.Ms) * time.Millisecond), C: c, E: e, Res: panicked}, s)
			}
		case "waitcancelled":
			ctx, cancel := context.WithCancel(context.Background())
			cancel()
			c := now()
			err := r.Wait(ctx)
			e := now()
			nearDue(c)
			if err == nil {
				lastRet = e
				add(c17Obs{Tag: 5, C: c, E: e, Res: 1}, afterAdmission(1))
			} else {
				add(c17Obs{Tag: 5, C: c, E: e, Res: 0}, take())
			}
		case "waittimeout":
			slack := dueAt - now()
			var d time.Duration
			if op.Aim == "early" && slack > int64(90*time.Millisecond) {
				max := slack - int64(60*time.Millisecond)
				if max > int64(80*time.Millisecond) {
					max = int64(80 * time.Millisecond)
				}
				d = 5*time.Millisecond + time.Duration(rnd.Int63n(max-int64(5*time.Millisecond)+1))
			} else {
				if slack < 0 {
					slack = 0
				}
				if slack > int64(400*time.Millisecond) {
					// too long to wait for: cancel early instead
					d = 20 * time.Millisecond
				} else {
					d = time.Duration(slack) + time.Duration(60+rnd.Intn(40))*time.Millisecond
				}
			}
			ctx, cancel := context.WithCancel(context.Background())
			var tcancel atomic.Int64
			c := now()
			tm := time.AfterFunc(d, func() { tcancel.Store(now()); cancel() })
			err := r.Wait(ctx)
			e := now()
			tm.Stop()
			cancel()
			tc := tcancel.Load()
			if tc == 0 {
				tc = c + int64(d)
			}
			if tc-(c+int64(d)) > int64(10*time.Millisecond) || (err != nil && e-tc > int64(10*time.Millisecond)) ||
				(err == nil && e-max(c, dueAt) > int64(15*time.Millisecond)) {
				res.Anomaly++ // cancellation timer or return late
			}
			if err == nil {
				if dueAt > c {
					res.Waited++
				}
				lastRet = e
				add(c17Obs{Tag: 6, Arg: int64(d), C: c, E: e, Res: 1, Extra: []int64{tc}}, afterAdmission(1))
			} else {
				add(c17Obs{Tag: 6, Arg: int64(d), C: c, E: e, Res: 0, Extra: []int64{tc}}, take())
			}
		case "burst":
			if prev.window == 0 && len(prev.ring) > 0 && op.N > len(prev.ring) {
				// with a zero window stamps are overwritten at once: keep the burst within the
				// ring so that every stamp is still there afterwards
				op.N = len(prev.ring)
			}
			var mu sync.Mutex
			var ends []int64
			seen := map[int64]bool{}
			floor := maxStamp(prev)
			collect := func(s snap) {
				for _, x := range s.ring {
					if x > floor {
						seen[x] = true
					}
				}
			}
			// a poller collects every stamp that appears in the ring during the burst (a stamp
			// stays in the ring for at least one window)
			stopPoll := make(chan struct{})
			pollDone := make(chan struct{})
			go func() {
				defer close(pollDone)
				for {
					s := take()
					mu.Lock()
					collect(s)
					mu.Unlock()
					select {
					case <-stopPoll:
						return
					case <-time.After(300 * time.Microsecond):
					}
				}
			}()
			var wg sync.WaitGroup
			c := now()
			for i := 0; i < op.N; i++ {
				wg.Add(1)
				go func() {
					defer wg.Done()
					wctx, wcancel := context.WithTimeout(context.Background(), 20*time.Second)
					werr := r.Wait(wctx)
					wcancel()
					e := now()
					mu.Lock()
					if werr == nil {
						ends = append(ends, e)
					}
					mu.Unlock()
				}()
			}
			wg.Wait()
			e := now()
			for dl := time.Now().Add(2 * time.Second); time.Now().Before(dl); time.Sleep(200 * time.Microsecond) {
				mu.Lock()
				n := len(seen)
				mu.Unlock()
				if n >= op.N || len(prev.ring) == 0 {
					break
				}
			}
			close(stopPoll)
			<-pollDone
			lastRet = e
			s := afterAdmission(op.N)
			collect(s)
			var stamps []int64
			for x := range seen {
				stamps = append(stamps, x)
			}
			sort.Slice(stamps, func(i, j int) bool { return stamps[i] < stamps[j] })
			sort.Slice(ends, func(i, j int) bool { return ends[i] < ends[j] })
			if len(prev.ring) == 0 {
				// unlimited: nothing is stamped; the model uses the return instants
				stamps = append([]int64(nil), ends...)
			}
			if op.N > len(prev.ring) {
				res.Waited += op.N - len(prev.ring)
			}
			add(c17Obs{Tag: 7, Arg: int64(op.N), C: c, E: e, Res: 1, Extra: stamps, Ends: ends}, s)
		}
	}
	return res
}

func c17Wire(p c17Plan, res c17Result) string {
	e := &emit.Enc{}
	e.Int(0) // kind 0: history of one limiter
	e.Int(p.N0).Z(int64(time.Duration(p.W0ms) * time.Millisecond)).Z(res.TCreate).Len(len(res.Obs))
	for _, o := range res.Obs {
		e.Int(o.Tag).Z(o.Arg).Z(o.C).Z(o.E).Int(o.Res).ZList(o.Extra).ZList(o.Ends).ZList(o.Ring).Int(o.Cursor).Z(o.Window)
	}
	return e.String()
}

func c17RandomPlan(r *rand.Rand, maxN int) c17Plan {
	p := c17Plan{N0: 1 + r.Intn(maxN), W0ms: 50 + 10*r.Intn(26)}
	switch r.Intn(12) {
	case 0:
		p.N0, p.W0ms = 0, 0
	case 1:
		p.W0ms = 0
	}
	n := 4 + r.Intn(7)
	budgetMs := 0 // rough bound on the waiting a plan can cause
	curN, curW := p.N0, p.W0ms
	for i := 0; i < n; i++ {
		var op c17Op
		switch k := r.Intn(100); {
		case k < 30:
			op = c17Op{Op: "wait"}
			budgetMs += curW / max(1, curN)
		case k < 45:
			op = c17Op{Op: "allow", Aim: []string{"early", "late", "late", "now", "edge"}[r.Intn(5)]}
			budgetMs += curW / 2
		case k < 55:
			op = c17Op{Op: "sleep", Ms: []int{1, 5, 20, 60, 120, 320}[r.Intn(6)]}
			budgetMs += op.Ms
		case k < 70:
			op = c17Op{Op: "setmax", N: r.Intn(maxN + 3)}
			if r.Intn(8) != 0 && op.N == 0 {
				op.N = 1 + r.Intn(maxN)
			}
			if !(curW != 0 && op.N == 0) {
				curN = op.N
			}
			budgetMs += 30
		case k < 78:
			op = c17Op{Op: "setwin", Ms: []int{0, 50, 80, 120, 200, 300}[r.Intn(6)]}
			if !(op.Ms != 0 && curN == 0) {
				curW = op.Ms
			}
			budgetMs += 30
		case k < 84:
			op = c17Op{Op: "waitcancelled"}
		case k < 92:
			op = c17Op{Op: "waittimeout", Aim: []string{"early", "late"}[r.Intn(2)]}
			budgetMs += curW/2 + 100
		default:
			op = c17Op{Op: "burst", N: 1 + r.Intn(curN+3)}
			budgetMs += curW * (op.N/max(1, curN) + 1)
		}
		p.Ops = append(p.Ops, op)
		if budgetMs > 2500 {
			break
		}
	}
	return p
}

func c17Corpus() []struct {
	class string
	plan  c17Plan
} {
	w := func(k int) []c17Op {
		var o []c17Op
		for i := 0; i < k; i++ {
			o = append(o, c17Op{Op: "wait"})
		}
		return o
	}
	cat := func(parts ...[]c17Op) []c17Op {
		var o []c17Op
		for _, p := range parts {
			o = append(o, p...)
		}
		return o
	}
	one := func(o c17Op) []c17Op { return []c17Op{o} }
	return []struct {
		class string
		plan  c17Plan
	}{
		// the defect found by this property (fixed): growing left the cursor on the oldest stamp,
		// a later shrink kept empty slots and dropped live stamps
		{"grow-then-shrink", c17Plan{N0: 3, W0ms: 240, Ops: cat(w(2), one(c17Op{Op: "sleep", Ms: 150}), w(1),
			one(c17Op{Op: "setmax", N: 6}), w(1), one(c17Op{Op: "setmax", N: 3}), w(3))}},
		{"grow-then-shrink", c17Plan{N0: 2, W0ms: 200, Ops: cat(w(2), one(c17Op{Op: "setmax", N: 5}), w(1),
			one(c17Op{Op: "setmax", N: 2}), w(3))}},
		{"grow-uses-capacity", c17Plan{N0: 2, W0ms: 300, Ops: cat(w(2), one(c17Op{Op: "setmax", N: 4}), w(1),
			[]c17Op{{Op: "allow", Aim: "now"}, {Op: "allow", Aim: "now"}, {Op: "allow", Aim: "early"}})}},
		{"shrink-inflight-offer", c17Plan{N0: 2, W0ms: 200, Ops: cat(w(1), one(c17Op{Op: "sleep", Ms: 120}), w(1),
			one(c17Op{Op: "setmax", N: 1}), w(3))}},
		{"shrink-then-grow", c17Plan{N0: 3, W0ms: 200, Ops: cat(w(3), []c17Op{{Op: "setmax", N: 1}, {Op: "setmax", N: 3}}, w(4))}},
		{"zero-window", c17Plan{N0: 3, W0ms: 100, Ops: cat(w(3), one(c17Op{Op: "setwin", Ms: 0}), w(5),
			[]c17Op{{Op: "allow", Aim: "now"}, {Op: "burst", N: 6}})}},
		{"unlimited", c17Plan{N0: 0, W0ms: 0, Ops: cat(w(4), []c17Op{{Op: "burst", N: 5}, {Op: "setmax", N: 2}, {Op: "setwin", Ms: 100}}, w(3))}},
		{"invalid-config-panics", c17Plan{N0: 2, W0ms: 100, Ops: cat([]c17Op{{Op: "setmax", N: 0}, {Op: "setwin", Ms: 0}, {Op: "setmax", N: 0},
			{Op: "setwin", Ms: 50}}, w(2), []c17Op{{Op: "setmax", N: 2}, {Op: "setwin", Ms: 50}}, w(3))}},
		{"cancel", c17Plan{N0: 1, W0ms: 250, Ops: cat(w(1), []c17Op{{Op: "waitcancelled"}, {Op: "waittimeout", Aim: "early"},
			{Op: "allow", Aim: "early"}, {Op: "waittimeout", Aim: "late"}, {Op: "waitcancelled"}}, w(1))}},
		{"burst", c17Plan{N0: 2, W0ms: 100, Ops: []c17Op{{Op: "burst", N: 5}, {Op: "sleep", Ms: 120}, {Op: "burst", N: 3}}}},
		{"window-change", c17Plan{N0: 2, W0ms: 100, Ops: cat(w(2), one(c17Op{Op: "setwin", Ms: 300}), w(3), one(c17Op{Op: "setwin", Ms: 50}), w(3))}},
		// a burst of more than N waiters after an idle gap longer than the window, right after creation
		{"idle-then-burst", c17Plan{N0: 2, W0ms: 100, Ops: []c17Op{{Op: "sleep", Ms: 250}, {Op: "burst", N: 4}, {Op: "sleep", Ms: 220}, {Op: "burst", N: 3}}}},
		{"idle-then-burst", c17Plan{N0: 1, W0ms: 120, Ops: []c17Op{{Op: "sleep", Ms: 200}, {Op: "wait"}, {Op: "wait"}, {Op: "sleep", Ms: 300}, {Op: "burst", N: 3}}}},
		{"idle-gap", c17Plan{N0: 2, W0ms: 80, Ops: cat(w(2), one(c17Op{Op: "sleep", Ms: 200}), w(3), []c17Op{{Op: "allow", Aim: "early"}, {Op: "allow", Aim: "late"}})}},
	}
}

// c17Throttle validates, on the real acmeClient.throttle, that the limiter is keyed by
// directory URL + "," + e-mail and that one call consumes exactly one slot of that limiter.
func c17Throttle() []emit.OracleCheck {
	cfg, cache := doubles.NewConfig(doubles.NewMemBackend().Handle("c17"), certmagic.Config{}, certmagic.CacheOptions{})
	defer cache.Stop()
	mk := func(email string) *certmagic.ACMEIssuer {
		iss := certmagic.NewACMEIssuer(cfg, certmagic.ACMEIssuer{CA: "https://ca.c17.example/dir", Email: email, Logger: zap.NewNop()})
		_ = iss.PreCheck(context.Background(), []string{"c17.example"}, false)
		return iss
	}
	stamps := func(key string) int {
		rl, ok := certmagic.VerifRateLimiterFor(key)
		if !ok {
			return -1
		}
		rg, _, _ := certmagic.VerifRateLimiterSnapshot(rl)
		n := 0
		for _, t := range rg {
			if !t.IsZero() {
				n++
			}
		}
		return n
	}
	a, b := mk("C17a@Example.com"), mk("c17b@example.com")
	dirA, dirB := "https://ca.c17.example/dir", "https://other.c17.example/dir"
	kA := dirA + ",c17a@example.com"
	kB := dirA + ",c17b@example.com"
	kC := dirB + ",c17a@example.com"
	before := len(certmagic.VerifRateLimiterKeys())
	ctx := context.Background()
	ok := certmagic.VerifThrottle(ctx, a, dirA, []string{"x"}) == nil
	time.Sleep(3 * time.Millisecond)
	s1 := stamps(kA) == 1 && stamps(kB) == -1 && stamps(kC) == -1
	ok = ok && certmagic.VerifThrottle(ctx, a, dirA, []string{"y"}) == nil
	ok = ok && certmagic.VerifThrottle(ctx, b, dirA, []string{"x"}) == nil
	ok = ok && certmagic.VerifThrottle(ctx, a, dirB, []string{"x"}) == nil
	time.Sleep(3 * time.Millisecond)
	s2 := stamps(kA) == 2 && stamps(kB) == 1 && stamps(kC) == 1
	after := len(certmagic.VerifRateLimiterKeys())
	rl, _ := certmagic.VerifRateLimiterFor(kA)
	dflt := rl != nil && rl.MaxEvents() == certmagic.RateLimitEvents && rl.Window() == certmagic.RateLimitEventsWindow
	det := fmt.Sprintf("stamps %s=%d %s=%d %s=%d; keys %d->%d", kA, stamps(kA), kB, stamps(kB), kC, stamps(kC), before, after)
	return []emit.OracleCheck{
		{Name: "throttle: limiter keyed by directory URL + \",\" + lower-cased e-mail, one slot per call (real acmeClient.throttle, 4 calls over 3 keys)", OK: ok && s1 && s2 && after == before+3, Detail: det},
		{Name: "throttle: a new limiter is created with RateLimitEvents / RateLimitEventsWindow", OK: dflt, Detail: det},
	}
}

// c17FirstPlan is one "concurrent first throttle" round: Callers goroutines are released
// together into the real acmeClient.throttle for a CA + account that has no limiter yet, with
// RateLimitEvents = N and a window far longer than the deadline after which the callers give up.
type c17FirstPlan struct {
	N          int `json:"rate_limit_events"`
	WindowS    int `json:"window_s"`
	Callers    int `json:"callers"`
	DeadlineMs int `json:"deadline_ms"`
	Rounds     int `json:"rounds,omitempty"` // replay: how many fresh keys to try
}

// c17ThrottleStuck is set when callers of the real throttle did not come back although their
// contexts had expired long ago (e.g. NewRateLimiter never returned inside throttle, which holds
// rateLimitersMu): from then on nothing that takes that mutex may be called without a watchdog.
var c17ThrottleStuck atomic.Bool

type c17FirstObs struct {
	Blocked  bool   `json:"callers_blocked_in_throttle,omitempty"` // some callers never returned (3 s after their deadline)
	Key      string `json:"key"`
	Admitted int    `json:"admitted"`
	Stamps   int    `json:"stamps_in_registered_limiter"`
	Round    int    `json:"round"`
}

var c17FirstSerial atomic.Int64

// c17FirstRound runs one round on a fresh key. The package variables RateLimitEvents /
// RateLimitEventsWindow must not be used by anything else meanwhile (rounds run one at a time).
func c17FirstRound(p c17FirstPlan, cfg *certmagic.Config) c17FirstObs {
	origN, origW := certmagic.RateLimitEvents, certmagic.RateLimitEventsWindow
	certmagic.RateLimitEvents, certmagic.RateLimitEventsWindow = p.N, time.Duration(p.WindowS)*time.Second
	defer func() { certmagic.RateLimitEvents, certmagic.RateLimitEventsWindow = origN, origW }()
	dir := fmt.Sprintf("https://c17-first-%d-%d.internal/directory", time.Now().UnixNano(), c17FirstSerial.Add(1))
	iss := certmagic.NewACMEIssuer(cfg, certmagic.ACMEIssuer{CA: dir, Email: "c17first@example.com", Logger: zap.NewNop()})
	_ = iss.PreCheck(context.Background(), []string{"c17.example"}, false)
	key := dir + ",c17first@example.com"
	var admitted, start atomic.Int32
	var ready, done sync.WaitGroup
	for i := 0; i < p.Callers; i++ {
		ready.Add(1)
		done.Add(1)
		go func(i int) {
			defer done.Done()
			ready.Done()
			for start.Load() == 0 {
				// spin: all callers that are running leave at the same instant
			}
			ctx, cancel := context.WithTimeout(context.Background(), time.Duration(p.DeadlineMs)*time.Millisecond)
			defer cancel()
			if certmagic.VerifThrottle(ctx, iss, dir, []string{fmt.Sprintf("host%d.c17.example", i)}) == nil {
				admitted.Add(1)
			}
		}(i)
	}
	ready.Wait()
	start.Store(1)
	// the callers' contexts expire after the deadline; a caller that is still not back 3 s later is
	// blocked inside throttle on something that does not honour its context
	if !c17Within(time.Duration(p.DeadlineMs)*time.Millisecond+3*time.Second, done.Wait) {
		c17ThrottleStuck.Store(true)
		return c17FirstObs{Key: key, Admitted: int(admitted.Load()), Blocked: true}
	}
	time.Sleep(2 * time.Millisecond)
	o := c17FirstObs{Key: key, Admitted: int(admitted.Load())}
	if rl, ok := certmagic.VerifRateLimiterFor(key); ok {
		rg, _, _ := certmagic.VerifRateLimiterSnapshot(rl)
		for _, t := range rg {
			if !t.IsZero() {
				o.Stamps++
			}
		}
		rl.Stop()
	}
	return o
}

func c17FirstEmit(w *emit.Writer, p c17FirstPlan, o c17FirstObs) {
	e := &emit.Enc{}
	e.Int(1).Int(p.N).Z(int64(time.Duration(p.WindowS) * time.Second)).Int(p.Callers).
		Z(int64(time.Duration(p.DeadlineMs) * time.Millisecond)).Int(o.Admitted).Int(o.Stamps)
	w.Hist("class=concurrent-first-throttle")
	if o.Blocked {
		w.Hist("first_throttle: callers_blocked_in_throttle")
	}
	w.Hist(fmt.Sprintf("first_throttle: callers=%d limit=%d", p.Callers, p.N))
	w.Add(emit.Case{Desc: map[string]any{"class": "concurrent-first-throttle", "callers": p.Callers, "rate_limit_events": p.N},
		In: p, Obs: o, Wire: e.String(), Nontrivial: p.Callers > p.N, Key: fmt.Sprintf("first:%d:%d:%d", p.N, p.Callers, o.Round)})
}

// c17FirstThrottle runs the rounds of the class; a round in which fewer than min(callers, N)
// got through (the process was not scheduled in time) is repeated on another fresh key.
func c17FirstThrottle(w *emit.Writer, plans []c17FirstPlan, stopAtFailure bool) {
	cfg, cache := doubles.NewConfig(doubles.NewMemBackend().Handle("c17first"), certmagic.Config{}, certmagic.CacheOptions{})
	defer cache.Stop()
	for r, p := range plans {
		var o c17FirstObs
		if c17ThrottleStuck.Load() {
			w.Hist("first_throttle: skipped_throttle_is_stuck")
			break
		}
		for try := 0; try < 3; try++ {
			o = c17FirstRound(p, cfg)
			if o.Admitted >= min(p.Callers, p.N) || p.N == 0 || o.Blocked {
				break
			}
			w.Hist("first_throttle: round_repeated_too_few_admitted")
		}
		o.Round = r
		if stopAtFailure && o.Admitted <= p.N && !o.Blocked && r < len(plans)-1 {
			continue // replay: look for a round that shows the failure; emit the last one otherwise
		}
		c17FirstEmit(w, p, o)
		if stopAtFailure {
			return
		}
	}
}

func runC17(tier string, seed int64, outdir string, replay string) error {
	log.SetOutput(io.Discard) // a limiter whose loop panics logs a stack trace
	w := emit.NewWriter(outdir, "C17", tier, seed)
	defer w.Close()
	w.Meta.Rule = "distinct histories in which at least one admission had to wait for a slot or the limit/window was effectively changed; concurrent-first-throttle rounds with more callers than RateLimitEvents"
	type job struct {
		class string
		plan  c17Plan
		seed  int64
	}
	var jobs []job
	if replay != "" {
		rc, err := loadReplay(replay)
		if err != nil {
			return err
		}
		cl, _ := rc.Desc["class"].(string)
		if cl == "concurrent-first-throttle" {
			var fp c17FirstPlan
			if err := json.Unmarshal(rc.In, &fp); err != nil {
				return err
			}
			// the failure needs a race: try the same parameters on up to 40 fresh keys
			plans := make([]c17FirstPlan, 40)
			for i := range plans {
				plans[i] = fp
			}
			c17FirstThrottle(w, plans, true)
			return nil
		}
		if cl == "reconfigure-under-load" {
			var sp c17StressPlan
			if err := json.Unmarshal(rc.In, &sp); err != nil {
				return err
			}
			// the failure needs a race: the recorded parameters, up to 20 rounds, stop at the first failing one
			for i := 0; i < 20; i++ {
				o := c17StressRound(sp)
				if !(o.CfgReturned && o.Probe && o.FinalReturned && o.Admitted <= sp.N) || i == 19 {
					c17StressEmit(w, sp, o, i)
					break
				}
			}
			return nil
		}
		if cl == "key-history" {
			var kp c17KeyPlan
			if err := json.Unmarshal(rc.In, &kp); err != nil {
				return err
			}
			c17KeyHistories(w, []c17KeyPlan{kp})
			return nil
		}
		if cl == "e2e-throttle" {
			var ep c17E2EPlan
			if err := json.Unmarshal(rc.In, &ep); err != nil {
				return err
			}
			c17E2E(w, []c17E2EPlan{ep})
			return nil
		}
		if cl == "race-detector-stress" {
			c17RaceEmit(w, c17RaceDetector())
			return nil
		}
		var p c17Plan
		if err := json.Unmarshal(rc.In, &p); err != nil {
			return err
		}
		jobs = append(jobs, job{cl, p, seed})
	} else {
		w.Meta.Oracles = append(w.Meta.Oracles, c17Throttle()...)
		// concurrent first throttle, before the timing-sensitive histories start (the callers spin)
		nFirst := 24
		if tier == "thorough" {
			nFirst = 120
		}
		var fplans []c17FirstPlan
		for i := 0; i < nFirst; i++ {
			fplans = append(fplans, c17FirstPlan{N: []int{2, 1, 3, 2}[i%4], WindowS: 3600, Callers: []int{32, 16, 32, 8, 24, 48}[i%6], DeadlineMs: 100})
		}
		fplans = append(fplans, c17FirstPlan{N: 0, WindowS: 0, Callers: 8, DeadlineMs: 100}, c17FirstPlan{N: 40, WindowS: 3600, Callers: 16, DeadlineMs: 100})
		c17FirstThrottle(w, fplans, false)
		// one key of throttle while the exported package limits are changed at run time
		c17KeyHistories(w, c17KeyPlans(tier))
		// the loop goroutine against the setters under load (also before the timing-sensitive part)
		c17Stress(w, c17StressPlans(tier))
		if tier == "thorough" {
			c17RaceEmit(w, c17RaceDetector())
		}
		// first attempts through the real ACMEIssuer against a mock ACME CA (sets the package
		// variables RateLimitEvents / RateLimitEventsWindow: nothing else runs meanwhile)
		c17E2E(w, c17E2EPlans(tier))
		for i, c := range c17Corpus() {
			jobs = append(jobs, job{c.class, c.plan, seed*1000 + int64(i)})
		}
		nRand, maxN := 108, 4
		if tier == "thorough" {
			nRand, maxN = 900, 6
		}
		r := rand.New(rand.NewSource(seed))
		for i := 0; i < nRand; i++ {
			jobs = append(jobs, job{"random", c17RandomPlan(r, maxN), seed*100000 + int64(i)})
		}
	}
	results := make([]c17Result, len(jobs))
	stalled := make([]bool, len(jobs))
	mon := c17StartStallMonitor()
	defer mon.Stop()
	var mu sync.Mutex
	reruns, skipped := 0, 0
	sem := make(chan struct{}, 8)
	var wg sync.WaitGroup
	for i := range jobs {
		wg.Add(1)
		sem <- struct{}{}
		go func(i int) {
			defer wg.Done()
			defer func() { <-sem }()
			for try := 0; try < 3; try++ {
				t0 := time.Now()
				results[i] = c17Run(jobs[i].plan, rand.New(rand.NewSource(jobs[i].seed+int64(try))))
				stalled[i] = mon.MaxGap(t0, time.Now()) > 10*time.Millisecond
				if !stalled[i] && results[i].Anomaly == 0 {
					break
				}
				mu.Lock()
				reruns++
				mu.Unlock()
			}
		}(i)
	}
	wg.Wait()
	late, near := 0, 0
	for i, j := range jobs {
		res := results[i]
		if stalled[i] && replay == "" {
			// the process itself was not scheduled for > 10 ms in each of three runs of this case:
			// its timing says nothing about the limiter
			skipped++
			w.Hist("skipped_stalled")
			continue
		}
		late += res.Late
		near += res.Near
		pj, _ := json.Marshal(j.plan)
		adm := 0
		for _, o := range res.Obs {
			w.Hist("op=" + []string{"Wait", "Allow", "sleep", "SetMaxEvents", "SetWindow", "Wait(cancelled ctx)", "Wait(cancel later)", "burst", "?", "Wait never returned"}[min(o.Tag, 9)])
			switch o.Tag {
			case 0:
				adm++
			case 1:
				w.Hist(fmt.Sprintf("Allow=%v", o.Res == 1))
				adm += o.Res
			case 5, 6:
				w.Hist(fmt.Sprintf("cancelled_wait_admitted=%v", o.Res == 1))
				adm += o.Res
			case 3, 4:
				if o.Res == 1 {
					w.Hist("config_panics")
				}
			case 7:
				adm += int(o.Arg)
				w.Hist(fmt.Sprintf("burst_size=%d", o.Arg))
			}
		}
		w.Hist(fmt.Sprintf("n0=%d", j.plan.N0))
		w.Hist(fmt.Sprintf("w0_ms=%d..", j.plan.W0ms/100*100))
		w.Hist(fmt.Sprintf("admissions=%d..", adm/5*5))
		w.Hist(fmt.Sprintf("waited_admissions=%d", min(res.Waited, 6)))
		w.Hist(fmt.Sprintf("reconfigurations=%d", res.Config))
		w.Add(emit.Case{
			Desc: map[string]any{"class": j.class, "n0": j.plan.N0, "w0_ms": j.plan.W0ms, "ops": len(j.plan.Ops),
				"admissions": adm, "waited": res.Waited, "reconfigurations": res.Config},
			In: j.plan, Obs: res.Obs, Wire: c17Wire(j.plan, res),
			Nontrivial: res.Waited > 0 || res.Config > 0, Key: string(pj)})
	}
	w.Meta.Extra = map[string]any{"cases_rerun_after_a_timing_anomaly_or_stall": reruns, "cases_skipped_stalled": skipped, "late_offer_retries": late, "operations_within_5ms_of_an_offer_instant (either outcome accepted)": near,
		"window_range_ms": "50-300 (and 0)", "concurrency": 8}
	w.Meta.Notes = append(w.Meta.Notes,
		"times are nanoseconds on the monotonic clock, origin one hour before the limiter was created (an empty slot is 0)",
		"verdicts that depend on where in [call, return] the clock was read are accepted either way (margin 5 ms; cancellation 25 ms)")
	return nil
}
