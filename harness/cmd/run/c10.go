//go:build !skip_c10

package main

// C10 — FileStorage on a real directory against the FileSys models.
//
//	kind 0  random / enumerated op sequences over small key trees (differential + spec)
//	kind 1  strace of one Store / Load in a child process (system-call shape of atomicfile)
//	kind 2  concurrent Store/Load histories on one key (goroutines and child processes), tagged values
//	kind 3  writer child killed with SIGKILL at a random instant, value found afterwards

import (
	"bufio"
	"bytes"
	"context"
	"encoding/binary"
	"encoding/json"
	"errors"
	"fmt"
	"io/fs"
	"math/rand"
	"os"
	"os/exec"
	"os/signal"
	"path/filepath"
	"regexp"
	"sort"
	"strconv"
	"strings"
	"sync"
	"sync/atomic"
	"syscall"
	"time"

	"github.com/caddyserver/certmagic"

	"verifharness/pkg/emit"
)

func init() { register("C10", runC10) }

type c10op struct {
	Op  string `json:"op"` // store load delete exists stat list
	Key string `json:"key"`
	Val string `json:"val,omitempty"`
	Rec bool   `json:"rec,omitempty"`
}

type c10obs struct {
	Cls   int      `json:"cls"` // 0 ok, 1 not-exist, 2 other error
	Val   string   `json:"val,omitempty"`
	Flag  bool     `json:"flag,omitempty"`
	Keys  []string `json:"keys,omitempty"`
	Size  int64    `json:"size,omitempty"`
	Error string   `json:"error,omitempty"`
}

func c10cls(err error) int {
	switch {
	case err == nil:
		return 0
	case errors.Is(err, fs.ErrNotExist):
		return 1
	}
	return 2
}

func c10SplitKey(k string) []string {
	if k == "" {
		return nil
	}
	return strings.Split(k, "/")
}

var c10tags = map[string]int{"store": 0, "load": 1, "delete": 2, "exists": 3, "stat": 4, "list": 5}

// c10RunSeq runs ops on a fresh FileStorage and returns what the implementation did.
func c10RunSeq(tmproot string, ops []c10op) []c10obs {
	dir, err := os.MkdirTemp(tmproot, "seq")
	if err != nil {
		panic(err)
	}
	defer os.RemoveAll(dir)
	s := &certmagic.FileStorage{Path: dir}
	ctx := context.Background()
	out := make([]c10obs, 0, len(ops))
	for _, o := range ops {
		var r c10obs
		switch o.Op {
		case "store":
			err := s.Store(ctx, o.Key, []byte(o.Val))
			r.Cls = c10cls(err)
			if err != nil {
				r.Error = err.Error()
			}
		case "load":
			b, err := s.Load(ctx, o.Key)
			r.Cls = c10cls(err)
			r.Val = string(b)
		case "delete":
			err := s.Delete(ctx, o.Key)
			r.Cls = c10cls(err)
			if err != nil {
				r.Error = err.Error()
			}
		case "exists":
			r.Flag = s.Exists(ctx, o.Key)
		case "stat":
			t0 := time.Now()
			ki, err := s.Stat(ctx, o.Key)
			r.Cls = c10cls(err)
			if err == nil {
				r.Flag = ki.IsTerminal
				if ki.IsTerminal {
					r.Size = ki.Size
				}
				if ki.Key != o.Key || ki.Modified.After(t0.Add(2*time.Second)) {
					r.Cls, r.Error = 2, fmt.Sprintf("KeyInfo inconsistent: %+v", ki)
				}
			}
		case "list":
			ks, err := s.List(ctx, o.Key, o.Rec)
			r.Cls = c10cls(err)
			r.Keys = ks
		}
		out = append(out, r)
	}
	return out
}

func c10WireSeq(ops []c10op, obs []c10obs) string {
	e := &emit.Enc{}
	e.Int(0).Len(len(ops))
	for _, o := range ops {
		e.Int(c10tags[o.Op]).StrList(c10SplitKey(o.Key))
		switch o.Op {
		case "store":
			e.Bytes([]byte(o.Val))
		case "list":
			e.Bool(o.Rec)
		}
	}
	e.Len(len(obs))
	for _, r := range obs {
		e.Int(r.Cls).Bytes([]byte(r.Val)).Bool(r.Flag).Len(len(r.Keys))
		for _, k := range r.Keys {
			e.StrList(c10SplitKey(k))
		}
		e.Z(r.Size)
	}
	return e.String()
}

var c10comps = []string{"a", "b", "ab", "a.b"}

// c10RandKey draws a key; mode biases it: 'x' an existing key, 'p' a proper prefix of an
// existing key, 'n' new or anything.
func c10RandKey(r *rand.Rand, pool []string, mode byte) string {
	fresh := func() string {
		d := 1 + r.Intn(3)
		c := make([]string, d)
		for i := range c {
			c[i] = c10comps[r.Intn(len(c10comps))]
		}
		return strings.Join(c, "/")
	}
	if len(pool) == 0 {
		return fresh()
	}
	k := pool[r.Intn(len(pool))]
	c := c10SplitKey(k)
	x := r.Intn(100)
	switch mode {
	case 'x':
		switch {
		case x < 70:
			return k
		case x < 80 && len(c) < 3: // below a file
			return k + "/" + c10comps[r.Intn(len(c10comps))]
		case x < 90:
			return strings.Join(c[:1+r.Intn(len(c))], "/")
		}
	case 'p':
		switch {
		case x < 60 && len(c) > 1:
			return strings.Join(c[:1+r.Intn(len(c)-1)], "/")
		case x < 75:
			return k
		case x < 85:
			return ""
		}
	default:
		switch {
		case x < 25:
			return k // overwrite
		case x < 45: // sibling
			return strings.Join(append(append([]string{}, c[:len(c)-1]...), c10comps[r.Intn(len(c10comps))]), "/")
		case x < 55 && len(c) < 3:
			return k + "/" + c10comps[r.Intn(len(c10comps))]
		case x < 62 && len(c) > 1: // a directory's name as a file key
			return strings.Join(c[:len(c)-1], "/")
		}
	}
	return fresh()
}

func c10RandSeq(r *rand.Rand) []c10op {
	n := 2 + r.Intn(11)
	var pool []string
	ops := make([]c10op, 0, n)
	for i := 0; i < n; i++ {
		var o c10op
		x := r.Intn(100)
		if len(pool) == 0 {
			x = r.Intn(45)
		}
		switch {
		case x < 35:
			v := make([]byte, r.Intn(6))
			for j := range v {
				v[j] = byte('p' + r.Intn(4))
			}
			o = c10op{Op: "store", Key: c10RandKey(r, pool, 'n'), Val: string(v)}
			pool = append(pool, o.Key)
		case x < 50:
			o = c10op{Op: "load", Key: c10RandKey(r, pool, 'x')}
		case x < 62:
			m := byte('x')
			if r.Intn(2) == 0 {
				m = 'p'
			}
			k := c10RandKey(r, pool, m)
			if k == "" {
				k = c10RandKey(r, pool, 'x')
			}
			o = c10op{Op: "delete", Key: k}
		case x < 72:
			o = c10op{Op: "exists", Key: c10RandKey(r, pool, 'x')}
		case x < 80:
			o = c10op{Op: "stat", Key: c10RandKey(r, pool, 'x')}
		default:
			m := byte('p')
			if r.Intn(5) == 0 { // a file key, or a key below a file
				m = 'x'
			}
			o = c10op{Op: "list", Key: c10RandKey(r, pool, m), Rec: r.Intn(2) == 0}
		}
		if o.Key == "" && o.Op != "list" {
			o.Key = "a"
		}
		ops = append(ops, o)
	}
	return ops
}

// features of a sequence, computed from the implementation's observations
func c10Features(ops []c10op, obs []c10obs) (class string, nontrivial bool, feats []string) {
	files := map[string]bool{}
	underFile, delDir, listMulti, overwrite, missing, kinds := false, false, false, false, false, map[string]bool{}
	for i, o := range ops {
		kinds[o.Op] = true
		c := c10SplitKey(o.Key)
		for j := 1; j < len(c); j++ {
			if files[strings.Join(c[:j], "/")] {
				underFile = true
			}
		}
		switch o.Op {
		case "store":
			if obs[i].Cls == 0 {
				if files[o.Key] {
					overwrite = true
				}
				files[o.Key] = true
			}
		case "delete":
			for f := range files {
				if f == o.Key || strings.HasPrefix(f, o.Key+"/") {
					if f != o.Key {
						delDir = true
					}
					delete(files, f)
				}
			}
		case "list":
			if len(obs[i].Keys) >= 2 {
				listMulti = true
			}
			if obs[i].Cls == 1 {
				missing = true
			}
		case "load", "stat":
			if obs[i].Cls == 1 {
				missing = true
			}
		}
	}
	class = "seq"
	if underFile {
		class = "key-under-file"
		feats = append(feats, "key_under_file")
	}
	if delDir {
		feats = append(feats, "delete_of_prefix")
	}
	if listMulti {
		feats = append(feats, "list_ge2")
	}
	if overwrite {
		feats = append(feats, "overwrite")
	}
	if missing {
		feats = append(feats, "missing_key_read")
	}
	nontrivial = len(kinds) >= 3 && (delDir || listMulti || underFile)
	return
}

// ---------------------------------------------------------------- tagged values (kinds 2, 3)

// c10Value builds the value with identity id: header id | size, body derived from id.
func c10Value(id int, size int) []byte {
	if size == 0 {
		return []byte{}
	}
	b := make([]byte, size)
	for i := range b {
		b[i] = byte((id*131 + i*7) % 251)
	}
	if size >= 16 {
		binary.BigEndian.PutUint64(b[0:8], uint64(id))
		binary.BigEndian.PutUint64(b[size-8:], uint64(id))
	}
	return b
}

// c10Identify returns the id whose whole value b is, given the id->size table; -1 otherwise.
func c10Identify(b []byte, sizes map[int]int) int {
	for id, sz := range sizes {
		if sz == len(b) && bytes.Equal(b, c10Value(id, sz)) {
			return id
		}
	}
	return -1
}

// ---------------------------------------------------------------- child modes

func c10Child(dir, spec string) error {
	s := &certmagic.FileStorage{Path: dir}
	ctx := context.Background()
	parts := strings.Split(spec, ":")
	switch parts[0] {
	// the single operations report what the code under test returned ("result <class> <bytes>") and exit 0:
	// an unexpected error is an observation, not a failure of the harness
	case "store":
		n, _ := strconv.Atoi(parts[1])
		err := s.Store(ctx, "x/y/k", c10Value(1, n))
		fmt.Printf("result %d 0\n", c10cls(err))
		return nil
	case "load":
		b, err := s.Load(ctx, "x/y/k")
		fmt.Printf("result %d %d\n", c10cls(err), len(b))
		return nil
	case "delete":
		err := s.Delete(ctx, "x/y/k")
		fmt.Printf("result %d 0\n", c10cls(err))
		return nil
	case "fault": // fault:<limit>:<big>:<small>: Stores under RLIMIT_FSIZE, see c10Fault
		limit, _ := strconv.Atoi(parts[1])
		big, _ := strconv.Atoi(parts[2])
		small, _ := strconv.Atoi(parts[3])
		return c10FaultChild(s, limit, big, small)
	case "crashwriter": // crashwriter:<size>: Store ids 1,2,3... for ever, announcing each
		size, _ := strconv.Atoi(parts[1])
		for id := 1; ; id++ {
			fmt.Fprintf(os.Stdout, "s %d\n", id)
			if err := s.Store(ctx, "d/k", c10Value(id, size+id%5)); err != nil {
				return err
			}
			fmt.Fprintf(os.Stdout, "d %d\n", id)
		}
	case "writer": // writer:<firstid>:<count>:<size>: Stores, reporting wall-clock intervals
		first, _ := strconv.Atoi(parts[1])
		count, _ := strconv.Atoi(parts[2])
		size, _ := strconv.Atoi(parts[3])
		for id := first; id < first+count; id++ {
			t0 := time.Now().UnixNano()
			err := s.Store(ctx, "d/k", c10Value(id, size+id%5))
			t1 := time.Now().UnixNano()
			if err != nil {
				return err
			}
			fmt.Fprintf(os.Stdout, "w %d %d %d\n", id, t0, t1)
		}
		return nil
	}
	return fmt.Errorf("unknown child spec %q", spec)
}

// ---------------------------------------------------------------- kind 1: strace

type c10sev struct{ Code, Class, Arg int64 }

var (
	c10reStrace     = regexp.MustCompile(`^\d+\s+(\w+)\((.*)\)\s+= (-?\d+)`)
	c10reUnfinished = regexp.MustCompile(`^(\d+)\s+(\w+)\((.*) <unfinished \.\.\.>$`)
	c10reResumed    = regexp.MustCompile(`^(\d+)\s+<\.\.\. (\w+) resumed>(.*)$`)
	c10reQuoted     = regexp.MustCompile(`"((?:[^"\\]|\\.)*)"`)
)

// c10Strace runs the harness as a child under strace and projects the trace.
func c10Strace(tmproot, spec string, prepare func(dir string)) ([]c10sev, string, [2]int, error) {
	dir, err := os.MkdirTemp(tmproot, "st")
	if err != nil {
		return nil, "", [2]int{-1, 0}, err
	}
	defer os.RemoveAll(dir)
	store := filepath.Join(dir, "root")
	os.MkdirAll(store, 0o700)
	if prepare != nil {
		prepare(store)
	}
	trf := filepath.Join(dir, "trace")
	cmd := exec.Command("strace", "-f", "-o", trf, "-e",
		"trace=openat,open,creat,write,pwrite64,writev,ftruncate,truncate,fsync,fdatasync,close,rename,renameat,renameat2,unlink,unlinkat,mkdir,mkdirat,read,pread64,readv,fchmod,link,linkat",
		os.Args[0], "C10", "child", "0", store, spec)
	out, err := cmd.CombinedOutput()
	result := [2]int{-1, 0} // what the operation returned: class (0 ok, 1 not-exist, 2 other error; -1 nothing reported), bytes
	for _, ln := range strings.Split(string(out), "\n") {
		fmt.Sscanf(ln, "result %d %d", &result[0], &result[1])
	}
	if err != nil && result[0] == -1 {
		return nil, "", result, fmt.Errorf("strace child: %v: %s", err, out)
	}
	raw, err := os.ReadFile(trf)
	if err != nil {
		return nil, "", result, err
	}
	// join unfinished/resumed pairs
	pending := map[string]string{}
	var lines []string
	for _, ln := range strings.Split(string(raw), "\n") {
		if m := c10reUnfinished.FindStringSubmatch(ln); m != nil {
			pending[m[1]] = m[1] + " " + m[2] + "(" + m[3]
			continue
		}
		if m := c10reResumed.FindStringSubmatch(ln); m != nil {
			if p, ok := pending[m[1]]; ok {
				delete(pending, m[1])
				lines = append(lines, p+m[3])
			}
			continue
		}
		lines = append(lines, ln)
	}
	dest := filepath.Join(store, "x", "y", "k")
	fds := map[string]int64{} // fd -> path class
	classOf := func(p string) int64 {
		switch {
		case p == dest:
			return 1
		case filepath.Dir(p) == filepath.Dir(dest):
			return 2
		case strings.HasPrefix(p, store):
			return 3
		}
		return 0
	}
	var evs []c10sev
	var kept []string
	for _, ln := range lines {
		m := c10reStrace.FindStringSubmatch(ln)
		if m == nil {
			continue
		}
		name, args, ret := m[1], m[2], m[3]
		rv, _ := strconv.ParseInt(ret, 10, 64)
		var paths []string
		for _, q := range c10reQuoted.FindAllStringSubmatch(args, -1) {
			if strings.HasPrefix(q[1], store) {
				paths = append(paths, q[1])
			}
		}
		fdArg := strings.TrimSpace(strings.SplitN(args, ",", 2)[0])
		switch name {
		case "openat", "open", "creat":
			if len(paths) == 0 || rv < 0 {
				continue
			}
			cl := classOf(paths[0])
			var fl int64
			if strings.Contains(args, "O_EXCL") {
				fl |= 1
			}
			if strings.Contains(args, "O_CREAT") || name == "creat" {
				fl |= 2
			}
			if strings.Contains(args, "O_TRUNC") || name == "creat" {
				fl |= 4
			}
			if strings.Contains(args, "O_WRONLY") || strings.Contains(args, "O_RDWR") || name == "creat" {
				fl |= 8
			}
			if strings.Contains(args, "O_DIRECTORY") {
				continue
			}
			fds[ret] = cl
			code := int64(7)
			if fl&(2|8) != 0 {
				code = 1
			}
			evs = append(evs, c10sev{code, cl, fl})
		case "write", "pwrite64", "writev":
			if cl, ok := fds[fdArg]; ok {
				evs = append(evs, c10sev{2, cl, rv})
			} else {
				continue
			}
		case "read", "pread64", "readv":
			if cl, ok := fds[fdArg]; ok {
				evs = append(evs, c10sev{8, cl, rv})
			} else {
				continue
			}
		case "ftruncate":
			if cl, ok := fds[fdArg]; ok {
				evs = append(evs, c10sev{13, cl, 0})
			} else {
				continue
			}
		case "truncate":
			if len(paths) == 0 {
				continue
			}
			evs = append(evs, c10sev{13, classOf(paths[0]), 0})
		case "fsync", "fdatasync":
			if cl, ok := fds[fdArg]; ok {
				evs = append(evs, c10sev{3, cl, 0})
			} else {
				continue
			}
		case "fchmod":
			if cl, ok := fds[fdArg]; ok {
				evs = append(evs, c10sev{11, cl, 0})
			} else {
				continue
			}
		case "close":
			if cl, ok := fds[fdArg]; ok {
				delete(fds, fdArg)
				evs = append(evs, c10sev{4, cl, 0})
			} else {
				continue
			}
		case "rename", "renameat", "renameat2", "link", "linkat":
			if len(paths) < 2 || rv < 0 {
				continue
			}
			// class of the target; the source must be the temp (class 2), else class 3
			cl := classOf(paths[1])
			if classOf(paths[0]) != 2 {
				cl = 3
			}
			evs = append(evs, c10sev{5, cl, 0})
		case "unlink", "unlinkat":
			if len(paths) == 0 || rv < 0 {
				continue
			}
			code := int64(9)
			if classOf(paths[0]) == 2 {
				code = 6
			}
			evs = append(evs, c10sev{code, classOf(paths[0]), 0})
		case "mkdir", "mkdirat":
			if len(paths) == 0 {
				continue
			}
			evs = append(evs, c10sev{10, classOf(paths[0]), 0})
		default:
			continue
		}
		kept = append(kept, strings.Replace(ln, store, "<root>", -1))
	}
	return evs, strings.Join(kept, "\n"), result, nil
}

// ---------------------------------------------------------------- kind 2: concurrent histories

type c10hev struct {
	Load bool  `json:"load"`
	T0   int64 `json:"t0"`
	T1   int64 `json:"t1"`
	ID   int   `json:"id"`
}

// c10History: nW writer goroutines (+ nP writer child processes) and nR readers on one key.
func c10History(tmproot string, r *rand.Rand, size int, nW, nR, nP, perWriter int, emptyID int) ([]c10hev, map[string]any, map[int]int, error) {
	dir, err := os.MkdirTemp(tmproot, "hist")
	if err != nil {
		return nil, nil, nil, err
	}
	defer os.RemoveAll(dir)
	s := &certmagic.FileStorage{Path: dir}
	ctx := context.Background()
	sizes := map[int]int{}
	total := (nW + nP) * perWriter
	for id := 1; id <= total+1; id++ {
		sizes[id] = size + id%5
		if id == emptyID || (emptyID < 0 && id%(-emptyID) == 0) { // emptyID < 0: every |emptyID|-th value is empty
			sizes[id] = 0
		}
	}
	val := func(id int) []byte { return c10Value(id, sizes[id]) }
	var mu sync.Mutex
	var hist []c10hev
	add := func(e c10hev) { mu.Lock(); hist = append(hist, e); mu.Unlock() }
	now := func() int64 { return time.Now().UnixNano() }
	// a committed sibling key in the same directory, listed throughout by the lister below
	sibErr := s.Store(ctx, "d/z", []byte("sibling"))
	// initial value: id total+1
	t0 := now()
	if err := s.Store(ctx, "d/k", val(total+1)); err != nil {
		add(c10hev{false, t0, now(), -2}) // a failed Store is an observation
	} else {
		add(c10hev{false, t0, now(), total + 1})
	}
	var wg sync.WaitGroup
	var stop int32
	var errs, failed []string
	for w := 0; w < nW; w++ {
		wg.Add(1)
		go func(w int) {
			defer wg.Done()
			for j := 0; j < perWriter; j++ {
				id := 1 + w*perWriter + j
				a := now()
				err := s.Store(ctx, "d/k", val(id))
				b := now()
				if err != nil {
					// a Store that fails under contention is an observation, not a harness error
					mu.Lock()
					failed = append(failed, err.Error())
					mu.Unlock()
					add(c10hev{false, a, b, -2})
					continue
				}
				add(c10hev{false, a, b, id})
			}
		}(w)
	}
	var cmds []*exec.Cmd
	var outs []*bytes.Buffer
	for p := 0; p < nP; p++ {
		first := 1 + (nW+p)*perWriter
		// child sizes: c10Child uses size+id%5, same table (emptyID never falls to a child)
		cmd := exec.Command(os.Args[0], "C10", "child", "0", dir, fmt.Sprintf("writer:%d:%d:%d", first, perWriter, size))
		var ob bytes.Buffer
		cmd.Stdout = &ob
		cmd.Stderr = &ob
		if err := cmd.Start(); err != nil {
			return nil, nil, nil, err
		}
		cmds = append(cmds, cmd)
		outs = append(outs, &ob)
	}
	var rg sync.WaitGroup
	lists, listMissing, listErrs := 0, 0, 0
	if size >= 70000 && sibErr == nil { // List racing the in-flight Stores of big values: no committed key may be missing
		rg.Add(1)
		go func() {
			defer rg.Done()
			for n := 0; ; n++ {
				mu.Lock()
				st := stop
				mu.Unlock()
				prefix, rec := "d", n%2 == 0
				if n%3 == 2 {
					prefix = ""
					rec = true
				}
				l, err := s.List(ctx, prefix, rec)
				miss := 0
				if err == nil {
					for _, k := range []string{"d/z", "d/k"} {
						found := false
						for _, x := range l {
							if x == k {
								found = true
							}
						}
						if !found {
							miss++
						}
					}
				}
				mu.Lock()
				if err != nil {
					// filepath.Walk lstats the names it read: a temp file renamed away in between makes the
					// walk, and List, fail with ENOENT - reported to the caller, no verdict here
					listErrs++
				} else {
					lists++
					listMissing += miss
				}
				mu.Unlock()
				if st != 0 {
					return
				}
				time.Sleep(time.Duration(200+rand.Intn(800)) * time.Microsecond)
			}
		}()
	}
	for q := 0; q < nR; q++ {
		rg.Add(1)
		go func() {
			defer rg.Done()
			for {
				mu.Lock()
				st := stop
				mu.Unlock()
				a := now()
				b, err := s.Load(ctx, "d/k")
				c := now()
				id := -1
				if err == nil && len(b) == 0 {
					id = -3 // an empty value (of whichever Store wrote one)
				} else if err == nil {
					id = c10Identify(b, sizes)
				} else if errors.Is(err, fs.ErrNotExist) {
					id = 0
				}
				add(c10hev{true, a, c, id})
				if st != 0 {
					return
				}
				time.Sleep(time.Duration(500+rand.Intn(3000)) * time.Microsecond)
			}
		}()
	}
	wg.Wait()
	for i, c := range cmds {
		if err := c.Wait(); err != nil {
			// the writer child stops at its first failed Store
			failed = append(failed, fmt.Sprintf("child: %v: %s", err, outs[i].String()))
			add(c10hev{false, now(), now(), -2})
		}
		sc := bufio.NewScanner(outs[i])
		for sc.Scan() {
			var id int
			var a, b int64
			if n, _ := fmt.Sscanf(sc.Text(), "w %d %d %d", &id, &a, &b); n == 3 {
				add(c10hev{false, a, b, id})
			}
		}
	}
	mu.Lock()
	stop = 1
	mu.Unlock()
	rg.Wait() // every reader does one more Load after all Stores have completed
	if len(errs) > 0 {
		return nil, nil, nil, fmt.Errorf("history: %v", errs)
	}
	// temp files must not be left behind by completed Stores
	ents, _ := os.ReadDir(filepath.Join(dir, "d"))
	info := map[string]any{"dirents_after": len(ents), "lists": lists, "list_missing": listMissing, "list_errors": listErrs}
	if len(failed) > 0 {
		if len(failed) > 3 {
			failed = failed[:3]
		}
		info["failed_stores"] = failed
	}
	sort.Slice(hist, func(i, j int) bool { return hist[i].T0 < hist[j].T0 })
	base := hist[0].T0
	for i := range hist {
		hist[i].T0 -= base
		hist[i].T1 -= base
	}
	return hist, info, sizes, nil
}

// ---------------------------------------------------------------- kind 4: write faults (RLIMIT_FSIZE)

// c10FaultChild: key d/k gets a 64 KiB value; then the process limits the size of the files it may write
// (RLIMIT_FSIZE, SIGXFSZ ignored: write(2) beyond the limit fails with EFBIG after a partial write) and
// Stores alternately values of <big> bytes (beyond the limit: the Store must fail and change nothing) and
// <small> bytes (must succeed) to d/k while two readers Load it; then a <big> value onto the fresh key
// d/fresh. The limit is lifted and the final state reported. Lines on stdout:
//   w <id> <t0> <t1> ok store | f <id> <t0> <t1> failed store | x <id> ... store with an unexpected result
//   l <t0> <t1> <len> <firstid> <cls> a Load | final ...
func c10FaultChild(s *certmagic.FileStorage, limit, big, small int) error {
	ctx := context.Background()
	now := func() int64 { return time.Now().UnixNano() }
	var mu sync.Mutex
	say := func(f string, a ...any) { mu.Lock(); fmt.Printf(f, a...); mu.Unlock() }
	sizes := map[int]int{1: 65536}
	t0 := now()
	err := s.Store(ctx, "d/k", c10Value(1, 65536))
	say("%s 1 %d %d\n", map[bool]string{true: "w", false: "f"}[err == nil], t0, now())
	signal.Ignore(syscall.SIGXFSZ)
	var old syscall.Rlimit
	syscall.Getrlimit(syscall.RLIMIT_FSIZE, &old)
	if err := syscall.Setrlimit(syscall.RLIMIT_FSIZE, &syscall.Rlimit{Cur: uint64(limit), Max: old.Max}); err != nil {
		return err
	}
	var stop int32
	var rg sync.WaitGroup
	for q := 0; q < 2; q++ {
		rg.Add(1)
		go func() {
			defer rg.Done()
			for atomic.LoadInt32(&stop) == 0 {
				a := now()
				b, err := s.Load(ctx, "d/k")
				c := now()
				id := 0
				if len(b) >= 8 {
					id = int(binary.BigEndian.Uint64(b[:8]))
				}
				whole := 0
				if err == nil && (len(b) == 65536 || len(b) == small+id%5) && bytes.Equal(b, c10Value(id, len(b))) {
					whole = 1
				}
				say("l %d %d %d %d %d %d\n", a, c, len(b), id, c10cls(err), whole)
				time.Sleep(time.Duration(300+rand.Intn(1500)) * time.Microsecond)
			}
		}()
	}
	for j := 0; j < 8; j++ {
		id := 10 + j
		size := small + id%5
		if j%2 == 0 {
			size = big + id%5
		}
		sizes[id] = size
		a := now()
		err := s.Store(ctx, "d/k", c10Value(id, size))
		b := now()
		switch {
		case j%2 == 0 && err != nil:
			say("f %d %d %d\n", id, a, b)
		case j%2 == 1 && err == nil:
			say("w %d %d %d\n", id, a, b)
		default:
			say("x %d %d %d %d\n", id, a, b, c10cls(err))
		}
	}
	errFresh := s.Store(ctx, "d/fresh", c10Value(99, big))
	atomic.StoreInt32(&stop, 1)
	rg.Wait()
	syscall.Setrlimit(syscall.RLIMIT_FSIZE, &old)
	// one more faulted Store over the final value, then the final state
	syscall.Setrlimit(syscall.RLIMIT_FSIZE, &syscall.Rlimit{Cur: uint64(limit), Max: old.Max})
	errOld := s.Store(ctx, "d/k", c10Value(98, big))
	syscall.Setrlimit(syscall.RLIMIT_FSIZE, &old)
	b, lerr := s.Load(ctx, "d/k")
	id := 0
	if len(b) >= 8 {
		id = int(binary.BigEndian.Uint64(b[:8]))
	}
	if lerr != nil || !bytes.Equal(b, c10Value(id, len(b))) || len(b) == 0 {
		id = -1
	}
	_, serr := s.Stat(ctx, "d/fresh")
	ents, _ := os.ReadDir(filepath.Join(s.Path, "d"))
	ex := 0
	if s.Exists(ctx, "d/fresh") {
		ex = 1
	}
	say("final %d %d %d %d %d %d %d\n", c10cls(errOld), c10cls(errFresh), id, len(b), ex, c10cls(serr), len(ents))
	return nil
}

// c10Fault runs the fault child and returns the history (kind 2 wire events) and the final-state tuple.
func c10Fault(tmproot string, limit, big, small int) (hist []c10hev, final []int, raw string, err error) {
	dir, e := os.MkdirTemp(tmproot, "fault")
	if e != nil {
		return nil, nil, "", e
	}
	defer os.RemoveAll(dir)
	cmd := exec.Command(os.Args[0], "C10", "child", "0", dir, fmt.Sprintf("fault:%d:%d:%d", limit, big, small))
	out, e := cmd.CombinedOutput()
	raw = string(out)
	expected := 0
	for _, ln := range strings.Split(raw, "\n") {
		var id, ln2, cls, whole int
		var a, b int64
		switch {
		case strings.HasPrefix(ln, "w "):
			fmt.Sscanf(ln, "w %d %d %d", &id, &a, &b)
			hist = append(hist, c10hev{false, a, b, id})
			expected = id
		case strings.HasPrefix(ln, "f "):
			fmt.Sscanf(ln, "f %d %d %d", &id, &a, &b)
			hist = append(hist, c10hev{false, a, b, -4})
		case strings.HasPrefix(ln, "x "):
			fmt.Sscanf(ln, "x %d %d %d %d", &id, &a, &b, &cls)
			if cls == 0 { // a Store beyond the limit that reports success: an ordinary Store of that value
				hist = append(hist, c10hev{false, a, b, id})
				expected = id
			} else { // a Store within the limit that failed
				hist = append(hist, c10hev{false, a, b, -2})
			}
		case strings.HasPrefix(ln, "l "):
			fmt.Sscanf(ln, "l %d %d %d %d %d %d", &a, &b, &ln2, &id, &cls, &whole)
			switch {
			case cls == 1:
				id = 0
			case whole != 1:
				id = -1
			}
			hist = append(hist, c10hev{true, a, b, id})
		case strings.HasPrefix(ln, "final "):
			final = make([]int, 7)
			var blen int
			fmt.Sscanf(ln, "final %d %d %d %d %d %d %d", &final[0], &final[1], &final[2], &blen, &final[4], &final[5], &final[6])
			final[3] = expected
		}
	}
	if final == nil {
		return nil, nil, raw, fmt.Errorf("fault child reported no final state: %v: %s", e, raw)
	}
	sort.Slice(hist, func(i, j int) bool { return hist[i].T0 < hist[j].T0 })
	if len(hist) > 0 {
		base := hist[0].T0
		for i := range hist {
			hist[i].T0 -= base
			hist[i].T1 -= base
		}
	}
	return hist, final, raw, nil
}

// ---------------------------------------------------------------- kind 6: Store with a context that ends during it

// c10FlipCtx is a context whose Err() starts to report Canceled after it has been asked [after] times:
// a cancellation that arrives at a deterministic point in the middle of a Store that polls its context.
type c10FlipCtx struct {
	context.Context
	calls, after int32
	done         chan struct{}
	once         sync.Once
}

func (c *c10FlipCtx) Err() error {
	if atomic.AddInt32(&c.calls, 1) > c.after {
		c.once.Do(func() { close(c.done) })
		return context.Canceled
	}
	return nil
}
func (c *c10FlipCtx) Done() <-chan struct{} { return c.done }

// c10CtxStores: Stores of multi-MiB values over an existing value and onto fresh keys with contexts that
// end during the Store. Per trial: (result class of Store, what Load returns afterwards: 1 the complete new
// value, 0 the complete old value resp. not-exist for a fresh key, -1 anything else, e.g. a prefix).
func c10CtxStores(tmproot string, r *rand.Rand, n int) (trials [][2]int, descr []string, err error) {
	dir, e := os.MkdirTemp(tmproot, "ctx")
	if e != nil {
		return nil, nil, e
	}
	defer os.RemoveAll(dir)
	s := &certmagic.FileStorage{Path: dir}
	bg := context.Background()
	for i := 0; i < n; i++ {
		size := []int{3 << 20, 1<<20 + 1, 5 << 20, 300000}[i%4]
		fresh := i%2 == 1
		key := fmt.Sprintf("c/k%d", i)
		oldv := c10Value(1000+i, 65536)
		if !fresh {
			if e := s.Store(bg, key, oldv); e != nil {
				return nil, nil, e
			}
		}
		newv := c10Value(2000+i, size)
		var ctx context.Context
		what := ""
		if i%3 == 2 { // cancelled from another goroutine while the write is under way
			c, cancel := context.WithCancel(bg)
			d := time.Duration(r.Intn(1500)) * time.Microsecond
			go func() { time.Sleep(d); cancel() }()
			ctx, what = c, fmt.Sprintf("cancel after %v", d)
			defer cancel()
		} else {
			after := int32([]int{1, 2, 3, 5, 9, 14}[(i/2)%6])
			ctx, what = &c10FlipCtx{Context: bg, after: after, done: make(chan struct{})}, fmt.Sprintf("Err() flips after %d calls", after)
		}
		serr := s.Store(ctx, key, newv)
		b, lerr := s.Load(bg, key)
		loaded := -1
		switch {
		case lerr == nil && bytes.Equal(b, newv):
			loaded = 1
		case lerr == nil && !fresh && bytes.Equal(b, oldv):
			loaded = 0
		case fresh && errors.Is(lerr, fs.ErrNotExist):
			loaded = 0
		}
		trials = append(trials, [2]int{c10cls(serr), loaded})
		descr = append(descr, fmt.Sprintf("%s, %d bytes, fresh=%v: store cls %d, load %d (len %d)", what, size, fresh, c10cls(serr), loaded, len(b)))
	}
	return trials, descr, nil
}

// ---------------------------------------------------------------- kind 3: SIGKILL

func c10Crash(tmproot string, r *rand.Rand, size int, delay time.Duration) (acked, started, loaded, temps, missing int, err error) {
	dir, e := os.MkdirTemp(tmproot, "crash")
	if e != nil {
		return 0, 0, 0, 0, 0, e
	}
	defer os.RemoveAll(dir)
	// a committed sibling key in the same directory: it must stay listed whatever the writer leaves behind
	if e := (&certmagic.FileStorage{Path: dir}).Store(context.Background(), "d/z", []byte("sibling")); e != nil {
		return 0, 0, 0, 0, 0, e
	}
	cmd := exec.Command(os.Args[0], "C10", "child", "0", dir, fmt.Sprintf("crashwriter:%d", size))
	pr, pw, _ := os.Pipe()
	cmd.Stdout = pw
	if e := cmd.Start(); e != nil {
		return 0, 0, 0, 0, 0, e
	}
	pw.Close()
	lines := make(chan string, 1<<16)
	go func() {
		sc := bufio.NewScanner(pr)
		for sc.Scan() {
			lines <- sc.Text()
		}
		close(lines)
	}()
	// wait for the first announced Store so that the kill lands in the write loop
	first := <-lines
	time.Sleep(delay)
	cmd.Process.Signal(syscall.SIGKILL)
	cmd.Wait()
	all := []string{first}
	for l := range lines {
		all = append(all, l)
	}
	pr.Close()
	for _, l := range all {
		var id int
		if n, _ := fmt.Sscanf(l, "s %d", &id); n == 1 {
			started = id
		}
		if n, _ := fmt.Sscanf(l, "d %d", &id); n == 1 {
			acked = id
		}
	}
	s := &certmagic.FileStorage{Path: dir}
	b, e := s.Load(context.Background(), "d/k")
	switch {
	case e == nil:
		sizes := map[int]int{}
		for id := acked - 1; id <= started+1; id++ {
			if id >= 1 {
				sizes[id] = size + id%5
			}
		}
		loaded = c10Identify(b, sizes)
	case errors.Is(e, fs.ErrNotExist):
		loaded = 0
	default:
		loaded = -1
	}
	ents, _ := os.ReadDir(filepath.Join(dir, "d"))
	for _, en := range ents {
		if en.Name() != "k" && en.Name() != "z" {
			temps++
		}
	}
	// List after the crash: every committed key is listed (a leftover temp file may or may not show)
	want := []string{"d/z"}
	if loaded > 0 {
		want = append(want, "d/k")
	}
	has := func(l []string, k string) bool {
		for _, x := range l {
			if x == k {
				return true
			}
		}
		return false
	}
	for _, q := range []struct {
		prefix string
		rec    bool
		keys   []string
	}{{"d", false, want}, {"d", true, want}, {"", true, append([]string{"d"}, want...)}, {"", false, []string{"d"}}} {
		l, e := s.List(context.Background(), q.prefix, q.rec)
		if e != nil {
			missing += len(q.keys)
			continue
		}
		for _, k := range q.keys {
			if !has(l, k) {
				missing++
			}
		}
	}
	return
}

// ---------------------------------------------------------------- driver

func runC10(tier string, seed int64, outdir string, replay string) error {
	if tier == "child" {
		return c10Child(outdir, replay)
	}
	w := emit.NewWriter(outdir, "C10", tier, seed)
	w.Meta.Oracles = []emit.OracleCheck{}
	defer w.Close()
	r := rand.New(rand.NewSource(seed))
	tmproot, err := os.MkdirTemp("", "c10")
	if err != nil {
		return err
	}
	defer os.RemoveAll(tmproot)

	addSeq := func(ops []c10op, origin string) {
		obs := c10RunSeq(tmproot, ops)
		class, nt, feats := c10Features(ops, obs)
		for _, f := range feats {
			w.Hist("seq_feature=" + f)
		}
		for _, o := range ops {
			w.Hist("op=" + o.Op)
		}
		for i, o := range ops {
			w.Hist(fmt.Sprintf("result=%s/%d", o.Op, obs[i].Cls))
		}
		w.Hist(fmt.Sprintf("seq_len=%02d", len(ops)))
		w.Add(emit.Case{Desc: map[string]any{"kind": "seq", "class": class, "origin": origin}, In: ops, Obs: obs,
			Wire: c10WireSeq(ops, obs), Nontrivial: nt})
	}

	if replay != "" {
		rc, err := loadReplay(replay)
		if err != nil {
			return err
		}
		if rc.Desc["kind"] == "seq" {
			var ops []c10op
			if err := json.Unmarshal(rc.In, &ops); err != nil {
				return err
			}
			addSeq(ops, "replay")
			return nil
		}
		// timing-dependent kinds are re-run as a whole below with the recorded seed
	}

	// ---- corpus: witnesses of findings first
	corpus := [][]c10op{
		{{Op: "store", Key: "a", Val: "x"}, {Op: "exists", Key: "a/b"}, {Op: "load", Key: "a/b"}, {Op: "stat", Key: "a/b"},
			{Op: "list", Key: "a/b"}, {Op: "delete", Key: "a/b"}, {Op: "exists", Key: "a"}, {Op: "store", Key: "a/b", Val: "y"}, {Op: "load", Key: "a"}},
		{{Op: "store", Key: "a/b", Val: "1"}, {Op: "store", Key: "ab/c", Val: "2"}, {Op: "store", Key: "a.b", Val: "3"},
			{Op: "list", Key: "a", Rec: true}, {Op: "list", Key: "", Rec: true}, {Op: "list", Key: "", Rec: false},
			{Op: "delete", Key: "a"}, {Op: "exists", Key: "ab/c"}, {Op: "load", Key: "a/b"}, {Op: "list", Key: "", Rec: true}},
		{{Op: "store", Key: "a/b/ab", Val: ""}, {Op: "load", Key: "a/b/ab"}, {Op: "stat", Key: "a/b/ab"}, {Op: "stat", Key: "a/b"},
			{Op: "store", Key: "a/b", Val: "z"}, {Op: "load", Key: "a/b"}, {Op: "delete", Key: "a/b/ab"}, {Op: "exists", Key: "a/b"},
			{Op: "list", Key: "a", Rec: false}, {Op: "delete", Key: "a/b"}, {Op: "list", Key: "a", Rec: true}, {Op: "load", Key: "b"}},
	}
	for _, c := range corpus {
		addSeq(c, "corpus")
	}
	nSeq := 2500
	if tier == "thorough" {
		nSeq = 30000
	}
	for i := 0; i < nSeq; i++ {
		addSeq(c10RandSeq(r), "random")
	}

	// ---- kind 1: strace
	if _, err := exec.LookPath("strace"); err == nil {
		sizes := []int{0, 1, 5000}
		if tier == "thorough" {
			sizes = []int{0, 1, 17, 4096, 5000, 20000}
		}
		type res struct {
			which int
			n     int
			evs   []c10sev
			txt   string
			out   [2]int
			err   error
		}
		ch := make(chan res, 2*len(sizes)+1)
		for _, n := range sizes {
			n := n
			go func() {
				evs, txt, out, err := c10Strace(tmproot, fmt.Sprintf("store:%d", n), nil)
				ch <- res{0, n, evs, txt, out, err}
			}()
			go func() {
				evs, txt, out, err := c10Strace(tmproot, "load", func(store string) {
					s := &certmagic.FileStorage{Path: store}
					s.Store(context.Background(), "x/y/k", c10Value(1, n))
				})
				ch <- res{1, n, evs, txt, out, err}
			}()
		}
		go func() { // Delete of a file key: one unlink of the destination
			evs, txt, out, err := c10Strace(tmproot, "delete", func(store string) {
				s := &certmagic.FileStorage{Path: store}
				s.Store(context.Background(), "x/y/k", c10Value(1, 100))
			})
			ch <- res{2, 100, evs, txt, out, err}
		}()
		var all []res
		for i := 0; i < 2*len(sizes)+1; i++ {
			all = append(all, <-ch)
		}
		sort.Slice(all, func(i, j int) bool { return all[i].which*1000000+all[i].n < all[j].which*1000000+all[j].n })
		for _, x := range all {
			if x.err != nil {
				return x.err
			}
			e := &emit.Enc{}
			e.Int(1).Int(x.which).Int(x.n).Int(x.out[0]).Int(x.out[1]).Len(len(x.evs))
			for _, ev := range x.evs {
				e.Z(ev.Code).Z(ev.Class).Z(ev.Arg)
			}
			name := []string{"Store", "Load", "Delete"}[x.which]
			w.Hist("strace=" + name)
			w.Add(emit.Case{Desc: map[string]any{"kind": "strace", "class": "strace-" + name, "size": x.n}, In: map[string]any{"op": name, "size": x.n},
				Obs: map[string]any{"result_class": x.out[0], "result_bytes": x.out[1], "strace": strings.Split(x.txt, "\n")}, Wire: e.String(), Nontrivial: true, Key: fmt.Sprint("strace", x.which, x.n)})
			w.Hist(fmt.Sprintf("strace_result=%s/%d", name, x.out[0]))
		}
	} else {
		w.Meta.Notes = append(w.Meta.Notes, "strace not found: system-call trace comparison skipped")
	}

	// ---- kind 2: concurrent histories
	type hcfg struct{ size, nW, nR, nP, per, empty int }
	cfgs := []hcfg{{1, 2, 2, 0, 30, 7}, {100, 3, 3, 0, 40, 0}, {70000, 2, 3, 1, 15, 0}, {1 << 20, 2, 2, 0, 6, 3},
		{40, 3, 4, 0, 40, -2}} // every second value is empty
	if tier == "thorough" {
		cfgs = append(cfgs, hcfg{4 << 20, 3, 3, 2, 8, 0}, hcfg{1000, 6, 6, 2, 200, 11}, hcfg{300000, 4, 4, 2, 40, 0}, hcfg{16, 8, 8, 0, 300, 0})
	}
	for _, c := range cfgs {
		hist, info, hsizes, err := c10History(tmproot, r, c.size, c.nW, c.nR, c.nP, c.per, c.empty)
		if err != nil {
			return err
		}
		e := &emit.Enc{}
		e.Int(2).Len(len(hist))
		loads, emptyLoads, distinct := 0, 0, map[int]bool{}
		for _, h := range hist {
			empty := (h.Load && h.ID == -3) || (!h.Load && h.ID > 0 && hsizes[h.ID] == 0)
			e.Bool(h.Load).Z(h.T0).Z(h.T1).Int(h.ID).Bool(empty)
			if h.Load && empty {
				emptyLoads++
			}
			if h.Load {
				loads++
				distinct[h.ID] = true
			}
		}
		w.Hist(fmt.Sprintf("history_size=%d", c.size))
		info["loads"], info["distinct_values_seen"], info["events"], info["loads_of_an_empty_value"] = loads, len(distinct), len(hist), emptyLoads
		if emptyLoads > 0 {
			w.Hist("history_with_empty_value_read")
		}
		info["writers"], info["readers"], info["writer_processes"] = c.nW, c.nR, c.nP
		// the human-readable form keeps only a prefix of long histories
		show := hist
		if len(show) > 40 {
			show = show[:40]
		}
		w.Add(emit.Case{Desc: map[string]any{"kind": "history", "class": "concurrent-history", "size": c.size}, In: c, Obs: map[string]any{"info": info, "first_events": show},
			Wire: e.String(), Nontrivial: len(distinct) >= 3, Key: fmt.Sprint("hist", c)})
		if n, _ := info["lists"].(int); n > 0 {
			miss, _ := info["list_missing"].(int)
			l := &emit.Enc{}
			l.Int(5).Int(n).Int(miss)
			w.Hist("list_during_stores")
			w.Add(emit.Case{Desc: map[string]any{"kind": "list-race", "class": "list-during-stores", "size": c.size}, In: c,
				Obs: map[string]any{"lists_without_error": n, "committed_keys_missing": miss, "lists_that_returned_an_error": info["list_errors"]}, Wire: l.String(), Nontrivial: n >= 5, Key: fmt.Sprint("listrace", c)})
		}
	}

	// ---- kind 4 (+ a kind 2 history): write faults in the middle of Store
	nFault := 2
	if tier == "thorough" {
		nFault = 8
	}
	for i := 0; i < nFault; i++ {
		limit := []int{1 << 20, 300000, 4096, 1 << 16}[i%4]
		small := 100000 // the Stores that must succeed stay well below the limit
		if small > limit/4 {
			small = limit / 4
		}
		hist, final, raw, err := c10Fault(tmproot, limit, 4<<20, small)
		if err != nil {
			return err
		}
		e := &emit.Enc{}
		e.Int(2).Len(len(hist))
		failed, loads := 0, 0
		for _, h := range hist {
			e.Bool(h.Load).Z(h.T0).Z(h.T1).Int(h.ID).Bool(false)
			if h.ID == -4 {
				failed++
			}
			if h.Load {
				loads++
			}
		}
		w.Hist("history_with_write_faults")
		show := hist
		if len(show) > 40 {
			show = show[:40]
		}
		w.Add(emit.Case{Desc: map[string]any{"kind": "history", "class": "write-fault-history", "limit": limit}, In: map[string]any{"rlimit_fsize": limit, "big": 4 << 20, "small": small},
			Obs: map[string]any{"failed_stores": failed, "loads": loads, "first_events": show}, Wire: e.String(), Nontrivial: failed >= 2 && loads >= 3, Key: fmt.Sprint("faulthist", i)})
		f := &emit.Enc{}
		f.Int(4).Len(7)
		for _, x := range final {
			f.Int(x)
		}
		w.Hist(fmt.Sprintf("fault_store_results=%d/%d", final[0], final[1]))
		lines := strings.Split(raw, "\n")
		w.Add(emit.Case{Desc: map[string]any{"kind": "fault", "class": "write-fault", "limit": limit}, In: map[string]any{"rlimit_fsize": limit, "big": 4 << 20},
			Obs: map[string]any{"store_over_existing_cls": final[0], "store_fresh_cls": final[1], "loaded_id": final[2], "expected_id": final[3],
				"fresh_exists": final[4], "stat_fresh_cls": final[5], "dir_entries": final[6], "last_line": lines[len(lines)-2:]},
			Wire: f.String(), Nontrivial: true, Key: fmt.Sprint("fault", i)})
	}

	// ---- kind 6: Stores with a context that ends during the Store
	{
		n := 12
		if tier == "thorough" {
			n = 48
		}
		trials, descr, err := c10CtxStores(tmproot, r, n)
		if err != nil {
			return err
		}
		e := &emit.Enc{}
		e.Int(6).Len(len(trials))
		bad := 0
		for _, t := range trials {
			e.Int(t[0]).Int(t[1])
			if !((t[0] == 0 && t[1] == 1) || (t[0] != 0 && t[1] == 0)) {
				bad++
			}
		}
		w.Hist(fmt.Sprintf("ctx_store_trials_bad=%d", bad))
		w.Add(emit.Case{Desc: map[string]any{"kind": "ctx-store", "class": "store-context-ends"}, In: map[string]any{"trials": n},
			Obs: descr, Wire: e.String(), Nontrivial: true, Key: "ctxstore"})
	}

	// ---- kind 3: SIGKILL of a writer process
	nCrash := 12
	if tier == "thorough" {
		nCrash = 150
	}
	type cres struct {
		size                           int
		acked, started, loaded, temps int
		missing                        int
		err                            error
	}
	cch := make(chan cres, nCrash)
	sem := make(chan struct{}, 4)
	for i := 0; i < nCrash; i++ {
		size := []int{1, 100, 70000, 1 << 20}[i%4]
		delay := time.Duration(r.Intn(8000)) * time.Microsecond
		go func() {
			sem <- struct{}{}
			defer func() { <-sem }()
			a, s, l, t, m, err := c10Crash(tmproot, r, size, delay)
			cch <- cres{size, a, s, l, t, m, err}
		}()
	}
	for i := 0; i < nCrash; i++ {
		c := <-cch
		if c.err != nil {
			return c.err
		}
		e := &emit.Enc{}
		e.Int(3).Int(c.acked).Int(c.started).Int(c.loaded).Int(c.missing)
		w.Hist(fmt.Sprintf("crash_committed_keys_missing_from_list=%d", c.missing))
		w.Hist(fmt.Sprintf("crash_temp_left=%v", c.temps > 0))
		w.Hist(fmt.Sprintf("crash_value=%s", map[bool]string{true: "new", false: "old"}[c.loaded == c.started && c.started != c.acked]))
		w.Add(emit.Case{Desc: map[string]any{"kind": "crash", "class": "sigkill-writer", "size": c.size},
			In:  map[string]any{"size": c.size},
			Obs: map[string]any{"acked": c.acked, "started": c.started, "loaded": c.loaded, "temp_files_left": c.temps, "committed_keys_missing_from_list": c.missing},
			Wire: e.String(), Nontrivial: c.started >= 2, Key: fmt.Sprint("crash", i)})
	}
	w.Meta.Rule = "op sequences with >= 3 op kinds that delete a prefix with children, list >= 2 keys or touch a key below a file; every strace case; histories in which readers saw >= 3 distinct values; kills after at least one completed Store"
	return nil
}
