//go:build !skip_c06c07_fs

package main

// The real FileStorage back-end for the bundle checks.
// C06: whole histories run in this process on a FileStorage directory through a logging wrapper.
// C07, real process death on the real FileStorage: the faulted operation runs in a CHILD PROCESS
// (this same binary, re-executed) on a FileStorage directory through a counting wrapper that sends
// SIGKILL to its own process right after Storage call k has returned. Nothing of the dying
// instance survives but the files: no deferred Unlock, no rollback, no lock-refresh goroutine.
// The parent then does what the property says: a fresh instance manages the same name from the
// surviving directory (waiting out the dead holder's lock by FileStorage's own staleness rule, about
// 10 s), and an on-demand handshake is served from a copy of the directory. The case goes through
// the same wire format and the same Coq check as the in-memory fault experiments.

import (
	"context"
	"encoding/json"
	"errors"
	"fmt"
	"io/fs"
	"os"
	"os/exec"
	"path/filepath"
	"sort"
	"strings"
	"sync"
	"syscall"
	"time"

	"github.com/caddyserver/certmagic"

	"verifharness/pkg/emit"
)

const c07FSChildEnv = "C07_FS_CHILD"

func init() {
	if p := os.Getenv(c07FSChildEnv); p != "" {
		c07FSChildMain(p)
		os.Exit(0)
	}
}

// c07FSStore wraps the real FileStorage; onOp is called after each Storage call has returned.
type c07FSStore struct {
	fs   *certmagic.FileStorage
	mu   sync.Mutex
	onOp func(kind, key, err string)
	// pre, if set, may fail the call before it reaches the FileStorage (injected storage error)
	pre func(kind, key string) error
}

func (s *c07FSStore) inject(kind, key string) error {
	if s.pre == nil {
		return nil
	}
	s.mu.Lock()
	err := s.pre(kind, key)
	if err != nil {
		s.onOp(kind, key, err.Error())
	}
	s.mu.Unlock()
	return err
}

func c07FSErr(err error) string {
	switch {
	case err == nil:
		return ""
	case errors.Is(err, fs.ErrNotExist):
		return "does not exist"
	}
	return "error: " + err.Error()
}
func (s *c07FSStore) done(kind, key string, err error) {
	s.mu.Lock()
	defer s.mu.Unlock()
	s.onOp(kind, key, c07FSErr(err))
}
func (s *c07FSStore) Store(ctx context.Context, key string, value []byte) error {
	if err := s.inject("Store", key); err != nil {
		return err
	}
	err := s.fs.Store(ctx, key, value)
	s.done("Store", key, err)
	return err
}
func (s *c07FSStore) Load(ctx context.Context, key string) ([]byte, error) {
	if err := s.inject("Load", key); err != nil {
		return nil, err
	}
	v, err := s.fs.Load(ctx, key)
	s.done("Load", key, err)
	return v, err
}
func (s *c07FSStore) Delete(ctx context.Context, key string) error {
	if err := s.inject("Delete", key); err != nil {
		return err
	}
	err := s.fs.Delete(ctx, key)
	s.done("Delete", key, err)
	return err
}
func (s *c07FSStore) Exists(ctx context.Context, key string) bool {
	if err := s.inject("Exists", key); err != nil {
		return false
	}
	ok := s.fs.Exists(ctx, key)
	s.done("Exists", key, nil)
	return ok
}
func (s *c07FSStore) List(ctx context.Context, prefix string, recursive bool) ([]string, error) {
	l, err := s.fs.List(ctx, prefix, recursive)
	s.done("List", prefix, err)
	return l, err
}
func (s *c07FSStore) Stat(ctx context.Context, key string) (certmagic.KeyInfo, error) {
	ki, err := s.fs.Stat(ctx, key)
	s.done("Stat", key, err)
	return ki, err
}
func (s *c07FSStore) Lock(ctx context.Context, name string) error {
	if err := s.inject("Lock", name); err != nil {
		return err
	}
	err := s.fs.Lock(ctx, name)
	s.done("Lock", name, err)
	return err
}
func (s *c07FSStore) Unlock(ctx context.Context, name string) error {
	if err := s.inject("Unlock", name); err != nil {
		return err
	}
	err := s.fs.Unlock(ctx, name)
	s.done("Unlock", name, err)
	return err
}

type c07FSEvent struct {
	K      string `json:"k"` // Store Load ... | GenKey IssueOK IssueFail | KeyInfo IssueInfo | Done
	Key    string `json:"key,omitempty"`
	Err    string `json:"err,omitempty"`
	ID     int    `json:"id,omitempty"`
	Digest string `json:"digest,omitempty"`
	Serial string `json:"serial,omitempty"`
	Staple string `json:"staple,omitempty"`
	Chain  string `json:"chain,omitempty"`
	Blocks int    `json:"blocks,omitempty"`
	Res    int    `json:"res,omitempty"`
}

// c07FSSpec: what the child needs to continue the parent's history in its own process.
type c07FSSpec struct {
	Dir     string         `json:"dir"`
	Cfg     c06Cfg         `json:"cfg"`
	Subj    c06Subject     `json:"subject"`
	Hop     c06Hop         `json:"hop"`
	Plan    c06Plan        `json:"plan"` // Crash: SIGKILL after that Storage call (0-based; -1: never); Fails/From: calls failed before they reach the disk
	NextKey int            `json:"next_key"`
	NextSer int            `json:"next_ser"`
	KeyIDs  map[string]int `json:"key_ids"`
	Now     int64          `json:"now"`
	Log     string         `json:"log"`
}

// ---- child ----

func c07FSChildMain(specPath string) {
	raw, err := os.ReadFile(specPath)
	if err != nil {
		os.Exit(3)
	}
	var sp c07FSSpec
	if json.Unmarshal(raw, &sp) != nil {
		os.Exit(3)
	}
	logf, err := os.OpenFile(sp.Log, os.O_WRONLY|os.O_APPEND|os.O_CREATE, 0o644)
	if err != nil {
		os.Exit(3)
	}
	// every event is one write(2): what was written before the SIGKILL is in the file
	put := func(ev c07FSEvent) {
		b, _ := json.Marshal(ev)
		logf.Write(append(b, '\n'))
	}
	w := c06NewWorld(sp.Cfg, sp.Subj)
	w.now = time.Unix(sp.Now, 0)
	w.t0 = w.now.Add(-3000 * time.Hour)
	w.nextKey, w.nextSer = sp.NextKey, sp.NextSer
	for d, id := range sp.KeyIDs {
		w.keyIDs[d] = id
	}
	w.sink = func(kind, key string) { put(c07FSEvent{K: kind, Key: key}) }
	w.onGenKey = func(id int, digest string) { put(c07FSEvent{K: "KeyInfo", ID: id, Digest: digest}) }
	w.onIssued = func(ser int, serial, staple, chain string, blocks int) {
		put(c07FSEvent{K: "IssueInfo", ID: ser, Serial: serial, Staple: staple, Chain: chain, Blocks: blocks})
	}
	w.orc = &sp.Hop.Orc
	cnt := 0
	st := &c07FSStore{fs: &certmagic.FileStorage{Path: sp.Dir}}
	st.pre = func(kind, key string) error {
		if c06CountedKind(kind) && sp.Plan.fails(cnt) {
			return c06ErrInjected
		}
		return nil
	}
	st.onOp = func(kind, key, e string) {
		put(c07FSEvent{K: kind, Key: key, Err: e})
		n := cnt
		cnt++
		if n == sp.Plan.Crash {
			syscall.Kill(syscall.Getpid(), syscall.SIGKILL)
			select {} // never returns to the caller
		}
	}
	cfg, cache := w.newConfigOn(st, false)
	defer cache.Stop()
	ctx, cancel := context.WithTimeout(context.Background(), 60*time.Second)
	defer cancel()
	switch sp.Hop.Op {
	case "obtain":
		err = cfg.ObtainCertSync(ctx, sp.Subj.Spelling)
	case "renew":
		err = cfg.RenewCertSync(ctx, sp.Subj.Spelling, sp.Hop.Force)
	case "manage":
		err = cfg.ManageSync(ctx, []string{sp.Subj.Spelling})
	default:
		os.Exit(3)
	}
	ev := c07FSEvent{K: "Done", Res: c06Classify(err, false)}
	if err != nil {
		ev.Err = err.Error()
	}
	put(ev)
}

// ---- parent ----

type c07FSWorld struct {
	*c06World
	dir string
	mu  sync.Mutex
	evs []c07FSEvent
	cnt int // Storage calls of the current in-process instance
}

// c07NewFSWorld: a bundle world whose storage is the FileStorage directory dir.
func c07NewFSWorld(cfg c06Cfg, subj c06Subject, dir string) *c07FSWorld {
	fw := &c07FSWorld{c06World: c06NewWorld(cfg, subj), dir: dir}
	store := &certmagic.FileStorage{Path: dir}
	fw.rawGet = func(key string) ([]byte, bool) {
		b, err := os.ReadFile(store.Filename(key))
		return b, err == nil
	}
	fw.rawPut = func(key string, val []byte) {
		os.MkdirAll(filepath.Dir(store.Filename(key)), 0o700)
		os.WriteFile(store.Filename(key), val, 0o600)
	}
	fw.snapFn = fw.snapshotFS
	return fw
}

func (fw *c07FSWorld) record(ev c07FSEvent) {
	fw.mu.Lock()
	fw.evs = append(fw.evs, ev)
	fw.mu.Unlock()
}

// toObs converts recorded events into the observation's log (model encoding).
func (fw *c07FSWorld) toObs(o *c06Obs, evs []c07FSEvent) {
	w := fw.c06World
	for _, ev := range evs {
		switch ev.K {
		case "KeyInfo":
			w.keyIDs[ev.Digest] = ev.ID
			if ev.ID >= w.nextKey {
				w.nextKey = ev.ID + 1
			}
		case "IssueInfo":
			w.serIDs[ev.Serial] = ev.ID
			w.stapleSer[ev.Staple] = ev.ID
			w.chainDigest[ev.ID], w.chainBlocks[ev.ID] = ev.Chain, ev.Blocks
			if ev.ID >= w.nextSer {
				w.nextSer = ev.ID + 1
			}
		case "Done":
		default:
			w.addEvent(o, ev.K, ev.Key, ev.Err)
		}
	}
}

// snapshotFS decodes the certificates/ tree of the directory with real crypto.
func (fw *c07FSWorld) snapshotFS(o *c06Obs) {
	var keys []string
	root := filepath.Join(fw.dir, "certificates")
	filepath.WalkDir(root, func(p string, d fs.DirEntry, err error) error {
		if err == nil && d.Type().IsRegular() {
			rel, _ := filepath.Rel(fw.dir, p)
			keys = append(keys, filepath.ToSlash(rel))
		}
		return nil
	})
	sort.Strings(keys)
	fw.snapshotFrom(o, keys, func(k string) []byte {
		b, _ := os.ReadFile(filepath.Join(fw.dir, filepath.FromSlash(k)))
		return b
	})
}

// runLocal: one operation by a fresh instance in THIS process on the directory (set-up, recovery).
func (fw *c07FSWorld) runLocal(h c06Hop, doProbe bool) (c06Obs, bool) {
	return fw.runLocalPlan(h, nil, doProbe)
}

// runLocalPlan: as runLocal; plan (error indices only, no crash) fails Storage calls of this instance
// before they reach the FileStorage. fw.cnt is the number of Storage calls made.
func (fw *c07FSWorld) runLocalPlan(h c06Hop, plan *c06Plan, doProbe bool) (c06Obs, bool) {
	w := fw.c06World
	w.orc, w.more = &h.Orc, h.More
	fw.evs = nil
	w.sink = func(kind, key string) { fw.record(c07FSEvent{K: kind, Key: key}) }
	st := &c07FSStore{fs: &certmagic.FileStorage{Path: fw.dir}}
	fw.cnt = 0
	st.onOp = func(kind, key, e string) {
		fw.record(c07FSEvent{K: kind, Key: key, Err: e})
		if c06CountedKind(kind) {
			fw.cnt++
		}
	}
	if plan != nil {
		st.pre = func(kind, key string) error {
			if c06CountedKind(kind) && plan.fails(fw.cnt) {
				return c06ErrInjected
			}
			return nil
		}
	}
	cfg, cache := w.newConfigOn(st, false)
	defer cache.Stop()
	ctx, cancel := context.WithTimeout(context.Background(), 90*time.Second)
	defer cancel()
	var err error
	switch h.Op {
	case "obtain":
		if len(h.More) > 0 || h.Cancel != "" {
			c2, cancel2 := w.c06CallCtx(ctx, h)
			err = cfg.ObtainCertAsync(c2, w.subj.Spelling)
			cancel2()
		} else {
			err = cfg.ObtainCertSync(ctx, w.subj.Spelling)
		}
	case "renew":
		if len(h.More) > 0 || h.Cancel != "" {
			c2, cancel2 := w.c06CallCtx(ctx, h)
			err = cfg.RenewCertAsync(c2, w.subj.Spelling, h.Force)
			cancel2()
		} else {
			err = cfg.RenewCertSync(ctx, w.subj.Spelling, h.Force)
		}
	case "manage":
		err = cfg.ManageSync(ctx, []string{w.subj.Spelling})
	case "revenv":
		w.revokeEnv(h.I, h.KC)
	case "revapi":
		err = cfg.RevokeCert(ctx, w.subj.Spelling, 0, true)
	default:
		panic("unknown op " + h.Op)
	}
	timedOut := ctx.Err() != nil
	o := c06Obs{Res: c06Classify(err, false)}
	if err != nil {
		o.Err = err.Error()
	}
	if h.Op == "manage" && err == nil {
		certs := certmagic.VerifBundleCachedCertificates(cache)
		if len(certs) == 1 {
			o.Cached = w.seenOf(certs[0])
		} else {
			o.Cached = &c06Seen{Ser: 666666, Key: len(certs)}
		}
	}
	fw.mu.Lock()
	evs := fw.evs
	fw.evs = nil
	fw.mu.Unlock()
	fw.toObs(&o, evs)
	if doProbe {
		w.sink = func(kind, key string) {}
		pc, pcache := w.newConfigOn(&certmagic.FileStorage{Path: fw.dir}, false)
		cert, perr := pc.CacheManagedCertificate(context.Background(), w.subj.Spelling)
		if perr != nil {
			o.ProbeRes = c06Classify(perr, false)
		} else {
			o.Probe = w.seenOf(cert)
		}
		pcache.Stop()
	}
	fw.snapshotFS(&o)
	return o, timedOut
}

// runChild: the faulted operation in a child process that kills itself after Storage call k.
func (fw *c07FSWorld) runChild(h c06Hop, plan c06Plan, scratch string) (c06Obs, int, error) {
	w := fw.c06World
	logPath := filepath.Join(scratch, "child.log")
	spec := c07FSSpec{Dir: fw.dir, Cfg: w.cfg, Subj: w.subj, Hop: h, Plan: plan, NextKey: w.nextKey, NextSer: w.nextSer,
		KeyIDs: w.keyIDs, Now: w.now.Unix(), Log: logPath}
	raw, _ := json.Marshal(spec)
	specPath := filepath.Join(scratch, "spec.json")
	if err := os.WriteFile(specPath, raw, 0o644); err != nil {
		return c06Obs{}, 0, err
	}
	exe, err := os.Executable()
	if err != nil {
		return c06Obs{}, 0, err
	}
	cmd := exec.Command(exe)
	cmd.Env = append(os.Environ(), c07FSChildEnv+"="+specPath)
	runErr := cmd.Run()
	killed := false
	var ee *exec.ExitError
	if errors.As(runErr, &ee) {
		if ws, ok := ee.Sys().(syscall.WaitStatus); ok && ws.Signaled() && ws.Signal() == syscall.SIGKILL {
			killed = true
		} else {
			return c06Obs{}, 0, fmt.Errorf("child failed: %v", runErr)
		}
	} else if runErr != nil {
		return c06Obs{}, 0, runErr
	}
	data, _ := os.ReadFile(logPath)
	var evs []c07FSEvent
	res, errText, counted := 0, "", 0
	for _, line := range strings.Split(string(data), "\n") {
		if strings.TrimSpace(line) == "" {
			continue
		}
		var ev c07FSEvent
		if json.Unmarshal([]byte(line), &ev) != nil {
			return c06Obs{}, 0, fmt.Errorf("child log: bad line %q", line)
		}
		if ev.K == "Done" {
			res, errText = ev.Res, ev.Err
		}
		if c06CountedKind(ev.K) {
			counted++
		}
		evs = append(evs, ev)
	}
	if killed {
		res = 6
	}
	o := c06Obs{Res: res, Err: errText}
	fw.toObs(&o, evs)
	fw.snapshotFS(&o)
	return o, counted, nil
}

func c07CopyTree(src, dst string) error {
	return filepath.WalkDir(src, func(p string, d fs.DirEntry, err error) error {
		if err != nil {
			return err
		}
		rel, _ := filepath.Rel(src, p)
		t := filepath.Join(dst, rel)
		if d.IsDir() {
			return os.MkdirAll(t, 0o755)
		}
		b, err := os.ReadFile(p)
		if err != nil {
			return err
		}
		return os.WriteFile(t, b, 0o644)
	})
}

type c07FSResult struct {
	c    emit.Case
	hist []string
	skip string
}

// c07RunFSCase: set-up in this process, faulted run in a child that dies after call k, recovery by
// a fresh instance here, handshake twin on a copy of the surviving directory.
func c07RunFSCase(in c07In, base string, idx int) c07FSResult {
	scratch := filepath.Join(base, fmt.Sprintf("case%d", idx))
	dir := filepath.Join(scratch, "storage")
	twinDir := filepath.Join(scratch, "twin")
	if err := os.MkdirAll(dir, 0o755); err != nil {
		return c07FSResult{skip: "mkdir: " + err.Error()}
	}
	defer os.RemoveAll(scratch)
	fw := c07NewFSWorld(in.Cfg, in.Subj, dir)
	// the set-up runs in child processes too (which exit normally): a process that has held and
	// released a FileStorage lock keeps a heartbeat goroutine for up to one interval, and that goroutine
	// would adopt and refresh for ever the lock file the dying child creates under the same name
	// (C08's zombie-heartbeat finding) - the recovering process must be a fresh one
	for si, h := range in.Setup {
		sub := filepath.Join(scratch, fmt.Sprintf("setup%d", si))
		os.MkdirAll(sub, 0o755)
		if o, _, err := fw.runChild(h, c06Plan{From: -1, Crash: -1}, sub); err != nil || o.Res != 0 {
			return c07FSResult{skip: fmt.Sprintf("setup failed: %v res=%d %s", err, o.Res, o.Err)}
		}
	}
	var s0 c06Obs
	fw.snapshotFS(&s0)
	o1, counted, err := fw.runChild(in.Hop, in.Plan, scratch)
	if err != nil {
		return c07FSResult{skip: err.Error()}
	}
	if err := c07CopyTree(dir, twinDir); err != nil {
		return c07FSResult{skip: "copy: " + err.Error()}
	}
	// the twin has its own issuers and numbering: only its outcome is observed
	twinCh := make(chan bool, 1)
	go func() {
		tw := c06NewWorld(in.Cfg, in.Subj)
		tw.orc = &in.Rec
		twinCh <- tw.handshakeTwinOn(&certmagic.FileStorage{Path: twinDir})
	}()
	t0 := time.Now()
	o2, timedOut := fw.runLocal(c06Hop{Op: "manage", Orc: in.Rec}, true)
	wait := time.Since(t0)
	twin := <-twinCh
	// a recovery that cannot get the dead holder's lock within 90 s (FileStorage's staleness rule
	// frees it after about 10 s) is not skipped: it is the permanent error the property excludes
	class, window := c07Classify(in, o1)
	e := c07Encode(fw.c06World, in, s0, o1, o2, twin)
	r := c07FSResult{}
	r.hist = []string{"fs:variant=" + in.Variant, "fs:window=" + window, fmt.Sprintf("fs:faulted_res=%d", o1.Res),
		fmt.Sprintf("fs:recover_res=%d", o2.Res), fmt.Sprintf("fs:twin_ok=%v", twin), "fs:class=" + class,
		fmt.Sprintf("fs:recovery_waited_for_stale_lock=%v", wait > 5*time.Second), "backend=" + in.Backend, "fs:kind=" + in.Kind, fmt.Sprintf("fs:recovery_timed_out=%v", timedOut), "fs:keytype=" + in.Cfg.KeyType}
	key, _ := json.Marshal([]any{"fs", in.Variant, in.Plan})
	hit := in.Plan.Crash >= 0 && in.Plan.Crash < counted && o1.Res == 6 || in.Plan.From >= 0 && in.Plan.From < counted
	for _, f := range in.Plan.Fails {
		if f < counted {
			hit = true
		}
	}
	r.c = emit.Case{
		Desc: map[string]any{"class": class, "variant": in.Variant, "kind": in.Kind, "window": window,
			"reuse": in.Cfg.Reuse, "issuers": in.Cfg.N, "fresh_key": c07FreshKey(o1), "backend": in.Backend},
		In: in, Obs: map[string]any{"faulted": o1, "recovered": o2, "handshake_twin_ok": twin, "storage_before": s0.St,
			"recovery_seconds": wait.Seconds()},
		Wire: e.String(), Nontrivial: hit, Key: string(key)}
	return r
}
