//go:build !skip_c20

package main

// C20 — One ACME account per CA and contact: registered once, persisted, always reused.
//
// Four kinds of cases (see coq/theories/Account/Check.v):
//
//	0  lock-step histories of real doIssue calls (separate Config+ACMEIssuer per thread) against
//	   two mock ACME CAs (production: HTTPS, test: plain HTTP on 127.0.0.1) on one MemBackend.
//	   Every storage operation and every newAccount / newOrder request is a gate; the scheduler
//	   grants one thread at a time, may inject a fault, crash the thread or re-install a CA.
//	1  the CA URL rule (newACMEClient) on generated URL strings, with url.Parse and
//	   SubjectIsInternal as observed oracles;
//	2  what a recording proxy sees when the directory is really fetched for such URLs;
//	3  GetAccount with a configured account key (AccountKeyPEM), one call;
//	4  lock-step histories of newACMEClientWithAccount calls with a configured account key (with and
//	   without e-mail) on one storage, from every initial content of the two account files, with
//	   faults and crashes, followed by one more call that runs alone without faults (the probe).
import (
	"context"
	"crypto"
	"crypto/ecdsa"
	"crypto/elliptic"
	crand "crypto/rand"
	"crypto/x509"
	"encoding/base64"
	"encoding/json"
	"encoding/pem"
	"errors"
	"fmt"
	"math/rand"
	"net"
	"net/http"
	"net/http/httptest"
	"net/netip"
	"net/url"
	"os"
	"sort"
	"strconv"
	"strings"
	"sync"
	"time"

	"github.com/caddyserver/certmagic"
	"github.com/mholt/acmez/v3/acme"
	"go.uber.org/zap"

	"verifharness/pkg/doubles"
	"verifharness/pkg/emit"
	"verifharness/pkg/mockca"
)

func init() { register("C20", runC20) }

// ---------------------------------------------------------------- histories

type c20Action struct {
	K string `json:"k"` // start | step | crash | reset
	T int    `json:"t"`
	C int    `json:"c"`
	F bool   `json:"f,omitempty"`
	L bool   `json:"l,omitempty"` // step at a newAccount gate: the CA creates the account, the response is lost
	P string `json:"p,omitempty"` // faulted step at a newOrder gate: which problem the CA answers (see c20OrderProblems; "": unauthorized/403)
}

// c20OrderProblems: what the CA may answer to newOrder (or, "fin-": accept the order and answer
// this to finalize) while the account is perfectly alive. None of them says that the account is
// gone, so none of them may make the client delete or replace its stored account.
var c20OrderProblems = []string{"", "u401", "rl429", "mf400", "fin-u401", "fin-u403", "fin-rl429", "si500"}

func c20Problem(p string) *mockca.Problem {
	switch strings.TrimPrefix(p, "fin-") {
	case "u401":
		return mockca.Prob(401, "unauthorized", "injected CA error (401)")
	case "u403":
		return mockca.Prob(403, "unauthorized", "injected CA error (403)")
	case "rl429":
		return mockca.Prob(429, "rateLimited", "injected CA error: too many requests")
	case "mf400":
		return mockca.Prob(400, "malformed", "injected CA error: malformed")
	case "si500":
		return mockca.Prob(500, "serverInternal", "injected CA error: internal")
	}
	return mockca.Prob(403, "unauthorized", "injected CA error")
}

type c20HistIn struct {
	Kind   string      `json:"kind"` // "hist" | "kphist"
	Email  string      `json:"email"`
	CAs    []int       `json:"cas"` // CA index of every thread (kphist: 1 = the issuer has an e-mail, 0 = none)
	Script []c20Action `json:"script"`
	KP     *c20KPIn    `json:"kp,omitempty"`
	Spell  bool        `json:"spell,omitempty"` // every second instance spells its CA settings differently (same directories)
	EAB    bool        `json:"eab,omitempty"`   // the issuers are configured with an external account (for the production CA)
}

// c20KPIn: initial condition of a history in configured-account-key mode. File contents: 0 absent,
// 1 the configured key / the registration of its account, 2 another key / registration.
type c20KPIn struct {
	Reg0       int  `json:"reg0"`
	Key0       int  `json:"key0"`
	Known      bool `json:"known"` // the CA has an account for the configured key
	ProbeEmail bool `json:"probe_email"`
}

// c20KP is the per-history setup of the configured-account-key mode.
type c20KP struct {
	in     c20KPIn
	pemK   []byte
	tp     string // thumbprint of the configured key
	loc    string // URL of its account
	regKey string
	keyKey string
	probe  int // thread index of the probe (-1 before it starts)
	split  int // number of events before the probe's start
}

const c20KPEmail = "k@example.com"

const (
	c20KLoadReg = 1 + iota
	c20KLoadKey
	c20KLock
	c20KNewAcct
	c20KStoreReg
	c20KStoreKey
	c20KDelReg
	c20KDelKey
	c20KUnlock
	c20KOrder
	c20KLookup
	c20KList
)

var c20KindNames = map[int]string{c20KLoadReg: "LoadReg", c20KLoadKey: "LoadKey", c20KLock: "Lock", c20KNewAcct: "newAccount", c20KStoreReg: "StoreReg",
	c20KStoreKey: "StoreKey", c20KDelReg: "DeleteReg", c20KDelKey: "DeleteKey", c20KUnlock: "Unlock", c20KOrder: "newOrder", c20KLookup: "lookUp", c20KList: "List"}

type c20Event struct {
	Tag   int // 0 start 1 op 2 crash 3 reset 4 newAccount whose response was lost (V: the account created)
	T, C  int
	Fault bool
	Kind  int
	KC    int
	V     int
}

func (e c20Event) String() string {
	switch e.Tag {
	case 0:
		return fmt.Sprintf("start t%d ca%d", e.T, e.C)
	case 1:
		f := ""
		if e.Fault {
			f = " FAULT"
		}
		return fmt.Sprintf("t%d %s ca%d =%d%s", e.T, c20KindNames[e.Kind], e.KC, e.V, f)
	case 2:
		return fmt.Sprintf("crash t%d", e.T)
	case 4:
		return fmt.Sprintf("t%d newAccount ca%d =%d RESPONSE LOST", e.T, e.KC, e.V)
	}
	return fmt.Sprintf("reset ca%d", e.C)
}

type c20Arrival struct {
	t        int
	finished bool
	kind     int
	kc       int
	key      string
	reqSeq   int
	err      error
	acctURL  string
	res      [2]int // configured-key mode: (registration, key) of the account returned
}

type c20Reply struct {
	fault, crash, lost bool
	prob               string
}

type c20Env struct {
	cas    []*mockca.CA
	csr    *x509.CertificateRequest
	spell  bool   // the next history: every second instance spells its CA settings differently (same directories)
	eab    bool   // the next history configures its issuers with the external account below
	eabKey []byte // MAC key of external account c20EABKid, known to both mock CAs (so that both can verify)
}

const c20EABKid = "c20-external-account"

// c20EABRec: one request that carried an externalAccountBinding, or that created an account.
type c20EABRec struct {
	CA       int    `json:"ca"`
	Creating bool   `json:"creating"` // a newAccount request that is not a look-up
	Has      bool   `json:"has_eab"`
	URLCA    int    `json:"url_ca"` // the CA whose newAccount URL the binding names (9: none of them)
	KidOK    bool   `json:"kid_ok"`
	MacOK    bool   `json:"mac_ok"`
	JWKOK    bool   `json:"jwk_ok"`
	Kind     string `json:"kind"`
}

func (env *c20Env) eabRecords() []c20EABRec {
	var out []c20EABRec
	for c, ca := range env.cas {
		for _, q := range ca.Requests() {
			creating := q.Kind == "newAccount" && !q.OnlyReturnExisting
			if q.EAB == nil && !creating {
				continue
			}
			rec := c20EABRec{CA: c, Creating: creating, Has: q.EAB != nil, URLCA: 9, Kind: q.Kind}
			if q.EAB != nil {
				for c2, ca2 := range env.cas {
					if q.EAB.URL == ca2.Base+"/new-acct" {
						rec.URLCA = c2
					}
				}
				rec.KidOK, rec.MacOK, rec.JWKOK = q.EAB.Kid == c20EABKid, q.EAB.MacOK, q.EAB.JWKOK
			}
			out = append(out, rec)
		}
	}
	return out
}

var c20ErrInjected = errors.New("injected storage fault")
var c20ErrCrashed = errors.New("instance crashed")

func c20NewEnv() *c20Env {
	// production CA over HTTPS, test CA over plain HTTP on 127.0.0.1 (an internal address)
	env := &c20Env{cas: []*mockca.CA{
		mockca.New(mockca.Options{TLS: true, AutoValidate: true}),
		mockca.New(mockca.Options{TLS: false, AutoValidate: true}),
	}}
	key, _ := ecdsa.GenerateKey(elliptic.P256(), crand.Reader)
	der, _ := x509.CreateCertificateRequest(crand.Reader, &x509.CertificateRequest{DNSNames: []string{"c20.example.com"}}, key)
	env.csr, _ = x509.ParseCertificateRequest(der)
	env.eabKey = make([]byte, 32)
	crand.Read(env.eabKey)
	for _, ca := range env.cas {
		ca.SetEABKey(c20EABKid, env.eabKey)
	}
	return env
}

func (env *c20Env) close() {
	for _, c := range env.cas {
		c.Close()
	}
}

type c20Final struct {
	CAs      [][3]int `json:"cas"`     // created, reg, key
	Res      [][3]int `json:"results"` // t, loc, key
	LockFree bool     `json:"lock_free"`
}

func (f *c20Final) probeRes(p int) [2]int {
	for _, x := range f.Res {
		if x[0] == p {
			return [2]int{x[1], x[2]}
		}
	}
	return [2]int{9, 9}
}

type c20Thread struct {
	c       int
	state   int // 0 not started, 1 running, 2 at gate, 3 finished
	gate    c20Arrival
	reply   chan c20Reply
	last    int    // index of the event whose value is completed at the next arrival (-1 none)
	lastS   int    // index of the script entry of that event
	ordered [2]int // (account, account of the signing key) of the thread's last accepted order, from the CA's log
	res     [2]int
	nops    int
}

// chooser picks the next action among the enabled ones.
type c20Chooser func(enabled []c20Action, ths []*c20Thread, holder int) (c20Action, bool)

type c20Run struct {
	env      *c20Env
	b        *doubles.MemBackend
	email    string
	ths      []*c20Thread
	arrive   chan c20Arrival
	mu       sync.Mutex
	dead     map[int]bool
	cur      int
	holder   int            // a thread that holds a storage lock (-1: none), for the choosers
	held     map[string]int // storage lock name -> thread that holds it (mutual exclusion is per name, as in a Locker)
	events   []c20Event
	script   []c20Action
	keys     map[string][2]int // storage key -> (ca, 0 reg / 1 key)
	lockNm   string
	kp       *c20KP
	b0       [2]int                  // configured-key mode: the two files when the probe started
	lost     map[[2]int]bool         // (CA, request number): the response of this request is to be dropped
	sticky   map[int]*mockca.Problem // thread -> the answer to every further newOrder of its current operation (acmez retries a 5xx)
	finFlt   map[int]*mockca.Problem // thread -> the answer to its next finalize request
	deadlock bool                    // the history ran into a state where every remaining thread waited for a held lock
	keyChk   [2]string               // the first storage key / lock name that differs from the harness's own naming (recorded, not used)
}

// c20AcctKeys: the storage keys of the account files of (CA, contact), computed by the harness
// itself from the layout the property names — acme/<ca>/users/<email>/<user>.json and .key, with
// <ca> = host-port-path of the directory URL, "default" for a missing e-mail — and not asked of
// certmagic's own key functions (which are only compared with it).
func c20AcctKeys(caURL, email string) (reg, key string) {
	issuer := caURL
	if u, err := url.Parse(caURL); err == nil {
		issuer = strings.ReplaceAll(u.Host, ":", "-")
		if pth := strings.Trim(strings.ReplaceAll(u.Path, "/", "-"), "-"); pth != "" {
			issuer += "-" + pth
		}
	}
	email = strings.ToLower(email)
	folder, user := email, email
	if email == "" {
		folder, user = "default", "default"
	} else if at := strings.Index(email, "@"); at > 0 {
		user = email[:at]
	}
	base := "acme/" + issuer + "/users/" + folder + "/" + user
	return base + ".json", base + ".key"
}

// c20LockName: the name of the registration lock of a contact, by the harness's own reading.
func c20LockName(email string) string {
	if email == "" {
		return "register_acme_account"
	}
	return "register_acme_account_" + email
}

// c20DecodeKey reads a stored private key with the standard library only (certmagic's own decoder
// is not asked): a PEM block holding an EC, PKCS#8 or PKCS#1 key.
func c20DecodeKey(b []byte) (crypto.Signer, error) {
	blk, _ := pem.Decode(b)
	if blk == nil {
		return nil, errors.New("no PEM block")
	}
	if k, err := x509.ParseECPrivateKey(blk.Bytes); err == nil {
		return k, nil
	}
	if k, err := x509.ParsePKCS8PrivateKey(blk.Bytes); err == nil {
		if sg, ok := k.(crypto.Signer); ok {
			return sg, nil
		}
	}
	if k, err := x509.ParsePKCS1PrivateKey(blk.Bytes); err == nil {
		return k, nil
	}
	return nil, errors.New("unknown private key encoding")
}

// the first disagreement between certmagic's storage key / lock names and the harness's own
var c20NameBad string

func c20AcctIdx(url string) int {
	i := strings.LastIndex(url, "/acct/")
	if i < 0 {
		return 0
	}
	n, _ := strconv.Atoi(url[i+6:])
	return n
}

// value held by an account file: index of the account at CA c (0: absent / unknown)
func (r *c20Run) fileVal(key string) int {
	v, ok := r.b.Get(key)
	if !ok {
		return 0
	}
	kc := r.keys[key]
	if r.kp != nil {
		if kc[1] == 0 {
			var a acme.Account
			if json.Unmarshal(v, &a) == nil && a.Location == r.kp.loc {
				return 1
			}
			return 2
		}
		if strings.TrimSpace(string(v)) == strings.TrimSpace(string(r.kp.pemK)) {
			return 1
		}
		return 2
	}
	if kc[1] == 0 {
		var a acme.Account
		if json.Unmarshal(v, &a) != nil {
			return 0
		}
		return c20AcctIdx(a.Location)
	}
	k, err := c20DecodeKey(v)
	if err != nil {
		return 0
	}
	tp, err := mockca.Thumbprint(k.Public())
	if err != nil {
		return 0
	}
	idx := 0
	for _, a := range r.env.cas[kc[0]].Accounts() {
		if a.Thumbprint == tp {
			idx = a.ID
		}
	}
	return idx
}

func (r *c20Run) storageHook(op *doubles.Op) error {
	if !strings.HasPrefix(op.Inst, "t") {
		return nil
	}
	t, _ := strconv.Atoi(op.Inst[1:])
	r.mu.Lock()
	dead := r.dead[t]
	r.mu.Unlock()
	if dead {
		return c20ErrCrashed
	}
	a := c20Arrival{t: t, key: op.Key}
	switch op.Kind {
	case "Load", "Store", "Delete":
		kc, ok := r.keys[op.Key]
		if !ok {
			// not an account file of this history's CAs and contact by the harness's own naming:
			// reported as an operation on a foreign account (CA 9), which no thread is entitled to touch
			kc = [2]int{9, 0}
			if strings.HasSuffix(op.Key, ".key") {
				kc[1] = 1
			}
			r.mu.Lock()
			if r.keyChk[0] == "" {
				r.keyChk[0] = op.Key
			}
			r.mu.Unlock()
		}
		a.kc = kc[0]
		switch {
		case op.Kind == "Load" && kc[1] == 0:
			a.kind = c20KLoadReg
		case op.Kind == "Load":
			a.kind = c20KLoadKey
		case op.Kind == "Store" && kc[1] == 0:
			a.kind = c20KStoreReg
		case op.Kind == "Store":
			a.kind = c20KStoreKey
		case kc[1] == 0:
			a.kind = c20KDelReg
		default:
			a.kind = c20KDelKey
		}
	case "List":
		if r.kp == nil {
			return nil
		}
		a.kind = c20KList
	case "Lock":
		a.kind = c20KLock
		if op.Key != r.lockNm {
			r.mu.Lock()
			if r.keyChk[1] == "" {
				r.keyChk[1] = op.Key
			}
			r.mu.Unlock()
		}
	case "Unlock":
		a.kind = c20KUnlock
	default: // LockAcquired, anything else: not a gate
		return nil
	}
	r.arrive <- a
	rep := <-r.ths[t].reply
	if rep.crash {
		return c20ErrCrashed
	}
	if rep.fault {
		return c20ErrInjected
	}
	return nil
}

func (r *c20Run) caHook(c int) func(*mockca.Request) *mockca.Problem {
	return func(q *mockca.Request) *mockca.Problem {
		var kind int
		switch {
		case q.Kind == "newAccount" && !q.OnlyReturnExisting:
			kind = c20KNewAcct
		case q.Kind == "newAccount" && r.kp != nil:
			kind = c20KLookup
		case q.Kind == "newOrder":
			kind = c20KOrder
		case q.Kind == "finalize":
			r.mu.Lock()
			p := r.finFlt[r.cur]
			delete(r.finFlt, r.cur)
			r.mu.Unlock()
			return p
		default:
			return nil
		}
		r.mu.Lock()
		t := r.cur
		dead := r.dead[t]
		st := r.sticky[t]
		r.mu.Unlock()
		if dead {
			return mockca.Prob(403, "unauthorized", "instance crashed")
		}
		if kind == c20KOrder && st != nil {
			return st // a retry of the request that was answered with a 5xx: same answer, no new gate
		}
		r.arrive <- c20Arrival{t: t, kind: kind, kc: c, reqSeq: q.Seq}
		rep := <-r.ths[t].reply
		if rep.crash {
			return mockca.Prob(403, "unauthorized", "instance crashed")
		}
		if rep.fault {
			pr := c20Problem(rep.prob)
			if kind == c20KOrder && strings.HasPrefix(rep.prob, "fin-") {
				r.mu.Lock()
				r.finFlt[t] = pr // the order is accepted; its finalize request is refused
				r.mu.Unlock()
				return nil
			}
			if kind == c20KOrder && pr.Status >= 500 {
				r.mu.Lock()
				r.sticky[t] = pr
				r.mu.Unlock()
			}
			return pr
		}
		if rep.lost {
			r.mu.Lock()
			r.lost[[2]int{c, q.Seq}] = true
			r.mu.Unlock()
		}
		return nil
	}
}

func (r *c20Run) startThread(t int) {
	th := r.ths[t]
	cfg, cache := doubles.NewConfig(r.b.Handle(fmt.Sprintf("t%d", t)), certmagic.Config{}, certmagic.CacheOptions{})
	if r.kp != nil {
		ca := r.env.cas[0]
		iss := certmagic.NewACMEIssuer(cfg, certmagic.ACMEIssuer{CA: ca.URL, AccountKeyPEM: string(r.kp.pemK), Agreed: true, TrustedRoots: ca.Roots(),
			Logger: zap.NewNop(), HTTPProxy: func(*http.Request) (*url.URL, error) { return nil, nil }})
		cfg.Issuers = []certmagic.Issuer{iss}
		if th.c == 1 {
			certmagic.VerifAccountSetEmail(iss, c20KPEmail)
		} else {
			certmagic.VerifAccountSetEmail(iss, "")
		}
		go func() {
			defer cache.Stop()
			a := c20Arrival{t: t, finished: true}
			func() {
				defer func() {
					if p := recover(); p != nil {
						a.err = fmt.Errorf("PANIC in newACMEClientWithAccount: %v", p)
					}
				}()
				ctx, cancel := context.WithTimeout(context.Background(), 60*time.Second)
				defer cancel()
				acct, _, err := certmagic.VerifAccountNewACMEClientWithAccount(ctx, iss, false)
				a.err = err
				if err == nil {
					a.res = [2]int{2, 2}
					if acct.Location == r.kp.loc {
						a.res[0] = 1
					}
					if acct.PrivateKey != nil {
						if tp, e := mockca.Thumbprint(acct.PrivateKey.Public()); e == nil && tp == r.kp.tp {
							a.res[1] = 1
						}
					}
				}
			}()
			r.arrive <- a
		}()
		return
	}
	// the same two directories, spelled differently by every second instance: the production CA
	// without its scheme (HTTPS is assumed), or the other instances' test CA configured as this
	// instance's primary CA. Same directory => same account files => it must be the same account.
	caStr, testStr, viaPrimary := r.env.cas[0].URL, r.env.cas[1].URL, false
	if r.env.spell && t%2 == 1 {
		if th.c == 0 {
			caStr = strings.TrimPrefix(caStr, "https://")
		} else {
			caStr, testStr, viaPrimary = r.env.cas[1].URL, "", true
		}
	}
	iss := certmagic.NewACMEIssuer(cfg, certmagic.ACMEIssuer{CA: caStr, TestCA: testStr, Agreed: true,
		TrustedRoots: r.env.cas[0].Roots(), Logger: zap.NewNop(), HTTPProxy: func(*http.Request) (*url.URL, error) { return nil, nil }})
	cfg.Issuers = []certmagic.Issuer{iss}
	certmagic.VerifAccountSetEmail(iss, r.email)
	if r.env.eab {
		iss.ExternalAccount = &acme.EAB{KeyID: c20EABKid, MACKey: base64.RawURLEncoding.EncodeToString(r.env.eabKey)}
	}
	attempts := 0
	if th.c == 1 && !viaPrimary {
		attempts = 1 // doIssue(useTestCA)
	}
	go func() {
		defer cache.Stop()
		a := c20Arrival{t: t, finished: true}
		func() {
			defer func() {
				if p := recover(); p != nil {
					a.err = fmt.Errorf("PANIC in doIssue: %v", p)
				}
			}()
			ctx, cancel := context.WithTimeout(context.Background(), 60*time.Second)
			defer cancel()
			ic, _, err := certmagic.VerifAccountDoIssue(ctx, iss, r.env.csr, attempts)
			a.err = err
			if err == nil && ic != nil {
				if m, ok := ic.Metadata.(acme.Certificate); ok {
					a.acctURL = m.Account
				}
			}
		}()
		r.arrive <- a
	}()
}

// wait for the running thread t to reach its next gate or to finish; complete its pending event
func (r *c20Run) await(t int) error {
	select {
	case a := <-r.arrive:
		if a.t != t {
			return fmt.Errorf("c20 harness: lock-step broken: expected thread %d, thread %d arrived (%+v)", t, a.t, a)
		}
		th := r.ths[t]
		if th.last >= 0 {
			ev := &r.events[th.last]
			if ev.Fault && ev.Kind == c20KOrder && strings.HasPrefix(r.script[th.lastS].P, "fin-") {
				// the problem was to be injected at finalize, but the CA itself refused the order
				// (the account is gone): no fault was injected after all
				if q := r.env.cas[ev.KC].Requests()[th.gate.reqSeq]; q.Status != 201 {
					ev.Fault = false
					r.script[th.lastS].F, r.script[th.lastS].P = false, ""
					r.mu.Lock()
					delete(r.finFlt, t)
					r.mu.Unlock()
				}
			}
			if !ev.Fault {
				switch ev.Kind {
				case c20KStoreReg, c20KStoreKey:
					ev.V = r.fileVal(th.gate.key)
				case c20KNewAcct:
					q := r.env.cas[ev.KC].Requests()[th.gate.reqSeq]
					if q.Created {
						ev.V = c20AcctIdx(q.Account)
					}
				case c20KLookup:
					if q := r.env.cas[ev.KC].Requests()[th.gate.reqSeq]; q.Status == 200 {
						ev.V = 1
					}
				case c20KOrder:
					q := r.env.cas[ev.KC].Requests()[th.gate.reqSeq]
					if os.Getenv("C20_DEBUG") != "" {
						fmt.Fprintf(os.Stderr, "order seq=%d %+v\n", th.gate.reqSeq, q)
					}
					switch {
					case q.Status == 201:
						ev.V = 0
						// the account this order was placed under, as the CA saw it: kid, and the
						// account whose key signed the request (not what the client says it used)
						th.ordered = [2]int{c20AcctIdx(q.Account), 0}
						for _, a := range r.env.cas[ev.KC].Accounts() {
							if a.Thumbprint == q.Thumbprint {
								th.ordered[1] = a.ID
							}
						}
					case strings.HasSuffix(q.Problem, "accountDoesNotExist"):
						ev.V = 1
					default:
						ev.V = 2
					}
				}
			}
			th.last = -1
		}
		if a.finished {
			th.state = 3
			if a.err == nil && r.kp != nil {
				th.res = a.res
			} else if a.err == nil {
				// judged by what the CA saw; the client's own report (certificate metadata) is only compared
				th.res = th.ordered
				if i := c20AcctIdx(a.acctURL); i != th.ordered[0] && c20NameBad == "" {
					c20NameBad = fmt.Sprintf("issued certificate reports account %d, the CA took the order under account %d", i, th.ordered[0])
				}
			} else if strings.HasPrefix(a.err.Error(), "PANIC") {
				return a.err
			}
		} else {
			th.state = 2
			th.gate = a
		}
		return nil
	case <-time.After(30 * time.Second):
		return fmt.Errorf("c20 harness: thread %d did not arrive at a gate within 30 s", t)
	}
}

func c20RunHist(env *c20Env, email string, cas []int, choose c20Chooser, maxSteps int, kpIn *c20KPIn) (*c20Run, *c20Final, error) {
	for _, c := range env.cas {
		c.Wipe()
	}
	certmagic.VerifAccountResetDiscoveredEmail()
	r := &c20Run{env: env, b: doubles.NewMemBackend(), email: email, arrive: make(chan c20Arrival), dead: map[int]bool{}, cur: -1, holder: -1,
		keys: map[string][2]int{}, held: map[string]int{}, lost: map[[2]int]bool{}, sticky: map[int]*mockca.Problem{}, finFlt: map[int]*mockca.Problem{}}
	if kpIn != nil {
		// configured-account-key mode: one key, its account at the production CA (or not), and
		// the two account files in one of their nine initial conditions
		email = c20KPEmail
		r.email = email
		ca := env.cas[0]
		key, _ := ecdsa.GenerateKey(elliptic.P256(), crand.Reader)
		kp := &c20KP{in: *kpIn, probe: -1, loc: ca.Base + "/acct/1"}
		kp.pemK, _ = certmagic.PEMEncodePrivateKey(key)
		kp.tp, _ = mockca.Thumbprint(key.Public())
		if kpIn.Known {
			if a := ca.AddAccount(key.Public(), []string{"mailto:" + email}); a.URL != kp.loc {
				return nil, nil, fmt.Errorf("c20 harness: pre-registered account is %s, expected %s", a.URL, kp.loc)
			}
		}
		kp.regKey, kp.keyKey = c20AcctKeys(ca.URL, email)
		switch kpIn.Reg0 {
		case 1:
			js, _ := json.Marshal(acme.Account{Status: "valid", Contact: []string{"mailto:" + email}, Location: kp.loc})
			r.b.Put(kp.regKey, js)
		case 2:
			js, _ := json.Marshal(acme.Account{Status: "valid", Contact: []string{"mailto:" + email}, Location: ca.Base + "/acct/77"})
			r.b.Put(kp.regKey, js)
		}
		switch kpIn.Key0 {
		case 1:
			r.b.Put(kp.keyKey, kp.pemK)
		case 2:
			other, _ := ecdsa.GenerateKey(elliptic.P256(), crand.Reader)
			p, _ := certmagic.PEMEncodePrivateKey(other)
			r.b.Put(kp.keyKey, p)
		}
		r.kp = kp
	}
	for c, ca := range env.cas {
		reg, key := c20AcctKeys(ca.URL, email)
		r.keys[reg] = [2]int{c, 0}
		r.keys[key] = [2]int{c, 1}
		// certmagic's own answers are only recorded
		if _, creg, ckey := certmagic.VerifUserKeys(ca.URL, email); (creg != reg || ckey != key) && r.keyChk[0] == "" {
			r.keyChk[0] = creg + " / " + ckey + " (certmagic) vs " + reg + " / " + key
		}
		ca.Hook = r.caHook(c)
		c := c
		ca.DropResponse = func(q *mockca.Request) bool {
			r.mu.Lock()
			defer r.mu.Unlock()
			return r.lost[[2]int{c, q.Seq}]
		}
	}
	contact := acme.Account{}
	if email != "" {
		contact.Contact = []string{"mailto:" + email}
	}
	r.lockNm = c20LockName(email)
	if nm := certmagic.VerifAccountRegLockKey(contact); nm != r.lockNm {
		r.keyChk[1] = nm + " (certmagic) vs " + r.lockNm
	}
	r.b.Log.Hook = r.storageHook
	for _, c := range cas {
		r.ths = append(r.ths, &c20Thread{c: c, reply: make(chan c20Reply), last: -1})
	}
	defer func() {
		for _, ca := range env.cas {
			ca.Hook = nil
			ca.DropResponse = nil
		}
	}()
	abort := func(err error) (*c20Run, *c20Final, error) {
		// release everything that is still waiting so that goroutines do not leak
		r.mu.Lock()
		for t := range r.ths {
			r.dead[t] = true
		}
		r.mu.Unlock()
		for _, th := range r.ths {
			if th.state == 2 {
				select {
				case th.reply <- c20Reply{crash: true}:
				default:
				}
			}
		}
		go func() {
			for range r.arrive {
			}
		}()
		return r, nil, err
	}
	apply := func(a c20Action) error {
		r.script = append(r.script, a)
		switch a.K {
		case "start":
			r.events = append(r.events, c20Event{Tag: 0, T: a.T, C: a.C})
			r.ths[a.T].state = 1
			r.mu.Lock()
			r.cur = a.T
			r.mu.Unlock()
			r.startThread(a.T)
			if err := r.await(a.T); err != nil {
				return (err)
			}
		case "step":
			th := r.ths[a.T]
			if th.state != 2 {
				return (fmt.Errorf("c20 harness: step of thread %d which is not at a gate", a.T))
			}
			g := th.gate
			if _, busy := r.held[g.key]; g.kind == c20KLock && !a.F && busy {
				return (fmt.Errorf("c20 harness: Lock step while the lock is held"))
			}
			if g.kind == c20KUnlock && r.kp != nil {
				a.F = false
				r.script[len(r.script)-1].F = false
			}
			if a.L && (g.kind != c20KNewAcct || a.F) {
				a.L = false
				r.script[len(r.script)-1].L = false
			}
			if a.P != "" && (g.kind != c20KOrder || !a.F) {
				a.P = ""
				r.script[len(r.script)-1].P = ""
			}
			r.mu.Lock()
			delete(r.sticky, a.T)
			delete(r.finFlt, a.T)
			r.mu.Unlock()
			ev := c20Event{Tag: 1, T: a.T, Fault: a.F, Kind: g.kind, KC: g.kc}
			if a.L {
				ev.Tag = 4
			}
			if !a.F {
				switch g.kind {
				case c20KLoadReg, c20KLoadKey:
					ev.V = r.fileVal(g.key)
				case c20KList:
					if r.fileVal(r.kp.regKey) != 0 || r.fileVal(r.kp.keyKey) != 0 {
						ev.V = 1 // the account folder is listed
					}
				case c20KLock:
					r.held[g.key] = a.T
					r.holder = a.T
				case c20KUnlock:
					delete(r.held, g.key)
					r.holder = -1
					for _, h := range r.held {
						r.holder = h
					}
				}
			} else if g.kind == c20KOrder {
				ev.V = 2
			}
			if g.kind == c20KLock || g.kind == c20KUnlock {
				ev.KC = 0
			}
			r.events = append(r.events, ev)
			th.last = len(r.events) - 1
			th.lastS = len(r.script) - 1
			th.state = 1
			th.nops++
			r.mu.Lock()
			r.cur = a.T
			r.mu.Unlock()
			th.reply <- c20Reply{fault: a.F, lost: a.L, prob: a.P}
			if err := r.await(a.T); err != nil {
				return (err)
			}
		case "crash":
			th := r.ths[a.T]
			if th.state != 2 {
				return (fmt.Errorf("c20 harness: crash of thread %d which is not at a gate", a.T))
			}
			r.events = append(r.events, c20Event{Tag: 2, T: a.T})
			r.mu.Lock()
			r.dead[a.T] = true
			r.cur = a.T
			r.mu.Unlock()
			for nm, h := range r.held {
				if h == a.T {
					r.b.BreakLock(nm) // the staleness rule hands the lock on
					delete(r.held, nm)
				}
			}
			r.holder = -1
			for _, h := range r.held {
				r.holder = h
			}
			th.state = 1
			th.reply <- c20Reply{crash: true}
			if err := r.await(a.T); err != nil {
				return (err)
			}
			if th.state != 3 {
				return (fmt.Errorf("c20 harness: crashed thread %d reached another gate", a.T))
			}
			th.res = [2]int{0, 0}
		case "reset":
			r.events = append(r.events, c20Event{Tag: 3, C: a.C})
			env.cas[a.C].Reset()
		default:
			return (fmt.Errorf("c20 harness: unknown action %q", a.K))
		}
		return nil
	}
	for step := 0; ; step++ {
		var enabled []c20Action
		unfinished := 0
		for t, th := range r.ths {
			switch th.state {
			case 0:
				enabled = append(enabled, c20Action{K: "start", T: t, C: th.c})
				unfinished++
			case 2:
				unfinished++
				if _, busy := r.held[th.gate.key]; th.gate.kind == c20KLock && busy {
					continue // Storage.Lock would block: this lock is held
				}
				enabled = append(enabled, c20Action{K: "step", T: t, C: th.c})
			}
		}
		if unfinished == 0 {
			break
		}
		if step > maxSteps {
			return abort(fmt.Errorf("c20 harness: history exceeds %d steps", maxSteps))
		}
		if len(enabled) == 0 {
			// every thread that is left waits for a lock that nobody is going to release (it was
			// leaked): an observation, not a harness failure. The waiters give up one by one (as if
			// their instances were stopped); the final observation then shows the lock still held
			// although nothing is in flight (clause (f) of the monitor).
			r.deadlock = true
			gaveUp := false
			for t, th := range r.ths {
				if th.state == 2 {
					if err := apply(c20Action{K: "crash", T: t}); err != nil {
						return abort(err)
					}
					gaveUp = true
					break
				}
			}
			if !gaveUp {
				return abort(fmt.Errorf("c20 harness: no thread enabled (deadlock), holder=%d", r.holder))
			}
			continue
		}
		a, ok := choose(enabled, r.ths, r.holder)
		if !ok {
			return abort(fmt.Errorf("c20 harness: chooser has no action (script exhausted or action not enabled)"))
		}
		if a.K == "probe" && r.kp != nil {
			break
		}
		if err := apply(a); err != nil {
			return abort(err)
		}
	}
	if r.kp != nil {
		// the probe: one more call, alone, no faults, while whatever is left of the others waits
		r.script = append(r.script, c20Action{K: "probe"})
		p := len(r.ths)
		pc := 0
		if r.kp.in.ProbeEmail {
			pc = 1
		}
		r.ths = append(r.ths, &c20Thread{c: pc, reply: make(chan c20Reply), last: -1})
		r.kp.probe, r.kp.split = p, len(r.events)
		r.b0 = [2]int{r.fileVal(r.kp.regKey), r.fileVal(r.kp.keyKey)}
		if err := apply(c20Action{K: "start", T: p, C: pc}); err != nil {
			return abort(err)
		}
		for n := 0; r.ths[p].state == 2; n++ {
			if n > 20 {
				return abort(fmt.Errorf("c20 harness: the probe does not finish"))
			}
			if err := apply(c20Action{K: "step", T: p, C: pc}); err != nil {
				return abort(err)
			}
		}
		r.script = r.script[:len(r.script)-len(r.events)+r.kp.split] // the probe's own steps are implied
	}
	if c20NameBad == "" {
		if r.keyChk[0] != "" {
			c20NameBad = "storage key: " + r.keyChk[0]
		} else if r.keyChk[1] != "" {
			c20NameBad = "lock name: " + r.keyChk[1]
		}
	}
	fin := &c20Final{LockFree: len(r.b.HeldLocks()) == 0}
	for c, ca := range env.cas {
		reg, key := c20AcctKeys(ca.URL, email)
		fin.CAs = append(fin.CAs, [3]int{len(ca.Accounts()), r.fileVal(reg), r.fileVal(key)})
		_ = c
	}
	if r.kp != nil {
		fin.CAs[0][0] = len(env.cas[0].Created())
	}
	for t, th := range r.ths {
		if th.state == 3 {
			fin.Res = append(fin.Res, [3]int{t, th.res[0], th.res[1]})
		}
	}
	// calls that are still waiting at a gate (configured-key histories may end early): let them go
	for t, th := range r.ths {
		if th.state != 2 {
			continue
		}
		r.mu.Lock()
		r.dead[t] = true
		r.cur = t
		r.mu.Unlock()
		th.reply <- c20Reply{crash: true}
		for a := range r.arrive {
			if a.t == t && a.finished {
				break
			}
		}
		th.state = 3
	}
	return r, fin, nil
}

func c20HistWire(evs []c20Event, fin *c20Final, eab bool, recs []c20EABRec) string {
	e := &emit.Enc{}
	e.Int(0).Len(len(evs))
	for _, ev := range evs {
		switch ev.Tag {
		case 0:
			e.Int(0).Int(ev.T).Int(ev.C)
		case 1:
			e.Int(1).Int(ev.T).Bool(ev.Fault).Int(ev.Kind).Int(ev.KC).Int(ev.V)
		case 2:
			e.Int(2).Int(ev.T)
		case 3:
			e.Int(3).Int(ev.C)
		case 4:
			e.Int(4).Int(ev.T).Int(ev.KC).Int(ev.V)
		}
	}
	e.Len(len(fin.CAs))
	for _, c := range fin.CAs {
		e.Int(c[0]).Int(c[1]).Int(c[2])
	}
	e.Len(len(fin.Res))
	for _, x := range fin.Res {
		e.Int(x[0]).Int(x[1]).Int(x[2])
	}
	e.Bool(fin.LockFree)
	e.Bool(eab).Len(len(recs))
	for _, x := range recs {
		e.Int(x.CA).Bool(x.Creating).Bool(x.Has).Int(x.URLCA).Bool(x.KidOK && x.MacOK && x.JWKOK)
	}
	return e.String()
}

// wire of a configured-key history: kind 4 of Account/Check.v
func c20KPWire(r *c20Run, fin *c20Final) string {
	e := &emit.Enc{}
	kp := r.kp
	e.Int(4).Int(kp.in.Reg0).Int(kp.in.Key0).Bool(kp.in.Known)
	putEvs := func(evs []c20Event) {
		e.Len(len(evs))
		for _, ev := range evs {
			switch ev.Tag {
			case 0:
				e.Int(0).Int(ev.T).Int(ev.C)
			case 1:
				e.Int(1).Int(ev.T).Bool(ev.Fault).Int(ev.Kind).Int(ev.KC).Int(ev.V)
			case 2:
				e.Int(2).Int(ev.T)
			case 3:
				e.Int(3).Int(ev.C)
			case 4:
				e.Int(4).Int(ev.T).Int(ev.KC).Int(ev.V)
			}
		}
	}
	putEvs(r.events[:kp.split])
	e.Int(kp.probe).Bool(kp.in.ProbeEmail)
	putEvs(r.events[kp.split+1:])
	var res [][3]int
	pres := [2]int{9, 9} // the probe did not finish: no model state answers this
	for _, x := range fin.Res {
		if x[0] == kp.probe {
			pres = [2]int{x[1], x[2]}
		} else {
			res = append(res, x)
		}
	}
	e.Len(len(res))
	for _, x := range res {
		e.Int(x[0]).Int(x[1]).Int(x[2])
	}
	e.Int(pres[0]).Int(pres[1])
	e.Int(fin.CAs[0][1]).Int(fin.CAs[0][2]).Int(fin.CAs[0][0])
	return e.String()
}

// scripted chooser (corpus witnesses and replay)
func c20Scripted(script []c20Action) c20Chooser {
	i := 0
	return func(enabled []c20Action, ths []*c20Thread, holder int) (c20Action, bool) {
		if i >= len(script) {
			// script over: run everything that is left to completion, first enabled thread first
			for _, a := range enabled {
				return a, true
			}
			return c20Action{}, false
		}
		for i < len(script) {
			a := script[i]
			i++
			// tolerate scripts that over-count: skip steps of threads that are not waiting at an enabled gate
			if a.K == "step" || a.K == "crash" {
				ok := false
				for _, e := range enabled {
					if e.K == "step" && e.T == a.T {
						ok = true
					}
				}
				if !ok {
					continue
				}
			}
			if a.K == "start" && (a.T >= len(ths) || ths[a.T].state != 0) {
				continue
			}
			return a, true
		}
		for _, a := range enabled {
			return a, true
		}
		return c20Action{}, false
	}
}

type c20Shape struct {
	class     string
	n         int
	cas       []int
	pFault    float64 // per gated operation
	maxFaults int
	maxCrash  int
	maxReset  int
	seq       bool // one thread at a time
	phased    int  // threads beyond this index start only when all earlier ones have finished (0: off)
	mode      int  // 0 random 1 breadth-first 2 depth-first
}

func c20Random(rr *rand.Rand, sh c20Shape) c20Chooser {
	faults, crashes, resets := 0, 0, 0
	unlockFault := false
	return func(enabled []c20Action, ths []*c20Thread, holder int) (c20Action, bool) {
		active := 0
		allEarlierDone := true
		for t, th := range ths {
			if th.state == 1 || th.state == 2 {
				active++
			}
			if sh.phased > 0 && t < sh.phased && th.state != 3 {
				allEarlierDone = false
			}
		}
		var cand []c20Action
		for _, a := range enabled {
			if a.K == "start" {
				if sh.seq && active > 0 {
					continue
				}
				if sh.phased > 0 && a.T >= sh.phased && !allEarlierDone {
					continue
				}
			}
			cand = append(cand, a)
		}
		if len(cand) == 0 {
			cand = enabled
		}
		// environment actions
		if resets < sh.maxReset && rr.Float64() < 0.08 {
			resets++
			c := rr.Intn(2)
			if rr.Intn(4) > 0 { // mostly the CA that is in use
				c = ths[rr.Intn(len(ths))].c
			}
			return c20Action{K: "reset", C: c}, true
		}
		if crashes < sh.maxCrash && rr.Float64() < 0.06 {
			var at []int
			for t, th := range ths {
				if th.state == 2 {
					at = append(at, t)
				}
			}
			if len(at) > 0 {
				crashes++
				return c20Action{K: "crash", T: at[rr.Intn(len(at))]}, true
			}
		}
		var a c20Action
		switch sh.mode {
		case 1: // the thread that has done least
			sort.SliceStable(cand, func(i, j int) bool { return ths[cand[i].T].nops < ths[cand[j].T].nops })
			a = cand[0]
		case 2: // keep going with the highest-numbered started thread
			a = cand[0]
			for _, c := range cand {
				if c.K == "step" {
					a = c
				}
			}
		default:
			a = cand[rr.Intn(len(cand))]
		}
		pf := sh.pFault
		if a.K == "step" && ths[a.T].gate.kind == c20KOrder && pf > 0 {
			pf = 3*pf + 0.1 // the CA's answers to newOrder / finalize are a fault point of their own
		}
		if a.K == "step" && faults < sh.maxFaults && rr.Float64() < pf && ths[a.T].gate.kind != c20KUnlock {
			a.F = true
			faults++
			if ths[a.T].gate.kind == c20KOrder {
				a.P = c20OrderProblems[rr.Intn(len(c20OrderProblems)-1)] // not the 5xx one (acmez retries it with pauses)
			}
		} else if a.K == "step" && ths[a.T].gate.kind == c20KUnlock && sh.maxFaults > 0 && !unlockFault && rr.Float64() < 0.04 {
			a.F = true // the Unlock fails: logged and ignored by the code; the lock stays held
			unlockFault = true
		} else if a.K == "step" && ths[a.T].gate.kind == c20KNewAcct && faults < sh.maxFaults && rr.Float64() < 3*sh.pFault {
			a.L = true // the CA registers, the response is lost
			faults++
		}
		return a, true
	}
}

// ---------------------------------------------------------------- URL rule

type c20UrlIn struct {
	Kind    string `json:"kind"` // "url" | "contact"
	CA      string `json:"ca"`
	TestCA  string `json:"test_ca"`
	UseTest bool   `json:"use_test"`
}

func c20UrlTables(e *emit.Enc, ca, test string) {
	cands := []string{ca, "https://" + ca, test, "https://" + test}
	seen := map[string]bool{}
	type pr struct {
		s            string
		ok           bool
		scheme, host string
	}
	var ps []pr
	hosts := map[string]bool{}
	for _, s := range cands {
		if seen[s] {
			continue
		}
		seen[s] = true
		u, err := url.Parse(s)
		p := pr{s: s, ok: err == nil}
		if err == nil {
			p.scheme, p.host = u.Scheme, u.Host
			hosts[u.Host] = true
		}
		ps = append(ps, p)
	}
	e.Len(len(ps))
	for _, p := range ps {
		e.Str(p.s).Bool(p.ok)
		if p.ok {
			e.Str(p.scheme).Str(p.host)
		}
	}
	hs := make([]string, 0, len(hosts))
	for h := range hosts {
		hs = append(hs, h)
	}
	sort.Strings(hs)
	e.Len(len(hs))
	for _, h := range hs {
		imp, ref := certmagic.SubjectIsInternal(h), c20RefInternal(h)
		e.Str(h).Bool(imp).Bool(ref)
		c20RefHosts++
		if imp && !ref && c20RefBad == "" {
			c20RefBad = h
		}
	}
}

// hosts judged so far, and the first one that SubjectIsInternal accepts although it is not internal
// by the harness's own reading (the hypothesis of C20_https_unless_really_internal)
var (
	c20RefHosts int
	c20RefBad   string
)

// c20RefInternal is the harness's own reading of "internal address", written from the special-use
// registries and not from certmagic's code: the names localhost, *.localhost, *.local, *.internal,
// *.home.arpa (RFC 6761, 6762, 8375, ICANN's .internal), and loopback, private-use (RFC 1918 /
// unique-local), link-local, "this network" (0.0.0.0/8) and unspecified IP addresses. The
// specification clauses judge a plain-HTTP contact by it; certmagic's SubjectIsInternal is only
// the oracle the model is fed with.
func c20RefInternal(hostport string) bool {
	h := hostport
	if x, _, err := net.SplitHostPort(h); err == nil {
		h = x
	}
	h = strings.TrimSuffix(strings.TrimPrefix(h, "["), "]")
	if i := strings.IndexByte(h, '%'); i >= 0 && strings.Contains(h, ":") {
		h = h[:i] // zone of a link-local IPv6 literal
	}
	h = strings.TrimSuffix(h, ".") // a fully-qualified name, or an address written like one
	if ip, err := netip.ParseAddr(h); err == nil {
		ip = ip.Unmap()
		return ip.IsLoopback() || ip.IsPrivate() || ip.IsLinkLocalUnicast() || ip.IsUnspecified() || (ip.Is4() && ip.As4()[0] == 0)
	}
	b := []byte(h)
	for i, c := range b {
		if 'A' <= c && c <= 'Z' {
			b[i] = c + 'a' - 'A'
		}
	}
	h = string(b)
	if h == "localhost" {
		return true
	}
	for _, sfx := range []string{".localhost", ".local", ".internal", ".home.arpa"} {
		if strings.HasSuffix(h, sfx) {
			return true
		}
	}
	return false
}

func c20Issuer(ca, test string, proxy func(*http.Request) (*url.URL, error)) *certmagic.ACMEIssuer {
	cfg := &certmagic.Config{Logger: zap.NewNop()}
	iss := certmagic.NewACMEIssuer(cfg, certmagic.ACMEIssuer{CA: ca, TestCA: test, Logger: zap.NewNop(), HTTPProxy: proxy})
	// NewACMEIssuer fills empty fields from DefaultACME; the case is about the strings given
	iss.CA, iss.TestCA = ca, test
	return iss
}

var c20Schemes = []string{"https://", "http://", "HTTPS://", "HTTP://", "hTtP://", "", "ftp://", "ws://", "//", "http:/", "http:", "https:", "://", "http:///", "https://http://", "http://https://", "unix://", "h2c://"}
var c20Hosts = []string{"ca.example.com", "acme-v02.api.letsencrypt.org", "localhost", "LOCALHOST", "LocalHost", "foo.localhost", "x.local", "ca.internal",
	"a.home.arpa", "localhost.", "foo.local.", "foo.local..", "localhost.evil.com", "evillocalhost", "notlocal", "local", "internal", "x.internal.example.com",
	"127.0.0.1", "127.1", "127.0.0.1.", "10.0.0.1", "172.16.5.5", "172.32.0.1", "192.168.1.1", "169.254.1.1", "8.8.8.8", "0.0.0.0", "0.0.255.1", "0.1.0.0",
	"[::1]", "[fe80::1]", "[fc00::1]", "[fd12:3456::1]", "[2001:db8::1]", "[::ffff:127.0.0.1]", "[::ffff:8.8.8.8]", "[::8.8.8.8]", "::1", "[::1%25eth0]", "[::]",
	"0x7f.0.0.1", "2130706433", "0177.0.0.1", "[fec0::1]", "[fe00::1]", "[ff02::1]", "[fbff::1]", "[febf::1]", "192.169.1.1", "169.255.1.1", "172.15.255.255", "172.31.255.255", "11.0.0.1", "128.0.0.1", "126.255.255.255",
	"evilhome.arpa", "home.arpa", "xinternal", "alocalhost", "local.example.com", "internal.example.org", "[64:ff9b::808:808]", "[100::1]", "[1::1]", "[::2]", "[::1.2.3.4]", "[1ff:ffff::1]", "[200::1]", "localhost%00.evil.com", "bücher.local", "ca.example.com.local", "LOCAL", ".local", "a.LOCAL", "example.İnternal", "", "-", "a b"}
var c20UserInfos = []string{"", "", "", "user@", "localhost@", "user:pass@", "127.0.0.1:80@", "localhost:80@", "@", "a@b@"}
var c20Ports = []string{"", "", ":443", ":80", ":14000", ":", ":abc", ":99999", ":0"}
var c20Paths = []string{"/dir", "/directory", "", "/a/b?x=y", "#frag", "?q=://", "/dir/../x", "\\dir", "/acme/://x", "/ "}

func c20GenURL(rr *rand.Rand) string {
	s := c20Schemes[rr.Intn(len(c20Schemes))] + c20UserInfos[rr.Intn(len(c20UserInfos))] + c20Hosts[rr.Intn(len(c20Hosts))] +
		c20Ports[rr.Intn(len(c20Ports))] + c20Paths[rr.Intn(len(c20Paths))]
	switch rr.Intn(12) {
	case 0:
		s = " " + s
	case 1:
		s = s + " "
	case 2:
		s = strings.ToUpper(s)
	case 3:
		s = "\t" + s
	}
	return s
}

// ---------------------------------------------------------------- driver

func runC20(tier string, seed int64, outdir string, replay string) error {
	w := emit.NewWriter(outdir, "C20", tier, seed)
	defer w.Close()
	rr := rand.New(rand.NewSource(seed))
	// the internal rate limiter is C17's subject; switch it off (it is keyed by CA + e-mail)
	certmagic.RateLimitEvents, certmagic.RateLimitEventsWindow = 0, 0
	env := c20NewEnv()
	defer env.close()
	c20RefHosts, c20RefBad = 0, ""
	c20NameBad = ""

	histNo := 0
	addHist := func(class string, email string, cas []int, choose c20Chooser, feats map[string]any) error {
		if feats == nil {
			feats = map[string]any{}
		}
		// every third history: the issuers have an external account (a replay says which)
		histNo++
		env.eab = histNo%3 == 0
		if v, ok := feats["eab"].(bool); ok {
			env.eab = v
		}
		env.spell = histNo%2 == 0
		if v, ok := feats["spell"].(bool); ok {
			env.spell = v
		}
		spellOn := env.spell
		defer func() { env.spell = false }()
		r, fin, err := c20RunHist(env, email, cas, choose, 600, nil)
		recs := env.eabRecords()
		eabOn := env.eab
		env.eab = false
		if err != nil {
			if r != nil && strings.HasPrefix(err.Error(), "PANIC") {
				// a panic inside doIssue is an observation, not a harness failure: report the history so
				// far with an impossible final observation (spec_ok will fail)
				fin = &c20Final{CAs: [][3]int{{99, 0, 0}}, LockFree: false}
				feats["panic"] = err.Error()
			} else {
				return err
			}
		}
		nf, nc, nr, nreg, nlost, nlock := 0, 0, 0, 0, 0, map[int]bool{}
		var evs []string
		for _, e := range r.events {
			evs = append(evs, e.String())
			switch {
			case e.Tag == 1 && e.Fault:
				nf++
			case e.Tag == 2:
				nc++
			case e.Tag == 3:
				nr++
			}
			if (e.Tag == 1 || e.Tag == 4) && e.Kind == c20KNewAcct && e.V > 0 {
				nreg++
			}
			if e.Tag == 4 {
				nlost++
			}
			if e.Tag == 1 && e.Kind == c20KLock {
				nlock[e.T] = true
			}
		}
		for _, a := range r.script {
			if a.K == "step" && a.F && a.P != "" {
				w.Hist("hist_order_problem=" + a.P)
			}
		}
		desc := map[string]any{"kind": "hist", "class": class, "threads": len(cas), "email": email != "", "faults": nf, "crashes": nc, "resets": nr, "registrations": nreg, "lost_responses": nlost}
		for k, v := range feats {
			desc[k] = v
		}
		if r.deadlock {
			desc["deadlock"] = true
			w.Hist("hist_deadlock")
		}
		nontrivial := nreg > 0 && (len(nlock) >= 2 || nf+nc+nr+nlost > 0)
		desc["eab"] = eabOn
		desc["ca_spelled_differently"] = spellOn
		if spellOn {
			w.Hist("hist_ca_spelling=mixed")
		}
		toTest := 0
		for _, x := range recs {
			if x.Has && x.CA == 1 {
				toTest++
			}
		}
		if eabOn {
			w.Hist("hist_eab=configured")
			w.Hist(fmt.Sprintf("hist_eab_sent_to_test_ca=%v", toTest > 0))
		}
		w.Add(emit.Case{Desc: desc, In: c20HistIn{Kind: "hist", Email: email, CAs: cas, Script: r.script, EAB: eabOn, Spell: spellOn},
			Obs: map[string]any{"events": evs, "final": fin, "eab": recs}, Wire: c20HistWire(r.events, fin, eabOn, recs), Nontrivial: nontrivial})
		w.Hist("kind=hist")
		w.Hist("class=" + class)
		w.Hist(fmt.Sprintf("threads=%d", len(cas)))
		w.Hist(fmt.Sprintf("hist_registrations=%d", nreg))
		w.Hist(fmt.Sprintf("hist_faults=%d", nf))
		w.Hist(fmt.Sprintf("hist_crashes=%d", nc))
		w.Hist(fmt.Sprintf("hist_resets=%d", nr))
		w.Hist(fmt.Sprintf("hist_lost_responses=%d", nlost))
		w.Hist(fmt.Sprintf("hist_lockers=%d", len(nlock)))
		if email == "" {
			w.Hist("email=none")
		} else {
			w.Hist("email=set")
		}
		if len(r.events) >= 40 {
			w.Hist("hist_len>=40")
		} else {
			w.Hist(fmt.Sprintf("hist_len=%d0s", len(r.events)/10))
		}
		return nil
	}

	// a history in configured-account-key mode (kind 4); modes: 1 = the issuer has an e-mail
	addKPHist := func(class string, in c20KPIn, modes []int, choose c20Chooser, feats map[string]any) error {
		if feats == nil {
			feats = map[string]any{}
		}
		r, fin, err := c20RunHist(env, "", modes, choose, 300, &in)
		if err != nil {
			if r != nil && r.kp != nil && r.kp.probe >= 0 && strings.HasPrefix(err.Error(), "PANIC") {
				fin = &c20Final{CAs: [][3]int{{99, 0, 0}}}
				feats["panic"] = err.Error()
			} else {
				return err
			}
		}
		nf, nc, stores, lookups, left := 0, 0, 0, 0, 0
		var evs []string
		for i, e := range r.events {
			evs = append(evs, e.String())
			if i >= r.kp.split {
				continue
			}
			switch {
			case e.Tag == 1 && e.Fault:
				nf++
			case e.Tag == 2:
				nc++
			}
			if e.Tag == 1 && !e.Fault && (e.Kind == c20KStoreReg || e.Kind == c20KStoreKey) {
				stores++
			}
			if e.Tag == 1 && e.Kind == c20KLookup {
				lookups++
			}
		}
		for t := range modes {
			found := false
			for _, x := range fin.Res {
				if x[0] == t {
					found = true
				}
			}
			if !found {
				left++
			}
		}
		mid := fmt.Sprintf("%d%d", r.b0[0], r.b0[1]) // files when the probe started
		desc := map[string]any{"kind": "kphist", "class": class, "threads": len(modes), "reg0": in.Reg0, "key0": in.Key0, "known": in.Known,
			"faults": nf, "crashes": nc, "in_flight_at_probe": left, "files_at_probe": mid, "probe_email": in.ProbeEmail}
		for k, v := range feats {
			desc[k] = v
		}
		w.Add(emit.Case{Desc: desc, In: c20HistIn{Kind: "kphist", CAs: modes, Script: r.script, KP: &in},
			Obs: map[string]any{"events": evs, "final": fin, "probe": r.kp.probe}, Wire: c20KPWire(r, fin), Nontrivial: nf+nc > 0 || len(modes) >= 2 || stores > 0})
		w.Hist("kind=kphist")
		w.Hist("class=" + class)
		w.Hist(fmt.Sprintf("kp_init=%d%d", in.Reg0, in.Key0))
		w.Hist(fmt.Sprintf("kp_known=%v", in.Known))
		w.Hist(fmt.Sprintf("kp_threads=%d", len(modes)))
		w.Hist(fmt.Sprintf("kp_faults=%d", nf))
		w.Hist(fmt.Sprintf("kp_crashes=%d", nc))
		w.Hist(fmt.Sprintf("kp_lookups=%d", lookups))
		w.Hist(fmt.Sprintf("kp_in_flight_at_probe=%d", left))
		w.Hist("kp_files_at_probe=" + mid)
		w.Hist(fmt.Sprintf("kp_probe_result=%d%d", fin.probeRes(r.kp.probe)[0], fin.probeRes(r.kp.probe)[1]))
		return nil
	}

	schemeLower, schemeBad := true, ""
	addURL := func(ca, test string, useTest bool) {
		for _, s := range []string{ca, "https://" + ca, test, "https://" + test} {
			if u, err := url.Parse(s); err == nil && u.Scheme != strings.ToLower(u.Scheme) {
				schemeLower, schemeBad = false, s
			}
		}
		iss := c20Issuer(ca, test, nil)
		effCA := ca
		if effCA == "" {
			effCA = certmagic.DefaultACME.CA
		}
		dir, err := certmagic.VerifAccountACMEDirectory(iss, useTest)
		if !useTest {
			// the account-less client (GetRenewalInfo) goes through the same rule
			bdir, berr := certmagic.VerifAccountBasicACMEDirectory(iss)
			if (berr == nil) != (err == nil) || bdir != dir {
				dir, err = "newBasicACMEClient disagrees with newACMEClient: "+bdir+" / "+fmt.Sprint(berr), nil
			}
			w.Hist("url_basic_client_compared")
		}
		e := &emit.Enc{}
		e.Int(1).Str(effCA).Str(test).Bool(useTest)
		c20UrlTables(e, effCA, test)
		var obs any = map[string]any{"error": fmt.Sprint(err)}
		if err == nil {
			e.Bool(true).Str(dir)
			obs = map[string]any{"directory": dir}
		} else {
			e.Bool(false)
		}
		cls := "url-ca"
		if useTest && test != "" {
			cls = "url-testca"
		}
		u, perr := url.Parse(ca)
		nt := perr != nil || u.Scheme != "https" || (useTest && test != "")
		w.Add(emit.Case{Desc: map[string]any{"kind": "url", "class": cls, "accepted": err == nil}, In: c20UrlIn{Kind: "url", CA: ca, TestCA: test, UseTest: useTest},
			Obs: obs, Wire: e.String(), Nontrivial: nt})
		w.Hist("kind=url")
		w.Hist("class=" + cls)
		w.Hist(fmt.Sprintf("url_accepted=%v", err == nil))
	}

	// recording proxy for contact cases: plain-HTTP requests arrive as absolute-URI GETs,
	// HTTPS ones as CONNECT
	type contact struct {
		Plain    bool   `json:"plain"`
		Host     string `json:"host"`
		Internal bool   `json:"internal"`
	}
	var pmu sync.Mutex
	seenBy := map[string][]contact{}
	proxy := httptest.NewServer(http.HandlerFunc(func(rw http.ResponseWriter, q *http.Request) {
		id := q.Header.Get("X-C20-Case")
		host := q.URL.Host
		if q.Method == http.MethodConnect {
			host = q.Host
			id = q.Header.Get("X-C20-Case")
		}
		// the address that is really contacted: without port and without the brackets of an IPv6
		// literal (SubjectIsInternal itself does not recognise "[::1]" without a port)
		bare := host
		if h, _, err := net.SplitHostPort(bare); err == nil {
			bare = h
		}
		bare = strings.TrimSuffix(strings.TrimPrefix(bare, "["), "]")
		pmu.Lock()
		seenBy[id] = append(seenBy[id], contact{Plain: q.Method != http.MethodConnect, Host: host, Internal: c20RefInternal(bare)})
		pmu.Unlock()
		rw.WriteHeader(http.StatusBadRequest)
	}))
	defer proxy.Close()
	pu, _ := url.Parse(proxy.URL)
	type contactJob struct {
		ca, test string
		useTest  bool
	}
	runContacts := func(jobs []contactJob) {
		type res struct {
			cs  []contact
			err error
		}
		out := make([]res, len(jobs))
		var wg sync.WaitGroup
		sem := make(chan struct{}, 8)
		for i, j := range jobs {
			wg.Add(1)
			sem <- struct{}{}
			go func(i int, j contactJob) {
				defer wg.Done()
				defer func() { <-sem }()
				id := fmt.Sprintf("c%d", i)
				tr := func(q *http.Request) (*url.URL, error) {
					q.Header.Set("X-C20-Case", id) // plain requests carry it to the proxy
					return pu, nil
				}
				iss := c20Issuer(j.ca, j.test, tr)
				ctx, cancel := context.WithTimeout(context.Background(), 60*time.Millisecond)
				err := certmagic.VerifAccountFetchDirectory(ctx, iss, j.useTest)
				cancel()
				out[i].err = err
			}(i, j)
		}
		wg.Wait()
		time.Sleep(20 * time.Millisecond)
		pmu.Lock()
		defer pmu.Unlock()
		// CONNECT requests do not carry the header: attribute them by host
		for i, j := range jobs {
			cs := seenBy[fmt.Sprintf("c%d", i)]
			for _, c := range seenBy[""] {
				for _, s := range []string{j.ca, j.test} {
					if u, err := url.Parse(s); err == nil && u.Host != "" && (c.Host == u.Host || c.Host == u.Host+":443") {
						cs = append(cs, c)
						break
					}
				}
			}
			effCA := j.ca
			if effCA == "" {
				effCA = certmagic.DefaultACME.CA
			}
			e := &emit.Enc{}
			e.Int(2).Str(effCA).Str(j.test).Bool(j.useTest)
			c20UrlTables(e, effCA, j.test)
			e.Len(len(cs))
			plain := 0
			for _, c := range cs {
				e.Bool(c.Plain).Bool(c.Internal)
				if c.Plain {
					plain++
				}
			}
			cls := "contact-ca"
			if j.useTest && j.test != "" {
				cls = "contact-testca"
			}
			w.Add(emit.Case{Desc: map[string]any{"kind": "contact", "class": cls, "contacts": len(cs), "plain": plain}, In: c20UrlIn{Kind: "contact", CA: j.ca, TestCA: j.test, UseTest: j.useTest},
				Obs: map[string]any{"contacts": cs, "error": fmt.Sprint(out[i].err)}, Wire: e.String(), Nontrivial: len(cs) > 0})
			w.Hist("kind=contact")
			w.Hist("class=" + cls)
			w.Hist(fmt.Sprintf("contact_plain=%d", plain))
		}
		seenBy = map[string][]contact{}
	}

	addKeyPEM := func(withEmail, keyMatches, keyPresent, regOK, caKnows bool) error {
		ca := env.cas[0]
		ca.Wipe()
		ca.Hook = nil
		certmagic.VerifAccountResetDiscoveredEmail()
		b := doubles.NewMemBackend()
		const email = "k@example.com"
		key, _ := ecdsa.GenerateKey(elliptic.P256(), crand.Reader)
		pemK, _ := certmagic.PEMEncodePrivateKey(key)
		loc := ""
		if caKnows {
			loc = ca.AddAccount(key.Public(), []string{"mailto:" + email}).URL
		}
		regKey, keyKey := c20AcctKeys(ca.URL, email)
		if keyPresent {
			if keyMatches {
				b.Put(keyKey, pemK)
			} else {
				other, _ := ecdsa.GenerateKey(elliptic.P256(), crand.Reader)
				p, _ := certmagic.PEMEncodePrivateKey(other)
				b.Put(keyKey, p)
			}
		}
		if regOK {
			l := loc
			if l == "" {
				l = ca.Base + "/acct/77"
			}
			js, _ := json.Marshal(acme.Account{Status: "valid", Contact: []string{"mailto:" + email}, Location: l})
			b.Put(regKey, js)
		}
		cfg, cache := doubles.NewConfig(b.Handle("k"), certmagic.Config{}, certmagic.CacheOptions{})
		defer cache.Stop()
		iss := certmagic.NewACMEIssuer(cfg, certmagic.ACMEIssuer{CA: ca.URL, AccountKeyPEM: string(pemK), Agreed: true, TrustedRoots: ca.Roots(), Logger: zap.NewNop(),
			HTTPProxy: func(*http.Request) (*url.URL, error) { return nil, nil }})
		if withEmail {
			certmagic.VerifAccountSetEmail(iss, email)
		}
		ctx, cancel := context.WithTimeout(context.Background(), 20*time.Second)
		defer cancel()
		acct, _, err := certmagic.VerifAccountNewACMEClientWithAccount(ctx, iss, false)
		lookups, created := 0, 0
		for _, q := range ca.Requests() {
			if q.Kind == "newAccount" && q.OnlyReturnExisting {
				lookups++
			}
			if q.Kind == "newAccount" && q.Created {
				created++
			}
		}
		kb, kok := b.Get(keyKey)
		_, rok := b.Get(regKey)
		saved := kok && rok && strings.TrimSpace(string(kb)) == strings.TrimSpace(string(pemK))
		km := keyPresent && keyMatches
		e := &emit.Enc{}
		e.Int(3).Bool(withEmail).Bool(km).Bool(regOK).Bool(caKnows).Bool(err == nil).Int(lookups).Bool(saved).Int(created)
		w.Add(emit.Case{Desc: map[string]any{"kind": "keypem", "class": "account-key-pem", "with_email": withEmail, "key_matches": km, "key_present": keyPresent, "reg": regOK, "ca_knows": caKnows},
			In:   map[string]any{"kind": "keypem", "with_email": withEmail, "key_matches": keyMatches, "key_present": keyPresent, "reg": regOK, "ca_knows": caKnows},
			Obs:  map[string]any{"ok": err == nil, "error": fmt.Sprint(err), "location": acct.Location, "lookups": lookups, "saved": saved, "created": created},
			Wire: e.String(), Nontrivial: true, Key: fmt.Sprint(withEmail, keyMatches, keyPresent, regOK, caKnows)})
		w.Hist("kind=keypem")
		ca.Wipe()
		return nil
	}

	if n, _ := strconv.Atoi(os.Getenv("C20_CONTACT_STRESS")); n > 0 {
		for round := 0; round < n; round++ {
			var jobs []contactJob
			for i := 0; i < 600; i++ {
				u := c20GenURL(rr)
				if i%2 == 0 {
					jobs = append(jobs, contactJob{u, "", false})
				} else {
					jobs = append(jobs, contactJob{"https://acme.example.com/dir", u, true})
				}
			}
			runContacts(jobs)
		}
		return nil
	}
	// ---- replay of one recorded case
	if replay != "" {
		rc, err := loadReplay(replay)
		if err != nil {
			return err
		}
		var head struct {
			Kind string `json:"kind"`
		}
		json.Unmarshal(rc.In, &head)
		switch head.Kind {
		case "hist":
			var in c20HistIn
			if err := json.Unmarshal(rc.In, &in); err != nil {
				return err
			}
			cls, _ := rc.Desc["class"].(string)
			return addHist(cls, in.Email, in.CAs, c20Scripted(in.Script), map[string]any{"replayed": true, "eab": in.EAB, "spell": in.Spell})
		case "kphist":
			var in c20HistIn
			if err := json.Unmarshal(rc.In, &in); err != nil || in.KP == nil {
				return fmt.Errorf("c20: bad kphist replay: %v", err)
			}
			cls, _ := rc.Desc["class"].(string)
			return addKPHist(cls, *in.KP, in.CAs, c20Scripted(in.Script), map[string]any{"replayed": true})
		case "url":
			var in c20UrlIn
			json.Unmarshal(rc.In, &in)
			addURL(in.CA, in.TestCA, in.UseTest)
		case "contact":
			var in c20UrlIn
			json.Unmarshal(rc.In, &in)
			runContacts([]contactJob{{in.CA, in.TestCA, in.UseTest}})
		case "keypem":
			var in struct {
				WithEmail  bool `json:"with_email"`
				KeyMatches bool `json:"key_matches"`
				KeyPresent bool `json:"key_present"`
				Reg        bool `json:"reg"`
				CAKnows    bool `json:"ca_knows"`
			}
			json.Unmarshal(rc.In, &in)
			return addKeyPEM(in.WithEmail, in.KeyMatches, in.KeyPresent, in.Reg, in.CAKnows)
		default:
			return fmt.Errorf("c20: unknown replay kind %q", head.Kind)
		}
		return nil
	}

	// ---- corpus: witnesses of the findings (fixed ones must pass) and structured schedules
	S := func(t int) c20Action { return c20Action{K: "step", T: t} }
	F := func(t int) c20Action { return c20Action{K: "step", T: t, F: true} }
	St := func(t, c int) c20Action { return c20Action{K: "start", T: t, C: c} }
	Rs := func(c int) c20Action { return c20Action{K: "reset", C: c} }
	rep := func(a c20Action, n int) []c20Action {
		var out []c20Action
		for i := 0; i < n; i++ {
			out = append(out, a)
		}
		return out
	}
	cat := func(xs ...[]c20Action) []c20Action {
		var out []c20Action
		for _, x := range xs {
			out = append(out, x...)
		}
		return out
	}
	one := func(a c20Action) []c20Action { return []c20Action{a} }
	for _, email := range []string{"a@example.com", ""} {
		// f80e244: the test CA forgets its account; the production account must stay
		if err := addHist("testca-account-missing", email, []int{0, 1, 1, 0},
			c20Scripted(cat(one(St(0, 0)), rep(S(0), 9), one(St(1, 1)), rep(S(1), 9), one(Rs(1)), one(St(2, 1)), rep(S(2), 17), one(St(3, 0)))), nil); err != nil {
			return err
		}
		// 6e1a233: one instance, the CA was re-installed: exactly one new account, and it is used
		if err := addHist("seq-recreate", email, []int{0, 0, 0},
			c20Scripted(cat(one(St(0, 0)), rep(S(0), 9), one(Rs(0)), one(St(1, 0)))), map[string]any{"witness": "ca-reinstalled-single-instance"}); err != nil {
			return err
		}
		// f0aaa6b: two issuances hold the account the CA forgot; the second used to delete the account the
		// first had just recreated and to register a third; now it finds the new account under the lock
		stale2 := cat(one(St(0, 0)), rep(S(0), 9), one(St(1, 0)), rep(S(1), 2), one(St(2, 0)), rep(S(2), 2), one(Rs(0)))
		if err := addHist("concurrent-recreate", email, []int{0, 0, 0},
			c20Scripted(cat(stale2, rep(S(1), 15), rep(S(2), 8))), map[string]any{"witness": "two-stale-holders"}); err != nil {
			return err
		}
		for i, sc := range [][]c20Action{
			cat(stale2, one(S(1)), one(S(2)), rep(S(1), 6), rep(S(2), 6)),                         // both refused; 1 deletes and unlocks; 2 finds nothing; then both queue to register
			cat(stale2, one(S(1)), one(S(2)), rep(S(2), 6), rep(S(1), 4), rep(S(2), 8)),           // ... the other one deletes; 1 compares while 2 registers
			cat(stale2, rep(S(1), 5), one(S(2)), one(c20Action{K: "crash", T: 1}), rep(S(2), 6)),  // 1 crashes between its two Deletes; 2 takes over the lock
			cat(stale2, rep(S(1), 4), one(F(1)), one(S(1)), rep(S(2), 8)),                         // 1's Delete of the reg file fails; 2 deletes
			cat(stale2, rep(S(1), 5), one(F(1)), one(S(1)), rep(S(2), 8)),                         // 1's Delete of the key file fails; 2 finds the reg file gone
			cat(stale2, rep(S(1), 12), one(S(2)), one(c20Action{K: "crash", T: 1}), rep(S(2), 8)), // 1 crashes between the Stores of the new account
			cat(stale2, rep(S(1), 2), one(F(1)), rep(S(2), 4), one(F(2))),                         // the compare-and-delete's own Loads fail
			cat(stale2, rep(S(1), 15), rep(S(2), 2), one(F(2))),                                   // ... after the account was replaced: reg file
			cat(stale2, rep(S(1), 15), rep(S(2), 3), one(F(2))),                                   // ... key file
			cat(stale2, rep(S(1), 13), rep(S(2), 1), one(S(1)), rep(S(2), 4)),                     // 2 queues on the lock while 1 saves the new account
			cat(stale2, rep(S(1), 6), one(F(1)), rep(S(1), 2), rep(S(2), 2)),                      // the Unlock of the compare-and-delete fails: nobody can register any more
		} {
			if err := addHist("concurrent-recreate", email, []int{0, 0, 0}, c20Scripted(sc), map[string]any{"shape": "directed", "variant": i}); err != nil {
				return err
			}
		}
		// the CA answers newOrder (or finalize) with a problem that does not say the account is gone,
		// while the account is stored and alive: nothing may be deleted or registered
		for _, pb := range c20OrderProblems {
			if err := addHist("order-problem", email, []int{0, 0, 0},
				c20Scripted(cat(one(St(0, 0)), rep(S(0), 9), one(St(1, 0)), rep(S(1), 2), one(c20Action{K: "step", T: 1, F: true, P: pb}), one(St(2, 0)))),
				map[string]any{"problem": pb}); err != nil {
				return err
			}
		}
		// all threads find nothing, then queue on the lock
		for n := 2; n <= 5; n++ {
			var sc []c20Action
			cas := make([]int, n)
			for t := 0; t < n; t++ {
				sc = append(sc, St(t, 0), S(t))
			}
			if err := addHist("first-use", email, cas, c20Scripted(sc), map[string]any{"shape": "all-precheck-then-lock"}); err != nil {
				return err
			}
		}
		// save faults at each operation of the save, with a waiter
		for _, sc := range [][]c20Action{
			cat(one(St(0, 0)), rep(S(0), 4), one(St(1, 0)), one(S(1)), one(F(0))),                                                                                        // Store reg fails
			cat(one(St(0, 0)), rep(S(0), 5), one(St(1, 0)), one(S(1)), one(F(0))),                                                                                        // Store key fails, rollback ok
			cat(one(St(0, 0)), rep(S(0), 5), one(St(1, 0)), one(S(1)), one(F(0)), one(F(0))),                                                                             // Store key fails, rollback fails: reg only
			cat(one(St(0, 0)), rep(S(0), 3), one(F(0)), one(St(1, 0))),                                                                                                   // newAccount fails
			cat(one(St(0, 0)), one(S(0)), one(F(0)), one(St(1, 0))),                                                                                                      // Lock fails
			cat(one(St(0, 0)), rep(S(0), 2), one(F(0)), one(St(1, 0))),                                                                                                   // reload fails
			cat(one(St(0, 0)), rep(S(0), 5), one(c20Action{K: "crash", T: 0}), one(St(1, 0))),                                                                            // crash between the two Stores
			cat(one(St(0, 0)), rep(S(0), 4), one(c20Action{K: "crash", T: 0}), one(St(1, 0))),                                                                            // crash after newAccount
			cat(one(St(0, 0)), rep(S(0), 5), one(St(1, 0)), one(S(1)), rep(S(0), 1), one(S(1)), one(S(1))),                                                               // reader between reg and key
			cat(one(St(0, 0)), rep(S(0), 6), one(F(0)), one(S(0)), one(St(1, 0))),                                                                                        // the Unlock fails: the account is stored, the lock stays; the next issuance needs no lock
			cat(one(St(0, 0)), rep(S(0), 4), one(St(1, 0)), one(S(1)), one(F(0)), one(F(0))),                                                                             // Store reg fails, then the Unlock fails: the waiter never gets the lock and gives up
			cat(one(St(0, 0)), rep(S(0), 3), one(St(1, 0)), one(S(1)), one(c20Action{K: "step", T: 0, L: true})),                                                         // the response of newAccount is lost, with a waiter
			cat(one(St(0, 0)), rep(S(0), 3), one(c20Action{K: "step", T: 0, L: true}), one(S(0)), one(St(1, 0)), rep(S(1), 3), one(c20Action{K: "step", T: 1, L: true})), // twice
		} {
			if err := addHist("save-faults", email, []int{0, 0}, c20Scripted(sc), map[string]any{"shape": "directed"}); err != nil {
				return err
			}
		}
	}

	// the recreate path, systematically: account stored, CA re-installed, then one issuance with a
	// fault at / a crash before each of its operations (LoadReg LoadKey newOrder Lock LoadReg LoadKey
	// DeleteReg DeleteKey Unlock LoadReg Lock LoadReg newAccount StoreReg StoreKey Unlock newOrder),
	// then one more issuance
	for c := 0; c < 2; c++ {
		for at := 0; at < 17; at++ {
			for _, crash := range []bool{false, true} {
				if tier != "thorough" && (at+c)%2 == 1 && !(at >= 3 && at <= 8) {
					continue
				}
				sc := cat(one(St(0, c)), rep(S(0), 9), one(Rs(c)), one(St(1, c)), rep(S(1), at))
				if crash {
					sc = append(sc, c20Action{K: "crash", T: 1})
				} else {
					sc = append(sc, c20Action{K: "step", T: 1, F: true, P: c20OrderProblems[(at+c)%(len(c20OrderProblems)-1)]})
				}
				if err := addHist("seq-recreate", "a@example.com", []int{c, c, c}, c20Scripted(sc), map[string]any{"shape": "directed", "at": at, "crash": crash}); err != nil {
					return err
				}
			}
		}
	}

	// ---- generated histories
	nHist := 260
	nURL := 1500
	nContact := 120
	if tier == "thorough" {
		nHist, nURL, nContact = 2500, 8000, 600
	}
	for i := 0; i < nHist; i++ {
		sh := c20Shape{n: 2 + rr.Intn(4), mode: rr.Intn(3)}
		if rr.Intn(3) == 0 {
			sh.mode = 0
		}
		switch x := rr.Intn(20); {
		case x < 4:
			sh.class = "first-use"
		case x < 9:
			sh.class, sh.pFault, sh.maxFaults = "save-faults", 0.15, 1+rr.Intn(3)
		case x < 12:
			sh.class, sh.maxCrash, sh.pFault, sh.maxFaults = "crash", 1+rr.Intn(2), 0.05, 1
		case x < 14:
			sh.class, sh.phased, sh.pFault, sh.maxFaults = "restart", 1+rr.Intn(2), 0.1, rr.Intn(2)
		case x < 17:
			sh.class, sh.seq, sh.maxReset, sh.pFault, sh.maxFaults, sh.maxCrash = "seq-recreate", true, 1+rr.Intn(2), 0.08, rr.Intn(2), rr.Intn(2)
		default:
			sh.class, sh.maxReset, sh.pFault, sh.maxFaults = "concurrent-recreate", 1+rr.Intn(2), 0.1, rr.Intn(3)
		}
		sh.cas = make([]int, sh.n)
		switch rr.Intn(4) {
		case 0: // all on the test CA
			for t := range sh.cas {
				sh.cas[t] = 1
			}
		case 1: // mixed
			for t := range sh.cas {
				sh.cas[t] = rr.Intn(2)
			}
		}
		email := "a@example.com"
		if rr.Intn(3) == 0 {
			email = ""
		}
		if err := addHist(sh.class, email, sh.cas, c20Random(rr, sh), map[string]any{"mode": sh.mode}); err != nil {
			return err
		}
	}

	// ---- configured account key: lock-step histories
	Pb := c20Action{K: "probe"}
	// 55396a9: a save over the stored account fails at the key file and is rolled back: the key
	// file is left without its registration; the next call must look the account up again
	for _, pe := range []bool{true, false} {
		m := 0
		if pe {
			m = 1
		}
		if err := addKPHist("kp-key-without-registration", c20KPIn{Reg0: 1, Key0: 1, Known: true, ProbeEmail: pe}, []int{m},
			c20Scripted(cat(one(St(0, m)), one(F(0)), rep(S(0), 2), one(F(0)), one(S(0)))), map[string]any{"witness": "load-fault-then-store-key-fault"}); err != nil {
			return err
		}
		// two instances start on an empty storage; the second one's save fails at the key file
		if err := addKPHist("kp-key-without-registration", c20KPIn{Reg0: 0, Key0: 0, Known: true, ProbeEmail: pe}, []int{m, m},
			c20Scripted(cat(one(St(0, m)), one(St(1, m)), one(S(0)), one(S(1)), rep(S(0), 3), one(S(1)), one(S(1)), one(F(1)), one(S(1)))),
			map[string]any{"witness": "concurrent-first-use-one-fault"}); err != nil {
			return err
		}
		// the probe runs while another call waits before its rollback Delete
		if err := addKPHist("kp-probe-with-call-in-flight", c20KPIn{Reg0: 0, Key0: 0, Known: true, ProbeEmail: pe}, []int{m},
			c20Scripted(cat(one(St(0, m)), rep(S(0), 3), one(F(0)), one(Pb))), map[string]any{"witness": "probe-before-rollback"}); err != nil {
			return err
		}
	}
	// one call, every initial content of the two files, one fault at each of its operations
	for reg0 := 0; reg0 < 3; reg0++ {
		for key0 := 0; key0 < 3; key0++ {
			for _, known := range []bool{true, false} {
				for m := 0; m < 2; m++ {
					for at := -1; at < 7; at++ {
						if tier != "thorough" && at >= 0 && (reg0*3+key0+at+m)%2 == 1 {
							continue // quick tier: every second fault position
						}
						var sc []c20Action
						sc = append(sc, St(0, m))
						for i := 0; i < 8; i++ {
							if i == at {
								sc = append(sc, F(0))
							} else {
								sc = append(sc, S(0))
							}
						}
						if err := addKPHist("kp-single-call", c20KPIn{Reg0: reg0, Key0: key0, Known: known, ProbeEmail: (reg0+key0+at)%2 == 0}, []int{m},
							c20Scripted(sc), map[string]any{"fault_at": at}); err != nil {
							return err
						}
					}
				}
			}
		}
	}
	nKP := 150
	if tier == "thorough" {
		nKP = 2000
	}
	for i := 0; i < nKP; i++ {
		n := 2 + rr.Intn(3)
		modes := make([]int, n)
		mm := rr.Intn(3)
		for t := range modes {
			switch mm {
			case 0:
				modes[t] = 1
			case 1:
				modes[t] = rr.Intn(2)
			}
		}
		in := c20KPIn{Reg0: rr.Intn(3), Key0: rr.Intn(3), Known: rr.Intn(5) > 0, ProbeEmail: rr.Intn(2) == 0}
		if rr.Intn(3) == 0 {
			in.Reg0, in.Key0 = 0, 0
		}
		sh := c20Shape{class: "kp-concurrent", n: n, cas: modes, mode: rr.Intn(3), pFault: 0.2, maxFaults: 1 + rr.Intn(3), maxCrash: rr.Intn(2)}
		inner := c20Random(rr, sh)
		pEarly := 0.0
		if rr.Intn(3) == 0 {
			pEarly = 0.08
		}
		ch := func(enabled []c20Action, ths []*c20Thread, holder int) (c20Action, bool) {
			if pEarly > 0 && rr.Float64() < pEarly {
				return Pb, true
			}
			return inner(enabled, ths, holder)
		}
		if err := addKPHist(sh.class, in, modes, ch, map[string]any{"mode": sh.mode}); err != nil {
			return err
		}
	}

	// ---- AccountKeyPEM
	for _, we := range []bool{true, false} {
		for _, kp := range []bool{true, false} {
			for _, km := range []bool{true, false} {
				if !kp && km {
					continue
				}
				for _, ro := range []bool{true, false} {
					for _, ck := range []bool{true, false} {
						if err := addKeyPEM(we, km, kp, ro, ck); err != nil {
							return err
						}
					}
				}
			}
		}
	}

	// ---- URL rule: corpus, the scheme x host cross product, random combinations
	good := "https://acme.example.com/dir"
	corpusURLs := []string{"", good, "http://acme.example.com/dir", "http://localhost:14000/dir", "acme.example.com/dir", "localhost:14000/dir",
		"http://localhost@evil.example.com/dir", "http://evil.example.com:80@localhost/dir", "http://evil.example.com#@localhost/", "http://localhost.evil.example.com/",
		"HTTP://EVIL.EXAMPLE.COM/", "http://[::1]:14000/dir", "http://[::1]/dir", "http://127.0.0.1:14000/dir", "http://127.0.0.1.nip.io/", "https://[::1", "http://a b/",
		"http:evil.example.com/dir", "//evil.example.com/dir", "://", "https://", "http://", "http://?://", "javascript://localhost/%0aalert(1)", "http://localhost\\@evil.example.com/"}
	for _, u := range corpusURLs {
		addURL(u, "", false)
		addURL(good, u, true)
		addURL(good, u, false)
		addURL(u, u, true)
	}
	// the old witness: a public test CA over plain HTTP
	addURL(good, "http://testca.public.example/dir", true)
	// c25e00d: addresses of ::/7 that are not the loopback (NAT64, discard prefix, IPv4-compatible)
	for _, h := range []string{"[64:ff9b::808:808]:80", "[100::1]:80", "[::8.8.8.8]:8080", "::1:80", "[::2]:443"} {
		addURL("http://"+h+"/dir", "", false)
		addURL(good, "http://"+h+"/dir", true)
	}
	for _, sc := range c20Schemes {
		for _, h := range c20Hosts {
			u := sc + h + "/dir"
			addURL(u, "", false)
			addURL(good, u, true)
			if sc == "http://" {
				// with a port (SubjectIsInternal reads an IPv6 literal only when it has one)
				addURL(sc+h+":8080/dir", "", false)
			}
		}
	}
	var jobs []contactJob
	jobs = append(jobs, contactJob{good, "http://testca.public.example/dir", true}, contactJob{"http://localhost:9/dir", "", false},
		contactJob{good, "", false}, contactJob{"http://acme.example.com/dir", "", false}, contactJob{good, "http://10.1.2.3/dir", true},
		contactJob{good, "testca.public.example/dir", true}, contactJob{good, "http:testca.public.example/dir", true},
		contactJob{"http://[64:ff9b::808:808]:80/dir", "", false}, contactJob{good, "http://[100::1]:80/dir", true}, contactJob{good, "http://[::1]:80/dir", true})
	// every host of the table over plain HTTP, as CA and as test CA: whatever the rule lets through
	// must be internal under the name that is really contacted (37c99c0: "example.İnternal")
	for _, h := range c20Hosts {
		jobs = append(jobs, contactJob{"http://" + h + "/dir", "", false}, contactJob{good, "HTTP://" + h + ":8080/dir", true})
	}
	nContact += len(jobs)
	for i := 0; i < nURL; i++ {
		u := c20GenURL(rr)
		switch rr.Intn(4) {
		case 0:
			addURL(u, "", false)
			if len(jobs) < nContact && strings.Contains(strings.ToLower(u), "http") {
				jobs = append(jobs, contactJob{u, "", false})
			}
		case 1:
			addURL(good, u, true)
			if len(jobs) < nContact {
				jobs = append(jobs, contactJob{good, u, true})
			}
		case 2:
			addURL(c20GenURL(rr), u, rr.Intn(2) == 0)
		default:
			addURL("http://localhost:14000/dir", u, true)
		}
	}
	runContacts(jobs)

	w.Meta.Oracles = append(w.Meta.Oracles, emit.OracleCheck{Name: "url.Parse yields a lower-case scheme (the rule compares it with \"https\" exactly) on every generated URL", OK: schemeLower, Detail: schemeBad})
	w.Meta.Oracles = append(w.Meta.Oracles, emit.OracleCheck{Name: fmt.Sprintf("every host that SubjectIsInternal accepts is an internal address by the harness's independent reading (special-use names, loopback / private / link-local / unspecified addresses): %d host judgements", c20RefHosts), OK: c20RefBad == "", Detail: c20RefBad})
	w.Meta.Oracles = append(w.Meta.Oracles, emit.OracleCheck{Name: "certmagic's names of the account files and of the registration lock are the ones the harness computes by itself (acme/<ca>/users/<email>/<user>.json|.key, register_acme_account[_<email>]); every storage operation on another key is reported as an operation on a foreign account", OK: c20NameBad == "", Detail: c20NameBad})
	w.Meta.Rule = "histories: distinct wire lines with at least one registration and either two threads reaching the registration lock or a fault / crash / CA reset; URL cases: distinct (CA, TestCA, useTestCA) whose CA is not a plain https URL or whose test CA is in use; contact cases: at least one contact seen; account-key cases: each combination of stored key / stored registration / CA knowledge / e-mail; account-key histories: distinct wire lines with a fault, a crash, two or more calls, or a Store"
	return nil
}
