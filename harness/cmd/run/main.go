// Command run is the implementation side of the correspondence checks: for one property it
// drives the real certmagic code (built from /repo's working tree with -tags verif) over
// generated inputs / histories and writes the observations as Coq cases.
//
//	run <property> <tier> <seed> <outdir> [replay-file]
package main

import (
	"encoding/json"
	"fmt"
	"os"
	"sort"
	"strconv"
)

// replayCase is the "case" object of a replay file written by ./check.
type replayCase struct {
	Desc map[string]any  `json:"desc"`
	In   json.RawMessage `json:"in"`
}

func loadReplay(path string) (*replayCase, error) {
	b, err := os.ReadFile(path)
	if err != nil {
		return nil, err
	}
	var r struct {
		Case replayCase `json:"case"`
	}
	if err := json.Unmarshal(b, &r); err != nil {
		return nil, err
	}
	return &r.Case, nil
}

type runner func(tier string, seed int64, outdir string, replay string) error

var runners = map[string]runner{}

func register(id string, r runner) { runners[id] = r }

func main() {
	if len(os.Args) < 5 {
		ids := []string{}
		for k := range runners {
			ids = append(ids, k)
		}
		sort.Strings(ids)
		fmt.Fprintln(os.Stderr, "usage: run <property> <tier> <seed> <outdir> [replay]; properties:", ids)
		os.Exit(2)
	}
	r, ok := runners[os.Args[1]]
	if !ok {
		fmt.Fprintln(os.Stderr, "unknown property", os.Args[1])
		os.Exit(2)
	}
	seed, _ := strconv.ParseInt(os.Args[3], 10, 64)
	replay := ""
	if len(os.Args) > 5 {
		replay = os.Args[5]
	}
	if err := r(os.Args[2], seed, os.Args[4], replay); err != nil {
		fmt.Fprintln(os.Stderr, "harness error:", err)
		os.Exit(3)
	}
}
