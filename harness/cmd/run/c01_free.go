//go:build !skip_c01_free

package main

// C01, free-running runs: several certmagic instances (goroutines, each with its own Config, Cache and
// Issuer double) share ONE real FileStorage directory and call ObtainCertSync / ManageSync / an on-demand
// handshake for one name at the same moment, without any gate: the schedule is whatever the Go runtime and
// the file system make of it, including real concurrency inside FileStorage.Lock, which the lock-step
// driver serialises. Only the entry and exit of Issuer.Issue are recorded (wall-clock order); the spec
// monitor (mode 6 of Issuance/Check.v, no model comparison) demands disjoint spans, success of every
// caller, exactly one issuance (storage was empty) and no lock left.

import (
	"context"
	"crypto/x509"
	"fmt"
	"math/rand"
	"os"
	"path/filepath"
	"sort"
	"strings"
	"sync"
	"time"

	"github.com/caddyserver/certmagic"
	"go.uber.org/zap"

	"verifharness/pkg/doubles"
	"verifharness/pkg/emit"
)

type c01FreeIssuer struct {
	tid   int
	delay time.Duration
	mu    *sync.Mutex
	evs   *[]c01FreeEv
	ca    *doubles.CA
	ser   *int64
}

type c01FreeEv struct {
	T     time.Time
	Tid   int
	Start bool
}

func (i *c01FreeIssuer) IssuerKey() string { return "dbl" }

func (i *c01FreeIssuer) Issue(ctx context.Context, csr *x509.CertificateRequest) (*certmagic.IssuedCertificate, error) {
	i.mu.Lock()
	*i.evs = append(*i.evs, c01FreeEv{time.Now(), i.tid, true})
	*i.ser++
	serial := 5000 + *i.ser
	i.mu.Unlock()
	time.Sleep(i.delay)
	nb := time.Now().Add(-time.Hour)
	chain, _, _, err := i.ca.Leaf(doubles.LeafOpts{Names: csr.DNSNames, NotBefore: nb, NotAfter: nb.Add(90 * 24 * time.Hour), Pub: csr.PublicKey, Serial: serial})
	i.mu.Lock()
	*i.evs = append(*i.evs, c01FreeEv{time.Now(), i.tid, false})
	i.mu.Unlock()
	if err != nil {
		return nil, err
	}
	return &certmagic.IssuedCertificate{Certificate: chain, Metadata: map[string]any{"issuer_double": "dbl"}}, nil
}

type c01FreeCase struct {
	Progs []string `json:"progs"` // obtain | manage | handshake
	Names []string `json:"names"`
	Delay []int    `json:"issue_ms"`
	Class string   `json:"class"`
}

func c01RunFree(fc c01FreeCase) (steps []c01issStep, results []int, held, recorded int, err error) {
	c01issCAOnce.Do(func() { c01issCA = doubles.NewCA("issuance harness CA") })
	dir, derr := os.MkdirTemp("", "verif-c01-free-")
	if derr != nil {
		return nil, nil, 0, 0, derr
	}
	defer os.RemoveAll(dir)
	var mu sync.Mutex
	var evs []c01FreeEv
	var ser int64
	n := len(fc.Progs)
	results = make([]int, n)
	var wg sync.WaitGroup
	start := make(chan struct{})
	var caches []*certmagic.Cache
	for t := 0; t < n; t++ {
		iss := &c01FreeIssuer{tid: t, delay: time.Duration(fc.Delay[t]) * time.Millisecond, mu: &mu, evs: &evs, ca: c01issCA, ser: &ser}
		tmpl := certmagic.Config{}
		if fc.Progs[t] == "handshake" {
			tmpl.OnDemand = &certmagic.OnDemandConfig{DecisionFunc: func(context.Context, string) error { return nil }}
			tmpl.DisableARI = true
		}
		cfg, cache := doubles.NewConfig(&certmagic.FileStorage{Path: dir}, tmpl, certmagic.CacheOptions{}, iss)
		caches = append(caches, cache)
		wg.Add(1)
		go func(t int) {
			defer wg.Done()
			defer func() {
				if r := recover(); r != nil {
					results[t] = 2
				}
			}()
			<-start
			ctx, cancel := context.WithTimeout(context.Background(), 90*time.Second)
			defer cancel()
			var e error
			switch fc.Progs[t] {
			case "obtain":
				e = cfg.ObtainCertSync(ctx, fc.Names[t])
			case "manage":
				e = cfg.ManageSync(ctx, []string{fc.Names[t]})
			case "handshake":
				hello, closeConn := doubles.Hello(fc.Names[t])
				defer closeConn()
				_, e = cfg.GetCertificateWithContext(ctx, hello)
			}
			if e != nil {
				results[t] = 1
			}
		}(t)
	}
	close(start)
	done := make(chan struct{})
	go func() { wg.Wait(); close(done) }()
	select {
	case <-done:
	case <-time.After(120 * time.Second):
		return nil, nil, 0, 0, fmt.Errorf("free-running run did not finish within 120 s")
	}
	for _, c := range caches {
		c.Stop()
	}
	sort.SliceStable(evs, func(a, b int) bool { return evs[a].T.Before(evs[b].T) })
	for _, ev := range evs {
		op := 11
		d := "IssueEnd"
		if ev.Start {
			op, d = 10, "IssueStart"
		}
		steps = append(steps, c01issStep{Tid: ev.Tid, Fault: c01fNone, Op: [4]int{op, 0, 0, 0}, Out: 0, Desc: d + " dbl:" + strings.ToLower(fc.Names[ev.Tid])})
	}
	ents, _ := os.ReadDir(filepath.Join(dir, "locks"))
	for _, en := range ents {
		if strings.HasSuffix(en.Name(), ".lock") {
			held++
		}
	}
	recorded = certmagic.VerifLocksHeldCount()
	if recorded > 0 {
		certmagic.CleanUpOwnLocks(context.Background(), zap.NewNop())
	}
	return steps, results, held, recorded, nil
}

// c01FreeBatch runs count free-running cases and emits them (mode 6).
func c01FreeBatch(w *emit.Writer, r *rand.Rand, count int) error {
	for i := 0; i < count; i++ {
		n := 2 + r.Intn(3)
		fc := c01FreeCase{Class: "free-running"}
		hs := false
		for t := 0; t < n; t++ {
			p := []string{"obtain", "manage", "manage", "handshake"}[r.Intn(4)]
			if p == "handshake" {
				if hs {
					p = "manage" // handshakes of one process wait for each other in memory
				}
				hs = true
			}
			fc.Progs = append(fc.Progs, p)
			// canonical spellings only (upper case reaches the same lock file and the same keys through
			// ManageSync / the handshake; ObtainCertSync keeps the raw name, which is the known finding)
			nm := c01nmCanon
			if p != "obtain" && r.Intn(3) == 0 {
				nm = c01nmUpper
			}
			fc.Names = append(fc.Names, nm)
			fc.Delay = append(fc.Delay, r.Intn(40))
		}
		if err := c01FreeEmit(w, fc, i); err != nil {
			return err
		}
	}
	return nil
}

func c01FreeEmit(w *emit.Writer, fc c01FreeCase, i int) error {
	n := len(fc.Progs)
	steps, results, held, recorded, err := c01RunFree(fc)
	if err != nil {
		return err
	}
	o := &c01issObs{Steps: steps, Results: results, Held: held, Recorded: recorded}
	for range fc.Progs {
		o.Cfgs = append(o.Cfgs, []int{0, 0, 0, 0, 0, 0, 0, 0, 0, 0})
		o.Seen = append(o.Seen, -1)
	}
	issues := 0
	for _, s := range steps {
		if s.Op[0] == 10 {
			issues++
		}
	}
	o.Issues = issues
	d := map[string]any{"class": fc.Class, "clause": "free-running", "backend": "file", "threads": n, "programs": strings.Join(fc.Progs, "+"), "issues": issues}
	w.Add(emit.Case{Desc: d, In: fc, Obs: o, Wire: c01issWire(6, o), Nontrivial: issues >= 1, Key: fmt.Sprint("free", i, fc.Progs, fc.Names, fc.Delay)})
	w.Hist("class=" + fc.Class)
	w.Hist(fmt.Sprintf("free_running_threads=%d", n))
	return nil
}
